/-
Executable model of package fai (fai/fai.go, fai/file.go) — core Lean only.

  * `newIndex`   — `NewIndex`: the bufio.Scanner line loop (`takeLine`/`scan`) with the offset / width
                   bookkeeping of every branch (`step`), including its four error cases;
  * `Record.position`, `Record.endOfLineOffset`, `Record.Position` (the exported, panicking one);
  * `seqRange`, `seqWhole`, `Seq.read`, `readCalls` — `File.SeqRange`, `File.Seq`, `Seq.Read` over a
                   byte-addressed file (`bytes.Reader.ReadAt` semantics) for any buffer sizes;
  * `writeTo`, `readFrom` — the tab separated text form (`fmt` %d = `showNat`, strconv.ParseInt = `readInt`,
                   encoding/csv restricted to unquoted fields).

The model describes the code as it is now on /repo main, i.e. WITH the repairs fixes/C19-1 (blank lines are counted into the offset),
fixes/C19-2 (Read at the end of the segment returns io.EOF before any position arithmetic) and
fixes/C19-3 (no 64 KiB limit on the length of a line), fixes/C19-4 (a sequence line after a blank line is
rejected), and with C11's repairs d9ad7e9 (`position` returns Start
when BasesPerLine is 0) and 38c3f30 (`ReadFrom` validates every record: `RawRecord.isValid`).

Conventions: bytes are `UInt8`, Go `int`/`int64` values are `Nat` (the code never produces negative ones;
`readFrom`, which can, yields `Int`s).  Where Go would panic or misbehave the model returns an explicit
outcome (`RdErr.panicDiv`, `RdErr.badLayout`, `Except.error .outOfRange`), never a default value.
-/
set_option linter.unusedVariables false
set_option linter.unusedSimpArgs false
namespace Hts.Model.Fai

abbrev Bytes := List UInt8

/-! ### bytes.TrimSpace (ASCII part) and the scanner's split function -/

/-- `asciiSpace` of package bytes: `\t \n \v \f \r` and space. -/
def isSpace (b : UInt8) : Bool :=
  decide (b.toNat = 9 ∨ b.toNat = 10 ∨ b.toNat = 11 ∨ b.toNat = 12 ∨ b.toNat = 13 ∨ b.toNat = 32)

def trimRight (l : Bytes) : Bytes := (l.reverse.dropWhile isSpace).reverse

/-- `bytes.TrimSpace` on ASCII input (bytes ≥ 0x80 are outside the model: the harness never sends them). -/
def trimSpace (l : Bytes) : Bytes := trimRight (l.dropWhile isSpace)

def notLF (b : UInt8) : Bool := decide (b.toNat ≠ 10)

/-- One token of the scanner: up to and including the next `\n`, or the rest of the input. -/
def takeLine (bs : Bytes) : Bytes × Bytes :=
  match bs.dropWhile notLF with
  | [] => (bs.takeWhile notLF, [])
  | nl :: rest => (bs.takeWhile notLF ++ [nl], rest)

theorem takeLine_snd_length_lt (b : UInt8) (bs : Bytes) :
    (takeLine (b :: bs)).2.length < (b :: bs).length := by
  unfold takeLine
  have h2 : ((b :: bs).takeWhile notLF ++ (b :: bs).dropWhile notLF).length = (b :: bs).length := by
    rw [List.takeWhile_append_dropWhile]
  simp only [List.length_append] at h2
  split
  · simp
  · next nl rest heq =>
    rw [heq] at h2
    simp only [List.length_cons] at h2 ⊢
    omega

/-! ### Index records -/

structure Record where
  name : Bytes := []
  length : Nat := 0
  start : Nat := 0
  basesPerLine : Nat := 0
  bytesPerLine : Nat := 0
  deriving DecidableEq, Repr, Inhabited

/-- A Go `map[string]Record` as an association list in insertion order. -/
abbrev Index := List Record

def Index.lookup (idx : Index) (name : Bytes) : Option Record := idx.find? (·.name == name)

def Index.contains (idx : Index) (name : Bytes) : Bool := idx.any (·.name == name)

/-- `idx[rec.Name] = rec` -/
def Index.set : Index → Record → Index
  | [], r => [r]
  | x :: xs, r => if x.name == r.name then r :: xs else x :: Index.set xs r

/-! ### NewIndex -/

inductive IdxErr where
  | missingName   -- "fai: missing sequence name"
  | duplicate     -- "fai: duplicate sequence identifier"
  | shortLine     -- "fai: unexpected short line"
  | longLine      -- "fai: unexpected long line"
  deriving DecidableEq, Repr

structure ScanState where
  idx : Index := []
  pending : Record := {}
  offset : Nat := 0
  wantDescLine : Bool := false
  deriving Repr

def GT : UInt8 := 62

def notSpTab (b : UInt8) : Bool := decide (b.toNat ≠ 32 ∧ b.toNat ≠ 9)

/-- `b[1:lenID]` with `lenID = bytes.IndexAny(b, " \t")`, or `b[1:]` when there is none. -/
def headerName (b : Bytes) : Bytes := (b.takeWhile notSpTab).drop 1

/-- the pending record is stored (and reset) when it has a name -/
def flush (st : ScanState) : Index × Record :=
  if st.pending.name ≠ [] then (st.idx.set st.pending, {}) else (st.idx, st.pending)

/-- The body of the `for sc.Scan()` loop for one token `line` (= `sc.Bytes()`). -/
def step (st : ScanState) (line : Bytes) : Except IdxErr ScanState :=
  let b := trimSpace line
  if b = [] then
    -- blank line: counted into the offset (fixes/C19-1); only a description line may follow (fixes/C19-4)
    .ok { st with offset := st.offset + line.length, wantDescLine := true }
  else if b = [GT] then .error .missingName
  else if b.head? = some GT then
    let (idx, pend) := flush st
    let name := headerName b
    if idx.contains name then .error .duplicate
    else
      .ok { idx := idx
            pending := { pend with name := name, start := st.offset + line.length }
            offset := st.offset + line.length
            wantDescLine := false }
  else
    if st.wantDescLine then .error .shortLine
    else
      let r := st.pending
      -- first switch: bytes per line
      if r.bytesPerLine ≠ 0 ∧ line.length > r.bytesPerLine then .error .longLine
      else
        let bytesPL := if r.bytesPerLine = 0 then line.length else r.bytesPerLine
        let want1 := decide (r.bytesPerLine ≠ 0 ∧ line.length < r.bytesPerLine)
        -- second switch: bases per line (len(b) > 0 here)
        if r.basesPerLine ≠ 0 ∧ b.length > r.basesPerLine then .error .longLine
        else
          let basesPL := if r.basesPerLine = 0 then b.length else r.basesPerLine
          let want2 := decide (r.basesPerLine ≠ 0 ∧ b.length < r.basesPerLine)
          .ok { st with
                pending := { r with bytesPerLine := bytesPL, basesPerLine := basesPL,
                                     length := r.length + b.length }
                offset := st.offset + line.length
                wantDescLine := want1 || want2 }

/-- The scanner loop: one `step` per line of the input. -/
def scan (st : ScanState) (bs : Bytes) : Except IdxErr ScanState :=
  match bs with
  | [] => .ok st
  | b :: bs' =>
    match step st (takeLine (b :: bs')).1 with
    | .error e => .error e
    | .ok st' => scan st' (takeLine (b :: bs')).2
termination_by bs.length
decreasing_by exact takeLine_snd_length_lt b bs'

/-- `fai.NewIndex` -/
def newIndex (fasta : Bytes) : Except IdxErr Index :=
  match scan {} fasta with
  | .error e => .error e
  | .ok st => .ok (flush st).1

/-! ### Record.position, endOfLineOffset, Position -/

/-- `Record.position`: `r.Start` when `BasesPerLine == 0` (only an empty sequence has no bases per line),
else `r.Start + int64(p/r.BasesPerLine*r.BytesPerLine + p%r.BasesPerLine)`. -/
def Record.position (r : Record) (p : Nat) : Nat :=
  if r.basesPerLine = 0 then r.start
  else r.start + (p / r.basesPerLine * r.bytesPerLine + p % r.basesPerLine)

def Record.endOfLineOffset (r : Record) (p : Nat) : Nat :=
  if p / r.basesPerLine = r.length / r.basesPerLine then r.length - p
  else r.basesPerLine - p % r.basesPerLine

inductive Fault where
  | outOfRange   -- panic("fai: index out of range") / errors.New("fai: index out of range")
  | noSequence   -- errors.New("fai: no sequence")
  deriving DecidableEq, Repr

/-- exported `Record.Position` (no division by zero any more: `position` tests `BasesPerLine`) -/
def Record.Position (r : Record) (p : Int) : Except Fault Nat :=
  if p < 0 ∨ (r.length : Int) ≤ p then .error .outOfRange
  else .ok (r.position p.toNat)

/-! ### File.Seq, File.SeqRange, Seq.Read -/

structure Seq where
  rcd : Record
  cur : Nat
  start : Nat
  stop : Nat
  deriving Repr

def seqWhole (idx : Index) (name : Bytes) : Except Fault Seq :=
  match idx.lookup name with
  | none => .error .noSequence
  | some r => .ok { rcd := r, cur := 0, start := 0, stop := r.length }

def seqRange (idx : Index) (name : Bytes) (start stop : Int) : Except Fault Seq :=
  if start < 0 ∨ stop < 0 ∨ stop < start then .error .outOfRange
  else match idx.lookup name with
    | none => .error .noSequence
    | some r =>
      if (r.length : Int) < start ∨ (r.length : Int) < stop then .error .outOfRange
      else .ok { rcd := r, cur := start.toNat, start := start.toNat, stop := stop.toNat }

/-- `Seq.Reset` -/
def Seq.reset (s : Seq) : Seq := { s with cur := s.start }

/-- error value of one `Read` call -/
inductive RdErr where
  | nil
  | eof
  | panicDiv    -- integer divide by zero in `endOfLineOffset` (a non-empty segment of a record without BasesPerLine)
  | badLayout   -- `min(eol, end-cur, len(b)) ≤ 0`: Go would slice with a negative bound (panic) or spin on empty reads
  deriving DecidableEq, Repr

structure RdRes where
  data : Bytes
  err : RdErr
  cur : Nat
  deriving Repr

/-- `bytes.Reader.ReadAt(b[:want], pos)`: the bytes and whether fewer than `want` were available (io.EOF). -/
def readAt (file : Bytes) (pos want : Nat) : Bytes := (file.drop pos).take want

/-- The `for s.cur < s.end` loop of `Seq.Read`, with the two record functions it calls as parameters
(`pos` = `Record.position`, `eol` = `Record.endOfLineOffset`); `k` = remaining `len(b)` (positive),
`acc` = bytes copied so far.  The loop evaluates `pos` and `eol` only at cursors `cur < stop`
(`readLoopG_congr`). -/
def readLoopG (file : Bytes) (pos eol : Nat → Nat) (endPos stop : Nat) (cur k : Nat) (acc : Bytes) : RdRes :=
  if h : cur < stop then
    if endPos ≤ pos cur then ⟨acc, .badLayout, cur⟩
    else
      let want := min (min (eol cur) (endPos - pos cur)) k
      if h0 : want = 0 then ⟨acc, .badLayout, cur⟩
      else
        let got := readAt file (pos cur) want
        if hg : got.length < want then ⟨acc ++ got, .eof, cur + got.length⟩   -- ReadAt returned io.EOF
        else if k - got.length = 0 then ⟨acc ++ got, .nil, cur + got.length⟩
        else readLoopG file pos eol endPos stop (cur + got.length) (k - got.length) (acc ++ got)
  else ⟨acc, .eof, cur⟩
termination_by stop - cur
decreasing_by
  have h1 : want ≤ got.length := Nat.le_of_not_lt hg
  have h2 : 0 < want := Nat.pos_of_ne_zero h0
  have h3 : 0 < got.length := Nat.lt_of_lt_of_le h2 h1
  exact Nat.sub_lt_sub_left h (Nat.lt_add_of_pos_right h3)

/-- the loop of `Seq.Read` for record `r` -/
def readLoop (file : Bytes) (r : Record) (endPos stop : Nat) (cur k : Nat) (acc : Bytes) : RdRes :=
  readLoopG file r.position r.endOfLineOffset endPos stop cur k acc

/-- One call `s.Read(b)` with `len(b) = k`: the bytes stored in `b`, the error, the new cursor. -/
def Seq.read (file : Bytes) (s : Seq) (k : Nat) : RdRes :=
  if k = 0 then ⟨[], .nil, s.cur⟩
  else if s.stop ≤ s.cur then ⟨[], .eof, s.cur⟩            -- fixes/C19-2
  else if s.rcd.basesPerLine = 0 then ⟨[], .panicDiv, s.cur⟩
  else readLoop file s.rcd (s.rcd.position s.stop) s.stop s.cur k []

/-- A sequence of `Read` calls with the given buffer sizes, stopping after the first non-nil error. -/
def readCalls (file : Bytes) (s : Seq) : List Nat → List (Bytes × RdErr)
  | [] => []
  | k :: ks =>
    let r := s.read file k
    match r.err with
    | .nil => (r.data, r.err) :: readCalls file { s with cur := r.cur } ks
    | _ => [(r.data, r.err)]

/-! ### Seq.Read over ANY io.ReaderAt

`readAt`/`readLoopG`/`Seq.read` above fix the behaviour of `bytes.Reader` and `os.File`: a read reports `io.EOF`
only when fewer bytes than asked for are available.  The `io.ReaderAt` contract leaves one freedom for a read of
`n` bytes at `pos` that is complete and ends exactly at the end of the input: it "may return either err == EOF
or err == nil".  `eager pos n = true` means the reader takes the first option there.  (A short read with a nil
error is forbidden by the contract, and the bytes returned are determined by the input, so this function is all
the freedom a reader over a fixed file has.)  `readLoopE`, `Seq.readE`, `readCallsE` are the same code over such a
reader; with `eager = fun _ _ => false` they are `readLoopG`, `Seq.read`, `readCalls`
(`Hts.Lemmas.Fai.readLoopE_false`, `readE_false`, `readCallsE_false`). -/

def readLoopE (eager : Nat → Nat → Bool) (file : Bytes) (pos eol : Nat → Nat) (endPos stop : Nat) (cur k : Nat)
    (acc : Bytes) : RdRes :=
  if h : cur < stop then
    if endPos ≤ pos cur then ⟨acc, .badLayout, cur⟩
    else
      let want := min (min (eol cur) (endPos - pos cur)) k
      if h0 : want = 0 then ⟨acc, .badLayout, cur⟩
      else
        let got := readAt file (pos cur) want
        if hg : got.length < want then ⟨acc ++ got, .eof, cur + got.length⟩   -- short read: io.EOF
        else if eager (pos cur) want = true ∧ pos cur + want = file.length then
          ⟨acc ++ got, .eof, cur + got.length⟩                                -- complete read, io.EOF with it
        else if k - got.length = 0 then ⟨acc ++ got, .nil, cur + got.length⟩
        else readLoopE eager file pos eol endPos stop (cur + got.length) (k - got.length) (acc ++ got)
  else ⟨acc, .eof, cur⟩
termination_by stop - cur
decreasing_by
  have h1 : want ≤ got.length := Nat.le_of_not_lt hg
  have h2 : 0 < want := Nat.pos_of_ne_zero h0
  have h3 : 0 < got.length := Nat.lt_of_lt_of_le h2 h1
  exact Nat.sub_lt_sub_left h (Nat.lt_add_of_pos_right h3)

def Seq.readE (eager : Nat → Nat → Bool) (file : Bytes) (s : Seq) (k : Nat) : RdRes :=
  if k = 0 then ⟨[], .nil, s.cur⟩
  else if s.stop ≤ s.cur then ⟨[], .eof, s.cur⟩
  else if s.rcd.basesPerLine = 0 then ⟨[], .panicDiv, s.cur⟩
  else readLoopE eager file s.rcd.position s.rcd.endOfLineOffset (s.rcd.position s.stop) s.stop s.cur k []

def readCallsE (eager : Nat → Nat → Bool) (file : Bytes) (s : Seq) : List Nat → List (Bytes × RdErr)
  | [] => []
  | k :: ks =>
    let r := s.readE eager file k
    match r.err with
    | .nil => (r.data, r.err) :: readCallsE eager file { s with cur := r.cur } ks
    | _ => [(r.data, r.err)]

/-! ### WriteTo -/

def TAB : UInt8 := 9
def LF : UInt8 := 10
def CR : UInt8 := 13
def DQ : UInt8 := 34

def digit (d : Nat) : UInt8 := UInt8.ofNat (48 + d)

/-- `%d` of a non-negative value -/
def showNat (n : Nat) : Bytes :=
  if h : n < 10 then [digit n] else showNat (n / 10) ++ [digit (n % 10)]
termination_by n
decreasing_by omega

def insertByStart (r : Record) : List Record → List Record
  | [] => [r]
  | x :: xs => if r.start < x.start then r :: x :: xs else x :: insertByStart r xs

/-- `sort.Sort(byStart(recs))` for pairwise distinct `Start`s (the order of equal ones is unspecified in
Go: map iteration order and an unstable sort; the harness only compares indexes with distinct starts). -/
def sortByStart (l : List Record) : List Record := l.foldr insertByStart []

def writeRec (r : Record) : Bytes :=
  r.name ++ [TAB] ++ showNat r.length ++ [TAB] ++ showNat r.start ++ [TAB] ++
    showNat r.basesPerLine ++ [TAB] ++ showNat r.bytesPerLine ++ [LF]

def writeTo (idx : Index) : Bytes := ((sortByStart idx).map writeRec).flatten

/-! ### ReadFrom -/

/-- a record as `ReadFrom` produces it: the numeric fields may be negative -/
structure RawRecord where
  name : Bytes
  length : Int
  start : Int
  basesPerLine : Int
  bytesPerLine : Int
  deriving DecidableEq, Repr

def Record.toRaw (r : Record) : RawRecord :=
  ⟨r.name, r.length, r.start, r.basesPerLine, r.bytesPerLine⟩

inductive RfErr where
  | fieldCount    -- csv.ErrFieldCount
  | bareQuote     -- csv.ErrBareQuote
  | quotedField   -- a field starting with `"`: csv quoted-field syntax, NOT modelled
  | nonUnique     -- ErrNonUnique
  | number        -- strconv error (syntax or range)
  | invalid       -- ErrInvalidRecord
  deriving DecidableEq, Repr

def maxInt64 : Int := 2 ^ 63 - 1

/-- `Record.isValid`: what `ReadFrom` requires of a record (Go's truncating integer division). -/
def RawRecord.isValid (r : RawRecord) : Bool :=
  if r.length < 0 ∨ r.start < 0 ∨ r.basesPerLine < 0 ∨ r.bytesPerLine < r.basesPerLine then false
  else if r.basesPerLine = 0 then decide (r.length = 0)
  else decide (Int.tdiv r.length r.basesPerLine ≤
    Int.tdiv (maxInt64 - r.start - r.basesPerLine) r.bytesPerLine)

def digitVal (b : UInt8) : Option Nat :=
  if 48 ≤ b.toNat ∧ b.toNat ≤ 57 then some (b.toNat - 48) else none

def readDigits : Bytes → Nat → Option Nat
  | [], acc => some acc
  | b :: bs, acc =>
    match digitVal b with
    | none => none
    | some d => readDigits bs (acc * 10 + d)

/-- unsigned decimal: at least one digit, digits only -/
def readNat (s : Bytes) : Option Nat := if s = [] then none else readDigits s 0

/-- `strconv.ParseInt(s, 10, 64)`: optional sign, decimal digits, range of int64 -/
def readInt (s : Bytes) : Option Int :=
  match s with
  | [] => none
  | c :: rest =>
    if c.toNat = 45 then        -- '-'
      match readNat rest with
      | some n => if n ≤ 2 ^ 63 then some (-(n : Int)) else none
      | none => none
    else if c.toNat = 43 then   -- '+'
      match readNat rest with
      | some n => if n < 2 ^ 63 then some (n : Int) else none
      | none => none
    else
      match readNat s with
      | some n => if n < 2 ^ 63 then some (n : Int) else none
      | none => none

/-- split at every `sep` -/
def splitOn (sep : UInt8) : Bytes → List Bytes
  | [] => [[]]
  | b :: bs =>
    if b = sep then [] :: splitOn sep bs
    else match splitOn sep bs with
      | [] => [[b]]
      | f :: fs => (b :: f) :: fs

/-- drop one trailing `\r` -/
def dropCR (l : Bytes) : Bytes :=
  match l.reverse with
  | c :: rest => if c = CR then rest.reverse else l
  | [] => l

/-- The lines `encoding/csv` hands to its field parser: split at `\n`, one trailing `\r` removed
(`\r\n` normalisation, and the `\r` before EOF), empty lines skipped. -/
def csvLines (text : Bytes) : List Bytes :=
  ((splitOn LF text).map dropCR).filter (· ≠ [])

/-- unquoted fields of one line, or the csv error -/
def csvFields (line : Bytes) : Except RfErr (List Bytes) :=
  let fs := splitOn TAB line
  let rec check : List Bytes → Except RfErr Unit
    | [] => .ok ()
    | f :: rest =>
      if f.head? = some DQ then .error .quotedField
      else if f.contains DQ then .error .bareQuote
      else check rest
  match check fs with
  | .error e => .error e
  | .ok () => if fs.length = 5 then .ok fs else .error .fieldCount

def parseRecord (seen : List RawRecord) (fs : List Bytes) : Except RfErr RawRecord :=
  match fs with
  | [name, len, start, bases, bytes] =>
    if seen.any (·.name == name) then .error .nonUnique
    else match readInt len, readInt start, readInt bases, readInt bytes with
      | some l, some s, some b, some y =>
        if (RawRecord.mk name l s b y).isValid then .ok ⟨name, l, s, b, y⟩ else .error .invalid
      | _, _, _, _ => .error .number
  | _ => .error .fieldCount

def readLines (seen : List RawRecord) : List Bytes → Except RfErr (List RawRecord)
  | [] => .ok seen.reverse
  | l :: ls =>
    match csvFields l with
    | .error e => .error e
    | .ok fs =>
      match parseRecord seen fs with
      | .error e => .error e
      | .ok r => readLines (r :: seen) ls

/-- `fai.ReadFrom`: records in file order -/
def readFrom (text : Bytes) : Except RfErr (List RawRecord) := readLines [] (csvLines text)

end Hts.Model.Fai
