/-
The semantic reading of an in-memory `sam.Record` (model `Record`) as a specification-level alignment:
what `CigarOp.Type/Len`, `Seq.Expand`'s nibble order and `Aux.Type/Value` say the record means.
`Spec.layout (view bin r)` is then the byte string an encoder written from the specification produces for
the record (core Lean only: the driver evaluates it).
-/
import Hts.Model.BamRecord
import Hts.Spec.BamLayout
namespace Hts.Model.Bam
open Hts.Spec.Bam (Elem AuxValue Alignment)

/-- little-endian value of a byte string -/
def fromLE : List Byte → Nat
  | [] => 0
  | b :: bs => b.toNat + 256 * fromLE bs

/-- the signed reading of a `w`-byte unsigned value -/
def sgn (w : Nat) (u : Nat) : Int := if u < 256 ^ w / 2 then (u : Int) else (u : Int) - ((256 ^ w : Nat) : Int)

def elemVal (t : Elem) (bs : List Byte) : Int := if t.signed then sgn t.width (fromLE bs) else (fromLE bs : Int)

def elemOfLetter (t : Byte) : Option Elem :=
  if t == 99#8 then some .c else if t == 67#8 then some .C
  else if t == 115#8 then some .s else if t == 83#8 then some .S
  else if t == 105#8 then some .i else if t == 73#8 then some .I
  else if t == 102#8 then some .f else none

/-- `n` elements of `w` bytes each, nothing left over -/
def readElems (t : Elem) : Nat → List Byte → Option (List Int)
  | 0, [] => some []
  | 0, _ :: _ => none
  | n + 1, bs =>
    if bs.length < t.width then none
    else (readElems t n (bs.drop t.width)).map (fun vs => elemVal t (bs.take t.width) :: vs)

/-- `Aux.Tag`, `Aux.Type`, `Aux.Value` -/
def auxView (a : List Byte) : Option ((Byte × Byte) × AuxValue) :=
  match a with
  | t0 :: t1 :: t :: v =>
    if t == 65#8 then
      match v with
      | [c] => some ((t0, t1), .char c)
      | _ => none
    else if t == 90#8 then some ((t0, t1), .str v)
    else if t == 72#8 then some ((t0, t1), .hex (hexEnc v))   -- the in-memory payload is the DECODED byte array
    else if t == 66#8 then
      match v with
      | sub :: n0 :: n1 :: n2 :: n3 :: elems =>
        match elemOfLetter sub with
        | none => none
        | some e => (readElems e (getU32 n0 n1 n2 n3) elems).map (fun vs => ((t0, t1), .arr e vs))
      | _ => none
    else
      match elemOfLetter t with
      | none => none
      | some e => if v.length == e.width then some ((t0, t1), .num e (elemVal e v)) else none
  | _ => none

def auxViews : List (List Byte) → Option (List ((Byte × Byte) × AuxValue))
  | [] => some []
  | a :: as =>
    match auxView a, auxViews as with
    | some x, some xs => some (x :: xs)
    | _, _ => none

/-- the alignment a record stands for; `bin` is supplied (C16 is about its value) -/
def view (bin : Nat) (r : Record) : Option Alignment :=
  match codes r.seqLen r.seq, auxViews r.aux with
  | some cs, some aux =>
    some { refID := refID r.ref, pos := r.pos, mapq := r.mapq.toNat, bin := bin, flag := r.flags.toNat,
           nextRefID := refID r.mateRef, nextPos := r.matePos, tlen := r.tempLen, readName := r.name,
           cigar := r.cigar.map (fun c => (cigarLen c, cigarType c)), seq := cs, qual := r.qual, aux := aux }
  | _, _ => none

end Hts.Model.Bam
