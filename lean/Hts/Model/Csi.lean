/-
Model of `csi.Index` (csi/csi.go): Add, sort, Chunks, MergeChunks.  Core Lean only.
`reg2bin`/`reg2bins` are parameters (`binOf`, `binsOf`); the driver passes `Hts.Model.Coord.reg2bin`
and `Hts.Model.Coord.reg2bins` (C16).
-/
import Hts.Model.Index
namespace Hts.Model.Csi
open Hts.Model.Index

structure CBin where
  bin : Nat
  left : Int
  records : Nat
  chunks : List Chunk
deriving DecidableEq, Repr, Inhabited

structure CRef where
  bins : List CBin := []
  stats : Option Stats := none
deriving DecidableEq, Repr, Inhabited

structure CIndex where
  aux : List UInt8 := []
  version : Nat := 2
  refs : List CRef := []
  unmapped : Option Nat := none
  minShift : Nat := 14
  depth : Nat := 5
  isSorted : Bool := false
  lastRecord : Int := 0
deriving DecidableEq, Repr, Inhabited

/-- the upper bound of `validIndexPos`: `(1<<(minShift+depth*3) - 1) - 1` computed on Go's 64-bit `int`:
`2^(minShift+3·depth) - 2` up to a shift of 63 (at 63 the two wrap-arounds cancel), and `-2` from a shift
of 64 on (`1 << 64 = 0`), where NO position is valid and every `Add` is rejected -/
def posBound (minShift depth : Nat) : Int :=
  if minShift + 3 * depth < 64 then (2 : Int) ^ (minShift + 3 * depth) - 2 else -2

/-- `validIndexPos` -/
def validPos (minShift depth : Nat) (p : Int) : Bool :=
  decide (-1 ≤ p) && decide (p ≤ posBound minShift depth)

theorem posBound_of_le {ms d : Nat} (h : ms + 3 * d ≤ 63) : posBound ms d = (2 : Int) ^ (ms + 3 * d) - 2 := by
  unfold posBound
  have : ms + 3 * d < 64 := by omega
  simp [this]

/-- what `csi.Index.Add(r, c, mapped, placed)` is called with -/
structure CRec where
  rid : Int
  start : Int
  stop : Int
  chunk : Chunk
  placed : Bool
  mapped : Bool
deriving DecidableEq, Repr, Inhabited

/-- bin bookkeeping; the record counter goes up in both branches of an existing bin -/
def addBin : List CBin → Nat → Chunk → List CBin × Bool
  | [], bin, c => ([⟨bin, c.b, 1, [c]⟩], false)
  | b :: bs, bin, c =>
    if b.bin = bin then ({ b with chunks := extendChunks b.chunks c, records := b.records + 1 } :: bs, true)
    else let r := addBin bs bin c; (b :: r.1, r.2)

def addRef (ref : CRef) (last : Int) (bin : Nat) (r : CRec) : CRef × Int × Bool × AddRes :=
  let nb := addBin ref.bins bin r.chunk
  if r.start < last then ({ ref with bins := nb.1 }, last, nb.2, .errPosOrder)
  else ({ bins := nb.1, stats := some (addStats ref.stats r.chunk r.mapped) }, r.start, nb.2, .ok)

/-- a reference index without records -/
def emptyRef : CRef := {}

/-- `csi.Index.Add` -/
def add (binOf : Int → Int → Nat → Nat → Nat) (i : CIndex) (r : CRec) : CIndex × AddRes :=
  if !(validPos i.minShift i.depth r.start && validPos i.minShift i.depth r.stop) then (i, .errRange) else
  let um := umCount i.unmapped
  if !r.placed then ({ i with unmapped := some (um + 1) }, .ok) else
  let i := { i with unmapped := some um }
  if r.rid < 0 then (i, .errNoRef) else
  if r.rid < (i.refs.length : Int) - 1 then (i, .errRefOrder) else
  let rid := r.rid.toNat
  let grown := decide (rid ≥ i.refs.length)
  let refs := if grown then i.refs ++ List.replicate (rid + 1 - i.refs.length) emptyRef else i.refs
  let last := if grown then 0 else i.lastRecord
  match refs[rid]? with
  | none => (i, .panicIndex)
  | some ref =>
    let x := addRef ref last (binOf r.start r.stop i.minShift i.depth) r
    ({ i with refs := refs.set rid x.1, lastRecord := x.2.1, isSorted := i.isSorted && x.2.2.1 }, x.2.2.2)

def addAll (binOf : Int → Int → Nat → Nat → Nat) (i : CIndex) : List CRec → CIndex × List AddRes
  | [] => (i, [])
  | r :: rs =>
    let x := add binOf i r
    let y := addAll binOf x.1 rs
    (y.1, x.2 :: y.2)

def leCBin (a b : CBin) : Bool := decide (a.bin ≤ b.bin)

def sortRef (r : CRef) : CRef :=
  { bins := (r.bins.mergeSort leCBin).map (fun b => { b with chunks := sortChunks b.chunks }), stats := r.stats }

def sort (i : CIndex) : CIndex :=
  if i.isSorted then i else { i with refs := i.refs.map sortRef, isSorted := true }

def findBin (bins : List CBin) (b : Nat) : Option CBin :=
  match bins.find? (fun x => decide (x.bin ≥ b)) with
  | some x => if x.bin = b then some x else none
  | none => none

def candidates (ref : CRef) (bins : List Nat) : List Chunk :=
  bins.flatMap (fun b =>
    match findBin ref.bins b with
    | some bn => bn.chunks.filter (fun c => decide (c.e > bn.left))
    | none => [])

/-- `csi.Index.Chunks`: nil for an unknown reference, otherwise the candidates sorted by begin and
passed through `adjacent` (a parameter) -/
def chunks (binsOf : Int → Int → Nat → Nat → List Nat) (adjacent : List Chunk → List Chunk)
    (i : CIndex) (rid beg stop : Int) : List Chunk :=
  if rid < 0 ∨ rid ≥ (i.refs.length : Int) then [] else
  match (sort i).refs[rid.toNat]? with
  | none => []
  | some ref => adjacent (sortChunks (candidates ref (binsOf beg stop i.minShift i.depth)))

def mergeChunks (s : List Chunk → List Chunk) (i : CIndex) : CIndex :=
  { i with refs := i.refs.map (fun r =>
      { r with bins := r.bins.map (fun b => { b with chunks := s (sortChunks b.chunks) }) }) }

end Hts.Model.Csi
