/-
Executable model of `bgzf/index.ChunkReader` (bgzf/index/index.go:35–123) over the reader model.
Core Lean only.
-/
import Hts.Model.BgzfReader
namespace Hts.Model.Bgzf
open Hts.Spec.Flat (Offset Chunk vOffset)

structure ChunkReader where
  r : Reader
  chunks : List Chunk

namespace ChunkReader

/-- `NewChunkReader`: the reader is put into Blocked mode and positioned at the first chunk. -/
def new (r : Reader) (chunks : List Chunk) : Except Err ChunkReader :=
  let r := r.setBlocked true
  match chunks with
  | [] => .ok ⟨r, []⟩
  | c :: _ =>
    match r.seek c.bgn with
    | (_, some e) => .error e
    | (r', none) => .ok ⟨r', chunks⟩

/-- The chunk-skipping loop at the head of `Read` (as repaired by fixes/C13-1-chunkreader-empty-chunk):
```
last := r.r.LastChunk()
for vOffset(last.End) >= vOffset(r.chunks[0].End) {
    r.chunks = r.chunks[1:]
    if len(r.chunks) == 0 { return 0, io.EOF }
    err := r.r.Seek(r.chunks[0].Begin)
    if err != nil { return 0, err }
    last = r.r.LastChunk()
}
```
Result: reader, remaining chunks, and the error if `Read` returns from inside the loop. -/
def advance (r : Reader) : List Chunk → Reader × List Chunk × Option Err
  | [] => (r, [], some .eof)
  | c :: rest =>
    if vOffset c.fin ≤ vOffset r.lastChunk.fin then
      match rest with
      | [] => (r, [], some .eof)
      | c' :: _ =>
        match r.seek c'.bgn with
        | (r', some e) => (r', rest, some e)
        | (r', none) => advance r' rest
    else (r, c :: rest, none)

/-- `ChunkReader.Read(p)` with `len(p) = n`.
```
if len(r.chunks) == 0 { return 0, io.EOF }
… the loop above …
want := int(r.chunks[0].End.Block)
if r.chunks[0].End.Block == 0 && r.chunks[0].End.File > last.End.File { want = r.r.BlockLen() }
var cursor int
if last.End.File == r.chunks[0].End.File { cursor = int(last.End.Block) }
n, err := r.r.Read(p[:min(len(p), want-cursor)])          // slicing panics when want-cursor < 0
if err != nil { if n != 0 && err == io.EOF { err = nil }; return n, err }
this := r.r.LastChunk()
if (len(p) != 0 && this == last) || vOffset(this.End) >= vOffset(r.chunks[0].End) {
    r.chunks = r.chunks[1:]
    if len(r.chunks) == 0 { return n, io.EOF }
    err = r.r.Seek(r.chunks[0].Begin)
}
return n, err
``` -/
def nextChunk (r' : Reader) (rest : List Chunk) (out : List UInt8) :
    ChunkReader × List UInt8 × Option Err :=
  match rest with
  | [] => (⟨r', []⟩, out, some .eof)
  | c' :: _ => (⟨(r'.seek c'.bgn).1, rest⟩, out, (r'.seek c'.bgn).2)

def readCore (r0 : Reader) (c : Chunk) (rest : List Chunk) (n : Nat) :
    ChunkReader × List UInt8 × Option Err :=
    let last := r0.lastChunk
    let want := if c.fin.block = 0 ∧ last.fin.file < c.fin.file then r0.blockLen else c.fin.block
    let cursor := if last.fin.file = c.fin.file then last.fin.block else 0
    if want < cursor then (⟨r0, c :: rest⟩, [], some .panic)
    else
      match r0.read (min n (want - cursor)) with
      | (r', out, some e) =>
        (⟨r', c :: rest⟩, out, if out.length ≠ 0 ∧ e = .eof then none else some e)
      | (r', out, none) =>
        let this := r'.lastChunk
        if (n ≠ 0 ∧ this = last) ∨ vOffset c.fin ≤ vOffset this.fin then nextChunk r' rest out
        else (⟨r', c :: rest⟩, out, none)

def read (cr : ChunkReader) (n : Nat) : ChunkReader × List UInt8 × Option Err :=
  match advance cr.r cr.chunks with
  | (r0, chunks, some e) => (⟨r0, chunks⟩, [], some e)
  | (r0, [], none) => (⟨r0, []⟩, [], some .eof)
  | (r0, c :: rest, none) => readCore r0 c rest n

/-- The client loop `for { n, err := cr.Read(p); use(p[:n]); if err != nil { break } }` with the given
buffer sizes: all bytes seen, and the error that ended the loop (none if the sizes ran out first). -/
def readAll (cr : ChunkReader) : List Nat → List UInt8 × Option Err
  | [] => ([], none)
  | n :: ns =>
    match cr.read n with
    | (cr', out, none) => let (rest, e) := readAll cr' ns; (out ++ rest, e)
    | (_, out, some e) => (out, some e)

/-- A client that calls `Read` with the given buffer sizes; per call the bytes and the error. -/
def run (cr : ChunkReader) : List Nat → List (List UInt8 × Option Err)
  | [] => []
  | n :: ns => let (cr', out, e) := cr.read n; (out, e) :: run cr' ns

end ChunkReader
end Hts.Model.Bgzf
