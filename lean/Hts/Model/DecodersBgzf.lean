/-
C11 — the two indexing sites of the BGZF member framing (bgzf/reader.go), panic-aware, on top of C10's
byte-level model `Hts.Model.BgzfBytes` (same `findSub`, same size arithmetic): `expectedMemberSize`'s
`h.Extra[i+4]`, `h.Extra[i+5]` and `buffer.readLimited`'s `r.data[:n]` on the `[MaxBlockSize]byte` array.
Core Lean only.
-/
import Hts.Model.Decoders
import Hts.Model.BgzfBytes
namespace Hts.Model.Decoders
open Outcome (ok err)
open Hts.Model.BgzfBytes (findSub bgzfExtraPrefix MaxBlockSize)

/-- `expectedMemberSize(h)` on a non-nil Extra field, with explicit indexing; `none` is Go's −1:
`i := bytes.Index(h.Extra, bgzfExtraPrefix); if i < 0 || i+5 >= len(h.Extra) { return -1 };
 return (int(h.Extra[i+4]) | int(h.Extra[i+5])<<8) + 1` -/
def expectedMemberSizeIdx (extra : Bytes) : Outcome (Option Nat) :=
  match findSub bgzfExtraPrefix extra with
  | none => ok none
  | some i =>
    if extra.length ≤ i + 5 then ok none
    else
      match index "bgzf.expectedMemberSize:h.Extra[i+4]" extra (i + 4),
            index "bgzf.expectedMemberSize:h.Extra[i+5]" extra (i + 5) with
      | ok lo, ok hi => ok (some (lo.toNat + 256 * hi.toNat + 1))
      | .panic s, _ => .panic s
      | _, .panic s => .panic s
      | _, _ => err

/-- `readMember` after the gzip header (`skipped` bytes of it were consumed): `need := blockSize - skipped`,
`need <= 0` is ErrCorrupt, then `buffer.readLimited(need, …)`: `io.ReadFull(src, r.data[:n])` on the
`[MaxBlockSize]byte` array.  The value is `need`. -/
def readLimitedIdx (blockSize skipped : Nat) : Outcome Nat :=
  if blockSize ≤ skipped then err
  else
    match sliceTo "bgzf.buffer.readLimited:r.data[:n]" (List.replicate MaxBlockSize (0 : UInt8)) (blockSize - skipped) with
    | ok _ => ok (blockSize - skipped)
    | err => err
    | .panic s => .panic s

end Hts.Model.Decoders
