/-
The abstraction from CONCRETE write scripts (payloads; Hts.Model.BgzfWriter) to the abstract scripts of the
writer LTS (Hts.Model.WriterLTS: `write k`, `flush nonempty`, `wait`, `close`).  Core Lean only, so that the
driver can run it (`c08.abs`): the harnesses' Go re-implementation of this map (`wSim` in c12.go) and the
implementation's own `Writer.Next()` are compared with it on every run.

A `Write` becomes `write k` with `k` = the number of blocks that call queues in the sequential writer state it
runs in, a `Flush` becomes `flush b` with `b` = "the active block is non-empty" in that state.

The definitions are, on purpose, literally those of `Hts.Model.WriterCompose` (Lemmas/WriterCompose.lean,
branch ext-A10), where `absScript_blocks_init : seqBlocks (absScript ops) false = (after ops).emitted.length`,
`absScript_hasClose` and the byte-level composition `compose_output` are proved; with both files present
`WriterCompose.absScript = WriterAbs.absScript` holds by `rfl`.
-/
import Hts.Model.BgzfWriter
import Hts.Model.WriterLTS
namespace Hts.Model.WriterAbs
open Hts.Model
open Hts.Model.BgzfWriter (BlockSize blockSize_pos)

variable {α : Type}

/-- one concrete call, abstracted in the sequential state `s` in which it is made -/
def absOp (s : BgzfWriter.State α) : BgzfWriter.Op α → WriterLTS.Op
  | .write b => .write ((BgzfWriter.write BlockSize blockSize_pos s b).1.emitted.length - s.emitted.length)
  | .flush => .flush (decide (s.active.length ≠ 0))
  | .wait => .wait
  | .close => .close

/-- a concrete script, abstracted along the run of the sequential writer from state `s` -/
def absScriptFrom (s : BgzfWriter.State α) : List (BgzfWriter.Op α) → List WriterLTS.Op
  | [] => []
  | op :: ops => absOp s op :: absScriptFrom (BgzfWriter.step BlockSize blockSize_pos s op).1 ops

def absScript (ops : List (BgzfWriter.Op α)) : List WriterLTS.Op := absScriptFrom BgzfWriter.State.init ops

end Hts.Model.WriterAbs
