/-
The abstraction from a CONCRETE write script of the sequential writer model (Hts.Model.BgzfWriter: payloads) to
the abstract script of the writer LTS (Hts.Model.WriterLTS).  Core Lean only (the driver uses it to check the
harness's own re-implementation of Write's block splitting, `wSim` in go/cmd/harness/c12.go).

A `Write` becomes `write k` with `k` = the number of blocks that call queues in the sequential writer state it
runs in (the growth of `emitted`), a `Flush` becomes `flush b` with `b` = "the active block is non-empty" in that
state.  That these are the right numbers is `Hts.Model.WriterCompose.absScript_blocks`.
-/
import Hts.Model.BgzfWriter
import Hts.Model.WriterLTS
namespace Hts.Model.WriterCompose
open Hts.Model
open Hts.Model.BgzfWriter (BlockSize blockSize_pos)

variable {α : Type}

/-- one concrete call, abstracted in the sequential state `s` in which it is made -/
def absOp (s : BgzfWriter.State α) : BgzfWriter.Op α → WriterLTS.Op
  | .write b => .write ((BgzfWriter.write BlockSize blockSize_pos s b).1.emitted.length - s.emitted.length)
  | .flush => .flush (decide (s.active.length ≠ 0))
  | .wait => .wait
  | .close => .close

/-- a concrete script, abstracted along the run of the sequential writer from state `s` -/
def absScriptFrom (s : BgzfWriter.State α) : List (BgzfWriter.Op α) → List WriterLTS.Op
  | [] => []
  | op :: ops => absOp s op :: absScriptFrom (BgzfWriter.step BlockSize blockSize_pos s op).1 ops

def absScript (ops : List (BgzfWriter.Op α)) : List WriterLTS.Op := absScriptFrom BgzfWriter.State.init ops

end Hts.Model.WriterCompose
