namespace Hts.Model.ReaderFaults
end Hts.Model.ReaderFaults
