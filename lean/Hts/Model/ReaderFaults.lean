/-
Sequential BGZF reader over a source that starts failing (core Lean only).

A file is a list of members; a member is its compressed size and its payload.  The source delivers the bytes
before the cut offset `p` and then fails for ever: with an error (`FaultKind.err`) or by reporting end of input
(`FaultKind.eof`, a truncated source).  `bgzf.Reader` needs every byte of a member before it hands out any of
its payload (`readMember` buffers the whole member, `readFrom` inflates from the buffer and verifies CRC32 and
ISIZE), so reading on until the reader reports something gives:

* every member that lies wholly before the cut, in order, then
* `End.eof` if the input ended exactly where a member would start (a real end of file, or a truncation at a
  member boundary, which no reader can tell from a shorter file), otherwise `End.err`.

(`End.err` for a truncation strictly inside a member is the behaviour after the repairs of DESIGN §6 #31/#32,
which belong to C10; on the unchanged tree a cut 18 bytes into a member reads as a clean end.)
Read-ahead (`rd > 1`) does not change the outcome, only when the source is consulted.
-/
namespace Hts.Model.ReaderFaults

structure Member where
  csize : Nat
  payload : List Nat
deriving Repr

inductive FaultKind | err | eof
deriving DecidableEq, Repr

inductive End | eof | err
deriving DecidableEq, Repr

def flat (ms : List Member) : List Nat := (ms.map (·.payload)).flatten

/-- what the source can deliver of a member starting at `off`: everything, or it fails inside / at its start -/
def available (cut : Option Nat) (off size : Nat) : Bool :=
  match cut with
  | none => true
  | some p => off + size ≤ p

/-- read on from file offset `off` until the reader reports an end or an error -/
def readAll (cut : Option Nat) (kind : FaultKind) : Nat → List Member → List Nat × End
  | off, [] =>
    -- the true end of the file: a source whose error-kind fault sits exactly there reports the error instead
    match cut, kind with
    | some p, .err => if p ≤ off then ([], .err) else ([], .eof)
    | _, _ => ([], .eof)
  | off, m :: ms =>
    if available cut off m.csize then
      let r := readAll cut kind (off + m.csize) ms
      (m.payload ++ r.1, r.2)
    else
      match cut, kind with
      | some p, .eof => if p = off then ([], .eof) else ([], .err)
      | _, _ => ([], .err)

/-- the same on sizes only (used by the driver) -/
def readAllLen (cut : Option Nat) (kind : FaultKind) : Nat → List (Nat × Nat) → Nat × End
  | off, [] =>
    match cut, kind with
    | some p, .err => if p ≤ off then (0, .err) else (0, .eof)
    | _, _ => (0, .eof)
  | off, (c, n) :: ms =>
    if available cut off c then
      let r := readAllLen cut kind (off + c) ms
      (n + r.1, r.2)
    else
      match cut, kind with
      | some p, .eof => if p = off then (0, .eof) else (0, .err)
      | _, _ => (0, .err)

/-- member boundaries: offsets at which a member starts, and the end of the file -/
def boundaries : Nat → List Member → List Nat
  | off, [] => [off]
  | off, m :: ms => off :: boundaries (off + m.csize) ms

/-- offset of the end of the file -/
def fileEnd : Nat → List Member → Nat
  | off, [] => off
  | off, m :: ms => fileEnd (off + m.csize) ms

end Hts.Model.ReaderFaults
