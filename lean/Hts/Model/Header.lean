/-
Model of sam/header.go, sam/parse_header.go, sam/reference.go, sam/read_group.go, sam/program.go
(the code after the repairs C07-1 … C07-12 and C11's repairs of the line parsers: a field shorter than three bytes
and an M5 value that is not 32 digits long are errors).  Core Lean only.

Go pointers are handles into a heap.  There is one heap of objects per kind (references, read groups,
programs); an object carries the `owner` (header handle) and `id` fields of the Go struct, its name and
the kind-specific data.  A header owns, per kind, a `Tab`: the ordered list of object handles (`refs`,
`rgs`, `progs`) and the name → id table (`seenRefs`, `seenGroups`, `seenProgs`) as an association list.
Everything else of a header (version, sort/group order, extra @HD tags, comments) is `HdrF`.

Where Go returns an error the model answers `Res.err`; where Go would panic (index out of range, nil
map/pointer) it answers `Res.panic`; a mutation performed before the error/panic is kept, as in Go.

External components are parameters (`Ext`): `parseDate` is `parseISO8601` followed by
`Format("2006-01-02T15:04:05-0700")`, `parseUri` is `url.Parse`, the scheme rewriting of the @SQ parser
and `URL.String()`.  Dates and URIs are held as their canonical texts.  `goExt` is the concrete
instance the driver runs (sampled by the correspondence check on the generated date and URI forms).
-/
namespace Hts.Model.Header

abbrev Bytes := List Nat
abbrev Tag := Nat × Nat
abbrev Tags := List (Tag × Bytes)

inductive Res where
  | ok | err | panic | skip
deriving DecidableEq, Repr, Inhabited

structure Ext where
  parseDate : Bytes → Option Bytes
  parseUri : Bytes → Option Bytes

/-! ### bytes, decimal, hex -/

def str (s : String) : Bytes := s.toList.map Char.toNat

def tagBytes (t : Tag) : Bytes := [t.1, t.2]

/-- `bytes.Split(l, sep)` for a one-byte separator: never returns the empty list -/
def splitOn (sep : Nat) : Bytes → List Bytes
  | [] => [[]]
  | c :: cs =>
    if c = sep then [] :: splitOn sep cs
    else match splitOn sep cs with
      | [] => [[c]]
      | f :: fs => (c :: f) :: fs

/-- `bytes.SplitN(l, sep, 2)` -/
def splitOnce (sep : Nat) : Bytes → List Bytes
  | [] => [[]]
  | c :: cs =>
    if c = sep then [[], cs]
    else match splitOnce sep cs with
      | [] => [[c]]
      | f :: fs => (c :: f) :: fs

/-- decimal digits, most significant first (`fuel` ≥ n is always enough; structural, so that it evaluates) -/
def decDigitsF : Nat → Nat → Bytes
  | 0, n => [48 + n % 10]
  | f + 1, n => if n < 10 then [48 + n] else decDigitsF f (n / 10) ++ [48 + n % 10]

def decDigits (n : Nat) : Bytes := decDigitsF n n

/-- `%d` -/
def dec (i : Int) : Bytes :=
  if i < 0 then 45 :: decDigits i.natAbs else decDigits i.natAbs

def isDigit (c : Nat) : Bool := 48 ≤ c && c ≤ 57

def parseDigits (s : Bytes) : Nat := s.foldl (fun acc c => acc * 10 + (c - 48)) 0

def atoiDigits (ds : Bytes) : Option Nat :=
  if ds.isEmpty || !ds.all isDigit then none else some (parseDigits ds)

/-- `strconv.Atoi` without the 64-bit range check (an out-of-range value fails every later range check
of the callers, with the same error class) -/
def atoi : Bytes → Option Int
  | 45 :: r => (atoiDigits r).map fun n => -(n : Int)
  | 43 :: r => (atoiDigits r).map fun n => (n : Int)
  | r => (atoiDigits r).map fun n => (n : Int)

def hexDigit (n : Nat) : Nat := if n < 10 then 48 + n else 87 + n

/-- `%x` of a byte slice -/
def hexEnc (bs : Bytes) : Bytes := bs.flatMap fun b => [hexDigit (b / 16 % 16), hexDigit (b % 16)]

def hexVal (c : Nat) : Option Nat :=
  if 48 ≤ c ∧ c ≤ 57 then some (c - 48)
  else if 97 ≤ c ∧ c ≤ 102 then some (c - 87)
  else if 65 ≤ c ∧ c ≤ 70 then some (c - 55)
  else none

inductive HexOut where
  | ok (bs : Bytes)      -- decoded, `n` = length
  | bad                  -- invalid byte / odd length: error
  | overflow             -- more than 16 bytes: hex.Decode writes past the 16-byte array (panic)

/-- `hex.Decode(hb[:16], src)`: decodes pair by pair; the 17th pair indexes out of range -/
def hexDecode16 : Bytes → Nat → Bytes → HexOut
  | [], _, acc => .ok acc.reverse
  | [_], _, _ => .bad   -- (a valid lone last digit gives ErrLength, an invalid one InvalidByteError)
  | a :: b :: rest, n, acc =>
    match hexVal a, hexVal b with
    | some x, some y => if n ≥ 16 then .overflow else hexDecode16 rest (n + 1) ((x * 16 + y) :: acc)
    | _, _ => .bad

/-! ### name tables (Go maps as association lists) -/

abbrev Seen := List (Bytes × Int)

def lookup : Seen → Bytes → Option Int
  | [], _ => none
  | (k, v) :: m, n => if k = n then some v else lookup m n

def erase : Seen → Bytes → Seen
  | [], _ => []
  | (k, v) :: m, n => if k = n then erase m n else (k, v) :: erase m n

def insert (m : Seen) (n : Bytes) (v : Int) : Seen := (n, v) :: erase m n

/-- `l[i]` for a Go `int32` index -/
def idx {β : Type} (l : List β) (i : Int) : Option β := if i < 0 then none else l[i.toNat]?

/-! ### objects, tables, kinds -/

structure Obj (α : Type) where
  owner : Option Nat
  id : Int
  name : Bytes
  dat : α
deriving Repr, DecidableEq

structure Tab where
  items : List Nat
  seen : Seen
deriving Repr, DecidableEq, Inhabited

/-- all objects of one kind and, per header handle, that header's table of this kind -/
structure KW (α : Type) where
  heap : List (Obj α)
  tabs : List Tab
deriving Repr

structure RefD where
  len : Int
  md5 : Bytes := []
  asm : Bytes := []
  sp : Bytes := []
  uri : Option (Nat × Bytes) := none   -- (identity of the *url.URL, its String())
  other : Tags := []
deriving Repr, DecidableEq, Inhabited

structure RgD where
  cn : Bytes := []
  ds : Bytes := []
  dt : Bytes := []    -- canonical text of the time, [] = zero time
  fo : Bytes := []
  ks : Bytes := []
  lb : Bytes := []
  pg : Bytes := []
  pi : Int := 0
  pl : Bytes := []
  pu : Bytes := []
  sm : Bytes := []
  other : Tags := []
deriving Repr, DecidableEq, Inhabited

structure PgD where
  pn : Bytes := []
  cl : Bytes := []
  pp : Bytes := []
  vn : Bytes := []
  other : Tags := []
deriving Repr, DecidableEq, Inhabited

structure HdrF where
  version : Bytes := []
  so : Int := 0
  go : Int := 0
  other : Tags := []
  comments : List Bytes := []
  dead : Bool := false     -- the constructor failed: Go returned a nil *Header
deriving Repr, DecidableEq, Inhabited

structure World where
  refs : KW RefD := ⟨[], []⟩
  rgs : KW RgD := ⟨[], []⟩
  pgs : KW PgD := ⟨[], []⟩
  hdrs : List HdrF := []
  rpool : List (Option Nat) := []
  gpool : List (Option Nat) := []
  ppool : List (Option Nat) := []
  nextUri : Nat := 0
deriving Repr

/-! ### generic operations on one kind -/
namespace KW
variable {α : Type}

def alloc (k : KW α) (x : Obj α) : KW α × Nat := ({ k with heap := k.heap ++ [x] }, k.heap.length)

def newTab (k : KW α) : KW α := { k with tabs := k.tabs ++ [⟨[], []⟩] }

def setDat (k : KW α) (o : Nat) (f : α → α) : KW α :=
  match k.heap[o]? with
  | some x => { k with heap := k.heap.set o { x with dat := f x.dat } }
  | none => k

/-- the tail of `Add*`: `r.owner = bh; r.id = len(items); seen[r.name] = r.id; items = append(items, r)` -/
def addNewU (k : KW α) (h o : Nat) : KW α :=
  match k.heap[o]?, k.tabs[h]? with
  | some x, some t =>
    let id : Int := t.items.length
    { heap := k.heap.set o { x with owner := some h, id := id },
      tabs := k.tabs.set h { items := t.items ++ [o], seen := insert t.seen x.name id } }
  | _, _ => k

/-- `if r.owner != nil || r.id >= 0 { return errUsed }` then `addNewU` -/
def addNew (k : KW α) (h o : Nat) : KW α × Res :=
  match k.heap[o]? with
  | some x => if x.owner.isSome || x.id ≥ 0 then (k, .err) else (k.addNewU h o, .ok)
  | none => (k, .skip)

/-- `AddReadGroup` / `AddProgram`: a known name is an error -/
def addUniq (k : KW α) (h o : Nat) : KW α × Res :=
  match k.heap[o]?, k.tabs[h]? with
  | some x, some t => if (lookup t.seen x.name).isSome then (k, .err) else k.addNew h o
  | _, _ => (k, .skip)

/-- the renumbering loop of `Remove*`: `for _, s := range items[id:] { s.id--; seen[s.name] = s.id }` -/
def shift : List (Obj α) → Seen → List Nat → List (Obj α) × Seen
  | heap, seen, [] => (heap, seen)
  | heap, seen, o :: os =>
    match heap[o]? with
    | some x => shift (heap.set o { x with id := x.id - 1 }) (insert seen x.name (x.id - 1)) os
    | none => shift heap seen os

/-- `Remove*` (repaired: table renumbered, owner released) -/
def remove (k : KW α) (h o : Nat) : KW α × Res :=
  match k.heap[o]?, k.tabs[h]? with
  | some x, some t =>
    if x.id < 0 || x.id ≥ t.items.length || t.items[x.id.toNat]? != some o then (k, .err)
    else
      let i := x.id.toNat
      let (heap1, seen1) := shift k.heap (erase t.seen x.name) (t.items.drop (i + 1))
      let heap2 := match heap1[o]? with
        | some x1 => heap1.set o { x1 with id := -1, owner := none }
        | none => heap1
      ({ heap := heap2, tabs := k.tabs.set h { items := t.items.eraseIdx i, seen := seen1 } }, .ok)
  | _, _ => (k, .skip)

/-- `SetName` / `SetUID` -/
def setName (k : KW α) (o : Nat) (n : Bytes) : KW α × Res :=
  match k.heap[o]? with
  | none => (k, .skip)
  | some x =>
    match x.owner with
    | none => ({ k with heap := k.heap.set o { x with name := n } }, .ok)
    | some h =>
      match k.tabs[h]? with
      | none => (k, .panic)
      | some t =>
        match lookup t.seen n with
        | some id => if id ≠ x.id then (k, .err) else (k, .ok)
        | none =>
          ({ heap := k.heap.set o { x with name := n },
             tabs := k.tabs.set h { t with seen := insert (erase t.seen x.name) n x.id } }, .ok)

/-- `r.Clone()`: a free copy -/
def cloneObj (k : KW α) (o : Nat) (f : α → α) : KW α × Option Nat :=
  match k.heap[o]? with
  | some x => let (k', o') := k.alloc { x with owner := none, id := -1, dat := f x.dat }; (k', some o')
  | none => (k, none)

/-- the per-kind part of `Header.Clone`: copies of all listed objects, owned by the new header `hn`
(which must be the next table index), same ids; the name table is copied -/
def cloneItems (hn : Nat) : List (Obj α) → List Nat → List (Obj α) × List Nat
  | heap, [] => (heap, [])
  | heap, o :: os =>
    match heap[o]? with
    | some x =>
      let (heap', os') := cloneItems hn (heap ++ [{ x with owner := some hn }]) os
      (heap', heap.length :: os')
    | none => cloneItems hn heap os   -- (a nil entry; not reachable)

def cloneTab (k : KW α) (h : Nat) : KW α :=
  match k.tabs[h]? with
  | some t =>
    let (heap', items') := cloneItems k.tabs.length k.heap t.items
    { heap := heap', tabs := k.tabs ++ [{ items := items', seen := t.seen }] }
  | none => k.newTab

/-- the slot `slot` of header `h` (holding `eo`) is given to the free object `o` (with new data `d`);
`eo` is released -/
def replace (k : KW α) (h : Nat) (slot : Int) (eo o : Nat) (d : α) : KW α :=
  match k.heap[o]?, k.heap[eo]?, k.tabs[h]? with
  | some r, some er, some t =>
    let heap1 := k.heap.set o { r with owner := some h, id := slot, dat := d }
    let heap2 := heap1.set eo { er with owner := none, id := -1 }
    { heap := heap2, tabs := k.tabs.set h { t with items := t.items.set slot.toNat o } }
  | _, _, _ => k

def names (k : KW α) (h : Nat) : List (Int × Bytes) :=
  match k.tabs[h]? with
  | some t => t.items.filterMap fun o => (k.heap[o]?).map fun x => (x.id, x.name)
  | none => []

end KW

/-! ### references: equality, AddReference -/

def tagLess (a b : Tag × Bytes) : Bool := a.1.1 < b.1.1 || (a.1.1 == b.1.1 && a.1.2 < b.1.2)

def insertTag (x : Tag × Bytes) : Tags → Tags
  | [] => [x]
  | y :: ys => if tagLess x y then x :: y :: ys else y :: insertTag x ys

/-- `sort.Sort(tagPairs)` (tags of one item are distinct, so the order is determined) -/
def sortTags (l : Tags) : Tags := l.foldr insertTag []

/-- `a.uri != nil && b.uri != nil && a.uri != b.uri`: a pointer comparison of the two *url.URL -/
def uriPtrDiffer : Option (Nat × Bytes) → Option (Nat × Bytes) → Bool
  | some (p, _), some (q, _) => p != q
  | _, _ => false

/-- `equalRefs(a, b)`; `same` = the two pointers are equal -/
def equalRefs (same : Bool) (a b : Obj RefD) : Bool :=
  if same then true
  else if (a.id ≠ -1 ∧ b.id ≠ -1 ∧ a.id ≠ b.id) ∨ a.name ≠ b.name ∨ a.dat.len ≠ b.dat.len ∨
      (a.dat.md5 ≠ [] ∧ b.dat.md5 ≠ [] ∧ a.dat.md5 ≠ b.dat.md5) ∨
      (a.dat.asm ≠ [] ∧ b.dat.asm ≠ [] ∧ a.dat.asm ≠ b.dat.asm) ∨
      (a.dat.sp ≠ [] ∧ b.dat.sp ≠ [] ∧ a.dat.sp ≠ b.dat.sp) ∨
      uriPtrDiffer a.dat.uri b.dat.uri then false
  else if a.dat.other.length ≠ b.dat.other.length then false
  else sortTags a.dat.other == sortTags b.dat.other

def bareRef (id : Int) (name : Bytes) (len : Int) : Obj RefD :=
  { owner := none, id := id, name := name, dat := { len := len } }

/-- what the replacing reference inherits from the replaced one -/
def inherit (r er : RefD) : RefD :=
  { r with
    md5 := if r.md5 = [] then er.md5 else r.md5,
    asm := if r.asm = [] then er.asm else r.asm,
    sp := if r.sp = [] then er.sp else r.sp,
    uri := if r.uri.isNone then er.uri else r.uri,
    other := if r.other.length = 0 then er.other else r.other }

def addReference (k : KW RefD) (h o : Nat) : KW RefD × Res :=
  match k.heap[o]?, k.tabs[h]? with
  | some r, some t =>
    match lookup t.seen r.name with
    | some dupID =>
      match idx t.items dupID with
      | none => (k, .panic)
      | some eo =>
        match k.heap[eo]? with
        | none => (k, .panic)
        | some er =>
          if equalRefs (eo == o) er r then (k, .ok)
          else if !equalRefs false r (bareRef (-1) er.name er.dat.len) then (k, .err)
          else if r.owner.isSome then (k, .err)
          else (k.replace h dupID eo o (inherit r.dat er.dat), .ok)
    | none => k.addNew h o
  | _, _ => (k, .skip)

/-! ### parsing header lines -/

/-- one tab-separated field `TG:value`: `if len(f) < 3 || f[2] != ':' { return errBadHeader }` -/
inductive Field where
  | ok (t : Tag) (v : Bytes)
  | bad        -- shorter than three bytes, or f[2] != ':'

def parseField : Bytes → Field
  | a :: b :: c :: v => if c = 58 then .ok (a, b) v else .bad
  | _ => .bad

def TAG (s : String) : Tag :=
  match s.toList with
  | [a, b] => (a.toNat, b.toNat)
  | _ => (0, 0)

def sortOrderOf (v : Bytes) : Int :=
  if v = str "unsorted" then 1 else if v = str "queryname" then 2 else if v = str "coordinate" then 3 else 0

def groupOrderOf (v : Bytes) : Int :=
  if v = str "none" then 1 else if v = str "query" then 2 else if v = str "reference" then 3 else 0

def sortOrderStr (so : Int) : Bytes :=
  if so = 1 then str "unsorted" else if so = 2 then str "queryname" else if so = 3 then str "coordinate" else str "unknown"

def groupOrderStr (g : Int) : Bytes :=
  if g = 2 then str "query" else if g = 3 then str "reference" else str "none"

/-- the field loop of `headerLine` (mutates the header field by field) -/
def hdFields : HdrF → List Bytes → HdrF × Res
  | f, [] => (f, .ok)
  | f, x :: xs =>
    match parseField x with
    | .bad => (f, .err)
    | .ok t v =>
      if t = TAG "VN" then (if f.version ≠ [] then (f, .err) else hdFields { f with version := v } xs)
      else if t = TAG "SO" then (if f.so ≠ 0 then (f, .err) else hdFields { f with so := sortOrderOf v } xs)
      else if t = TAG "GO" then (if f.go ≠ 0 then (f, .err) else hdFields { f with go := groupOrderOf v } xs)
      else hdFields { f with other := f.other ++ [(t, v)] } xs

def headerLine (f : HdrF) (l : Bytes) : HdrF × Res :=
  match splitOn 9 l with
  | _ :: x :: xs =>
    match hdFields f (x :: xs) with
    | (f', .ok) => if f'.version = [] then (f', .err) else (f', .ok)
    | r => r
  | _ => (f, .err)

/-- outcome of a field loop that builds a new item -/
inductive PR (β : Type) where
  | ok (v : β)
  | err
  | panic

/-- the field loop shared by the @SQ/@RG/@PG parsers: `seen` is the `map[Tag]struct{}` that rejects a
repeated tag, `assign` the `switch t { … }` of the parser -/
structure FAcc (β : Type) where
  val : β
  seen : List Tag := []

def fieldLoop {β : Type} (assign : β → Tag → Bytes → PR β) : FAcc β → List Bytes → PR (FAcc β)
  | a, [] => .ok a
  | a, x :: xs =>
    match parseField x with
    | .bad => .err
    | .ok t v =>
      if a.seen.contains t then .err
      else match assign a.val t v with
        | .ok b => fieldLoop assign ⟨b, t :: a.seen⟩ xs
        | .err => .err
        | .panic => .panic

structure RefV where
  name : Bytes := []
  d : RefD := { len := 0 }
  nok : Bool := false
  lok : Bool := false

def validLen (l : Int) : Bool := 1 ≤ l && l ≤ 2147483647
def validInt32 (i : Int) : Bool := -2147483648 ≤ i && i ≤ 2147483647

def refAssign (E : Ext) (uriPtr : Nat) (a : RefV) (t : Tag) (v : Bytes) : PR RefV :=
  if t = TAG "SN" then .ok { a with name := v, nok := true }
  else if t = TAG "LN" then
    match atoi v with
    | none => .err
    | some l => if validLen l then .ok { a with d := { a.d with len := l }, lok := true } else .err
  else if t = TAG "AS" then .ok { a with d := { a.d with asm := v } }
  else if t = TAG "M5" then
    if v.length ≠ 32 then .err   -- len(f[3:]) != hex.EncodedLen(16)
    else match hexDecode16 v 0 [] with
    | .overflow => .panic
    | .bad => .err
    | .ok bs => if bs.length ≠ 16 then .err else .ok { a with d := { a.d with md5 := bs } }
  else if t = TAG "SP" then .ok { a with d := { a.d with sp := v } }
  else if t = TAG "UR" then
    match E.parseUri v with
    | none => .err
    | some u => .ok { a with d := { a.d with uri := some (uriPtr, u) } }
  else .ok { a with d := { a.d with other := a.d.other ++ [(t, v)] } }

/-- `referenceLine` (repaired: the replacing reference gets the id of its slot).
The new reference is only allocated when it is installed (otherwise it is garbage in Go). -/
def referenceLine (E : Ext) (k : KW RefD) (uriPtr : Nat) (h : Nat) (l : Bytes) : KW RefD × Res :=
  match splitOn 9 l with
  | _ :: x :: y :: xs =>
    match fieldLoop (refAssign E uriPtr) ⟨{}, []⟩ (x :: y :: xs) with
    | .panic => (k, .panic)
    | .err => (k, .err)
    | .ok acc =>
      let a := acc.val
      match k.tabs[h]? with
      | none => (k, .skip)
      | some t =>
        -- `if !nok || !lok { return errBadHeader }` comes first (C07-10)
        if !a.nok || !a.lok then (k, .err)
        else match lookup t.seen a.name with
        | some dupID =>
          match idx t.items dupID with
          | none => (k, .panic)
          | some eo =>
            match k.heap[eo]? with
            | none => (k, .panic)
            | some er =>
              -- rf is the zero-valued &Reference{}: its id is 0 in this comparison
              if equalRefs false er { owner := none, id := 0, name := a.name, dat := a.d } then (k, .ok)
              -- a different length is a conflict (C07-11); only a bare entry is replaced
              else if a.d.len ≠ er.dat.len || !equalRefs false er (bareRef er.id er.name er.dat.len) then (k, .err)
              else
                let (k1, o) := k.alloc { owner := none, id := -1, name := a.name, dat := a.d }
                (k1.replace h dupID eo o a.d, .ok)
        | none =>
          let (k1, o) := k.alloc { owner := none, id := -1, name := a.name, dat := a.d }
          (k1.addNewU h o, .ok)
  | _ => (k, .err)

structure RgV where
  name : Bytes := []
  d : RgD := {}
  idok : Bool := false

/-- the `switch` of `readGroupLine` for every tag but ID: the new data, or `none` for an error -/
def rgSet (E : Ext) (d : RgD) (t : Tag) (v : Bytes) : Option RgD :=
  if t = TAG "CN" then some { d with cn := v }
  else if t = TAG "DS" then some { d with ds := v }
  else if t = TAG "DT" then (E.parseDate v).map fun x => { d with dt := x }
  else if t = TAG "FO" then some { d with fo := v }
  else if t = TAG "KS" then some { d with ks := v }
  else if t = TAG "LB" then some { d with lb := v }
  else if t = TAG "PG" then some { d with pg := v }
  else if t = TAG "PI" then
    match atoi v with
    | none => none
    | some i => if validInt32 i then some { d with pi := i } else none
  else if t = TAG "PL" then some { d with pl := v }
  else if t = TAG "PU" then some { d with pu := v }
  else if t = TAG "SM" then some { d with sm := v }
  else some { d with other := d.other ++ [(t, v)] }

def rgAssign (E : Ext) (known : Bytes → Bool) (a : RgV) (t : Tag) (v : Bytes) : PR RgV :=
  if t = TAG "ID" then (if known v then .err else .ok { a with name := v, idok := true })
  else match rgSet E a.d t v with
    | some d => .ok { a with d := d }
    | none => .err

def readGroupLine (E : Ext) (k : KW RgD) (h : Nat) (l : Bytes) : KW RgD × Res :=
  match splitOn 9 l, k.tabs[h]? with
  | _ :: x :: xs, some t =>
    match fieldLoop (rgAssign E (fun n => (lookup t.seen n).isSome)) ⟨{}, []⟩ (x :: xs) with
    | .panic => (k, .panic)
    | .err => (k, .err)
    | .ok acc =>
      let a := acc.val
      if !a.idok then (k, .err)
      else
        let (k1, o) := k.alloc { owner := none, id := -1, name := a.name, dat := a.d }
        (k1.addNewU h o, .ok)
  | _, none => (k, .skip)
  | _, _ => (k, .err)

structure PgV where
  name : Bytes := []
  d : PgD := {}
  idok : Bool := false

def pgSet (d : PgD) (t : Tag) (v : Bytes) : PgD :=
  if t = TAG "PN" then { d with pn := v }
  else if t = TAG "CL" then { d with cl := v }
  else if t = TAG "PP" then { d with pp := v }
  else if t = TAG "VN" then { d with vn := v }
  else { d with other := d.other ++ [(t, v)] }

def pgAssign (known : Bytes → Bool) (a : PgV) (t : Tag) (v : Bytes) : PR PgV :=
  if t = TAG "ID" then (if known v then .err else .ok { a with name := v, idok := true })
  else .ok { a with d := pgSet a.d t v }

def programLine (k : KW PgD) (h : Nat) (l : Bytes) : KW PgD × Res :=
  match splitOn 9 l, k.tabs[h]? with
  | _ :: x :: xs, some t =>
    match fieldLoop (pgAssign (fun n => (lookup t.seen n).isSome)) ⟨{}, []⟩ (x :: xs) with
    | .panic => (k, .panic)
    | .err => (k, .err)
    | .ok acc =>
      let a := acc.val
      if !a.idok then (k, .err)
      else
        let (k1, o) := k.alloc { owner := none, id := -1, name := a.name, dat := a.d }
        (k1.addNewU h o, .ok)
  | _, none => (k, .skip)
  | _, _ => (k, .err)

/-- `commentLine` (repaired: `SplitN(l, "\t", 2)`) -/
def commentLine (f : HdrF) (l : Bytes) : HdrF × Res :=
  match splitOnce 9 l with
  | _ :: c :: _ => ({ f with comments := f.comments ++ [c] }, .ok)
  | _ => (f, .err)

def setHdr (w : World) (h : Nat) (f : HdrF) : World := { w with hdrs := w.hdrs.set h f }

/-- one line of `UnmarshalText` (after the trailing '\r' has been dropped; empty lines are skipped) -/
def parseLine (E : Ext) (w : World) (h : Nat) (l : Bytes) : World × Res :=
  match l, w.hdrs[h]? with
  | 64 :: a :: b :: _, some f =>
    if (a, b) = TAG "HD" then
      let (f', r) := headerLine f l; (setHdr w h f', r)
    else if (a, b) = TAG "SQ" then
      let (k, r) := referenceLine E w.refs w.nextUri h l; ({ w with refs := k, nextUri := w.nextUri + 1 }, r)
    else if (a, b) = TAG "RG" then
      let (k, r) := readGroupLine E w.rgs h l; ({ w with rgs := k }, r)
    else if (a, b) = TAG "PG" then
      let (k, r) := programLine w.pgs h l; ({ w with pgs := k }, r)
    else if (a, b) = TAG "CO" then
      let (f', r) := commentLine f l; (setHdr w h f', r)
    else (w, .err)
  | _, some _ => (w, .err)
  | _, none => (w, .skip)

def dropCR (l : Bytes) : Bytes :=
  match l.getLast? with
  | some 13 => l.dropLast
  | _ => l

def parseLines (E : Ext) : World → Nat → List Bytes → World × Res
  | w, _, [] => (w, .ok)
  | w, h, l :: ls =>
    let l := dropCR l
    if l = [] then parseLines E w h ls
    else match parseLine E w h l with
      | (w', .ok) => parseLines E w' h ls
      | r => r

/-- `Header.UnmarshalText` -/
def unmarshalText (E : Ext) (w : World) (h : Nat) (text : Bytes) : World × Res :=
  parseLines E w h (splitOn 10 text)

/-! ### serialisation -/

def fieldBytes (tv : Tag × Bytes) : Bytes := 9 :: tv.1.1 :: tv.1.2 :: 58 :: tv.2

def opt (t : String) (v : Bytes) : Tags := if v = [] then [] else [(TAG t, v)]

def uriTags : Option (Nat × Bytes) → Tags
  | some (_, u) => [(TAG "UR", u)]
  | none => []

def refTags (name : Bytes) (d : RefD) : Tags :=
  [(TAG "SN", name), (TAG "LN", dec d.len)] ++ (if d.md5 = [] then [] else [(TAG "M5", hexEnc d.md5)]) ++
    opt "AS" d.asm ++ opt "SP" d.sp ++ uriTags d.uri ++ d.other

def rgTags (name : Bytes) (d : RgD) : Tags :=
  [(TAG "ID", name)] ++ opt "CN" d.cn ++ opt "DS" d.ds ++ opt "DT" d.dt ++ opt "FO" d.fo ++ opt "KS" d.ks ++
    opt "LB" d.lb ++ opt "PG" d.pg ++ (if d.pi = 0 then [] else [(TAG "PI", dec d.pi)]) ++ opt "PL" d.pl ++
    opt "PU" d.pu ++ opt "SM" d.sm ++ d.other

def pgTags (name : Bytes) (d : PgD) : Tags :=
  [(TAG "ID", name)] ++ opt "PN" d.pn ++ opt "CL" d.cl ++ opt "PP" d.pp ++ opt "VN" d.vn ++ d.other

def line (rec : String) (ts : Tags) : Bytes := str rec ++ ts.flatMap fieldBytes ++ [10]

def hdTags (f : HdrF) : Tags :=
  [(TAG "VN", f.version), (TAG "SO", sortOrderStr f.so)] ++
    (if f.go = 0 then [] else [(TAG "GO", groupOrderStr f.go)]) ++ f.other

/-- what a header exposes: everything but object identities and owners -/
structure View where
  f : HdrF
  refs : List (Int × Bytes × RefD)
  rgs : List (Int × Bytes × RgD)
  pgs : List (Int × Bytes × PgD)
deriving Repr

def items {α : Type} (k : KW α) (h : Nat) : List (Int × Bytes × α) :=
  match k.tabs[h]? with
  | some t => t.items.filterMap fun o => (k.heap[o]?).map fun x => (x.id, x.name, x.dat)
  | none => []

/-- the identity of the *url.URL is not exposed -/
def normRef (d : RefD) : RefD := { d with uri := d.uri.map fun u => (0, u.2) }

def view (w : World) (h : Nat) : View :=
  { f := (w.hdrs[h]?).getD {},
    refs := (items w.refs h).map fun x => (x.1, x.2.1, normRef x.2.2),
    rgs := items w.rgs h, pgs := items w.pgs h }

def marshalView (v : View) : Bytes :=
  (if v.f.version = [] then [] else line "@HD" (hdTags v.f)) ++
    v.refs.flatMap (fun x => line "@SQ" (refTags x.2.1 x.2.2)) ++
    v.rgs.flatMap (fun x => line "@RG" (rgTags x.2.1 x.2.2)) ++
    v.pgs.flatMap (fun x => line "@PG" (pgTags x.2.1 x.2.2)) ++
    v.f.comments.flatMap (fun c => str "@CO\t" ++ c ++ [10])

/-- `Header.MarshalText` -/
def marshalText (w : World) (h : Nat) : Bytes := marshalView (view w h)

/-- little-endian int32 -/
def le32 (i : Int) : Bytes :=
  let n := (i % 4294967296).toNat
  [n % 256, n / 256 % 256, n / 65536 % 256, n / 16777216 % 256]

def encodeView (v : View) : Bytes :=
  let text := marshalView v
  [66, 65, 77, 1] ++ le32 text.length ++ text ++ le32 v.refs.length ++
    v.refs.flatMap fun x => le32 (x.2.1.length + 1) ++ x.2.1 ++ [0] ++ le32 x.2.2.len

/-- `Header.MarshalBinary` -/
def marshalBinary (w : World) (h : Nat) : Bytes := encodeView (view w h)

def rd32 : Bytes → Option (Int × Bytes)
  | a :: b :: c :: d :: rest =>
    let n := a + b * 256 + c * 65536 + d * 16777216
    some (if n ≥ 2147483648 then (n : Int) - 4294967296 else n, rest)
  | _ => none

/-- one `bytes.Reader.Read` into a buffer of `n` bytes: EOF when nothing is left, else what is there -/
def rdN (n : Nat) (b : Bytes) : Option (Bytes × Bytes) :=
  if b = [] then none else if b.length < n then none else some (b.take n, b.drop n)

/-- `readRefRecords` -/
def readRefRecords : Nat → Bytes → Option (List (Bytes × Int))
  | 0, _ => some []
  | n + 1, b =>
    match rd32 b with
    | none => none
    | some (lName, b) =>
      if lName < 1 then none
      else match rdN lName.toNat b with
        | none => none
        | some (nm, b) =>
          if nm.getLast? ≠ some 0 then none
          else match rd32 b with
            | none => none
            | some (lRef, b) =>
              match readRefRecords n b with
              | none => none
              | some rest => some ((nm.dropLast, lRef) :: rest)

def addBinRefs : KW RefD → Nat → Nat → List (Bytes × Int) → KW RefD × Res
  | k, _, _, [] => (k, .ok)
  | k, h, i, (nm, l) :: rest =>
    let (k1, o) := k.alloc { owner := none, id := i, name := nm, dat := { len := l } }
    match addReference k1 h o with
    | (k2, .ok) => addBinRefs k2 h (i + 1) rest
    | r => r

/-- `Header.DecodeBinary` / `UnmarshalBinary` over a `bytes.Reader` -/
def decodeBinary (E : Ext) (w : World) (h : Nat) (b : Bytes) : World × Res :=
  match b with
  | 66 :: 65 :: 77 :: 1 :: b =>
    match rd32 b with
    | none => (w, .err)
    | some (lText, b) =>
      if lText < 0 then (w, .err)
      else match rdN lText.toNat b with
        | none => (w, .err)
        | some (text, b) =>
          match unmarshalText E w h text with
          | (w1, .ok) =>
            match rd32 b with
            | none => (w1, .err)
            | some (nRef, b) =>
              if nRef < 0 then (w1, .err)
              else match readRefRecords nRef.toNat b with
                | none => (w1, .err)
                | some rs => let (k, r) := addBinRefs w1.refs h 0 rs; ({ w1 with refs := k }, r)
          | r => r
  | _ => (w, .err)

/-- `readRefRecords`, also returning the bytes that were not read -/
def readRefRecordsR : Nat → Bytes → Option (List (Bytes × Int) × Bytes)
  | 0, b => some ([], b)
  | n + 1, b =>
    match rd32 b with
    | none => none
    | some (lName, b) =>
      if lName < 1 then none
      else match rdN lName.toNat b with
        | none => none
        | some (nm, b) =>
          if nm.getLast? ≠ some 0 then none
          else match rd32 b with
            | none => none
            | some (lRef, b) =>
              match readRefRecordsR n b with
              | none => none
              | some (rest, b) => some ((nm.dropLast, lRef) :: rest, b)

/-- `Header.DecodeBinary` reading from the front of a longer stream: the third component is what follows the
header block (meaningful when the result is `ok`; `decodeBinaryR_eq`: the first two are `decodeBinary`) -/
def decodeBinaryR (E : Ext) (w : World) (h : Nat) (b : Bytes) : World × Res × Bytes :=
  match b with
  | 66 :: 65 :: 77 :: 1 :: b =>
    match rd32 b with
    | none => (w, .err, b)
    | some (lText, b) =>
      if lText < 0 then (w, .err, b)
      else match rdN lText.toNat b with
        | none => (w, .err, b)
        | some (text, b) =>
          match unmarshalText E w h text with
          | (w1, .ok) =>
            match rd32 b with
            | none => (w1, .err, b)
            | some (nRef, b) =>
              if nRef < 0 then (w1, .err, b)
              else match readRefRecordsR nRef.toNat b with
                | none => (w1, .err, b)
                | some (rs, b) => let (k, r) := addBinRefs w1.refs h 0 rs; ({ w1 with refs := k }, r, b)
          | (w1, r) => (w1, r, b)
  | _ => (w, .err, b)

/-! ### header-level operations -/

/-- a new header with empty tables (all kinds get a table at the same index) -/
def pushHeader (w : World) (f : HdrF) : World :=
  { w with hdrs := w.hdrs ++ [f], refs := w.refs.newTab, rgs := w.rgs.newTab, pgs := w.pgs.newTab }

def markDead (w : World) (h : Nat) : World :=
  match w.hdrs[h]? with
  | some f => setHdr w h { f with dead := true }
  | none => w

/-- the checks of `NewHeader` on the given references (repaired: names are entered, duplicates rejected) -/
def refsUsable (k : KW RefD) : List Nat → List Bytes → Bool
  | [], _ => true
  | o :: os, seen =>
    match k.heap[o]? with
    | some x => !(x.owner.isSome || x.id ≥ 0) && !seen.contains x.name && refsUsable k os (x.name :: seen)
    | none => false

/-- `NewHeader(text, refs)`; the header handle is allocated whatever the outcome -/
def newHeader (E : Ext) (w : World) (text : Bytes) (refs : List Nat) : World × Res :=
  let hn := w.hdrs.length
  let w := pushHeader w {}
  if !refsUsable w.refs refs [] then (markDead w hn, .err)
  else
    let w := { w with refs := refs.foldl (fun k o => k.addNewU hn o) w.refs }
    match unmarshalText E w hn text with
    | (w', .ok) => (w', .ok)
    | (w', r) => (markDead w' hn, r)

/-- `Header.Clone` -/
def cloneHeader (w : World) (h : Nat) : World :=
  match w.hdrs[h]? with
  | some f =>
    { w with hdrs := w.hdrs ++ [f], refs := w.refs.cloneTab h, rgs := w.rgs.cloneTab h, pgs := w.pgs.cloneTab h }
  | none => pushHeader w { dead := true }

def freshUri (p : Nat) (d : RefD) : RefD :=
  { d with uri := d.uri.map fun u => (p, u.2) }

/-- the adding loop of `MergeHeaders` over the references of one source -/
def mergeAdd : KW RefD → Nat → Nat → List (Obj RefD) → KW RefD × Nat × Res
  | k, p, _, [] => (k, p, .ok)
  | k, p, hn, x :: xs =>
    let (k1, o) := k.alloc { x with owner := none, id := -1, dat := freshUri p x.dat }
    match addReference k1 hn o with
    | (k2, .ok) => mergeAdd k2 (p + 1) hn xs
    | (k2, r) => (k2, p + 1, r)

def objsOf {α : Type} (k : KW α) (h : Nat) : List (Obj α) :=
  match k.tabs[h]? with
  | some t => t.items.filterMap fun o => k.heap[o]?
  | none => []

def mergeSources : KW RefD → Nat → Nat → List Nat → KW RefD × Nat × Res
  | k, p, _, [] => (k, p, .ok)
  | k, p, hn, s :: ss =>
    match mergeAdd k p hn (objsOf k s) with
    | (k1, p1, .ok) => mergeSources k1 p1 hn ss
    | r => r

/-- `links[id] = h.refs[h.seenRefs[r.name]]` -/
def linkOf (k : KW RefD) (hn : Nat) (name : Bytes) : Option Nat :=
  match k.tabs[hn]? with
  | some t => idx t.items ((lookup t.seen name).getD 0)
  | none => none

def mergeLinks (k : KW RefD) (hn : Nat) (srcs : List Nat) : Option (List (List Nat)) :=
  srcs.mapM fun s => (objsOf k s).mapM fun x => linkOf k hn x.name

/-- `h = src[0].Clone(); h.SortOrder = UnknownOrder; h.GroupOrder = GroupUnspecified` -/
def mergeInit (w : World) (s0 : Nat) : World :=
  let hn := w.hdrs.length
  let w := cloneHeader w s0
  match w.hdrs[hn]? with
  | some f => setHdr w hn { f with so := 0, go := 0 }
  | none => w

/-- `MergeHeaders(src)` for two or more sources (repaired: links resolved by name at the end).
Returns the world (the merged header is the new last header) and the link table. -/
def mergeHeaders (w : World) (srcs : List Nat) : World × Res × List (List Nat) :=
  match srcs with
  | s0 :: s1 :: ss =>
    let hn := w.hdrs.length
    let w1 := mergeInit w s0
    match mergeSources w1.refs w1.nextUri hn (s1 :: ss) with
    | (k, p, .ok) =>
      match mergeLinks k hn srcs with
      | some ls => ({ w1 with refs := k, nextUri := p }, .ok, ls)
      | none => (markDead { w1 with refs := k, nextUri := p } hn, .panic, [])
    | (k, p, r) => (markDead { w1 with refs := k, nextUri := p } hn, r, [])
  | _ => (pushHeader w { dead := true }, .skip, [])

/-- `Header.Set` -/
def setTags (ts : Tags) (t : Tag) (v : Bytes) : Tags :=
  if v = [] then
    match ts.findIdx? (fun p => p.1 = t) with
    | some i => ts.eraseIdx i
    | none => ts
  else
    match ts.findIdx? (fun p => p.1 = t) with
    | some i => ts.set i (t, v)
    | none => ts ++ [(t, v)]

def headerSet (f : HdrF) (t : Tag) (v : Bytes) : HdrF × Res :=
  if t = TAG "VN" then (if v = [] then (f, .err) else ({ f with version := v }, .ok))
  else if t = TAG "SO" then
    if v = [] then ({ f with so := 0 }, .ok)
    else if v = str "unknown" then ({ f with so := 0 }, .ok)
    else if sortOrderOf v = 0 then (f, .err) else ({ f with so := sortOrderOf v }, .ok)
  else if t = TAG "GO" then
    if v = [] then ({ f with go := 0 }, .ok)
    else if groupOrderOf v = 0 then (f, .err) else ({ f with go := groupOrderOf v }, .ok)
  else ({ f with other := setTags f.other t v }, .ok)

/-! ### histories -/

inductive Op where
  | h0                                            -- NewHeader(nil, nil)
  | hd (text : Bytes) (refs : List Nat)           -- NewHeader(text, pool refs)
  | pa (text : Bytes)                             -- NewHeader(nil, nil) then UnmarshalText
  | de (b : Bytes)                                -- NewHeader(nil, nil) then UnmarshalBinary
  | um (h : Nat) (text : Bytes)                   -- UnmarshalText of additional lines
  | co (h : Nat) (c : Bytes)                      -- Comments = append(Comments, c)
  | sh (h : Nat) (ver : Bytes) (so go : Int)      -- Version, SortOrder, GroupOrder fields
  | hs (h : Nat) (t : Tag) (v : Bytes)            -- Header.Set
  | nr (name : Bytes) (d : RefD)                  -- NewReference (+ Set of extra tags) into the pool
  | ng (name : Bytes) (d : RgD)
  | np (name : Bytes) (d : PgD)
  | ar (h p : Nat) | rr (h p : Nat) | sr (p : Nat) (n : Bytes) | gr (h i : Nat) | cr (p : Nat)
  | ag (h p : Nat) | rg (h p : Nat) | sg (p : Nat) (n : Bytes) | gg (h i : Nat) | cg (p : Nat)
  | ap (h p : Nat) | rp (h p : Nat) | sp (p : Nat) (n : Bytes) | gp (h i : Nat) | cp (p : Nat)
  | cl (h : Nat)                                  -- Header.Clone
  | mg (hs : List Nat)                            -- MergeHeaders
deriving Repr

def live (w : World) (h : Nat) : Bool :=
  match w.hdrs[h]? with
  | some f => !f.dead
  | none => false

def poolGet (p : List (Option Nat)) (i : Nat) : Option Nat := (p[i]?).getD none

def grab {α : Type} (k : KW α) (h i : Nat) : Option Nat :=
  match k.tabs[h]? with
  | some t => t.items[i]?
  | none => none

structure StepOut where
  w : World
  res : Res
  links : Option (Nat × List (List Nat)) := none   -- merged header and link table of a successful merge

def step (E : Ext) (w : World) : Op → StepOut
  | .h0 => ⟨pushHeader w {}, .ok, none⟩
  | .hd text ps =>
    match ps.mapM (poolGet w.rpool) with
    | some refs => let (w', r) := newHeader E w text refs; ⟨w', r, none⟩
    | none => ⟨pushHeader w { dead := true }, .skip, none⟩
  | .pa text =>
    let hn := w.hdrs.length
    let (w', r) := unmarshalText E (pushHeader w {}) hn text; ⟨w', r, none⟩
  | .de b =>
    let hn := w.hdrs.length
    let (w', r) := decodeBinary E (pushHeader w {}) hn b; ⟨w', r, none⟩
  | .um h text => if live w h then let (w', r) := unmarshalText E w h text; ⟨w', r, none⟩ else ⟨w, .skip, none⟩
  | .co h c =>
    match w.hdrs[h]?, live w h with
    | some f, true => ⟨setHdr w h { f with comments := f.comments ++ [c] }, .ok, none⟩
    | _, _ => ⟨w, .skip, none⟩
  | .sh h ver so go =>
    match w.hdrs[h]?, live w h with
    | some f, true => ⟨setHdr w h { f with version := ver, so := so, go := go }, .ok, none⟩
    | _, _ => ⟨w, .skip, none⟩
  | .hs h t v =>
    match w.hdrs[h]?, live w h with
    | some f, true => let (f', r) := headerSet f t v; ⟨setHdr w h f', r, none⟩
    | _, _ => ⟨w, .skip, none⟩
  | .nr name d =>
    let d := { d with uri := d.uri.map fun u => (w.nextUri, u.2) }
    let (k, o) := w.refs.alloc { owner := none, id := -1, name := name, dat := d }
    ⟨{ w with refs := k, rpool := w.rpool ++ [some o], nextUri := w.nextUri + 1 }, .ok, none⟩
  | .ng name d =>
    let (k, o) := w.rgs.alloc { owner := none, id := -1, name := name, dat := d }
    ⟨{ w with rgs := k, gpool := w.gpool ++ [some o] }, .ok, none⟩
  | .np name d =>
    let (k, o) := w.pgs.alloc { owner := none, id := -1, name := name, dat := d }
    ⟨{ w with pgs := k, ppool := w.ppool ++ [some o] }, .ok, none⟩
  | .ar h p =>
    match poolGet w.rpool p, live w h with
    | some o, true => let (k, r) := addReference w.refs h o; ⟨{ w with refs := k }, r, none⟩
    | _, _ => ⟨w, .skip, none⟩
  | .rr h p =>
    match poolGet w.rpool p, live w h with
    | some o, true => let (k, r) := w.refs.remove h o; ⟨{ w with refs := k }, r, none⟩
    | _, _ => ⟨w, .skip, none⟩
  | .sr p n =>
    match poolGet w.rpool p with
    | some o => let (k, r) := w.refs.setName o n; ⟨{ w with refs := k }, r, none⟩
    | none => ⟨w, .skip, none⟩
  | .gr h i =>
    match (if live w h then grab w.refs h i else none) with
    | some o => ⟨{ w with rpool := w.rpool ++ [some o] }, .ok, none⟩
    | none => ⟨{ w with rpool := w.rpool ++ [none] }, .skip, none⟩
  | .cr p =>
    match poolGet w.rpool p with
    | some o =>
      let (k, o') := w.refs.cloneObj o (freshUri w.nextUri)
      ⟨{ w with refs := k, rpool := w.rpool ++ [o'], nextUri := w.nextUri + 1 }, .ok, none⟩
    | none => ⟨{ w with rpool := w.rpool ++ [none] }, .skip, none⟩
  | .ag h p =>
    match poolGet w.gpool p, live w h with
    | some o, true => let (k, r) := w.rgs.addUniq h o; ⟨{ w with rgs := k }, r, none⟩
    | _, _ => ⟨w, .skip, none⟩
  | .rg h p =>
    match poolGet w.gpool p, live w h with
    | some o, true => let (k, r) := w.rgs.remove h o; ⟨{ w with rgs := k }, r, none⟩
    | _, _ => ⟨w, .skip, none⟩
  | .sg p n =>
    match poolGet w.gpool p with
    | some o => let (k, r) := w.rgs.setName o n; ⟨{ w with rgs := k }, r, none⟩
    | none => ⟨w, .skip, none⟩
  | .gg h i =>
    match (if live w h then grab w.rgs h i else none) with
    | some o => ⟨{ w with gpool := w.gpool ++ [some o] }, .ok, none⟩
    | none => ⟨{ w with gpool := w.gpool ++ [none] }, .skip, none⟩
  | .cg p =>
    match poolGet w.gpool p with
    | some o => let (k, o') := w.rgs.cloneObj o id; ⟨{ w with rgs := k, gpool := w.gpool ++ [o'] }, .ok, none⟩
    | none => ⟨{ w with gpool := w.gpool ++ [none] }, .skip, none⟩
  | .ap h p =>
    match poolGet w.ppool p, live w h with
    | some o, true => let (k, r) := w.pgs.addUniq h o; ⟨{ w with pgs := k }, r, none⟩
    | _, _ => ⟨w, .skip, none⟩
  | .rp h p =>
    match poolGet w.ppool p, live w h with
    | some o, true => let (k, r) := w.pgs.remove h o; ⟨{ w with pgs := k }, r, none⟩
    | _, _ => ⟨w, .skip, none⟩
  | .sp p n =>
    match poolGet w.ppool p with
    | some o => let (k, r) := w.pgs.setName o n; ⟨{ w with pgs := k }, r, none⟩
    | none => ⟨w, .skip, none⟩
  | .gp h i =>
    match (if live w h then grab w.pgs h i else none) with
    | some o => ⟨{ w with ppool := w.ppool ++ [some o] }, .ok, none⟩
    | none => ⟨{ w with ppool := w.ppool ++ [none] }, .skip, none⟩
  | .cp p =>
    match poolGet w.ppool p with
    | some o => let (k, o') := w.pgs.cloneObj o id; ⟨{ w with pgs := k, ppool := w.ppool ++ [o'] }, .ok, none⟩
    | none => ⟨{ w with ppool := w.ppool ++ [none] }, .skip, none⟩
  | .cl h =>
    if live w h then ⟨cloneHeader w h, .ok, none⟩ else ⟨pushHeader w { dead := true }, .skip, none⟩
  | .mg hs =>
    if hs.all (live w) && hs.length ≥ 2 then
      let (w', r, ls) := mergeHeaders w hs
      ⟨w', r, if r = .ok then some (w.hdrs.length, ls) else none⟩
    else ⟨pushHeader w { dead := true }, .skip, none⟩

/-- the world after a history -/
def run (E : Ext) (w : World) (ops : List Op) : World := ops.foldl (fun w op => (step E w op).w) w

/-! ### the concrete external functions the driver runs -/

def digitsVal (s : Bytes) : Option Nat := if s.all isDigit && !s.isEmpty then some (parseDigits s) else none

def daysIn (y m : Nat) : Nat :=
  if m = 2 then (if (y % 4 = 0 ∧ y % 100 ≠ 0) ∨ y % 400 = 0 then 29 else 28)
  else if m = 4 ∨ m = 6 ∨ m = 9 ∨ m = 11 then 30 else 31

def pad2 (n : Nat) : Bytes := [48 + n / 10 % 10, 48 + n % 10]
def pad4 (n : Nat) : Bytes := [48 + n / 1000 % 10, 48 + n / 100 % 10, 48 + n / 10 % 10, 48 + n % 10]

/-- `parseISO8601` (with `time.Local = time.UTC`) followed by `Format("2006-01-02T15:04:05-0700")` -/
def goParseDate (v : Bytes) : Option Bytes :=
  let s := v.filter (· ≠ 58)
  match digitsVal (s.take 4) with
  | none => none
  | some y =>
    let s := s.drop 4
    let ext := s.head? = some 45
    let s := if ext then s.drop 1 else s
    match digitsVal (s.take 2) with
    | none => none
    | some mo =>
      let s := s.drop 2
      if ext && s.head? ≠ some 45 then none
      else
        let s := if ext then s.drop 1 else s
        match digitsVal (s.take 2) with
        | none => none
        | some d =>
          let s := s.drop 2
          if mo < 1 || mo > 12 || d < 1 || d > daysIn y mo then none
          else
            let date := pad4 y ++ [45] ++ pad2 mo ++ [45] ++ pad2 d
            match s with
            | [] => some (date ++ str "T00:00:00+0000")
            | 84 :: s =>
              match digitsVal (s.take 2), digitsVal ((s.drop 2).take 2), digitsVal ((s.drop 4).take 2) with
              | some hh, some mi, some ss =>
                if hh > 23 || mi > 59 || ss > 59 then none
                else
                  let s := s.drop 6
                  -- fractional seconds are read and dropped
                  let s := match s with
                    | c :: d :: r => if (c = 46 || c = 44) && isDigit d then (d :: r).dropWhile isDigit else s
                    | _ => s
                  let time := [84] ++ pad2 hh ++ [58] ++ pad2 mi ++ [58] ++ pad2 ss
                  match s with
                  | [] => some (date ++ time ++ str "+0000")
                  | [90] => some (date ++ time ++ str "+0000")
                  | [sg, a, b, c, e] =>
                    if (sg = 43 || sg = 45) && [a, b, c, e].all isDigit then
                      let zh := (a - 48) * 10 + (b - 48)
                      let zm := (c - 48) * 10 + (e - 48)
                      -- a zero offset is the local (UTC) zone, printed `+0000` whatever sign was read
                      if zh > 24 || zm > 59 then none
                      else some (date ++ time ++ [if zh = 0 ∧ zm = 0 then 43 else sg, a, b, c, e])
                    else none
                  | _ => none
              | _, _, _ => none
            | _ => none

def isAlpha (c : Nat) : Bool := (97 ≤ c && c ≤ 122) || (65 ≤ c && c ≤ 90)

/-- the scheme of `url.getScheme`: letters then letters/digits/+-. up to a ':' -/
def splitScheme : Bytes → Bytes → Option (Bytes × Bytes)
  | [], _ => none
  | c :: cs, acc =>
    if isAlpha c then splitScheme cs (acc ++ [c])
    else if (isDigit c || c = 43 || c = 45 || c = 46) && !acc.isEmpty then splitScheme cs (acc ++ [c])
    else if c = 58 && !acc.isEmpty then some (acc, cs)
    else none

/-- `url.Parse`, scheme rewriting of the @SQ parser, `URL.String()` on the URI forms the check generates
(`scheme://host/path`, absolute and relative paths without scheme; a leading ':' is an error) -/
def goParseUri (s : Bytes) : Option Bytes :=
  if s = [] then some (str "file:")
  else if s.head? = some 58 then none
  else match splitScheme s [] with
    | some (sch, rest) => if sch = str "http" ∨ sch = str "ftp" then some s else some (str "file:" ++ rest)
    | none => some (str "file://" ++ s)

def goExt : Ext := ⟨goParseDate, goParseUri⟩

end Hts.Model.Header
