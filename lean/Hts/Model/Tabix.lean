/-
Model of `tabix.Index` (tabix/tabix.go): header fields, the reference name table (`refNames`,
`nameMap`) and the delegation to `internal.Index`.  Core Lean only.

The model describes the code WITH the repairs of DESIGN §6 #3 and #30 (fixes/C04-2-…, C04-3-…):
a name is entered into both `refNames` and `nameMap`, and only when the call really added a
reference to the underlying index.
-/
import Hts.Model.Index
namespace Hts.Model.Tabix
open Hts.Model.Index

abbrev Name := List UInt8

structure Header where
  format : Nat := 0        -- byte
  zeroBased : Bool := false
  nameCol : Int := 0       -- int32
  begCol : Int := 0
  endCol : Int := 0
  metaChar : Int := 0      -- rune (int32)
  skip : Int := 0
deriving DecidableEq, Repr, Inhabited

structure TIndex where
  hdr : Header := {}
  names : List Name := []
  nameMap : List (Name × Nat) := []
  idx : Index := {}
deriving DecidableEq, Repr, Inhabited

/-- Go map assignment `m[k] = v` on an association list -/
def mapSet : List (Name × Nat) → Name → Nat → List (Name × Nat)
  | [], k, v => [(k, v)]
  | (k', v') :: m, k, v => if k' = k then (k, v) :: m else (k', v') :: mapSet m k v

def mapGet (m : List (Name × Nat)) (k : Name) : Option Nat := m.lookup k

/-- what `tabix.Index.Add(r, c, placed, mapped)` is called with -/
structure TRec where
  name : Name
  start : Int
  stop : Int
  chunk : Chunk
  placed : Bool
  mapped : Bool
deriving DecidableEq, Repr, Inhabited

/-- `tabix.Index.Add` (repaired); `binOf = internal.BinFor` -/
def add (binOf : Int → Int → Nat) (t : TIndex) (r : TRec) : TIndex × AddRes :=
  let known := mapGet t.nameMap r.name
  let rid : Nat := match known with | some id => id | none => t.names.length
  let x := Index.add t.idx
    { rid := rid, start := r.start, stop := r.stop, bin := binOf r.start r.stop, chunk := r.chunk,
      placed := r.placed, mapped := r.mapped }
  if known.isNone && decide (x.1.refs.length > rid) then
    ({ t with idx := x.1, names := t.names ++ [r.name], nameMap := mapSet t.nameMap r.name rid }, x.2)
  else ({ t with idx := x.1 }, x.2)

def addAll (binOf : Int → Int → Nat) (t : TIndex) : List TRec → TIndex × List AddRes
  | [] => (t, [])
  | r :: rs =>
    let x := add binOf t r
    let y := addAll binOf x.1 rs
    (y.1, x.2 :: y.2)

/-- `tabix.Index.Chunks(ref, beg, end)`; `adjacent = index.Adjacent` -/
def chunks (binsOf : Int → Int → List Nat) (adjacent : List Chunk → List Chunk)
    (t : TIndex) (name : Name) (beg stop : Int) : Except QErr (List Chunk) :=
  match mapGet t.nameMap name with
  | none => .error .noRef
  | some id =>
    match Index.chunks t.idx id beg stop (binsOf beg stop) with
    | .error e => .error e
    | .ok cs => .ok (adjacent cs)

def mergeChunks (s : List Chunk → List Chunk) (t : TIndex) : TIndex :=
  { t with idx := Index.mergeChunks s t.idx }

/-- the name map `ReadFrom` builds: `for i, n := range refNames { nameMap[n] = i }` -/
def buildMap (names : List Name) : List (Name × Nat) :=
  (names.zipIdx).foldl (fun m (p : Name × Nat) => mapSet m p.1 p.2) []

end Hts.Model.Tabix
