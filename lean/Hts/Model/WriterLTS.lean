/-
bgzf.Writer's concurrency protocol as a labelled transition system (core Lean only).

Threads
* the API caller (single goroutine: bgzf.Writer is not safe for concurrent use) executing a script of
  `Write`/`Flush`/`Wait`/`Close` calls;
* the emitter goroutine started by `NewWriterLevel` (`for qw := range bg.queue { writeOK(bg, <-qw.flush) }`);
* one goroutine `c.writeBlock()` per queued compressor (its only visible action: `c.flush <- c`).

State = where each of the `n = max(wc+1, 2)` compressors is (active / channel `waiting` / channel `queue` /
held by the emitter / dropped by Close), with `queue` and `waiting` as FIFO lists of capacity `n`,
`pending` = the `qwg` WaitGroup counter, `err` = the error latch (`bg.err` under `bg.m`), `out` = the blocks
whose underlying `Write` returned success, `eof` = the EOF marker block written by `Close`.

Blocks are abstract: a data block is its submission number (0, 1, 2, …).  DEFLATE is irrelevant here.
A `Write` call that completes `k` blocks is the script op `write k`; whether `Flush` finds a non-empty
active block is a flag of the script (`flush true`), so every concrete script is covered.

Fault oracles: `cfg.fault i = true` iff the `i`-th call (0-based, counting every call) of the underlying
writer's `Write` fails (an error, possibly after partial data: such a block is not in `out`);
`cfg.cfault b = true` iff compressing block `b` fails (`compressor.writeBlock` sets `c.err`: a gzip header
error or `ErrBlockOverflow`), which the emitter finds when it takes the compressor from its `flush` channel
(`writeOK`: `if c.err != nil { bg.setErr(c.err); return false }`; on the unchanged tree without `qwg.Done()`).

`cfg.repaired = true` is the protocol after fixes/C09-1 (the emitter keeps draining the queue after the
first failure; `qwg.Done` is deferred so that it runs after `setErr`); `false` is the unchanged tree
(the emitter `break`s after the first failure; `qwg.Done()` runs before `setErr`).

Atomic actions are single channel operations, latch reads/writes (mutex), WaitGroup operations and `go`
statements, except for these seven merges (each merged action is local to its goroutine or a left-mover or both-mover,
so no behaviour of the finer-grained program is lost):
1. `bg.queue <- c; bg.qwg.Add(1); go c.writeBlock()` is one step (`wSub`, `cEnq` without the `go`);
2. in `Flush` the receive from `waiting` and that enqueue are one step (`fSwap`);
3. in `Close`, `c.writeBlock()` (synchronous) and `bg.closed = true; close(bg.queue)` are one step (`cComp`);
4. the emitter's `<-qw.flush`, its `c.err` test, its latch read (repaired tree) and the call of the underlying
   `Write` are one step (`hold`);
5. `Wait`: `bg.qwg.Wait()` and the following `bg.Error()` are one step (`wtBlock`) — exact: with `pending = 0`
   and the single API goroutine inside `Wait`, nothing can set the latch in between;
6. `Write`: the loop-exit test `err == nil` / `len(b) > 0` and the final `return n, bg.Error()` are one latch
   read (`wLoop 0`) — the first read's nil result leads to the second read, whose result is the one returned;
7. `Close`: the test `bg.err == nil` and the underlying `Write` of the EOF marker are one step (`cEof`) — exact:
   the emitter has finished (`wg.Wait()` returned), nobody else can set `bg.err`.
-/
namespace Hts.Model.WriterLTS

inductive Op
  | write (k : Nat)          -- a Write call that completes (submits) k blocks
  | flush (nonempty : Bool)  -- Flush; `nonempty` = the active block holds data
  | wait
  | close
deriving DecidableEq, Repr, Inhabited

inductive Res | ok | err | closed
deriving DecidableEq, Repr, Inhabited

/-- state of a queued compressor: `writeBlock` goroutine running / finished (`c.flush` holds c) /
    queued by Close and not yet compressed (Close calls `c.writeBlock()` itself, later) -/
inductive ISt | compressing | flushed | held
deriving DecidableEq, Repr, Inhabited

structure Item where
  cid : Nat
  blk : Nat
  st  : ISt
deriving DecidableEq, Repr, Inhabited

inductive ApiPc
  | idle
  | retClosed            -- about to return ErrClosed
  | wLoop (k : Nat)      -- Write: loop head (latch read); k blocks still to submit
  | wSub (k : Nat)       -- Write: `bg.queue <- c; qwg.Add(1); go c.writeBlock()`
  | wTake (k : Nat)      -- Write: `c = <-bg.waiting`
  | fChk (b : Bool)      -- Flush: latch read, empty test
  | fSwap                -- Flush: `<-bg.waiting`, enqueue the old active compressor
  | fRet                 -- Flush: `return bg.Error()`
  | wtChk                -- Wait: first latch read
  | wtBlock              -- Wait: `bg.qwg.Wait()` then `return bg.Error()`
  | cEnq                 -- Close: `bg.queue <- c; qwg.Add(1)`
  | cTake                -- Close: `<-bg.waiting`
  | cComp                -- Close: `c.writeBlock(); bg.closed = true; close(bg.queue)`
  | cJoin                -- Close: `bg.wg.Wait()`
  | cEof                 -- Close: `if bg.err == nil { _, bg.err = bg.w.Write(magicBlock) }`
  | cRet                 -- Close: `return bg.err`
deriving DecidableEq, Repr, Inhabited

inductive EmPc
  | recv                 -- `for qw := range bg.queue`
  | hold (it : Item)     -- `<-qw.flush` (then latch check and the underlying Write)
  | failed (it : Item)   -- the underlying Write returned an error; latch not yet set
  | latch (it : Item)    -- unchanged tree only: `qwg.Done()` done, `setErr` next
  | rel (it : Item)      -- about to `qwg.Done()`
  | push (it : Item)     -- about to `bg.waiting <- c`, then loop
  | pushx (it : Item)    -- unchanged tree only: `bg.waiting <- c`, then `break`
  | done                 -- goroutine finished (`bg.wg.Done()`)
deriving DecidableEq, Repr, Inhabited

/-- observable events: API call / return (with the number of blocks submitted so far), and every call
    of the underlying writer (`blk = none` is the EOF marker; `ok = false` is a failed call) -/
inductive Ev
  | call (op : Op)
  | ret (op : Op) (r : Res) (submitted : Nat)
  | uw (blk : Option Nat) (ok : Bool)
deriving DecidableEq, Repr, Inhabited

structure Cfg where
  wc : Nat
  script : List Op
  fault : Nat → Bool
  repaired : Bool
  cfault : Nat → Bool := fun _ => false

/-- `wc++; if wc < 2 { wc = 2 }` -/
def Cfg.n (cfg : Cfg) : Nat := if cfg.wc + 1 < 2 then 2 else cfg.wc + 1

structure State where
  script : List Op
  api : ApiPc
  cur : Op
  active : Option Nat
  waiting : List Nat
  queue : List Item
  em : EmPc
  pending : Nat
  err : Bool
  closed : Bool
  out : List Nat
  eof : Bool
  nwrites : Nat
  submitted : Nat
deriving DecidableEq, Repr, Inhabited

def init (cfg : Cfg) : State :=
  { script := cfg.script, api := .idle, cur := .wait, active := some 0,
    waiting := List.range' 1 (cfg.n - 1), queue := [], em := .recv, pending := 0, err := false,
    closed := false, out := [], eof := false, nwrites := 0, submitted := 0 }

inductive Label
  | api
  | em
  | finQ (i : Nat)   -- the writeBlock goroutine of the i-th compressor in `queue` finishes
  | finE             -- the writeBlock goroutine of the compressor the emitter waits for finishes
deriving DecidableEq, Repr, Inhabited

def resOf (e : Bool) : Res := if e then .err else .ok

/-- first program counter of a call (the `bg.closed` test is local to the API goroutine) -/
def entry (op : Op) (closed : Bool) : ApiPc :=
  match op with
  | .write k => if closed then .retClosed else .wLoop k
  | .flush b => if closed then .retClosed else .fChk b
  | .wait => .wtChk
  | .close => if closed then .cRet else .cEnq

def unhold (it : Item) : Item := if it.st = .held then { it with st := .flushed } else it

def unholdEm : EmPc → EmPc
  | .hold it => .hold (unhold it)
  | e => e

def apiStep (cfg : Cfg) (s : State) : Option (Option Ev × State) :=
  match s.api with
  | .idle =>
    match s.script with
    | [] => none
    | op :: rest => some (some (.call op), { s with script := rest, cur := op, api := entry op s.closed })
  | .retClosed => some (some (.ret s.cur .closed s.submitted), { s with api := .idle })
  | .wLoop k =>
    if s.err then some (some (.ret s.cur .err s.submitted), { s with api := .idle })
    else match k with
      | 0 => some (some (.ret s.cur .ok s.submitted), { s with api := .idle })
      | k + 1 => some (none, { s with api := .wSub k })
  | .wSub k =>
    match s.active with
    | none => none
    | some c =>
      if s.queue.length < cfg.n then
        some (none, { s with queue := s.queue ++ [⟨c, s.submitted, .compressing⟩], pending := s.pending + 1,
                             submitted := s.submitted + 1, active := none, api := .wTake k })
      else none
  | .wTake k =>
    match s.waiting with
    | [] => none
    | c :: ws => some (none, { s with waiting := ws, active := some c, api := .wLoop k })
  | .fChk b =>
    if s.err then some (some (.ret s.cur .err s.submitted), { s with api := .idle })
    else if b then some (none, { s with api := .fSwap })
    else some (some (.ret s.cur .ok s.submitted), { s with api := .idle })
  | .fSwap =>
    match s.active, s.waiting with
    | some a, c :: ws =>
      if s.queue.length < cfg.n then
        some (none, { s with waiting := ws, queue := s.queue ++ [⟨a, s.submitted, .compressing⟩],
                             pending := s.pending + 1, submitted := s.submitted + 1, active := some c,
                             api := .fRet })
      else none
    | _, _ => none
  | .fRet => some (some (.ret s.cur (resOf s.err) s.submitted), { s with api := .idle })
  | .wtChk =>
    if s.err then some (some (.ret s.cur .err s.submitted), { s with api := .idle })
    else some (none, { s with api := .wtBlock })
  | .wtBlock =>
    if s.pending = 0 then some (some (.ret s.cur (resOf s.err) s.submitted), { s with api := .idle })
    else none
  | .cEnq =>
    match s.active with
    | none => none
    | some c =>
      if s.queue.length < cfg.n then
        some (none, { s with queue := s.queue ++ [⟨c, s.submitted, .held⟩], pending := s.pending + 1,
                             submitted := s.submitted + 1, active := none, api := .cTake })
      else none
  | .cTake =>
    match s.waiting with
    | [] => none
    | _ :: ws => some (none, { s with waiting := ws, api := .cComp })
  | .cComp =>
    some (none, { s with queue := s.queue.map unhold, em := unholdEm s.em, closed := true, api := .cJoin })
  | .cJoin => if s.em = .done then some (none, { s with api := .cEof }) else none
  | .cEof =>
    if s.err then some (none, { s with api := .cRet })
    else if cfg.fault s.nwrites then
      some (some (.uw none false), { s with err := true, nwrites := s.nwrites + 1, api := .cRet })
    else
      some (some (.uw none true), { s with eof := true, nwrites := s.nwrites + 1, api := .cRet })
  | .cRet => some (some (.ret s.cur (resOf s.err) s.submitted), { s with api := .idle })

def emStep (cfg : Cfg) (s : State) : Option (Option Ev × State) :=
  match s.em with
  | .recv =>
    match s.queue with
    | it :: q => some (none, { s with queue := q, em := .hold it })
    | [] => if s.closed then some (none, { s with em := .done }) else none
  | .hold it =>
    if it.st = .flushed then
      if cfg.cfault it.blk then
        -- `c.err != nil`: nothing is written; `setErr` next (repaired: then the deferred `qwg.Done()`;
        -- unchanged tree: no `Done` at all, and the emitter leaves its loop)
        if cfg.repaired then some (none, { s with em := .failed it }) else some (none, { s with em := .latch it })
      else if cfg.repaired && s.err then some (none, { s with em := .rel it })
      else if cfg.fault s.nwrites then
        some (some (.uw (some it.blk) false), { s with nwrites := s.nwrites + 1, em := .failed it })
      else
        some (some (.uw (some it.blk) true),
              { s with nwrites := s.nwrites + 1, out := s.out ++ [it.blk], em := .rel it })
    else none
  | .failed it =>
    if cfg.repaired then some (none, { s with err := true, em := .rel it })
    else some (none, { s with pending := s.pending - 1, em := .latch it })
  | .latch it => some (none, { s with err := true, em := .pushx it })
  | .rel it => some (none, { s with pending := s.pending - 1, em := .push it })
  | .push it =>
    if s.waiting.length < cfg.n then some (none, { s with waiting := s.waiting ++ [it.cid], em := .recv })
    else none
  | .pushx it =>
    if s.waiting.length < cfg.n then some (none, { s with waiting := s.waiting ++ [it.cid], em := .done })
    else none
  | .done => none

/-- the i-th queued compressor's goroutine sends on its `flush` channel (capacity 1) -/
def finishAt : Nat → List Item → Option (List Item)
  | _, [] => none
  | 0, it :: q => if it.st = .compressing then some ({ it with st := .flushed } :: q) else none
  | i + 1, it :: q => (finishAt i q).map (it :: ·)

def next (cfg : Cfg) (s : State) : Label → Option (Option Ev × State)
  | .api => apiStep cfg s
  | .em => emStep cfg s
  | .finQ i => (finishAt i s.queue).map fun q => (none, { s with queue := q })
  | .finE =>
    match s.em with
    | .hold it => if it.st = .compressing then some (none, { s with em := .hold { it with st := .flushed } }) else none
    | _ => none

def Step (cfg : Cfg) (s t : State) : Prop := ∃ l e, next cfg s l = some (e, t)

/-- runs with their observable trace, newest event first -/
inductive Run (cfg : Cfg) : List Ev → State → Prop
  | init : Run cfg [] (init cfg)
  | step {tr s l e t} : Run cfg tr s → next cfg s l = some (e, t) → Run cfg (e.toList ++ tr) t

inductive Reachable (cfg : Cfg) : State → Prop
  | init : Reachable cfg (init cfg)
  | step {s t} : Reachable cfg s → Step cfg s t → Reachable cfg t

/-- labels worth trying in state `s` (every label outside this list is disabled) -/
def labels (s : State) : List Label :=
  [.api, .em, .finE] ++ (List.range s.queue.length).map .finQ

/-- all successors, executable -/
def succs (cfg : Cfg) (s : State) : List (Label × Option Ev × State) :=
  (labels s).filterMap fun l => (next cfg s l).map fun p => (l, p.1, p.2)

def enabled (cfg : Cfg) (s : State) : Bool := !(succs cfg s).isEmpty

/-- the API goroutine has run its whole script and returned from the last call -/
def ApiDone (s : State) : Prop := s.api = .idle ∧ s.script = []

/-- nothing is left to do: script finished, nothing queued, emitter parked on an empty queue (writer never
    closed) or finished (writer closed) -/
def AllIdle (s : State) : Prop :=
  ApiDone s ∧ s.queue = [] ∧ s.pending = 0 ∧ (s.em = .recv ∨ s.em = .done)

instance (s : State) : Decidable (ApiDone s) := by unfold ApiDone; exact inferInstance
instance (s : State) : Decidable (AllIdle s) := by unfold AllIdle; exact inferInstance

/-- after Close has returned, every library goroutine has finished -/
def NoLibraryThread (s : State) : Prop :=
  s.em = .done ∧ s.queue = [] ∧ s.pending = 0

instance (s : State) : Decidable (NoLibraryThread s) := by unfold NoLibraryThread; exact inferInstance

/-! ### the sequential writer (what a writer without goroutines would deliver) -/

/-- number of blocks the script submits when no fault occurs (`closed` = Close already called) -/
def seqBlocks : List Op → Bool → Nat
  | [], _ => 0
  | _ :: rest, true => seqBlocks rest true
  | .write k :: rest, false => k + seqBlocks rest false
  | .flush b :: rest, false => (if b then 1 else 0) + seqBlocks rest false
  | .wait :: rest, false => seqBlocks rest false
  | .close :: rest, false => 1 + seqBlocks rest true

def hasClose (script : List Op) : Bool := script.contains .close

/-- output of the sequential writer: data blocks in submission order, EOF marker iff closed -/
def sequentialWriter (script : List Op) : List Nat × Bool :=
  (List.range (seqBlocks script false), hasClose script)

/-! ### executing a schedule (used by the driver and by the `decide`d witnesses) -/

def runLabels (cfg : Cfg) : State → List Label → Option State
  | s, [] => some s
  | s, l :: ls => match next cfg s l with
    | some (_, t) => runLabels cfg t ls
    | none => none

end Hts.Model.WriterLTS
