/-
Link between the two reader models (core Lean only): the file of the sequential model
(`Hts.Model.Bgzf.File`, members with payload and compressed size) as the `Chain` of the read-ahead protocol
(`Hts.Model.ReadAhead`), and a block of the sequential model as a block of the protocol.
-/
import Hts.Model.BgzfReader
import Hts.Model.ReaderLTS
namespace Hts.Model.ReadAhead
open Hts.Model.Bgzf

/-- The member that starts at `base` ends at `base + csize`; nothing starts anywhere else. -/
def chainOf (F : File) : Chain := fun base =>
  match memberAt F base with
  | .ok m => some (base + m.csize)
  | _ => none

/-- What the protocol sees of a block of the sequential model: its base and `NextBase()` (−1 for the block
of a failed load, which has no header). -/
def blkOf (b : Block) : Blk := ⟨some b.base, if b.hasData then some b.nextBase else none⟩

end Hts.Model.ReadAhead
