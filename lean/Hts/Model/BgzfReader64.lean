/-
The reader model of Model/BgzfReader.lean with `block.txOffset()` as repaired by fixes/C02-1 (core Lean only).

`Offset.Block` is a `uint16`; `block.Read`/`ReadByte` advance it with wrap-around (`Block.read`: `% 65536`).  A BGZF
member may hold up to 65536 bytes, so behind the last byte of such a block the in-block offset is 0 again.  The
repaired `txOffset()` reports that position as `(NextBase, 0)`.  `Reader.setEnd64`, `readLoop64`, `read64`,
`readByte64`, `step64`, `run64` are `setEnd` … `run` of Model/BgzfReader.lean with `txOffset()` where the code calls
it (`lastChunk.Begin`/`End`); `Seek` and the skip loop do not call it and are shared.  On files whose payloads are
all shorter than 65536 bytes the two models coincide (`Lemmas/Reader64.lean`: `run64_eq_run`), which is how the
theorems of C02 (stated for `run`, `WF`: payload < 65536) apply to the repaired reader; for a 65536-byte payload
`run64` is the executable model the implementation is compared with.
-/
import Hts.Model.BgzfReader
namespace Hts.Model.Bgzf
open Hts.Spec.Flat (Offset Chunk Op)

/-- `block.txOffset()` as repaired (fixes/C02-1): behind the last byte of a block holding 65536 bytes the 16-bit
in-block offset has wrapped; the position is the start of the next member. -/
def Block.txOffset (b : Block) : Offset :=
  if b.hasData = true ∧ b.data.length ≤ b.pos ∧ 65535 < b.data.length then ⟨b.nextBase, 0⟩ else b.tx

namespace Reader

def setEnd64 (r : Reader) : Reader := { r with lastChunk := ⟨r.lastChunk.bgn, r.cur.txOffset⟩ }

def readLoop64 : Nat → Reader → Nat → Reader × List UInt8 × Option Err
  | 0, r, _ => ({ r with err := some .fuel }, [], some .fuel)
  | fuel + 1, r, want =>
    if 0 < want ∧ r.err = none then
      match r.cur.read want with
      | (out, false, b) =>
        let (r', rest, e) := readLoop64 fuel { r with cur := b } (want - out.length)
        (r', out ++ rest, e)
      | (out, true, b) =>
        let r := { r with cur := b, err := some .eof }
        if want - out.length = 0 then
          let r := { r with err := none }
          (r.setEnd64, out, r.err)
        else if r.blocked then
          ({ r with err := none }.setEnd64, out, some .eof)
        else
          match r.nextBlock with
          | (r', some e) =>
            let r' := { r' with err := some e }
            (r'.setEnd64, out, r'.err)
          | (r', none) =>
            let (r'', rest, e) := readLoop64 fuel { r' with err := none } (want - out.length)
            (r'', out ++ rest, e)
    else (r.setEnd64, [], r.err)

def read64 (r : Reader) (n : Nat) : Reader × List UInt8 × Option Err :=
  match r.err with
  | some e => (r, [], some e)
  | none =>
    let r := r.skipEmpty r.skipFuel
    match r.err with
    | some e => (r, [], some e)
    | none =>
      let r := { r with lastChunk := ⟨r.cur.txOffset, r.lastChunk.fin⟩ }
      r.readLoop64 r.loopFuel n

def readByte64 (r : Reader) : Reader × UInt8 × Option Err :=
  match r.err with
  | some e => (r, 0, some e)
  | none =>
    let r := r.skipEmpty r.skipFuel
    match r.err with
    | some e => (r, 0, some e)
    | none =>
      let r := { r with lastChunk := ⟨r.cur.txOffset, r.lastChunk.fin⟩ }
      match r.cur.readByte with
      | (c, false, b) =>
        let r := { r with cur := b }
        (r.setEnd64, c, none)
      | (c, true, b) =>
        let r := { r with cur := b, err := some .eof }
        if r.blocked then ({ r with err := none }.setEnd64, c, some .eof)
        else
          let (r', e) := r.nextBlock
          let r' := { r' with err := e }
          (r'.setEnd64, c, e)

def step64 (r : Reader) : Op → Reader × Out
  | .read n => let (r', bs, e) := r.read64 n; (r', ⟨bs, e⟩)
  | .readByte => let (r', c, e) := r.readByte64; (r', ⟨[c], e⟩)
  | .seek o => let (r', e) := r.seek o; (r', ⟨[], e⟩)
  | .setBlocked b => (r.setBlocked b, ⟨[], none⟩)

def run64 (r : Reader) : List Op → List (Out × Reader)
  | [] => []
  | op :: ops => let (r', o) := r.step64 op; (o, r') :: run64 r' ops

end Reader

end Hts.Model.Bgzf
