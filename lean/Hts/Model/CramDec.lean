/-
Explicit-indexing model of the byte-level CRAM readers of cram/cram.go (C11, extension round 4):

  definition.readFrom        the 26-byte file definition (binary.Read + the magic test)
  errorReader.Read/itf8/ltf8/itf8slice   the sticky-error reader and its number readers, WITH values
  Container.readFrom         length int32, ITF-8/LTF-8 fields, landmarks array, CRC32
  Block.readFrom             method, content type, content id, compressed size, raw size, data, CRC32
  Slice.readFrom             the slice header (mapped slice header block)
  Block.Value / expandBlockdata

Same conventions as Hts.Model.Decoders: `Outcome α = ok v | err | panic site`; every index, slice,
`make` with a count taken from the input, and every `binary.LittleEndian.Uint32` call is a partial
operation that yields `panic`; loops carry fuel and running out of fuel is a `panic`.  The model mirrors
the CURRENT code (guards of fixes C11-14/15/16 included).  `hash/crc32` and the decompressors are
parameters.  Core Lean only.

The source is a `bytes.Reader`-like stream: a `Read` delivers what is left (at most what is asked for)
and reports io.EOF only with zero bytes; `io.ReadFull` is modelled by its contract on such a stream.
-/
import Hts.Model.Decoders
namespace Hts.Model.CramDec
open Hts.Model.Decoders
open Hts.Model.Decoders.Outcome (ok err)

/-! ### errorReader over a TeeReader -/

/-- `errorReader{r: io.TeeReader(src, crc)}`: the bytes still to come, whether `er.err` is set (sticky),
and the bytes that went through the tee (what the running CRC-32 has seen) -/
structure St where
  src : Bytes
  failed : Bool := false
  tee : Bytes := []
deriving Repr, DecidableEq

/-- `io.ReadFull(&er, buf)` with `len(buf) = n`: the state after it, the bytes stored into `buf` (fewer
than `n` when the stream ends) and whether it returned a nil error.  `n = 0` never calls `Read`, so it
succeeds even when the sticky error is set. -/
def readFull (r : St) (n : Nat) : St × Bytes × Bool :=
  if n = 0 then (r, [], true)
  else if r.failed then (r, [], false)
  else if n ≤ r.src.length then
    ({ r with src := r.src.drop n, tee := r.tee ++ r.src.take n }, r.src.take n, true)
  else ({ src := [], failed := true, tee := r.tee ++ r.src }, r.src, false)

/-- `l[lo:hi]` with Go `int` bounds -/
def sliceI {α} (site : String) (l : List α) (lo hi : Int) : Outcome (List α) :=
  if lo < 0 ∨ hi < 0 then .panic site else slice site l lo.toNat hi.toNat

/-- the array `[n]byte` after `got` was stored at its start -/
def pad (n : Nat) (got : Bytes) : Bytes := got ++ List.replicate (n - got.length) 0

/-- `binary.LittleEndian.Uint32(b)`: `_ = b[3]` panics on fewer than four bytes -/
def uint32LE (site : String) (b : Bytes) : Outcome Nat :=
  if b.length < 4 then .panic site else ok (u32le b)

def bv (b : Bytes) : List (BitVec 8) := b.map UInt8.toBitVec

/-- one of the two number codecs: the `Decode` function (value as the Go signed integer, announced
width, ok) and the size of the array `errorReader.itf8/ltf8` decodes in -/
structure NumDec where
  site : String
  bufLen : Nat
  dec : List (BitVec 8) → Int × Int × Bool

def itf8Dec : NumDec :=
  ⟨"cram.errorReader.itf8", 5, fun b => ((Hts.Model.Itf8.decode b).1.toInt, (Hts.Model.Itf8.decode b).2.1, (Hts.Model.Itf8.decode b).2.2)⟩
def ltf8Dec : NumDec :=
  ⟨"cram.errorReader.ltf8", 9, fun b => ((Hts.Model.Ltf8.decode b).1.toInt, (Hts.Model.Ltf8.decode b).2.1, (Hts.Model.Ltf8.decode b).2.2)⟩

/-- `errorReader.itf8` / `errorReader.ltf8`: the value returned (0 after an error) and the reader after
it; an error is only recorded in the reader (`failed`), the caller goes on -/
def readNum (D : NumDec) (r : St) : Outcome (St × Int) :=
  match readFull r 1 with
  | (r1, _, false) => ok (r1, 0)
  | (r1, got, true) =>
    let buf := pad D.bufLen got
    match D.dec (bv (buf.take 1)) with
    | (i, _, true) => ok (r1, i)
    | (_, n, false) =>
      match sliceI (D.site ++ ":buf[1:n]") buf 1 n with
      | .panic p => .panic p
      | err => err
      | ok dst =>
        match readFull r1 dst.length with
        | (r2, _, false) => ok (r2, 0)
        | (r2, more, true) =>
          let buf2 := buf.take 1 ++ more ++ buf.drop (1 + more.length)
          match sliceI (D.site ++ ":buf[:n]") buf2 0 n with
          | .panic p => .panic p
          | err => err
          | ok enc =>
            match D.dec (bv enc) with
            | (i, _, true) => ok (r2, i)
            | (i, _, false) => ok ({ r2 with failed := true }, i)

/-- `s[i]` on a slice of length `len` whose elements the model does not materialise -/
def indexLen (site : String) (len i : Nat) : Outcome Unit :=
  if i < len then ok () else .panic site

/-- `s[:i]` on a slice of length (and capacity) `len` -/
def sliceLenTo (site : String) (len i : Nat) : Outcome Unit :=
  if i ≤ len then ok () else .panic site

/-- the first part of `errorReader.itf8slice`: `none` = it returns nil (error, zero count, negative
count), `some n` = it goes on to `make([]int32, n)` -/
def sliceCount (r : St) : Outcome (St × Option Nat) :=
  match readNum itf8Dec r with
  | .panic p => .panic p
  | err => err
  | ok (r1, n) =>
    if r1.failed then ok (r1, none)
    else if n = 0 then ok (r1, none)
    else if n < 0 then ok ({ r1 with failed := true }, none)
    else
      match makeLen "cram.errorReader.itf8slice:make([]int32, n)" n with
      | .panic p => .panic p
      | err => err
      | ok len => ok (r1, some len)

/-- `for i := range s { s[i] = r.itf8(); if r.err != nil { return s[:i] } }; return s` with `len(s) = n`;
`acc` holds `s[0..i)`, `k` iterations are left -/
def sliceLoop : (k : Nat) → (n i : Nat) → St → List Int → Outcome (St × List Int)
  | 0, _, _, r, acc => ok (r, acc)
  | k + 1, n, i, r, acc =>
    match readNum itf8Dec r with
    | .panic p => .panic p
    | err => err
    | ok (r1, v) =>
      match indexLen "cram.errorReader.itf8slice:s[i]" n i with
      | .panic p => .panic p
      | err => err
      | ok _ =>
        if r1.failed then
          match sliceLenTo "cram.errorReader.itf8slice:s[:i]" n i with
          | .panic p => .panic p
          | err => err
          | ok _ => ok (r1, acc)
        else sliceLoop k n (i + 1) r1 (acc ++ [v])

/-- `errorReader.itf8slice` -/
def readSlice32 (r : St) : Outcome (St × List Int) :=
  match sliceCount r with
  | .panic p => .panic p
  | err => err
  | ok (r1, none) => ok (r1, [])
  | ok (r1, some n) => sliceLoop n n 0 r1 []

/-! ### the file definition -/

structure Definition where
  magic : Bytes
  version : Bytes
  id : Bytes
deriving Repr, DecidableEq

def cramMagic : Bytes := [67, 82, 65, 77]

/-- `definition.readFrom`: `binary.Read` of the 26-byte struct (io.ReadFull), then the magic test.
Returns the definition and the rest of the stream. -/
def readDefinition (s : Bytes) : Outcome (Definition × Bytes) :=
  match readFull { src := s } 26 with
  | (_, _, false) => err
  | (r1, got, true) =>
    match slice "cram.definition.readFrom:d.Magic[:]" (got.take 4) 0 4 with
    | .panic p => .panic p
    | err => err
    | ok m =>
      if m ≠ cramMagic then err
      else ok ({ magic := m, version := (got.drop 4).take 2, id := (got.drop 6).take 20 }, r1.src)

/-! ### container header -/

structure Container where
  blockLen : Int
  refID : Int
  start : Int
  span : Int
  nRec : Int
  recCount : Int
  bases : Int
  blocks : Int
  landmarks : List Int
  crc32 : Nat
deriving Repr, DecidableEq

/-- `Container.readFrom`; the result carries the bytes after the header (`blockData` is a
`LimitedReader` of `blockLen` bytes over them, see `limited`) -/
def readContainer (crc32 : Bytes → Nat) (s : Bytes) : Outcome (Container × Bytes) :=
  match readFull { src := s } 4 with
  | (r0, got, _) => do
    let bl ← uint32LE "cram.Container.readFrom:binary.LittleEndian.Uint32(buf[:])#0" (pad 4 got)
    let (r1, refID) ← readNum itf8Dec r0
    let (r2, start) ← readNum itf8Dec r1
    let (r3, span) ← readNum itf8Dec r2
    let (r4, nRec) ← readNum itf8Dec r3
    let (r5, recCount) ← readNum ltf8Dec r4
    let (r6, bases) ← readNum ltf8Dec r5
    let (r7, blocks) ← readNum itf8Dec r6
    let (r8, landmarks) ← readSlice32 r7
    let sum := crc32 r8.tee
    match readFull r8 4 with
    | (_, _, false) => err
    | (r9, got2, true) => do
      let c ← uint32LE "cram.Container.readFrom:binary.LittleEndian.Uint32(buf[:])#1" (pad 4 got2)
      if c ≠ sum then err
      else if r9.failed then err
      else ok ({ blockLen := asInt32 bl, refID, start, span, nRec, recCount, bases, blocks, landmarks, crc32 := c }, r9.src)

/-- what `&io.LimitedReader{R: r, N: int64(c.blockLen)}` can deliver -/
def limited (blockLen : Int) (rest : Bytes) : Bytes := rest.take blockLen.toNat

/-! ### block -/

structure BlockHdr where
  method : Nat
  typ : Nat
  contentID : Int
  compressedSize : Int
  rawSize : Int
deriving Repr, DecidableEq

structure Block extends BlockHdr where
  data : Bytes
  crc32 : Nat
deriving Repr, DecidableEq

/-- `Block.readFrom` up to `make([]byte, b.compressedSize)`: `ok` = the allocation is asked for -/
def blockHeader (s : Bytes) : Outcome (St × BlockHdr) :=
  match readFull { src := s } 2 with
  | (r0, got, _) => do
    let buf := pad 4 got
    let method ← index "cram.Block.readFrom:buf[0]" buf 0
    let typ ← index "cram.Block.readFrom:buf[1]" buf 1
    let (r1, contentID) ← readNum itf8Dec r0
    let (r2, compressedSize) ← readNum itf8Dec r1
    let (r3, rawSize) ← readNum itf8Dec r2
    if method.toNat = 0 ∧ compressedSize ≠ rawSize then err
    else if compressedSize < 0 then err
    else ok (r3, { method := method.toNat, typ := typ.toNat, contentID, compressedSize, rawSize })

/-- `Block.readFrom`: the block and the rest of the stream -/
def readBlock (crc32 : Bytes → Nat) (s : Bytes) : Outcome (Block × Bytes) := do
  let (r3, h) ← blockHeader s
  let n ← makeLen "cram.Block.readFrom:make([]byte, b.compressedSize)" h.compressedSize
  match readFull r3 n with
  | (_, _, false) => err
  | (r4, data, true) =>
    let sum := crc32 r4.tee
    match readFull r4 4 with
    | (_, _, false) => err
    | (r5, got, true) => do
      let c ← uint32LE "cram.Block.readFrom:binary.LittleEndian.Uint32(buf[:])" (pad 4 got)
      if c ≠ sum then err else ok ({ toBlockHdr := h, data, crc32 := c }, r5.src)

/-! ### slice header -/

structure SliceHdr where
  refID : Int
  start : Int
  span : Int
  nRec : Int
  recCount : Int
  blocks : Int
  blockIDs : List Int
  embeddedRefID : Int
  md5 : Bytes
  tags : Bytes
  complete : Bool   -- `readFrom` returned nil
deriving Repr, DecidableEq

/-- `Slice.readFrom(bytes.NewReader(data))` (no tee); `Block.Value` ignores its error, so a partly filled
slice header is a value: `complete = false` -/
def readSliceHdr (s : Bytes) : Outcome SliceHdr :=
  do
    let (r1, refID) ← readNum itf8Dec { src := s }
    let (r2, start) ← readNum itf8Dec r1
    let (r3, span) ← readNum itf8Dec r2
    let (r4, nRec) ← readNum itf8Dec r3
    let (r5, recCount) ← readNum ltf8Dec r4
    let (r6, blocks) ← readNum itf8Dec r5
    let (r7, blockIDs) ← readSlice32 r6
    let (r8, embeddedRefID) ← readNum itf8Dec r7
    match readFull r8 16 with
    | (_, got, false) =>
      ok { refID, start, span, nRec, recCount, blocks, blockIDs, embeddedRefID, md5 := pad 16 got, tags := [], complete := false }
    | (r9, got, true) =>
      -- io.ReadAll(&er): everything that is left; it cannot fail here (the sticky error is clear)
      ok { refID, start, span, nRec, recCount, blocks, blockIDs, embeddedRefID, md5 := got, tags := r9.src, complete := true }

/-! ### Block.Value -/

/-- the decompressors (`compress/gzip`, `compress/bzip2`, xz/lzma behind `io.ReadAll`): method ↦ data ↦
the expanded bytes, `none` = an error.  No law is assumed. -/
structure Expanders where
  expand : Nat → Bytes → Option Bytes

/-- `expandBlockdata` -/
def expandBlockdata (X : Expanders) (method : Nat) (data : Bytes) : Outcome Bytes :=
  if method = 0 then ok data
  else if method = 1 ∨ method = 2 ∨ method = 3 then
    match X.expand method data with
    | some e => ok e
    | none => err
  else err   -- rANS: "unimplemented"; anything else: "unknown method" (fix C11-16)

inductive Value where
  | headerText (text : Bytes)          -- `h.UnmarshalText(text)` is called (its result is C07's subject)
  | slice (s : SliceHdr)
  | block (method : Nat) (data : Bytes)
deriving Repr, DecidableEq

/-- `uint32` addition -/
def add32 (a b : Nat) : Nat := (a + b) % 4294967296

/-- `Block.Value` -/
def blockValue (X : Expanders) (b : Block) : Outcome Value :=
  if b.typ = 0 then do
    let blockData ← expandBlockdata X b.method b.data
    if blockData.length < 4 then err
    else do
      let b4 ← sliceTo "cram.Block.Value:blockData[:4]" blockData 4
      let e ← uint32LE "cram.Block.Value:binary.LittleEndian.Uint32(blockData[:4])" b4
      if e > blockData.length - 4 then err
      else do
        -- repair C11-23: `4+uint64(end)`; before it `4+end` in uint32 wrapped for blockData of 4 GiB or more
        let text ← slice "cram.Block.Value:blockData[4 : 4+end]" blockData 4 (4 + e)
        ok (.headerText text)
  else if b.typ = 2 then do
    let s ← readSliceHdr b.data
    ok (.slice s)
  else if b.method = 1 ∨ b.method = 2 ∨ b.method = 3 then do
    let d ← expandBlockdata X b.method b.data
    ok (.block (b.method ||| 0x80) d)
  else ok (.block b.method b.data)

end Hts.Model.CramDec
