/-
The bridge between the two record models: C06's `SamText.Record` (decoded fields: reference values, base
codes, typed aux values) and C05's `Bam.Record` (what the BAM codec sees: reference indices, packed
`Doublet`s, CIGAR words, raw `sam.Aux` byte strings).  Both stand for the same Go `sam.Record`;
`toBam` lays a decoded record out as Go holds it in memory, `ofBam h` reads the memory form back
against the header `h`.  Core Lean only.

In-memory aux payloads are as `sam.NewAux` builds them: little-endian integers, float bits, `Z` text and
`H` **decoded bytes** without terminator, `B` with element type, 32-bit count and elements.
-/
import Hts.Model.SamText
import Hts.Model.BamRecord
namespace Hts.Model.SamBam
open Hts.Model.SamText
open Hts.Model.Coord (CigarOp)
open Hts.Model.Bam (Byte byteOf putU16 putU32 getU16 getU32)

def b8 (x : UInt8) : Byte := x.toBitVec
def u8 (x : Byte) : UInt8 := UInt8.ofBitVec x

/-- `CigarOp(t) | CigarOp(n)<<4` -/
def cigarWord (co : CigarOp) : BitVec 32 := BitVec.ofNat 32 (co.len * 16 + co.typ)

def cigarOfWord (c : BitVec 32) : CigarOp := ⟨Bam.cigarType c, Bam.cigarLen c⟩

/-- `[]Doublet` of a sequence of base codes: high nibble first, low nibble 0 for an odd tail -/
def packCodes : List (Fin 16) → List Byte
  | [] => []
  | [a] => [byteOf (a.val * 16)]
  | a :: b :: rest => byteOf (a.val * 16 + b.val) :: packCodes rest

/-- the value as an unsigned number of the type's width (two's complement) -/
def intBits (ty : IntTy) (v : Int) : Nat := (v % (2 ^ ty.bits : Nat)).toNat

/-- little-endian bytes of an integer aux value / array element -/
def intBytes (ty : IntTy) (v : Int) : List Byte :=
  match ty with
  | .c | .C => [byteOf (intBits ty v)]
  | .s | .S => putU16 (intBits ty v)
  | .i | .I => putU32 (intBits ty v)

/-- the raw `sam.Aux` of a decoded aux field -/
def auxRaw (a : Aux) : List Byte :=
  [b8 a.t0, b8 a.t1] ++
  match a.val with
  | .char c => [65#8, b8 c]
  | .int ty v => b8 ty.letter :: intBytes ty v
  | .float b => 102#8 :: putU32 b.toNat
  | .text s => 90#8 :: s.map b8
  | .hex s => 72#8 :: s.map b8
  | .ints ty vs => 66#8 :: b8 ty.letter :: (putU32 vs.length ++ vs.flatMap (intBytes ty))
  | .floats bs => 66#8 :: 102#8 :: (putU32 bs.length ++ bs.flatMap fun b => putU32 b.toNat)

/-- the record as the BAM codec sees it -/
def toBam (r : Record) : Bam.Record where
  name := r.name.map b8
  ref := r.ref.map (·.id.toNat)
  pos := r.pos
  mapq := b8 r.mapq
  cigar := r.cigar.map cigarWord
  flags := r.flags.toBitVec
  mateRef := r.mateRef.map (·.id.toNat)
  matePos := r.matePos
  tempLen := r.tempLen
  seqLen := r.seq.length
  seq := packCodes r.seq
  qual := r.qual.map (·.map b8)
  aux := r.aux.map auxRaw

/-! ### reading the memory form back -/

def sgnOf (ty : IntTy) (u : Nat) : Int :=
  if ty.signed && decide (2 ^ (ty.bits - 1) ≤ u) then (u : Int) - (2 ^ ty.bits : Nat) else (u : Int)

/-- `Aux.Value` of an integer type: exactly the type's width -/
def readInt (ty : IntTy) (bs : List Byte) : Option Int :=
  match ty, bs with
  | .c, [a] => some (sgnOf .c a.toNat)
  | .C, [a] => some (sgnOf .C a.toNat)
  | .s, [a, b] => some (sgnOf .s (getU16 a b))
  | .S, [a, b] => some (sgnOf .S (getU16 a b))
  | .i, [a, b, c, d] => some (sgnOf .i (getU32 a b c d))
  | .I, [a, b, c, d] => some (sgnOf .I (getU32 a b c d))
  | _, _ => none

def width (ty : IntTy) : Nat := ty.bits / 8

/-- `n` elements, nothing left over -/
def readInts (ty : IntTy) : Nat → List Byte → Option (List Int)
  | 0, [] => some []
  | 0, _ :: _ => none
  | n + 1, bs =>
    match readInt ty (bs.take (width ty)), readInts ty n (bs.drop (width ty)) with
    | some v, some vs => some (v :: vs)
    | _, _ => none

def readFloats : Nat → List Byte → Option (List UInt32)
  | 0, [] => some []
  | 0, _ :: _ => none
  | n + 1, a :: b :: c :: d :: rest => (readFloats n rest).map (UInt32.ofNat (getU32 a b c d) :: ·)
  | _ + 1, _ => none

/-- `Aux.Tag`, `Aux.Type`, `Aux.Value` of a raw aux -/
def auxOfRaw (a : List Byte) : Option Aux :=
  match a with
  | t0 :: t1 :: t :: v =>
    let mk (x : AuxVal) : Aux := ⟨u8 t0, u8 t1, x⟩
    if t = 65#8 then (match v with | [c] => some (mk (.char (u8 c))) | _ => none)
    else if t = 102#8 then (match v with | [a, b, c, d] => some (mk (.float (UInt32.ofNat (getU32 a b c d)))) | _ => none)
    else if t = 90#8 then some (mk (.text (v.map u8)))
    else if t = 72#8 then some (mk (.hex (v.map u8)))
    else if t = 66#8 then
      match v with
      | sub :: n0 :: n1 :: n2 :: n3 :: elems =>
        if sub = 102#8 then (readFloats (getU32 n0 n1 n2 n3) elems).map fun bs => mk (.floats bs)
        else match IntTy.ofLetter (u8 sub) with
          | some ty => (readInts ty (getU32 n0 n1 n2 n3) elems).map fun vs => mk (.ints ty vs)
          | none => none
      | _ => none
    else match IntTy.ofLetter (u8 t) with
      | some ty => (readInt ty v).map fun x => mk (.int ty x)
      | none => none
  | _ => none

/-- a reference index as the header's reference; `none` = an index the header does not have -/
def refOf (h : Header) : Option Nat → Option (Option Ref)
  | none => some none
  | some i => (h.refAt i).map some

/-- the decoded record of a memory-form record, against the header `h`; `none` when the memory form is
not that of a record (`Seq.Expand` or `Aux.Value` would panic, reference outside the header) -/
def ofBam (h : Header) (b : Bam.Record) : Option Record :=
  match refOf h b.ref, refOf h b.mateRef, Bam.codes b.seqLen b.seq, b.aux.mapM auxOfRaw with
  | some ref, some mate, some cs, some aux =>
    some { name := b.name.map u8, flags := UInt16.ofBitVec b.flags, ref := ref, pos := b.pos, mapq := u8 b.mapq,
           cigar := b.cigar.map cigarOfWord, mateRef := mate, matePos := b.matePos, tempLen := b.tempLen,
           seq := cs.map (Fin.ofNat 16), qual := b.qual.map (·.map u8), aux := aux }
  | _, _, _, _ => none

end Hts.Model.SamBam
