/-
Hand-written model of cram/encoding/ltf8 (Len, Encode, Decode).  Core Lean only.
`Hts.Tie.C20` proves the generated definitions (from the Go AST) equal to these.
-/
import Hts.Model.GoPrim
namespace Hts.Model.Ltf8
open Hts.GoPrim

abbrev Byte := BitVec 8

def len (u : BitVec 64) : Int :=
  if u.ult 0x80#64 then 1
  else if u.ult 0x4000#64 then 2
  else if u.ult 0x200000#64 then 3
  else if u.ult 0x10000000#64 then 4
  else if u.ult 0x800000000#64 then 5
  else if u.ult 0x40000000000#64 then 6
  else if u.ult 0x2000000000000#64 then 7
  else if u.ult 0x100000000000000#64 then 8
  else 9

/-- The bytes `Encode` stores into `b[0..n)`. -/
def encode (u : BitVec 64) : List Byte :=
  if u.ult 0x80#64 then
    [u.setWidth 8]
  else if u.ult 0x4000#64 then
    [(u >>> 8).setWidth 8 &&& 0x3f#8 ||| 0x80#8, u.setWidth 8]
  else if u.ult 0x200000#64 then
    [(u >>> 16).setWidth 8 &&& 0x1f#8 ||| 0xc0#8, (u >>> 8).setWidth 8, u.setWidth 8]
  else if u.ult 0x10000000#64 then
    [(u >>> 24).setWidth 8 &&& 0xf#8 ||| 0xe0#8, (u >>> 16).setWidth 8, (u >>> 8).setWidth 8, u.setWidth 8]
  else if u.ult 0x800000000#64 then
    [(u >>> 32).setWidth 8 &&& 0x7#8 ||| 0xf0#8, (u >>> 24).setWidth 8, (u >>> 16).setWidth 8, (u >>> 8).setWidth 8, u.setWidth 8]
  else if u.ult 0x40000000000#64 then
    [(u >>> 40).setWidth 8 &&& 0x3#8 ||| 0xf8#8, (u >>> 32).setWidth 8, (u >>> 24).setWidth 8, (u >>> 16).setWidth 8, (u >>> 8).setWidth 8, u.setWidth 8]
  else if u.ult 0x2000000000000#64 then
    [(u >>> 48).setWidth 8 &&& 0x1#8 ||| 0xfc#8, (u >>> 40).setWidth 8, (u >>> 32).setWidth 8, (u >>> 24).setWidth 8, (u >>> 16).setWidth 8, (u >>> 8).setWidth 8, u.setWidth 8]
  else if u.ult 0x100000000000000#64 then
    [0xfe#8, (u >>> 48).setWidth 8, (u >>> 40).setWidth 8, (u >>> 32).setWidth 8, (u >>> 24).setWidth 8, (u >>> 16).setWidth 8, (u >>> 8).setWidth 8, u.setWidth 8]
  else
    [0xff#8, (u >>> 56).setWidth 8, (u >>> 48).setWidth 8, (u >>> 40).setWidth 8, (u >>> 32).setWidth 8, (u >>> 24).setWidth 8, (u >>> 16).setWidth 8, (u >>> 8).setWidth 8, u.setWidth 8]

/-- Encoded width announced by the first byte (1..9): leading one bits + 1. -/
def width (b0 : Byte) : Int :=
  if b0.ult 0x80#8 then 1
  else if b0.ult 0xc0#8 then 2
  else if b0.ult 0xe0#8 then 3
  else if b0.ult 0xf0#8 then 4
  else if b0.ult 0xf8#8 then 5
  else if b0.ult 0xfc#8 then 6
  else if b0.ult 0xfe#8 then 7
  else if b0.ult 0xff#8 then 8
  else 9

def z (x : Byte) : BitVec 64 := x.setWidth 64

def decode (b : List Byte) : BitVec 64 × Int × Bool :=
  if b.length = 0 then (0#64, 0, false)
  else
    let n := width (b.getD 0 0#8)
    if (b.length : Int) < n then (0#64, n, false)
    else if n = 1 then (z (b.getD 0 0), n, true)
    else if n = 2 then (z (b.getD 1 0) ||| z (b.getD 0 0 &&& 0x3f#8) <<< 8, n, true)
    else if n = 3 then (z (b.getD 2 0) ||| z (b.getD 1 0) <<< 8 ||| z (b.getD 0 0 &&& 0x1f#8) <<< 16, n, true)
    else if n = 4 then (z (b.getD 3 0) ||| z (b.getD 2 0) <<< 8 ||| z (b.getD 1 0) <<< 16 ||| z (b.getD 0 0 &&& 0xf#8) <<< 24, n, true)
    else if n = 5 then (z (b.getD 4 0) ||| z (b.getD 3 0) <<< 8 ||| z (b.getD 2 0) <<< 16 ||| z (b.getD 1 0) <<< 24 ||| z (b.getD 0 0 &&& 0x7#8) <<< 32, n, true)
    else if n = 6 then (z (b.getD 5 0) ||| z (b.getD 4 0) <<< 8 ||| z (b.getD 3 0) <<< 16 ||| z (b.getD 2 0) <<< 24 ||| z (b.getD 1 0) <<< 32 ||| z (b.getD 0 0 &&& 0x3#8) <<< 40, n, true)
    else if n = 7 then (z (b.getD 6 0) ||| z (b.getD 5 0) <<< 8 ||| z (b.getD 4 0) <<< 16 ||| z (b.getD 3 0) <<< 24 ||| z (b.getD 2 0) <<< 32 ||| z (b.getD 1 0) <<< 40 ||| z (b.getD 0 0 &&& 0x1#8) <<< 48, n, true)
    else if n = 8 then (z (b.getD 7 0) ||| z (b.getD 6 0) <<< 8 ||| z (b.getD 5 0) <<< 16 ||| z (b.getD 4 0) <<< 24 ||| z (b.getD 3 0) <<< 32 ||| z (b.getD 2 0) <<< 40 ||| z (b.getD 1 0) <<< 48, n, true)
    else if n = 9 then (z (b.getD 8 0) ||| z (b.getD 7 0) <<< 8 ||| z (b.getD 6 0) <<< 16 ||| z (b.getD 5 0) <<< 24 ||| z (b.getD 4 0) <<< 32 ||| z (b.getD 3 0) <<< 40 ||| z (b.getD 2 0) <<< 48 ||| z (b.getD 1 0) <<< 56, n, true)
    else (0#64, n, true)

end Hts.Model.Ltf8
