/-
Model of the coordinate arithmetic of sam/record.go (End, Len, Bin), sam/cigar.go (Consumes, Lengths,
IsValid), internal/index.go (BinFor, OverlappingBinsFor) and csi/csi.go (reg2bin, reg2bins).
Core Lean only.

Go `int`/`int64` positions are unbounded `Int` here (no 64-bit overflow: positions are below 2^62);
`uint32` arithmetic (bin numbers, the running level offset `t` of csi.reg2bin) is modelled explicitly
modulo 2^32.  `Consumes` is total since the repair fixes/C11-1-cigar-consumes-undefined-op.diff (an op
type > 10, which a BAM CIGAR word can carry, consumes nothing); the `Option` results are kept so that
the statements of C16 are unchanged, and C11 proves they are always `some`.
-/
import Hts.Model.GoPrim
namespace Hts.Model.Coord

/-! ### CIGAR -/

/-- a CIGAR operation: `Type() = co & 0xf`, `Len() = co >> 4` -/
structure CigarOp where
  typ : Nat
  len : Nat
deriving DecidableEq, Repr

/-- `sam.consume`: (Query, Reference) per operation type; 11 entries (tie: Hts.Tie.C16) -/
def consumeTab : List (Int × Int) :=
  [(1, 1), (1, 0), (0, 1), (0, 1), (1, 0), (0, 0), (0, 0), (1, 1), (1, 1), (0, -1), (0, 0)]

/-- `ct.Consumes()`: `if int(ct) >= len(consume) { return Consume{} }; return consume[ct]`.
(Before the repair fixes/C11-1 this was `consumeTab[t]?`, `none` being Go's index-out-of-range panic.) -/
def consumes (t : Nat) : Option (Int × Int) := some (consumeTab.getD t (0, 0))

def typH : Nat := 5
def typS : Nat := 4
def typB : Nat := 9

/-- `Cigar.Lengths`: the loop with accumulators -/
def lengthsLoop (ref read : Int) : List CigarOp → Option (Int × Int)
  | [] => some (ref, read)
  | co :: rest =>
    match consumes co.typ with
    | none => none
    | some (q, r) =>
      let ref' := if co.typ ≠ typB then ref + co.len * r else ref
      lengthsLoop ref' (read + co.len * q) rest

def cigarLengths (c : List CigarOp) : Option (Int × Int) := lengthsLoop 0 0 c

/-- `Record.End`'s loop: `pos += len*ref; end = max(end, pos)` -/
def endLoop (pos e : Int) : List CigarOp → Option Int
  | [] => some e
  | co :: rest =>
    match consumes co.typ with
    | none => none
    | some (_, r) =>
      let pos' := pos + co.len * r
      endLoop pos' (if e < pos' then pos' else e) rest

/-- `Record.End` -/
def recordEnd (unmapped : Bool) (pos : Int) (cigar : List CigarOp) : Option Int :=
  if unmapped || cigar.isEmpty then some (pos + 1) else endLoop pos pos cigar

/-- `Record.Len` -/
def recordLen (unmapped : Bool) (pos : Int) (cigar : List CigarOp) : Option Int :=
  (recordEnd unmapped pos cigar).map (· - pos)

/-- `Cigar.IsValid`'s loop; `prev` is `c[i-1]`, the list is `c[i:]`, `n = len(c)` -/
def isValidLoop (n : Nat) : (i : Nat) → (prev : Option CigarOp) → (pos length : Int) → List CigarOp → Option Bool
  | _, _, _, length, [] => some (length == 0)
  | i, prev, pos, length, co :: rest =>
    let inner := i ≠ 0 ∧ i ≠ n - 1
    if co.typ = typH ∧ inner then some false
    else if co.typ = typS ∧ inner ∧
        (prev.map (·.typ)) ≠ some typH ∧ (rest.head?.map (·.typ)) ≠ some typH then some false
    else
      match consumes co.typ with
      | none => none
      | some (q, r) =>
        if pos < 0 ∧ q ≠ 0 then some false
        else isValidLoop n (i + 1) (some co) (pos + co.len * r) (length - co.len * q) rest

def cigarIsValid (c : List CigarOp) (length : Int) : Option Bool :=
  isValidLoop c.length 0 none 0 length c

/-! ### BAI bins (internal.BinFor, OverlappingBinsFor) -/

def u32 (x : Int) : Nat := (x % 4294967296).toNat

/-- `internal.BinFor` with `uint32` results as naturals below 2^32 -/
def binFor (beg end_ : Int) : Nat :=
  let e := end_ - 1
  if beg >>> 14 = e >>> 14 then u32 (4681 + (beg >>> 14))
  else if beg >>> 17 = e >>> 17 then u32 (585 + (beg >>> 17))
  else if beg >>> 20 = e >>> 20 then u32 (73 + (beg >>> 20))
  else if beg >>> 23 = e >>> 23 then u32 (9 + (beg >>> 23))
  else if beg >>> 26 = e >>> 26 then u32 (1 + (beg >>> 26))
  else 0

/-- `for k := lo; k <= hi; k++ { list = append(list, k) }` over uint32 (hi < 2^32 - 1) -/
def rangeIncl (lo hi : Nat) : List Nat :=
  if lo ≤ hi then (List.range (hi - lo + 1)).map (lo + ·) else []

/-- the (offset, shift) table of `OverlappingBinsFor` -/
def baiLevels : List (Nat × Nat) := [(1, 26), (9, 23), (73, 20), (585, 17), (4681, 14)]

/-- the loops of `internal.OverlappingBinsFor` (the whole function before repair C04-5) -/
def overlappingBinsForCore (beg end_ : Int) : List Nat :=
  let e := end_ - 1
  0 :: baiLevels.flatMap fun (off, sh) => rangeIncl (u32 (off + (beg >>> sh))) (u32 (off + (e >>> sh)))

/-- `internal.OverlappingBinsFor`: `if end > 1<<29 { end = 1 << 29 }` (repair C04-5: nothing lies beyond
the indexable range; without the limit the uint32 bin arithmetic wraps for `end ≥ 2^46` and the finer
levels are lost), then the loops -/
def overlappingBinsFor (beg end_ : Int) : List Nat :=
  overlappingBinsForCore beg (if end_ > 536870912 then 536870912 else end_)

/-- Go's `for k := lo; k <= hi; k++` over uint32 terminates iff it is not entered or `hi < 2^32-1`
(`k++` wraps to 0 at `hi = 2^32-1` and `k <= hi` stays true): `none` = the loop never exits -/
def goRangeIncl (lo hi : Nat) : Option (List Nat) :=
  if lo ≤ hi ∧ hi = 4294967295 then none else some (rangeIncl lo hi)

/-- `internal.IsValidIndexPos` -/
def isValidIndexPos (i : Int) : Bool := decide (-1 ≤ i) && decide (i ≤ 536870910)

/-- `Record.Bin`: `end := r.End(); if end == r.Pos { end++ }; BinFor(r.Pos, end)` — an alignment that
consumes no reference counts as one base long (repair C16-2; before it `BinFor(Pos, End())`).  The
mate-unmapped flag plays no role. -/
def recordBin (unmapped _mateUnmapped : Bool) (pos : Int) (cigar : List CigarOp) : Option Nat :=
  (recordEnd unmapped pos cigar).map (fun e => binFor pos (if e = pos then e + 1 else e))

/-! ### CSI bins (csi.reg2bin, reg2bins) -/

/-- `1 << x` in uint32 -/
def shl1u32 (x : Nat) : Nat := if x < 32 then 2 ^ x else 0

/-- initial `t := uint32(((1 << (depth*3)) - 1) / 7)` -/
def csiT0 (depth : Nat) : Nat := ((shl1u32 (depth * 3) + 4294967295) % 4294967296) / 7

/-- the loop of csi.reg2bin (`level` counts down, `t -= 1 << ((level-1)*3)` in uint32) -/
def reg2binLoop (beg e : Int) : (level s t : Nat) → Nat
  | 0, _, _ => 0
  | level + 1, s, t =>
    if beg >>> s = e >>> s then (t + u32 (beg >>> s)) % 4294967296
    else reg2binLoop beg e level (s + 3) ((t + 4294967296 - shl1u32 (level * 3)) % 4294967296)

/-- `csi.reg2bin` -/
def reg2bin (beg end_ : Int) (minShift depth : Nat) : Nat :=
  reg2binLoop beg (end_ - 1) depth minShift (csiT0 depth)

/-- the loop of csi.reg2bins: `n` iterations remain, `level` counts up, `s -= 3`, `t += 1 << (level*3)` -/
def reg2binsLoop (beg e : Int) : (n level : Nat) → (s : Int) → (t : Nat) → List Nat
  | 0, _, _, _ => []
  | n + 1, level, s, t =>
    rangeIncl ((t + u32 (beg >>> s.toNat)) % 4294967296) ((t + u32 (e >>> s.toNat)) % 4294967296) ++
      reg2binsLoop beg e n (level + 1) (s - 3) ((t + shl1u32 (level * 3)) % 4294967296)

/-- the loops of `csi.reg2bins` (the whole function before repair C04-6) -/
def reg2binsCore (beg end_ : Int) (minShift depth : Nat) : List Nat :=
  reg2binsLoop beg (end_ - 1) (depth + 1) 0 (minShift + depth * 3 : Nat) 0

/-- the limits repair C04-6 puts before the loops, as in htslib: `if beg < 0 { beg = 0 }`,
`if s < 63 && end > 1<<s { end = 1 << s }` -/
def csiClampBeg (beg : Int) : Int := if beg < 0 then 0 else beg
def csiClampEnd (end_ : Int) (s : Nat) : Int := if s < 63 ∧ end_ > (2 : Int) ^ s then (2 : Int) ^ s else end_

/-- `csi.reg2bins`: the limits, `if beg >= end { return nil }`, then the loops -/
def reg2bins (beg end_ : Int) (minShift depth : Nat) : List Nat :=
  let b := csiClampBeg beg
  let e := csiClampEnd end_ (minShift + depth * 3)
  if b ≥ e then [] else reg2binsCore b e minShift depth

/-- `reg2binsLoop` with Go's loop semantics: `none` = one of the `for i := b; i <= e; i++` loops never exits -/
def reg2binsLoopGo (beg e : Int) : (n level : Nat) → (s : Int) → (t : Nat) → Option (List Nat)
  | 0, _, _, _ => some []
  | n + 1, level, s, t =>
    match goRangeIncl ((t + u32 (beg >>> s.toNat)) % 4294967296) ((t + u32 (e >>> s.toNat)) % 4294967296) with
    | none => none
    | some l =>
      (reg2binsLoopGo beg e n (level + 1) (s - 3) ((t + shl1u32 (level * 3)) % 4294967296)).map (l ++ ·)

/-- the unrepaired `csi.reg2bins` with Go's loop semantics -/
def reg2binsCoreGo (beg end_ : Int) (minShift depth : Nat) : Option (List Nat) :=
  reg2binsLoopGo beg (end_ - 1) (depth + 1) 0 (minShift + depth * 3 : Nat) 0

/-- `csi.reg2bins` with Go's loop semantics -/
def reg2binsGo (beg end_ : Int) (minShift depth : Nat) : Option (List Nat) :=
  let b := csiClampBeg beg
  let e := csiClampEnd end_ (minShift + depth * 3)
  if b ≥ e then some [] else reg2binsCoreGo b e minShift depth

/-- `csi.validIndexPos` -/
def csiValidIndexPos (i : Int) (minShift depth : Nat) : Bool :=
  decide (-1 ≤ i) && decide (i ≤ (2 : Int) ^ (minShift + depth * 3) - 1 - 1)

end Hts.Model.Coord
