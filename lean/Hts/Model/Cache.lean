/-
Executable model of bgzf/cache/cache.go AS IT IS (core Lean only).

Blocks live on a heap (`Heap = Nat → Blk`, block id ↦ what a cache can see of a block: `Base()`,
`Used()`, `NextBase()`), because the caches store *pointers*: `FIFO.Get` reads `n.b.Used()` and `Peek`
reads `n.b.NextBase()` at call time, and the reader overwrites (recycles) blocks it owns.

A cache table/list node is an `Entry (key, id)`: `key` is the map key (`b.Base()` at insertion) and `id`
the block.  LRU and FIFO are `(cap, items)` with `items` in list order `root.next … root.prev`
(front = most recently used / newest used block, back = next eviction victim).  Random is `(cap, items)`
whose order carries no meaning; its evictions are *validated* against the victim the implementation
chose (`hint` / `victims`) instead of predicted (Go map iteration order).

`remove(n, table)` deletes the key the node was inserted under (`n.key`, fixes/C14-2-*.diff), which is
exactly the model's `removeKey … e.key`; the model is therefore faithful for every history, including the
ones in which a block is overwritten while a cache still indexes it (FIFO under reader-style use, any
cache under the harness's `W` op).  On the tree without that repair `remove` deleted
`table[n.b.Base()]` (the block's *current* base): after such an overwrite the eviction left the table
entry behind and `Len() > Cap()` (audit H-2; the harness reports `len-gt-cap` there).  The `Coherent`
predicate of Hts.Lemmas.CacheClient is still what separates the caches that answer `Get(k)` with a block
of base `k` (LRU/Random/StatsRecorder under reader-style use) from FIFO, which does not.

`drop` mirrors the repaired loop (`len(c.table) > 0`); on the unrepaired tree `drop` calls `c.Len()`
under the write lock and never returns (fixes/C14-1-*.diff).
-/
namespace Hts.Model.Cache

/-- what a cache can observe of a block -/
structure Blk where
  base : Int
  used : Bool
  next : Int
deriving DecidableEq, Repr, Inhabited

abbrev Heap := Nat → Blk

structure Entry where
  key : Int
  id : Nat
deriving DecidableEq, Repr

/-- result of `Put(b)` -/
inductive PutRes
  /-- `(b, false)`: not retained, the caller keeps the block -/
  | refused
  /-- `(d, true)`: retained; `d` is nil or the evicted block -/
  | kept (evicted : Option Nat)
  /-- nil dereference in `remove(&c.root, …)`: reachable only with capacity 0 (after `Resize(0)`) -/
  | panic
deriving DecidableEq, Repr

def hasKey (items : List Entry) (k : Int) : Bool := items.any (fun e => e.key == k)

def lookup (items : List Entry) (k : Int) : Option Entry := items.find? (fun e => e.key == k)

def removeKey (items : List Entry) (k : Int) : List Entry := items.filter (fun e => e.key != k)

/-- `for ; n > 0 && len(c.table) > 0; n-- { remove(c.root.prev, c.table) }` -/
def dropBack (items : List Entry) (n : Int) : List Entry :=
  if n ≤ 0 then items else items.take (items.length - n.toNat)

/-! ### LRU and FIFO -/

inductive Kind
  | lru
  | fifo
deriving DecidableEq, Repr

structure LCache where
  cap : Int
  items : List Entry
deriving DecidableEq, Repr

namespace LCache

/-- `NewLRU(n)` / `NewFIFO(n)` for `n ≥ 1` (for `n < 1` the constructors return a nil cache) -/
def new (n : Int) : LCache := ⟨n, []⟩

def len (c : LCache) : Int := c.items.length

/-- `Put` is the same code for LRU and FIFO -/
def put (h : Heap) (c : LCache) (id : Nat) : LCache × PutRes :=
  let b := h id
  if hasKey c.items b.base then (c, .refused)
  else if (c.items.length : Int) = c.cap then
    if !b.used then (c, .refused)
    else match c.items.getLast? with
      | none => (c, .panic)
      | some d => (⟨c.cap, ⟨b.base, id⟩ :: c.items.dropLast⟩, .kept (some d.id))
  else if b.used then (⟨c.cap, ⟨b.base, id⟩ :: c.items⟩, .kept none)
  else (⟨c.cap, c.items ++ [⟨b.base, id⟩]⟩, .kept none)

/-- `Get`: LRU always removes; FIFO removes only a block that is not `Used()` -/
def get (kind : Kind) (h : Heap) (c : LCache) (k : Int) : LCache × Option Nat :=
  match lookup c.items k with
  | none => (c, none)
  | some e =>
    if kind = .fifo ∧ (h e.id).used then (c, some e.id)
    else (⟨c.cap, removeKey c.items k⟩, some e.id)

def peek (h : Heap) (c : LCache) (k : Int) : Bool × Int :=
  match lookup c.items k with
  | none => (false, -1)
  | some e => (true, (h e.id).next)

def drop (c : LCache) (n : Int) : LCache := ⟨c.cap, dropBack c.items n⟩

def resize (c : LCache) (n : Int) : LCache :=
  if n < c.items.length then ⟨n, dropBack c.items (c.items.length - n)⟩ else ⟨n, c.items⟩

/-- `cache.Free(n, c)` -/
def free (c : LCache) (n : Int) : LCache × Bool :=
  let empty := c.cap - c.len
  if n ≤ empty then (c, true)
  else
    let c' := c.drop (n - empty)
    (c', decide (c'.cap - c'.len ≥ n))

end LCache

/-! ### Random -/

structure RCache where
  cap : Int
  items : List Entry
deriving DecidableEq, Repr

namespace RCache

def new (n : Int) : RCache := ⟨n, []⟩

def len (c : RCache) : Int := c.items.length

def anyUnused (h : Heap) (items : List Entry) : Bool := items.any (fun e => !(h e.id).used)

/-- `Put`; `hint` is the block the implementation evicted (needed only when a victim is chosen).
`none` = the observed choice is not one the code can make. -/
def put (h : Heap) (c : RCache) (id : Nat) (hint : Option Nat) : Option (RCache × PutRes) :=
  let b := h id
  if hasKey c.items b.base then some (c, .refused)
  else if (c.items.length : Int) = c.cap then
    if !b.used then some (c, .refused)
    else if c.items.isEmpty then some (⟨c.cap, [⟨b.base, id⟩]⟩, .kept none)
    else match hint with
      | none => none
      | some v =>
        match c.items.find? (fun e => e.id == v) with
        | none => none
        | some e =>
          if (h e.id).used && anyUnused h c.items then none
          else some (⟨c.cap, ⟨b.base, id⟩ :: removeKey c.items e.key⟩, .kept (some e.id))
  else some (⟨c.cap, ⟨b.base, id⟩ :: c.items⟩, .kept none)

def get (c : RCache) (k : Int) : RCache × Option Nat :=
  match lookup c.items k with
  | none => (c, none)
  | some e => (⟨c.cap, removeKey c.items k⟩, some e.id)

def peek (h : Heap) (c : RCache) (k : Int) : Bool × Int :=
  match lookup c.items k with
  | none => (false, -1)
  | some e => (true, (h e.id).next)

def nodupB : List Nat → Bool
  | [] => true
  | x :: xs => !xs.contains x && nodupB xs

/-- is `victims` (block ids) a set of blocks `drop(n)` can delete?  unused blocks go first, then any. -/
def dropOk (h : Heap) (items : List Entry) (n : Int) (victims : List Nat) : Bool :=
  let ids := items.map (·.id)
  let want : Nat := if n ≤ 0 then 0 else min n.toNat items.length
  victims.all (fun v => ids.contains v) && nodupB victims &&
    victims.length == want &&
    (victims.all (fun v => !(h v).used) ||
      items.all (fun e => (h e.id).used || victims.contains e.id))

def dropItems (h : Heap) (items : List Entry) (n : Int) (victims : List Nat) : Option (List Entry) :=
  if dropOk h items n victims then some (items.filter (fun e => !victims.contains e.id)) else none

def drop (h : Heap) (c : RCache) (n : Int) (victims : List Nat) : Option RCache :=
  (dropItems h c.items n victims).map (fun it => ⟨c.cap, it⟩)

def resize (h : Heap) (c : RCache) (n : Int) (victims : List Nat) : Option RCache :=
  if n < c.items.length then (dropItems h c.items (c.items.length - n) victims).map (fun it => ⟨n, it⟩)
  else if victims.isEmpty then some ⟨n, c.items⟩ else none

def free (h : Heap) (c : RCache) (n : Int) (victims : List Nat) : Option (RCache × Bool) :=
  let empty := c.cap - c.len
  if n ≤ empty then (if victims.isEmpty then some (c, true) else none)
  else (c.drop h (n - empty) victims).map (fun c' => (c', decide (c'.cap - c'.len ≥ n)))

/-- all sublists of a list (used by the linearizability search to enumerate Random's choices) -/
def sublists : List Nat → List (List Nat)
  | [] => [[]]
  | x :: xs => let r := sublists xs; r ++ r.map (x :: ·)

def dropChoices (h : Heap) (items : List Entry) (n : Int) : List (List Nat) :=
  (sublists (items.map (·.id))).filter (fun vs => dropOk h items n vs)

end RCache

/-! ### StatsRecorder -/

structure Stats where
  gets : Nat := 0
  misses : Nat := 0
  puts : Nat := 0
  retains : Nat := 0
  evictions : Nat := 0
deriving DecidableEq, Repr

/-- `StatsRecorder.Get`: `Gets++`, inner `Get`, `Misses++` on nil -/
def Stats.onGet (s : Stats) (r : Option Nat) : Stats :=
  let s := { s with gets := s.gets + 1 }
  match r with
  | none => { s with misses := s.misses + 1 }
  | some _ => s

/-- `StatsRecorder.Put`: `Puts++`, inner `Put`, `Retains++` if retained, `Evictions++` if a block came back -/
def Stats.onPut (s : Stats) (r : PutRes) : Stats :=
  let s := { s with puts := s.puts + 1 }
  match r with
  | .kept none => { s with retains := s.retains + 1 }
  | .kept (some _) => { s with retains := s.retains + 1, evictions := s.evictions + 1 }
  | _ => s

end Hts.Model.Cache
