/-
C11 — the line handling of `sam.(*Reader).Read` (sam/sam.go, as repaired by /repo 09e60fc) with explicit
indexing.  `Hts.Lemmas.DecodersSam` proves it equal to `stripCR` of C06's model and panic-free.
Core Lean only.
-/
import Hts.Model.Decoders
import Hts.Model.SamText
namespace Hts.Model.Decoders
open Outcome (ok err)

/-- what `Read` does with the result `b, err := r.r.ReadBytes('\n')` before `UnmarshalSAM`:
`terminated` = `err == nil` (then `b` ends with the delimiter), otherwise `err == io.EOF` with a non-empty `b`
(an empty `b` returns the error):
`if err != nil { if err != io.EOF || len(b) == 0 { return nil, err } } else { b = b[:len(b)-1] };
 if len(b) != 0 && b[len(b)-1] == '\r' { b = b[:len(b)-1] }` -/
def readerLineIdx (b : Bytes) (terminated : Bool) : Outcome Bytes := do
  let b ←
    if terminated then sliceTo "sam.Reader.Read:b[:len(b)-1]" b (b.length - 1)
    else if b.length = 0 then err else pure b
  if b.length ≠ 0 then
    let last ← indexInt "sam.Reader.Read:b[len(b)-1]" b ((b.length : Int) - 1)
    if last = 13 then sliceTo "sam.Reader.Read:b[:len(b)-1]" b (b.length - 1) else pure b
  else pure b

end Hts.Model.Decoders
