/-
C11 — panic-aware models of the repository's own decoding logic, at indexing granularity.
Core Lean only.

Every Go operation that can panic (index, slice, `make` with a negative count, explicit `panic`) is an
explicit partial operation here that yields `Outcome.panic site`; Go's `error` returns are `Outcome.err`.
Nothing is totalised with `getD`/`get!`: a model function is panic-free only if the checks that
dominate the operation in the Go source are present in the model too (the models mirror the code
WITH the repairs fixes/C11-*.diff and the repairs other properties made to the same functions (named
where they matter); on the unrepaired tree the correspondence check disagrees).

Conventions: a byte string is `List UInt8`; Go `int` is 64-bit and modelled as `Int` (the decoders
never get near 2^63: lengths are bounded by the input length, `atoi` by 13 decimal digits);
slices are modelled with capacity = length (every slice expression of the modelled code is guarded
by a length check, so the capacity is never what makes it succeed).

Modelled here: sam.atoi, sam.ParseCigar, sam.NewCigarOp, CigarOpType.String, Cigar.IsValid with its
explicit `c[i-1]`/`c[i+1]`, sam.NewAux (the value kinds ParseAux produces), sam.ParseAux (all type
branches; strconv is a parameter), Aux.Type/Kind/Tag/Value/String and the SAM formatter of aux
fields, bam.parseAux (the aux block walker over bytes, incl. `B` arrays and the `jumps` table).
-/
import Hts.Model.Coord
import Hts.Model.Itf8
import Hts.Model.Ltf8
namespace Hts.Model.Decoders
open Hts.Model.Coord (CigarOp)

/-! ### outcomes -/

inductive Outcome (α : Type) where
  | ok (v : α)
  | err
  | panic (site : String)
deriving Repr, DecidableEq

namespace Outcome
def isPanic {α} : Outcome α → Bool
  | panic _ => true
  | _ => false

def isOk {α} : Outcome α → Bool
  | ok _ => true
  | _ => false

@[inline] def bind {α β} (x : Outcome α) (f : α → Outcome β) : Outcome β :=
  match x with
  | ok v => f v
  | err => err
  | panic s => panic s

instance : Monad Outcome where
  pure := ok
  bind := bind

/-- `ok | err | panic` as text (correspondence) -/
def cls {α} : Outcome α → String
  | ok _ => "ok"
  | err => "err"
  | panic _ => "panic"
end Outcome
open Outcome (ok err)

abbrev Bytes := List UInt8

/-! ### the partial operations of Go -/

/-- `l[i]` -/
def index {α} (site : String) (l : List α) (i : Nat) : Outcome α :=
  match l[i]? with
  | some x => ok x
  | none => .panic site

/-- `l[i]` with a Go `int` index -/
def indexInt {α} (site : String) (l : List α) (i : Int) : Outcome α :=
  if i < 0 then .panic site else index site l i.toNat

/-- `l[lo:]` -/
def sliceFrom {α} (site : String) (l : List α) (lo : Nat) : Outcome (List α) :=
  if lo ≤ l.length then ok (l.drop lo) else .panic site

/-- `l[:hi]` -/
def sliceTo {α} (site : String) (l : List α) (hi : Nat) : Outcome (List α) :=
  if hi ≤ l.length then ok (l.take hi) else .panic site

/-- `l[lo:hi]` -/
def slice {α} (site : String) (l : List α) (lo hi : Nat) : Outcome (List α) :=
  if lo ≤ hi ∧ hi ≤ l.length then ok ((l.take hi).drop lo) else .panic site

/-- `make([]T, n)`: a negative count panics (a huge one is the separate outcome `oom`, not modelled) -/
def makeLen (site : String) (n : Int) : Outcome Nat :=
  if n < 0 then .panic site else ok n.toNat

/-! ### little-endian encodings (encoding/binary) -/

def byteOf (x : Int) : UInt8 := UInt8.ofNat (x % 256).toNat

def le16 (x : Int) : Bytes := [byteOf x, byteOf (x / 256)]
def le32 (x : Int) : Bytes := [byteOf x, byteOf (x / 256), byteOf (x / 65536), byteOf (x / 16777216)]

/-- `binary.LittleEndian.Uint32` of exactly four bytes -/
def u32le (b : Bytes) : Nat :=
  (b.getD 0 0).toNat + 256 * (b.getD 1 0).toNat + 65536 * (b.getD 2 0).toNat + 16777216 * (b.getD 3 0).toNat

/-- `int32(x)` of a uint32 -/
def asInt32 (x : Nat) : Int := if x < 2147483648 then x else (x : Int) - 4294967296

/-! ### sam.atoi and sam.ParseCigar -/

def powers : List Int :=
  [1, 10, 100, 1000, 10000, 100000, 1000000, 10000000, 100000000, 1000000000, 10000000000,
    100000000000, 1000000000000]

/-- the loop of `atoi`: `n += int64(v-'0') * powers[k-i]` (`v-'0'` is byte arithmetic) -/
def atoiLoop (k : Int) : (i : Int) → Bytes → Int → Outcome Int
  | _, [], n => ok n
  | i, v :: rest, n =>
    match indexInt "sam.atoi:powers[k-i]" powers (k - i) with
    | ok p => atoiLoop k (i + 1) rest (n + ((v - 48).toNat : Int) * p)
    | err => err
    | .panic s => .panic s

/-- `sam.atoi` (the `int64(int(n)) != n` test is never true with a 64-bit `int`) -/
def atoi (b : Bytes) : Outcome Int :=
  if b.length > powers.length then err else atoiLoop ((b.length : Int) - 1) 0 b 0

def isDigit (c : UInt8) : Bool := decide (48 ≤ c) && decide (c ≤ 57)

/-- `cigarOpTypeLookup`: "MIDNSHP=XB" ↦ 0..9, everything else ↦ `lastCigar` = 10 -/
def opLookup (c : UInt8) : Nat :=
  if c = 77 then 0 else if c = 73 then 1 else if c = 68 then 2 else if c = 78 then 3
  else if c = 83 then 4 else if c = 72 then 5 else if c = 80 then 6 else if c = 61 then 7
  else if c = 88 then 8 else if c = 66 then 9 else 10

def lastCigar : Nat := 10
def maxOpLen : Int := 268435455

/-- `sam.NewCigarOp`: panics when `uint64(n) > 1<<28-1` -/
def newCigarOp (t : Nat) (n : Int) : Outcome CigarOp :=
  if n < 0 ∨ maxOpLen < n then .panic "sam.NewCigarOp:illegal CIGAR op length" else ok ⟨t, n.toNat⟩

/-- `for { c = append(c, NewCigarOp(op, minInt(n, 1<<28-1))); n -= 1<<28-1; if n <= 0 { break } }` -/
def splitOp (t : Nat) (n : Int) (acc : List CigarOp) : Outcome (List CigarOp) :=
  match newCigarOp t (if n < maxOpLen then n else maxOpLen) with
  | ok co =>
    if _h : n - maxOpLen ≤ 0 then ok (acc ++ [co]) else splitOp t (n - maxOpLen) (acc ++ [co])
  | err => err
  | .panic s => .panic s
termination_by n.toNat
decreasing_by simp only [maxOpLen] at *; omega

/-- the inner scan of `ParseCigar`: `for j := i; j < len(b); j++ { if b[j] < '0' || '9' < b[j] { …; break } }`.
`some j`: the first position at or after `j₀` that holds no digit; `none`: the text ends first. -/
def scanOp (b : Bytes) : (fuel : Nat) → (j : Nat) → Outcome (Option Nat)
  | 0, _ => .panic "sam.ParseCigar:model out of fuel"
  | fuel + 1, j =>
    if b.length ≤ j then ok none
    else
      match index "sam.ParseCigar:b[j]" b j with
      | ok c => if isDigit c then scanOp b fuel (j + 1) else ok (some j)
      | err => err
      | .panic s => .panic s

/-- the outer loop of `sam.ParseCigar` with its explicit `b[j]`, `b[i:j]` (with the repair of fixes/C11-2:
digits that are not followed by an operation are an error).  Fuel `len(b)+1` always suffices
(`Hts.Props.C11.parseCigar_total`); running out of it is a panic of the model. -/
def parseOpsFrom (b : Bytes) : (fuel : Nat) → (i : Nat) → List CigarOp → Outcome (List CigarOp)
  | 0, _, _ => .panic "sam.ParseCigar:model out of fuel"
  | fuel + 1, i, acc =>
    if b.length ≤ i then ok acc
    else
      match scanOp b (b.length + 1) i with
      | ok none => err
      | ok (some j) =>
        match slice "sam.ParseCigar:b[i:j]" b i j with
        | ok ds =>
          match atoi ds with
          | ok n =>
            match index "sam.ParseCigar:cigarOpTypeLookup[b[j]]" b j with
            | ok c =>
              if opLookup c = lastCigar then err
              else
                match splitOp (opLookup c) n acc with
                | ok acc' => parseOpsFrom b fuel (j + 1) acc'
                | err => err
                | .panic s => .panic s
            | err => err
            | .panic s => .panic s
          | err => err
          | .panic s => .panic s
        | err => err
        | .panic s => .panic s
      | err => err
      | .panic s => .panic s

/-- `sam.ParseCigar`: `if len(b) == 1 && b[0] == '*' { return nil, nil }`, then the loops -/
def parseCigar (b : Bytes) : Outcome (List CigarOp) :=
  if b.length = 1 then
    match index "sam.ParseCigar:b[0]" b 0 with
    | ok c => if c = 42 then ok [] else parseOpsFrom b (b.length + 1) 0 []
    | err => err
    | .panic s => .panic s
  else parseOpsFrom b (b.length + 1) 0 []

/-! ### CIGAR accessors that index -/

/-- `cigarOps` = "MIDNSHP=XB?" -/
def cigarOpsTab : List UInt8 := [77, 73, 68, 78, 83, 72, 80, 61, 88, 66, 63]

/-- `CigarOpType.String`: `if ct < 0 || ct > lastCigar { ct = lastCigar }; return cigarOps[ct]` -/
def opString (t : Nat) : Outcome UInt8 :=
  index "sam.CigarOpType.String:cigarOps[ct]" cigarOpsTab (if lastCigar < t then lastCigar else t)

/-- `CigarOpType.Consumes` with the repair of fixes/C11-1 (`int(ct) >= len(consume)` ↦ the zero
value); `Hts.Model.Coord.consumes` is the same function -/
def consumesGo (t : Nat) : Outcome (Int × Int) :=
  if Hts.Model.Coord.consumeTab.length ≤ t then ok (0, 0)
  else index "sam.CigarOpType.Consumes:consume[ct]" Hts.Model.Coord.consumeTab t

/-- `Cigar.Lengths` with `Consumes` as the explicit table look-up -/
def lengthsGo (ref read : Int) : List CigarOp → Outcome (Int × Int)
  | [] => ok (ref, read)
  | co :: rest =>
    match consumesGo co.typ with
    | ok (q, r) => lengthsGo (if co.typ ≠ 9 then ref + co.len * r else ref) (read + co.len * q) rest
    | err => err
    | .panic s => .panic s

/-- the loop of `Record.End` with `Consumes` as the explicit table look-up -/
def endGo (pos e : Int) : List CigarOp → Outcome Int
  | [] => ok e
  | co :: rest =>
    match consumesGo co.typ with
    | ok (_, r) => endGo (pos + co.len * r) (if e < pos + co.len * r then pos + co.len * r else e) rest
    | err => err
    | .panic s => .panic s

/-- `Record.End` (and with it `Len` = `End() - Pos`, `Bin` = `BinFor(Pos, End())`, which add no partial operation) -/
def recordEndGo (unmapped : Bool) (pos : Int) (cigar : List CigarOp) : Outcome Int :=
  if unmapped || cigar.isEmpty then ok (pos + 1) else endGo pos pos cigar

/-- the soft-clip test of `Cigar.IsValid`: `c[i-1].Type() != CigarHardClipped && c[i+1].Type() != CigarHardClipped` -/
def clipCheck (c : List CigarOp) (i : Nat) : Outcome Bool := do
  let p ← index "sam.Cigar.IsValid:c[i-1]" c (i - 1)
  if p.typ ≠ 5 then
    let nx ← index "sam.Cigar.IsValid:c[i+1]" c (i + 1)
    pure (decide (nx.typ ≠ 5))
  else pure false

/-- `Cigar.IsValid` with the explicit indexing of the Go source: `c[i-1]`, `c[i+1]` -/
def isValidGo (c : List CigarOp) : (i : Nat) → (pos length : Int) → List CigarOp → Outcome Bool
  | _, _, length, [] => ok (length == 0)
  | i, pos, length, co :: rest =>
    let inner := decide (i ≠ 0) && decide (i ≠ c.length - 1)
    if co.typ = 5 ∧ inner then ok false
    else do
      let bad ← if co.typ = 4 ∧ inner then clipCheck c i else pure false
      if bad then pure false
      else
        let qr ← consumesGo co.typ
        if pos < 0 ∧ qr.1 ≠ 0 then pure false
        else isValidGo c (i + 1) (pos + co.len * qr.2) (length - co.len * qr.1) rest

def cigarIsValidGo (c : List CigarOp) (length : Int) : Outcome Bool := isValidGo c 0 0 length c

/-! ### aux fields: sam.NewAux, sam.ParseAux -/

/-- the standard-library parsers `sam.ParseAux` calls; `none` is an error return.  They are
parameters: the theorems hold for every instance, the driver instantiates them with the answers the
real `strconv` gave for the same text. -/
structure Parsers where
  atoi : Bytes → Option Int
  parseInt : Nat → Bytes → Option Int
  parseUint : Nat → Bytes → Option Int
  parseFloat32 : Bytes → Option Int

/-- an `error` return of a standard-library call -/
def ofOption {α} : Option α → Outcome α
  | some v => ok v
  | none => err

def hexVal (c : UInt8) : Option Nat :=
  if 48 ≤ c ∧ c ≤ 57 then some (c.toNat - 48)
  else if 97 ≤ c ∧ c ≤ 102 then some (c.toNat - 87)
  else if 65 ≤ c ∧ c ≤ 70 then some (c.toNat - 55)
  else none

/-- `encoding/hex.Decode` into a buffer of `DecodedLen(len(src))` bytes: `none` on a bad digit or an
odd length -/
def hexDecode : Bytes → Option Bytes
  | [] => some []
  | [_] => none
  | a :: b :: rest =>
    match hexVal a, hexVal b, hexDecode rest with
    | some x, some y, some r => some (UInt8.ofNat (x * 16 + y) :: r)
    | _, _, _ => none

/-- `NewAux(t, v)` for `v` an `int` -/
def newAuxInt (t0 t1 : UInt8) (v : Int) : Outcome Bytes :=
  if -128 ≤ v ∧ v ≤ 127 then ok [t0, t1, 99, byteOf v]
  else if -32768 ≤ v ∧ v ≤ 32767 then ok ([t0, t1, 115] ++ le16 v)
  else if -2147483648 ≤ v ∧ v ≤ 2147483647 then ok ([t0, t1, 105] ++ le32 v)
  else err

/-- `NewAux(t, v)` for `v` a `uint` -/
def newAuxUint (t0 t1 : UInt8) (v : Int) : Outcome Bytes :=
  if v ≤ 255 then ok [t0, t1, 67, byteOf v]
  else if v ≤ 65535 then ok ([t0, t1, 83] ++ le16 v)
  else if v ≤ 4294967295 then ok ([t0, t1, 73] ++ le32 v)
  else err

/-- element width of a `B` array by subtype byte -/
def elemSize (sub : UInt8) : Option Nat :=
  if sub = 99 ∨ sub = 67 then some 1
  else if sub = 115 ∨ sub = 83 then some 2
  else if sub = 105 ∨ sub = 73 ∨ sub = 102 then some 4
  else none

def leN (size : Nat) (x : Int) : Bytes :=
  if size = 1 then [byteOf x] else if size = 2 then le16 x else le32 x

/-- `NewAux(t, []T{...})`: header `t0 t1 'B' sub len32` followed by the elements -/
def newAuxArray (t0 t1 sub : UInt8) (size : Nat) (vals : List Int) : Bytes :=
  [t0, t1, 66, sub] ++ le32 vals.length ++ vals.flatMap (leN size)

/-- `bytes.Split(s, []byte{sep})` -/
def splitOn (sep : UInt8) : Bytes → List Bytes
  | [] => [[]]
  | c :: rest =>
    if c = sep then [] :: splitOn sep rest
    else
      match splitOn sep rest with
      | [] => [[c]]
      | f :: fs => (c :: f) :: fs

/-- parse every field with `p`; `none` as soon as one fails -/
def parseAll (p : Bytes → Option Int) : List Bytes → Option (List Int)
  | [] => some []
  | f :: fs =>
    match p f, parseAll p fs with
    | some v, some vs => some (v :: vs)
    | _, _ => none

/-- the parser and element width `ParseAux` uses for an array subtype -/
def arrayParser (P : Parsers) (sub : UInt8) : Option (Nat × (Bytes → Option Int)) :=
  if sub = 99 then some (1, P.parseInt 8)
  else if sub = 67 then some (1, P.parseUint 8)
  else if sub = 115 then some (2, P.parseInt 16)
  else if sub = 83 then some (2, P.parseUint 16)
  else if sub = 105 then some (4, P.parseInt 32)
  else if sub = 73 then some (4, P.parseUint 32)
  else if sub = 102 then some (4, P.parseFloat32)
  else none

/-- the `B` branch of `sam.ParseAux` (as repaired by /repo cef38a2):
`if len(txt) == 0 || (len(txt) > 1 && txt[1] != ',')` is an error, a bare element type is the empty
array (`nf` stays nil), otherwise `nf = bytes.Split(txt[2:], ",")`; then `switch txt[0]` -/
def parseAuxArray (P : Parsers) (t0 t1 : UInt8) (txt : Bytes) : Outcome Bytes :=
  if txt.length = 0 then err
  else do
    let bad ←
      if 1 < txt.length then do
        let comma ← index "sam.ParseAux:txt[1]" txt 1
        pure (decide (comma ≠ 44))
      else pure false
    if bad then err
    else
      let nf ←
        if 1 < txt.length then do
          let body ← sliceFrom "sam.ParseAux:txt[2:]" txt 2
          pure (splitOn 44 body)
        else pure []
      let sub ← index "sam.ParseAux:txt[0]" txt 0
      let (size, p) ← ofOption (arrayParser P sub)
      let vs ← ofOption (parseAll p nf)
      pure (newAuxArray t0 t1 sub size vs)

/-- `sam.ParseAux` -/
def parseAux (P : Parsers) (text : Bytes) : Outcome Bytes :=
  if text.length < 5 then err
  else do
    let c2 ← index "sam.ParseAux:text[2]" text 2
    let c4 ← index "sam.ParseAux:text[4]" text 4
    if c2 ≠ 58 ∨ c4 ≠ 58 then err
    else
      let txt ← sliceFrom "sam.ParseAux:text[5:]" text 5
      let typ ← index "sam.ParseAux:text[3]" text 3
      let t0 ← index "sam.ParseAux:text[0]" text 0
      let t1 ← index "sam.ParseAux:text[1]" text 1
      if typ = 65 then
        if txt.length ≠ 1 then err
        else do
          let v ← index "sam.ParseAux:txt[0]" txt 0
          pure [t0, t1, 65, v]
      else if typ = 105 then do
        let i ← ofOption (P.atoi txt)
        if i < 0 then newAuxInt t0 t1 i else newAuxUint t0 t1 i
      else if typ = 102 then do
        let bits ← ofOption (P.parseFloat32 txt)
        pure ([t0, t1, 102] ++ le32 bits)
      else if typ = 90 then pure ([t0, t1, 90] ++ txt)
      else if typ = 72 then do
        let b ← ofOption (hexDecode txt)
        pure ([t0, t1, 72] ++ b)
      else if typ = 66 then parseAuxArray P t0 t1 txt
      else err

/-! ### aux accessors: Aux.Type, Kind, Tag, Value, String, and the SAM formatter -/

/-- `a.Type()` = `a[2]` (also `a.Kind()` = `auxKind[a[2]]`: a 256-entry table indexed by a byte) -/
def auxType (a : Bytes) : Outcome UInt8 := index "sam.Aux.Type:a[2]" a 2

/-- `a.Tag()`: `copy(t[:], a[:2])` -/
def auxTag (a : Bytes) : Outcome Bytes := sliceTo "sam.Aux.Tag:a[:2]" a 2

/-- does `Aux.Value` hand back a slice (`true`) or something `reflect.Value.Len` panics on? -/
abbrev ValueIsSlice := Bool

/-- the `B` branch of `a.Value()` -/
def auxValueArray (a : Bytes) : Outcome ValueIsSlice := do
  let l ← slice "sam.Aux.Value:a[4:8]" a 4 8
  let sub ← index "sam.Aux.Value:a[3]" a 3
  let n := asInt32 (u32le l)
  match elemSize sub with
  | none => pure false   -- `fmt.Errorf("%%B!(UNKNOWN ARRAY type=%c)", t)`
  | some size =>
    if size = 1 then do
      let _ ← sliceFrom "sam.Aux.Value:a[8:]" a 8
      pure true
    else do
      let cnt ← makeLen "sam.Aux.Value:make([]T, length)" n
      let data ← sliceFrom "sam.Aux.Value:a[8:]" a 8
      -- `binary.Read` fails when fewer than cnt*size bytes are left, and the code panics on that error
      if data.length < cnt * size then .panic "sam.Aux.Value:binary.Read failed" else pure true

/-- `a.Value()`, outcome only: `ok isSlice` -/
def auxValue (a : Bytes) : Outcome ValueIsSlice := do
  let t ← auxType a
  if t = 65 ∨ t = 99 ∨ t = 67 then do
    let _ ← index "sam.Aux.Value:a[3]" a 3
    pure false
  else if t = 115 ∨ t = 83 then do
    let _ ← slice "sam.Aux.Value:a[3:5]" a 3 5
    pure false
  else if t = 105 ∨ t = 73 ∨ t = 102 then do
    let _ ← slice "sam.Aux.Value:a[3:7]" a 3 7
    pure false
  else if t = 90 ∨ t = 72 then do
    let _ ← sliceFrom "sam.Aux.Value:a[3:]" a 3
    pure (decide (t = 72))
  else if t = 66 then auxValueArray a
  else pure false   -- `fmt.Errorf("%%?!(UNKNOWN type=%c)", t)`

/-- `a.String()`: `a.Type()`, `a[:2]`, `a.Kind()`, `a.Value()`, and `a[3]` for arrays -/
def auxString (a : Bytes) : Outcome Unit := do
  let t ← auxType a
  let _ ← auxTag a
  let _ ← auxValue a
  if t = 66 then do
    let _ ← index "sam.Aux.String:a[3]" a 3
    pure ()
  else pure ()

/-- `samAux(a).String()` (used by `Record.MarshalSAM`): for arrays, `reflect.ValueOf(a.Value()).Len()`
panics unless `Value` returned a slice -/
def samAuxString (a : Bytes) : Outcome Unit := do
  let t ← auxType a
  let _ ← auxTag a
  let isSlice ← auxValue a
  if t = 66 then do
    let _ ← index "sam.samAux.String:a[3]" a 3
    if isSlice then pure () else .panic "sam.samAux.String:reflect.Value.Len on a non-slice"
  else pure ()

/-- `a.matches(tag)` on the aux side: `a[1] == tag[1] && a[0] == tag[0]` (`Record.Tag`, which checks
`len(tag) >= 2` itself) -/
def auxMatches (a : Bytes) : Outcome Unit := do
  let _ ← index "sam.Aux.matches:a[1]" a 1
  let _ ← index "sam.Aux.matches:a[0]" a 0
  pure ()

/-- everything the accessor sweep does with one aux field -/
def auxSweep (a : Bytes) : Outcome Unit := do
  let _ ← auxMatches a
  let _ ← auxTag a
  let _ ← auxType a
  let _ ← auxValue a
  let _ ← auxString a
  samAuxString a

/-- what the accessors need of an aux field: three bytes of tag and type, the fixed width of the
type, and for arrays a known element type with a count that fits an `int32` and is covered by the
bytes that follow -/
def wfAux (a : Bytes) : Bool :=
  match a[2]? with
  | none => false
  | some t =>
    if t = 65 ∨ t = 99 ∨ t = 67 then decide (4 ≤ a.length)
    else if t = 115 ∨ t = 83 then decide (5 ≤ a.length)
    else if t = 105 ∨ t = 73 ∨ t = 102 then decide (7 ≤ a.length)
    else if t = 90 ∨ t = 72 then true
    else if t = 66 then
      decide (8 ≤ a.length) &&
        (match elemSize (a.getD 3 0) with
          | none => false
          | some size =>
            decide (u32le ((a.take 8).drop 4) < 2147483648) &&
              decide (u32le ((a.take 8).drop 4) * size + 8 ≤ a.length))
    else false

/-! ### bam.parseAux: the aux block walker -/

/-- `bam.jumps`: value width by type byte; -1 for `Z`, `H`, `B`; 0 for everything else
(tie: Hts.Tie.C11.tie_jumps) -/
def jumpOf (t : UInt8) : Int :=
  if t = 65 ∨ t = 99 ∨ t = 67 then 1
  else if t = 115 ∨ t = 83 then 2
  else if t = 105 ∨ t = 73 ∨ t = 102 then 4
  else if t = 90 ∨ t = 72 ∨ t = 66 then -1
  else 0

/-- `bytes.IndexByte(l, 0)` -/
def indexZero : Bytes → Option Nat
  | [] => none
  | c :: rest => if c = 0 then some 0 else (indexZero rest).map (· + 1)

/-- the `B` case of the walker (repairs fixes/C11-7: `i+8 > len(aux)`, C11-8: subtype check) -/
def auxStepArray (rem : Bytes) : Outcome (Bytes × Nat) :=
  if rem.length < 8 then err
  else do
    let l ← slice "bam.parseAux:aux[i+4:i+8]" rem 4 8
    let sub ← index "bam.parseAux:aux[i+3]" rem 3
    let size ← ofOption (elemSize sub)
    let w := u32le l * size + 8
    if rem.length < w then err
    else do
      let f ← sliceTo "bam.parseAux:aux[i:i+j:i+j]" rem w
      pure (f, w)

/-- the pair loop of `bam.decodeHex`: `for k := 0; k < len(digits); k += 2 { hi, lo := unhex(digits[k]),
unhex(digits[k+1]); if hi < 0 || lo < 0 { return fmt.Errorf("%q", digits[k:k+2]) }; a[3+k/2] = … }`
with `alen = len(a)`. `bam.unhex` is a `switch` on byte ranges with the values of `hexVal`. The bytes
written so far are collected in `out`; running out of `fuel` is a `panic` of the model. -/
def decodeHexLoop (digits : Bytes) (alen : Nat) : (fuel : Nat) → (k : Nat) → Bytes → Outcome Bytes
  | 0, _, _ => .panic "bam.decodeHex:model out of fuel"
  | fuel + 1, k, out =>
    if digits.length ≤ k then ok out
    else do
      let c0 ← index "bam.decodeHex:digits[k]" digits k
      let c1 ← index "bam.decodeHex:digits[k+1]" digits (k + 1)
      match hexVal c0, hexVal c1 with
      | some hi, some lo =>
        if 3 + k / 2 < alen then decodeHexLoop digits alen fuel (k + 2) (out ++ [UInt8.ofNat (hi * 16 + lo)])
        else .panic "bam.decodeHex:a[3+k/2]"
      | _, _ => do
        let _ ← slice "bam.decodeHex:digits[k:k+2]" digits k (k + 2)
        err

/-- `bam.decodeHex(f)` (repair fixes/C05-2: a stored `H` value is its hex digits): `f[3:]`, the parity
check, `make(sam.Aux, 3+len(digits)/2)`, `copy(a, f[:3])`, then the pair loop -/
def decodeHexGo (f : Bytes) : Outcome Bytes := do
  let digits ← sliceFrom "bam.decodeHex:f[3:]" f 3
  if digits.length % 2 ≠ 0 then err
  else do
    let alen ← makeLen "bam.decodeHex:make(sam.Aux, 3+len(digits)/2)" ((3 + digits.length / 2 : Nat) : Int)
    let hd ← sliceTo "bam.decodeHex:f[:3]" f 3
    let body ← decodeHexLoop digits alen (digits.length / 2 + 1) 0 []
    pure (hd ++ body)

/-- one step of the walker on `rem = aux[i:]`: the field and the number of bytes consumed.
With the repairs fixes/C11-7 (bounds), C11-8 (array subtype), C11-9 (zero byte inside the tag),
fixes/C05-2 (`H` digits decoded). -/
def auxStep (rem : Bytes) : Outcome (Bytes × Nat) := do
  let t ← index "bam.parseAux:aux[i+2]" rem 2
  let j := jumpOf t
  if 0 < j then
    let w := (j + 3).toNat
    if rem.length < w then err
    else do
      let f ← sliceTo "bam.parseAux:aux[i:i+j:i+j]" rem w
      pure (f, w)
  else if j < 0 then
    if t = 90 ∨ t = 72 then do
      let z ← ofOption (indexZero rem)
      if z < 3 then err
      else if t = 72 then do
        let f ← sliceTo "bam.parseAux:aux[i:i+j]" rem z
        let a ← decodeHexGo f
        pure (a, z + 1)
      else do
        let f ← sliceTo "bam.parseAux:aux[i:i+j:i+j]" rem z
        pure (f, z + 1)
    else auxStepArray rem
  else err

/-- `bam.parseAux`: `for i := 0; i+2 < len(aux); { ... }`; `fuel` bounds the number of iterations and
`Hts.Props.C11.parseAuxBam_total` shows `aux.length + 1` is always enough (every step consumes ≥ 1
byte): running out of fuel is a `panic` of the model -/
def parseAuxLoop : (fuel : Nat) → Bytes → List Bytes → Outcome (List Bytes)
  | 0, _, _ => .panic "bam.parseAux:model out of fuel"
  | fuel + 1, rem, acc =>
    if rem.length ≤ 2 then ok acc
    else
      match auxStep rem with
      | ok (f, w) => parseAuxLoop fuel (rem.drop w) (acc ++ [f])
      | err => err
      | .panic s => .panic s

def parseAuxBam (aux : Bytes) : Outcome (List Bytes) :=
  if aux.length = 0 then ok [] else parseAuxLoop (aux.length + 1) aux []

/-! ### ITF-8 / LTF-8: the indexing of `Decode` and of the stream readers `errorReader.itf8/ltf8` -/

/-- read `b[k]` for every `k` of the list, in order -/
def indexAll (site : String) (b : Bytes) : List Nat → Outcome Unit
  | [] => ok ()
  | k :: ks =>
    match index site b k with
    | ok _ => indexAll site b ks
    | err => err
    | .panic s => .panic s

/-- the indexing of `itf8.Decode` / `ltf8.Decode`: `len(b) == 0` and `len(b) < n` return before any
`b[k]`; the `switch n` arm reads `b[0] .. b[n-1]`.  `width` is the announced width (leading one bits
of the first byte + 1; Hts.Model.Itf8.width / Ltf8.width, tied to the Go code by Hts.Tie.C20). -/
def decodeIdx (site : String) (width : UInt8 → Int) (b : Bytes) : Outcome Bool :=
  if b.length = 0 then ok false
  else
    match index site b 0 with
    | ok b0 =>
      let n := (width b0).toNat
      if b.length < n then ok false
      else
        match indexAll site b (List.range n) with
        | ok _ => ok true
        | err => err
        | .panic s => .panic s
    | err => err
    | .panic s => .panic s

def itf8Width (b0 : UInt8) : Int := Hts.Model.Itf8.width b0.toBitVec
def ltf8Width (b0 : UInt8) : Int := Hts.Model.Ltf8.width b0.toBitVec

/-- `errorReader.itf8` / `ltf8`: after the first byte, `io.ReadFull(r, buf[1:n])` and `Decode(buf[:n])`
on a `[bufLen]byte` array (`bufLen` = 5, resp. 9), `n` = announced width.  `true`: got a value. -/
def streamRead (site : String) (width : UInt8 → Int) (bufLen : Nat) (s : Bytes) : Outcome Bool :=
  match s with
  | [] => err
  | b0 :: rest =>
    let n := (width b0).toNat
    if n = 1 then ok true
    else
      match slice site (List.replicate bufLen (0 : UInt8)) 1 n, sliceTo site (List.replicate bufLen (0 : UInt8)) n with
      | ok _, ok _ => if rest.length < n - 1 then err else ok true
      | .panic s, _ => .panic s
      | _, .panic s => .panic s
      | _, _ => err

end Hts.Model.Decoders
