/-
The sequential `bgzf.Reader` (Model/BgzfReader.lean) over an underlying reader/seeker that may fail.
Core Lean only.

Every interaction with the underlying source happens inside `nextBlockAt` (an optional `Seek`, then the
`Read`s of one member): a *load*.  The member is buffered completely before any of its payload is handed out,
so a fault at any underlying `Read` or `Seek` of a load — an error, an error after partial data, a premature
end of input inside the member — makes that load fail with a non-`io.EOF` error (`LoadFault.err`); a source
that reports end of input exactly where the member would start makes the load report `io.EOF`
(`LoadFault.eof`: a source truncated at a member boundary, which no reader can tell from a shorter file).
The fault oracle is the list of outcomes the source imposes on the coming load attempts, in program order
(exhausted: no further fault), so every pattern — the k-th underlying call failing once, a window, for ever —
is an oracle.  A failed load leaves the block of `decompressor.failAt`: labelled with the offset asked for,
no header, no data (`Block.failed`).

The functions are those of Model/BgzfReader.lean with `nextBlock`/`Seek`'s load going through the oracle
(`FReader.step_nofault`: with an empty oracle they coincide with the fault-free model).
-/
import Hts.Model.BgzfReader
namespace Hts.Model.Bgzf
open Hts.Spec.Flat (Offset Chunk Op)

inductive LoadFault where
  | ok
  | err
  | eof
deriving DecidableEq, Repr

structure FReader where
  r : Reader
  oracle : List LoadFault

namespace FReader

/-- One load attempt through the oracle: `dec.using(cur).nextBlockAt(base).wait()`. -/
def loadAt (x : FReader) (base : Nat) : FReader × Option Err :=
  match x.oracle with
  | .err :: rest => (⟨{ x.r with cur := Block.failed base }, rest⟩, some .other)
  | .eof :: rest => (⟨{ x.r with cur := Block.failed base }, rest⟩, some .eof)
  | .ok :: rest => let (b, e) := x.r.cur.load x.r.file base; (⟨{ x.r with cur := b }, rest⟩, e)
  | [] => let (b, e) := x.r.cur.load x.r.file base; (⟨{ x.r with cur := b }, []⟩, e)

/-- `nextBlock` -/
def nextBlock (x : FReader) : FReader × Option Err := x.loadAt x.r.cur.nextBase

def withR (x : FReader) (f : Reader → Reader) : FReader := ⟨f x.r, x.oracle⟩

/-- the empty-block skipping loop of `Read`/`ReadByte` -/
def skipEmpty : Nat → FReader → FReader
  | 0, x => x.withR fun r => { r with err := some .fuel }
  | fuel + 1, x =>
    if x.r.cur.len = 0 then
      match x.nextBlock with
      | (x', some e) => x'.withR fun r => { r with err := some e }
      | (x', none) => skipEmpty fuel (x'.withR fun r => { r with err := none })
    else x

/-- the copy loop of `Read` (see `Reader.readLoop`) -/
def readLoop : Nat → FReader → Nat → FReader × List UInt8 × Option Err
  | 0, x, _ => (x.withR fun r => { r with err := some .fuel }, [], some .fuel)
  | fuel + 1, x, want =>
    if 0 < want ∧ x.r.err = none then
      match x.r.cur.read want with
      | (out, false, b) =>
        let (x', rest, e) := readLoop fuel (x.withR fun r => { r with cur := b }) (want - out.length)
        (x', out ++ rest, e)
      | (out, true, b) =>
        let x := x.withR fun r => { r with cur := b, err := some .eof }
        if want - out.length = 0 then
          let x := x.withR fun r => { r with err := none }
          (x.withR Reader.setEnd, out, x.r.err)
        else if x.r.blocked then
          ((x.withR fun r => { r with err := none }).withR Reader.setEnd, out, some .eof)
        else
          match x.nextBlock with
          | (x', some e) =>
            let x' := x'.withR fun r => { r with err := some e }
            (x'.withR Reader.setEnd, out, x'.r.err)
          | (x', none) =>
            let (x'', rest, e) := readLoop fuel (x'.withR fun r => { r with err := none }) (want - out.length)
            (x'', out ++ rest, e)
    else (x.withR Reader.setEnd, [], x.r.err)

/-- `Reader.Read(p)`, `len(p) = n` -/
def read (x : FReader) (n : Nat) : FReader × List UInt8 × Option Err :=
  match x.r.err with
  | some e => (x, [], some e)
  | none =>
    let x := x.skipEmpty x.r.skipFuel
    match x.r.err with
    | some e => (x, [], some e)
    | none =>
      let x := x.withR fun r => { r with lastChunk := ⟨r.cur.tx, r.lastChunk.fin⟩ }
      x.readLoop x.r.loopFuel n

/-- `Reader.ReadByte()` -/
def readByte (x : FReader) : FReader × UInt8 × Option Err :=
  match x.r.err with
  | some e => (x, 0, some e)
  | none =>
    let x := x.skipEmpty x.r.skipFuel
    match x.r.err with
    | some e => (x, 0, some e)
    | none =>
      let x := x.withR fun r => { r with lastChunk := ⟨r.cur.tx, r.lastChunk.fin⟩ }
      match x.r.cur.readByte with
      | (c, false, b) => ((x.withR fun r => { r with cur := b }).withR Reader.setEnd, c, none)
      | (c, true, b) =>
        let x := x.withR fun r => { r with cur := b, err := some .eof }
        if x.r.blocked then ((x.withR fun r => { r with err := none }).withR Reader.setEnd, c, some .eof)
        else
          let (x', e) := x.nextBlock
          ((x'.withR fun r => { r with err := e }).withR Reader.setEnd, c, e)

/-- `Reader.Seek(off)` -/
def seek (x : FReader) (off : Offset) : FReader × Option Err :=
  if off.file ≠ x.r.cur.base ∨ x.r.cur.hasData = false then
    match x.loadAt off.file with
    | (x', some e) => (x'.withR fun r => { r with err := some e }, some e)
    | (x', none) =>
      (x'.withR fun r => { r with cur := r.cur.seek off.block, err := none, lastChunk := ⟨off, off⟩ }, none)
  else
    (x.withR fun r => { r with cur := r.cur.seek off.block, err := none, lastChunk := ⟨off, off⟩ }, none)

def step (x : FReader) : Op → FReader × Out
  | .read n => let (x', bs, e) := x.read n; (x', ⟨bs, e⟩)
  | .readByte => let (x', c, e) := x.readByte; (x', ⟨if e = none then [c] else [], e⟩)  -- a byte returned with an error is not data
  | .seek o => let (x', e) := x.seek o; (x', ⟨[], e⟩)
  | .setBlocked b => (x.withR fun r => r.setBlocked b, ⟨[], none⟩)

/-- `Close` (rd = 1: no goroutine to stop): `if bg.err == io.EOF { return nil }; return bg.err`. -/
def close (x : FReader) : Option Err :=
  match x.r.err with
  | some .eof => none
  | e => e

/-- Run a history: per operation the output and the state after it. -/
def run (x : FReader) : List Op → List (Out × FReader)
  | [] => []
  | op :: ops => let (x', o) := x.step op; (o, x') :: run x' ops

end FReader
end Hts.Model.Bgzf
