/-
The abstraction from a library record to the SAM specification's alignment (`toSpec`), and the
class of records the round-trip property is about (`Expressible`, decidable).  Core Lean only.
-/
import Hts.Model.SamText
import Hts.Spec.SamLine
namespace Hts.Model.SamText
open Hts.Model.Coord (CigarOp cigarIsValid)
open Hts.Spec.SamLine (Alignment Opt OptVal RNext QNameChar RNameOK PrintChar PrintOrSpace TagOK)

/-! ### what a record means in the specification's terms -/

def optOfAux (a : Aux) : Opt :=
  ⟨a.t0, a.t1,
    match a.val with
    | .char c => .A c
    | .int _ v => .i v
    | .float b => .f b
    | .text s => .Z s
    | .hex b => .H b
    | .ints ty vs => .Bint ty.letter vs
    | .floats vs => .Bfloat vs⟩

/-- qualities are absent when the slice is nil or holds only 0xff (the BAM convention, section 4.2.4) -/
def specQual (q : Option Bytes) : Option (List Nat) :=
  match q with
  | none => none
  | some q => if q.any (· != 255) then some (q.map UInt8.toNat) else none

def specRNext (ref mate : Option Ref) : RNext :=
  match mate with
  | none => .unavailable
  | some m => if ref = some m then .same else .name m.name

/-- POS and PNEXT are 1-based in SAM, 0-based in the record -/
def toSpec (r : Record) : Alignment where
  qname := r.name
  flag := r.flags.toNat
  rname := r.ref.map (·.name)
  pos := r.pos + 1
  mapq := r.mapq.toNat
  cigar := r.cigar.map fun co => (co.len, co.typ)
  rnext := specRNext r.ref r.mateRef
  pnext := r.matePos + 1
  tlen := r.tempLen
  seq := r.seq.map Hts.Spec.SamLine.baseOfCode
  qual := specQual r.qual
  opt := r.aux.map optOfAux

/-! ### records expressible in SAM text -/

/-- header invariant: reference names are valid RNAMEs and pairwise different -/
def HeaderOK (h : Header) : Prop :=
  (∀ p ∈ h.refs, RNameOK p.1) ∧ (h.refs.map (·.1)).Nodup
instance (h : Header) : Decidable (HeaderOK h) := by unfold HeaderOK; infer_instance

/-- the reference value is the header's reference with that id -/
def RefIn (h : Header) (x : Ref) : Prop := 0 ≤ x.id ∧ h.refAt x.id.toNat = some x
instance (h : Header) (x : Ref) : Decidable (RefIn h x) := by unfold RefIn; infer_instance

def OptRefIn (h : Header) : Option Ref → Prop
  | none => True
  | some x => RefIn h x
instance (h : Header) (x : Option Ref) : Decidable (OptRefIn h x) := by
  unfold OptRefIn; split <;> infer_instance

/-- QNAME `[!-?A-~]{1,254}` -/
def NameOK (n : Bytes) : Prop := 1 ≤ n.length ∧ n.length ≤ 254 ∧ ∀ c ∈ n, QNameChar c
instance (n : Bytes) : Decidable (NameOK n) := by unfold NameOK; infer_instance

/-- Go `int` fields: POS, PNEXT (stored 0-based, printed 1-based) and TLEN fit 64 bits -/
def IntsOK (r : Record) : Prop :=
  -9223372036854775808 ≤ r.pos ∧ r.pos + 1 < 9223372036854775808 ∧
  -9223372036854775808 ≤ r.matePos ∧ r.matePos + 1 < 9223372036854775808 ∧
  -9223372036854775808 ≤ r.tempLen ∧ r.tempLen < 9223372036854775808
instance (r : Record) : Decidable (IntsOK r) := by unfold IntsOK; infer_instance

/-- CIGAR: the nine SAM operations, lengths as a `CigarOp` holds them (28 bits), and consistent with
the sequence when both are present (query-consuming lengths sum to the sequence length, clipping
only at the ends: `Cigar.IsValid`) -/
def CigarOK (r : Record) : Prop :=
  (∀ co ∈ r.cigar, co.typ ≤ 8 ∧ co.len < 268435456) ∧
  (r.cigar = [] ∨ r.seq = [] ∨ cigarIsValid r.cigar r.seq.length = some true)
instance (r : Record) : Decidable (CigarOK r) := by unfold CigarOK; infer_instance

/-- QUAL: absent (nil, or only 0xff with the sequence's length), or one Phred value 0..93 per base.
A single quality 9 cannot be expressed: its text is `*`, the marker of absent qualities (an
ambiguity of the format itself). -/
def QualOK (r : Record) : Prop :=
  match r.qual with
  | none => True
  | some q =>
    q.length = r.seq.length ∧ ((∀ v ∈ q, v = 255) ∨ ((∀ v ∈ q, v ≤ 93) ∧ q ≠ [9]))
instance (r : Record) : Decidable (QualOK r) := by unfold QualOK; split <;> infer_instance

/-- an optional field: TAG `[A-Za-z][A-Za-z0-9]`, A `[!-~]`, Z `[ !-~]*`, integers inside their type -/
def AuxOK (a : Aux) : Prop :=
  TagOK a.t0 a.t1 ∧
  match a.val with
  | .char c => PrintChar c
  | .int ty v => ty.lo ≤ v ∧ v ≤ ty.hi
  | .text s => ∀ c ∈ s, PrintOrSpace c
  | .ints ty vs => ∀ v ∈ vs, ty.lo ≤ v ∧ v ≤ ty.hi
  | _ => True
instance (a : Aux) : Decidable (AuxOK a) := by unfold AuxOK; split <;> infer_instance

/-- a record expressible in SAM text against the header `h` -/
def Expressible (h : Header) (r : Record) : Prop :=
  NameOK r.name ∧ OptRefIn h r.ref ∧ OptRefIn h r.mateRef ∧ IntsOK r ∧ CigarOK r ∧ QualOK r ∧
  ∀ a ∈ r.aux, AuxOK a
instance (h : Header) (r : Record) : Decidable (Expressible h r) := by unfold Expressible; infer_instance

end Hts.Model.SamText
