/-
The abstraction from a library record to the SAM specification's alignment (`toSpec`), and the
class of records the round-trip property is about (`Expressible`, decidable).  Core Lean only.
-/
import Hts.Model.SamText
import Hts.Spec.SamLine
namespace Hts.Model.SamText
open Hts.Model.Coord (CigarOp cigarIsValid)
open Hts.Spec.SamLine (Alignment Opt OptVal RNext QNameChar RNameOK PrintChar PrintOrSpace TagOK)

/-! ### what a record means in the specification's terms -/

def optOfAux (a : Aux) : Opt :=
  ⟨a.t0, a.t1,
    match a.val with
    | .char c => .A c
    | .int _ v => .i v
    | .float b => .f b
    | .text s => .Z s
    | .hex b => .H b
    | .ints ty vs => .Bint ty.letter vs
    | .floats vs => .Bfloat vs⟩

/-- qualities are absent when the slice is nil or holds only 0xff (the BAM convention, section 4.2.4) -/
def specQual (q : Option Bytes) : Option (List Nat) :=
  match q with
  | none => none
  | some q => if q.any (· != 255) then some (q.map UInt8.toNat) else none

def specRNext (ref mate : Option Ref) : RNext :=
  match mate with
  | none => .unavailable
  | some m => if ref = some m then .same else .name m.name

/-- POS and PNEXT are 1-based in SAM, 0-based in the record -/
def toSpec (r : Record) : Alignment where
  qname := r.name
  flag := r.flags.toNat
  rname := r.ref.map (·.name)
  pos := r.pos + 1
  mapq := r.mapq.toNat
  cigar := r.cigar.map fun co => (co.len, co.typ)
  rnext := specRNext r.ref r.mateRef
  pnext := r.matePos + 1
  tlen := r.tempLen
  seq := r.seq.map Hts.Spec.SamLine.baseOfCode
  qual := specQual r.qual
  opt := r.aux.map optOfAux

/-! ### records expressible in SAM text -/

/-- header invariant: reference names are valid RNAMEs and pairwise different -/
def HeaderOK (h : Header) : Prop :=
  (∀ p ∈ h.refs, RNameOK p.1) ∧ (h.refs.map (·.1)).Nodup
instance (h : Header) : Decidable (HeaderOK h) := by unfold HeaderOK; infer_instance

/-- the reference value is the header's reference with that id -/
def RefIn (h : Header) (x : Ref) : Prop := 0 ≤ x.id ∧ h.refAt x.id.toNat = some x
instance (h : Header) (x : Ref) : Decidable (RefIn h x) := by unfold RefIn; infer_instance

def OptRefIn (h : Header) : Option Ref → Prop
  | none => True
  | some x => RefIn h x
instance (h : Header) (x : Option Ref) : Decidable (OptRefIn h x) := by
  unfold OptRefIn; split <;> infer_instance

/-- QNAME `[!-?A-~]{1,254}` -/
def NameOK (n : Bytes) : Prop := 1 ≤ n.length ∧ n.length ≤ 254 ∧ ∀ c ∈ n, QNameChar c
instance (n : Bytes) : Decidable (NameOK n) := by unfold NameOK; infer_instance

/-- Go `int` fields: POS, PNEXT (stored 0-based, printed 1-based) and TLEN fit 64 bits -/
def IntsOK (r : Record) : Prop :=
  -9223372036854775808 ≤ r.pos ∧ r.pos + 1 < 9223372036854775808 ∧
  -9223372036854775808 ≤ r.matePos ∧ r.matePos + 1 < 9223372036854775808 ∧
  -9223372036854775808 ≤ r.tempLen ∧ r.tempLen < 9223372036854775808
instance (r : Record) : Decidable (IntsOK r) := by unfold IntsOK; infer_instance

/-- CIGAR: the nine SAM operations, lengths as a `CigarOp` holds them (28 bits), and consistent with
the sequence when both are present (query-consuming lengths sum to the sequence length, clipping
only at the ends: `Cigar.IsValid`) -/
def CigarOK (r : Record) : Prop :=
  (∀ co ∈ r.cigar, co.typ ≤ 8 ∧ co.len < 268435456) ∧
  (r.cigar = [] ∨ r.seq = [] ∨ cigarIsValid r.cigar r.seq.length = some true)
instance (r : Record) : Decidable (CigarOK r) := by unfold CigarOK; infer_instance

/-- QUAL: absent (nil, or only 0xff with the sequence's length), or one Phred value 0..93 per base.
A single quality 9 cannot be expressed: its text is `*`, the marker of absent qualities (an
ambiguity of the format itself). -/
def QualOK (r : Record) : Prop :=
  match r.qual with
  | none => True
  | some q =>
    q.length = r.seq.length ∧ ((∀ v ∈ q, v = 255) ∨ ((∀ v ∈ q, v ≤ 93) ∧ q ≠ [9]))
instance (r : Record) : Decidable (QualOK r) := by unfold QualOK; split <;> infer_instance

/-- an optional field: TAG `[A-Za-z][A-Za-z0-9]`, A `[!-~]`, Z `[ !-~]*`, integers inside their type -/
def AuxOK (a : Aux) : Prop :=
  TagOK a.t0 a.t1 ∧
  match a.val with
  | .char c => PrintChar c
  | .int ty v => ty.lo ≤ v ∧ v ≤ ty.hi
  | .text s => ∀ c ∈ s, PrintOrSpace c
  | .ints ty vs => ∀ v ∈ vs, ty.lo ≤ v ∧ v ≤ ty.hi
  | _ => True
instance (a : Aux) : Decidable (AuxOK a) := by unfold AuxOK; split <;> infer_instance

/-- a record expressible in SAM text against the header `h` -/
def Expressible (h : Header) (r : Record) : Prop :=
  NameOK r.name ∧ OptRefIn h r.ref ∧ OptRefIn h r.mateRef ∧ IntsOK r ∧ CigarOK r ∧ QualOK r ∧
  ∀ a ∈ r.aux, AuxOK a
instance (h : Header) (r : Record) : Decidable (Expressible h r) := by unfold Expressible; infer_instance


/-! ### the float parameter's assumed laws, and field equality -/

/-- a NaN bit pattern of a float32: exponent all ones, mantissa not zero -/
def isNaN32 (b : UInt32) : Prop := (b >>> 23) &&& 255 = 255 ∧ b &&& 8388607 ≠ 0
instance (b : UInt32) : Decidable (isNaN32 b) := by unfold isNaN32; infer_instance

/-- equal as float values: the same bits, or both NaN (text does not carry NaN payloads) -/
def floatEq (a b : UInt32) : Prop := a = b ∨ (isNaN32 a ∧ isNaN32 b)
instance (a b : UInt32) : Decidable (floatEq a b) := by unfold floatEq; infer_instance

/-- what is assumed of `fmt`'s `%v` and strconv.ParseFloat on float32 values (sampled by the harness on
every generated float): parsing the printed text gives the value back (`canon b`: `b` itself, or the
NaN ParseFloat returns when `b` is a NaN), which prints the same; the text contains no TAB, comma, LF, CR -/
structure FloatLaws (ft : FloatText) where
  canon : UInt32 → UInt32
  parse_fmt : ∀ b, ft.parse (ft.fmt b) = some (canon b)
  fmt_canon : ∀ b, ft.fmt (canon b) = ft.fmt b
  canon_eq : ∀ b, floatEq b (canon b)
  no_sep : ∀ b, ∀ c ∈ ft.fmt b, c ≠ 9 ∧ c ≠ 44 ∧ c ≠ 10 ∧ c ≠ 13

/-- the smallest integer type NewAux picks for a value read from text -/
def narrowTy (v : Int) : IntTy :=
  if v < 0 then (if -128 ≤ v then .c else if -32768 ≤ v then .s else .i)
  else (if v ≤ 255 then .C else if v ≤ 65535 then .S else .I)

/-- the aux value ParseAux returns for the text of `v` -/
def canonVal {ft : FloatText} (L : FloatLaws ft) : AuxVal → AuxVal
  | .int _ v => .int (narrowTy v) v
  | .float b => .float (L.canon b)
  | .floats bs => .floats (bs.map L.canon)
  | v => v

def canonAux {ft : FloatText} (L : FloatLaws ft) (a : Aux) : Aux := ⟨a.t0, a.t1, canonVal L a.val⟩

/-- the qualities UnmarshalSAM returns for the text of `r`'s: absent qualities come back as a run of
0xff of the sequence's length (nil for an empty sequence) -/
def canonQual (r : Record) : Option Bytes :=
  let absent := if r.seq.length ≠ 0 then some (List.replicate r.seq.length 255) else none
  match r.qual with
  | none => absent
  | some q => if q.any (· != 255) then some q else absent

/-- the record UnmarshalSAM returns for the line of `r` -/
def canonRecord {ft : FloatText} (L : FloatLaws ft) (r : Record) : Record :=
  { r with qual := canonQual r, aux := r.aux.map (canonAux L) }

/-- two lists of the same length whose elements are related pairwise -/
def listRel {α β} (R : α → β → Prop) : List α → List β → Prop
  | [], [] => True
  | a :: as, b :: bs => R a b ∧ listRel R as bs
  | _, _ => False

def auxValEq : AuxVal → AuxVal → Prop
  | .int _ v, .int _ w => v = w
  | .float a, .float b => floatEq a b
  | .floats as, .floats bs => listRel floatEq as bs
  | .char a, .char b => a = b
  | .text a, .text b => a = b
  | .hex a, .hex b => a = b
  | .ints ta as, .ints tb bs => ta = tb ∧ as = bs
  | _, _ => False

/-- equal aux fields: same tag; integers equal as integers (the type may be narrower); floats equal as
floats; everything else identical -/
def auxEq (a b : Aux) : Prop := a.t0 = b.t0 ∧ a.t1 = b.t1 ∧ auxValEq a.val b.val

/-- qualities as a value per base: nil stands for "absent", which is 0xff for every base -/
def qualView (r : Record) : Bytes :=
  match r.qual with
  | none => List.replicate r.seq.length 255
  | some q => q

/-- equal field values -/
def fieldsEq (r r' : Record) : Prop :=
  r.name = r'.name ∧ r.flags = r'.flags ∧ r.ref = r'.ref ∧ r.pos = r'.pos ∧ r.mapq = r'.mapq ∧
  r.cigar = r'.cigar ∧ r.mateRef = r'.mateRef ∧ r.matePos = r'.matePos ∧ r.tempLen = r'.tempLen ∧
  r.seq = r'.seq ∧ qualView r = qualView r' ∧ listRel auxEq r.aux r'.aux

end Hts.Model.SamText
