/-
Model of the ITF-8 / LTF-8 stream readers of cram/cram.go (`errorReader.itf8`, `errorReader.ltf8`):
read one byte with io.ReadFull, Decode it; if that is not enough, io.ReadFull the announced rest into
the same buffer and Decode again.  The source is the list of bytes still to come; `io.ReadFull` is
modelled by its contract (all `n` bytes, or io.EOF if none / io.ErrUnexpectedEOF if fewer are left),
whatever the chunking of the underlying reader (tied by correspondence with one-byte readers).
Core Lean only.
-/
import Hts.Model.Itf8
import Hts.Model.Ltf8
namespace Hts.Model.CramStream

inductive Err where
  | eof            -- io.EOF: nothing could be read
  | unexpectedEOF  -- io.ErrUnexpectedEOF: the number is cut short
  | undecodable    -- "failed to decode itf-8 stream" (unreachable, see theorems)
deriving DecidableEq, Repr

/-- `io.ReadFull(r, buf[:n])` over the remaining bytes -/
def readFull (n : Nat) (src : List (BitVec 8)) : Except Err (List (BitVec 8) × List (BitVec 8)) :=
  if n = 0 then .ok ([], src)
  else if src.length = 0 then .error .eof
  else if src.length < n then .error .unexpectedEOF
  else .ok (src.take n, src.drop n)

/-- `errorReader.itf8`: value and the bytes left in the source -/
def itf8 (src : List (BitVec 8)) : Except Err (BitVec 32 × List (BitVec 8)) :=
  match readFull 1 src with
  | .error e => .error e
  | .ok (first, rest) =>
    let (i, n, ok) := Itf8.decode first
    if ok then .ok (i, rest)
    else
      match readFull (n.toNat - 1) rest with
      | .error .eof => .error .eof
      | .error e => .error e
      | .ok (more, rest') =>
        let (i, _, ok) := Itf8.decode (first ++ more)
        if ok then .ok (i, rest') else .error .undecodable

/-- `errorReader.ltf8` -/
def ltf8 (src : List (BitVec 8)) : Except Err (BitVec 64 × List (BitVec 8)) :=
  match readFull 1 src with
  | .error e => .error e
  | .ok (first, rest) =>
    let (i, n, ok) := Ltf8.decode first
    if ok then .ok (i, rest)
    else
      match readFull (n.toNat - 1) rest with
      | .error .eof => .error .eof
      | .error e => .error e
      | .ok (more, rest') =>
        let (i, _, ok) := Ltf8.decode (first ++ more)
        if ok then .ok (i, rest') else .error .undecodable

end Hts.Model.CramStream
