/-
Executable model of the record framing of `bam.Reader` over the bgzf reader model (bam/reader.go):
`newBuffer`'s chunk transaction, `SetChunk`, the limit test in `Read`, `Iterator`.  Core Lean only.

A record is its body: the bytes after the 4-byte little-endian `block_size`.  Decoding the body into a
`sam.Record` (C05) does not touch the reader and is not modelled.  The header decoder
(`sam.Header.DecodeBinary`) is a client that performs a sequence of reads whose sizes depend on the
header's content; it is modelled as that list of sizes.
-/
import Hts.Model.BgzfReader
namespace Hts.Model.Bgzf
open Hts.Spec.Flat (Offset Chunk vOffset)

/-- `io.ReadFull(bg, p)` with `len(p) = n` over `Reader.read`.  `io.ReadAtLeast` loops while it has
fewer than `n` bytes and no error; `Reader.read` never returns a short count with a nil error
(proved: `Err.short` is unreachable), so one call is all the loop does. -/
def readFull (r : Reader) (n : Nat) : Reader × List UInt8 × Option Err :=
  if n = 0 then (r, [], none)
  else
    match r.read n with
    | (r', out, e) =>
      if n ≤ out.length then (r', out, none)
      else match e with
        | none => (r', out, some .short)
        | some .eof => (r', out, if out.length = 0 then some .eof else some .unexpectedEOF)
        | some e => (r', out, some e)

/-- little-endian `int32` of four bytes -/
def leInt32 (bs : List UInt8) : Int :=
  let u := (bs.getD 0 0).toNat + 256 * (bs.getD 1 0).toNat + 65536 * (bs.getD 2 0).toNat
    + 16777216 * (bs.getD 3 0).toNat
  if u < 2147483648 then (u : Int) else (u : Int) - 4294967296

structure BamReader where
  r : Reader
  c : Option Chunk
  lastChunk : Chunk

namespace BamReader

/-- The header decoder's reads (`binary.Read` = `io.ReadFull`; the text and the names are plain `Read`
calls, which the code requires to be complete), then `br.lastChunk.End = br.r.LastChunk().End`. -/
def consumeHeader (r : Reader) : List Nat → Reader × Option Err
  | [] => (r, none)
  | n :: ns =>
    match r.read n with
    | (r', out, e) =>
      if out.length ≠ n then (r', some (e.getD .other))
      else match e with
        | some e => (r', some e)
        | none => consumeHeader r' ns

def new (f : File) (hdrReads : List Nat) : Except Err BamReader :=
  match Reader.new f with
  | .error e => .error e
  | .ok r =>
    match consumeHeader r hdrReads with
    | (_, some e) => .error e
    | (r', none) => .ok ⟨r', none, ⟨⟨0, 0⟩, r'.lastChunk.fin⟩⟩

/-- `newBuffer`: `io.ReadFull` of the size field, `tx := br.r.Begin()` (the `Begin` of that read),
`io.ReadFull` of the body; on every return path `br.lastChunk = tx.End()`. -/
def newBuffer (br : BamReader) : BamReader × Except Err (List UInt8) :=
  match readFull br.r 4 with
  | (r1, szb, e1) =>
    let bgn := r1.lastChunk.bgn
    match e1 with
    | some e => ({ br with r := r1, lastChunk := ⟨bgn, r1.lastChunk.fin⟩ }, .error e)
    | none =>
      let size := leInt32 szb
      if size = 0 then ({ br with r := r1, lastChunk := ⟨bgn, r1.lastChunk.fin⟩ }, .error .eof)
      else if size < 0 then ({ br with r := r1, lastChunk := ⟨bgn, r1.lastChunk.fin⟩ }, .error .other)
      else
        match readFull r1 size.toNat with
        | (r2, body, e2) =>
          let br' := { br with r := r2, lastChunk := ⟨bgn, r2.lastChunk.fin⟩ }
          match e2 with
          | some e =>
            -- `if err == io.EOF { err = io.ErrUnexpectedEOF }`: the size was read but the record is missing
            (br', .error (if e = .eof then .unexpectedEOF else e))
          | none => (br', .ok body)

/-- `Reader.Read`: the chunk limit test, then the record. -/
def read (br : BamReader) : BamReader × Except Err (List UInt8) :=
  match br.c with
  | some c =>
    if vOffset c.fin ≤ vOffset br.r.lastChunk.fin then (br, .error .eof) else br.newBuffer
  | none => br.newBuffer

/-- `SetChunk(c)` -/
def setChunk (br : BamReader) : Option Chunk → BamReader × Option Err
  | none => ({ br with c := none }, none)
  | some c =>
    match br.r.seek c.bgn with
    | (r', some e) => ({ br with r := r' }, some e)
    | (r', none) => ({ br with r := r', c := some c }, none)

/-- `Reader.Seek(off)`: `return br.r.Seek(off)` (neither `br.c` nor `br.lastChunk` changes). -/
def seek (br : BamReader) (off : Offset) : BamReader × Option Err :=
  ({ br with r := (br.r.seek off).1 }, (br.r.seek off).2)

end BamReader

/-- `bam.Iterator` -/
structure Iterator where
  br : BamReader
  chunks : List Chunk
  err : Option Err

namespace Iterator

def new (br : BamReader) : List Chunk → Except Err Iterator
  | [] => .ok ⟨br, [], none⟩
  | c :: rest =>
    match br.setChunk (some c) with
    | (_, some e) => .error e
    | (br', none) => .ok ⟨br', rest, none⟩

/-- `Next` after the `i.err != nil` test: read; at `io.EOF` with chunks left, `SetChunk` the next one and
recurse (`return i.Next()`, which starts with the `i.err` test again). -/
def nextAux : BamReader → List Chunk → Iterator × Option (List UInt8)
  | br, [] =>
    match br.read with
    | (br', .ok rec) => (⟨br', [], none⟩, some rec)
    | (br', .error e) => (⟨br', [], some e⟩, none)
  | br, c :: rest =>
    match br.read with
    | (br', .ok rec) => (⟨br', c :: rest, none⟩, some rec)
    | (br', .error e) =>
      if e = .eof then
        match br'.setChunk (some c) with
        | (br'', some e') => (⟨br'', rest, some e'⟩, none)
        | (br'', none) => nextAux br'' rest
      else (⟨br', c :: rest, some e⟩, none)

/-- `Next`: `some rec` when it returns true. -/
def next (it : Iterator) : Iterator × Option (List UInt8) :=
  match it.err with
  | some _ => (it, none)
  | none => nextAux it.br it.chunks

/-- `Error()` -/
def error (it : Iterator) : Option Err :=
  match it.err with
  | some .eof => none
  | e => e

/-- `Close()`: `SetChunk(nil)` -/
def close (it : Iterator) : BamReader × Option Err :=
  ((it.br.setChunk none).1, it.error)

/-- The client loop `for it.Next() { use(it.Record()) }`, at most `k` rounds: the records seen. -/
def collect : Nat → Iterator → Iterator × List (List UInt8)
  | 0, it => (it, [])
  | k + 1, it =>
    match it.next with
    | (it', some rec) => let (it'', rs) := collect k it'; (it'', rec :: rs)
    | (it', none) => (it', [])

end Iterator

/-- The client loop `for { rec, err := br.Read(); if err != nil { break }; note(rec, br.LastChunk()) }`,
at most `k` rounds: the records with their chunks, and the error that ended the loop (if it ended). -/
def BamReader.readN : Nat → BamReader → BamReader × List (List UInt8 × Chunk) × Option Err
  | 0, br => (br, [], none)
  | k + 1, br =>
    match br.read with
    | (br', .ok body) => let (br'', rs, e) := readN k br'; (br'', (body, br'.lastChunk) :: rs, e)
    | (br', .error e) => (br', [], some e)

/-- `block_size` as the writer stores it. -/
def le32 (n : Nat) : List UInt8 :=
  [UInt8.ofNat (n % 256), UInt8.ofNat (n / 256 % 256), UInt8.ofNat (n / 65536 % 256),
   UInt8.ofNat (n / 16777216 % 256)]

/-- One record in the uncompressed stream. -/
def frame (body : List UInt8) : List UInt8 := le32 body.length ++ body

def frames : List (List UInt8) → List UInt8
  | [] => []
  | b :: bs => frame b ++ frames bs

end Hts.Model.Bgzf
