/-
Model of `internal.Index` (internal/index.go): Add incl. the bin and tile (linear index) bookkeeping,
sort, Chunks incl. the tile pruning, MergeChunks; and of the BAI wrapper `bam.Index` (bam/index.go).
Core Lean only.

The model describes the code WITH the repair of DESIGN §6 #4 (fixes/C04-1-…): the tile array is
sized by the last tile the half-open interval overlaps.

Conventions
* a virtual offset `bgzf.Offset{File, Block}` is the signed 64-bit number `File<<16 | Block`
  (`vOffset`), an `Int`; every comparison in the code goes through `vOffset`, and for offsets made by
  `makeOffset` or given with `0 ≤ File < 2^47` the number determines the offset.
* positions are Go `int`s (`Int`), bin numbers `uint32` (`Nat`), counters `uint64` (`Nat`; the
  wrap-around after 2^64 increments is not modelled).
* the bin-number functions (`BinFor`, `OverlappingBinsFor`, `reg2bin`, `reg2bins`) and the merge
  strategies are *parameters* of the index functions.  The driver passes `Hts.Model.Coord.*` (C16) for
  the bins and C17's strategies (`Hts.Model.Merge.*`) carried over to the integer offsets used here
  (`Hts.Model.Index.Local.*`).
-/
import Hts.Model.Merge
namespace Hts.Model.Index

/-- a virtual offset (documentation alias; the fields below are declared as `Int` so that `omega` sees them) -/
abbrev Offset := Int

structure Chunk where
  b : Int
  e : Int
deriving DecidableEq, Repr, Inhabited

structure Bin where
  bin : Nat
  chunks : List Chunk
deriving DecidableEq, Repr, Inhabited

structure Stats where
  chunk : Chunk
  mapped : Nat
  unmapped : Nat
deriving DecidableEq, Repr, Inhabited

structure RefIndex where
  bins : List Bin := []
  stats : Option Stats := none
  intervals : List Int := []
deriving DecidableEq, Repr, Inhabited

structure Index where
  refs : List RefIndex := []
  unmapped : Option Nat := none
  isSorted : Bool := false
  lastRecord : Int := 0
deriving DecidableEq, Repr, Inhabited

/-- `TileWidth` -/
def tileWidth : Nat := 0x4000
/-- `StatsDummyBin = BinLimit + 1`, `BinLimit = (8^6 - 1)/7` -/
def statsDummyBin : Nat := 37450
/-- `int(^uint(0) >> 1)` -/
def maxInt : Int := 9223372036854775807

/-- `IsValidIndexPos` -/
def validPos (p : Int) : Bool := decide (-1 ≤ p) && decide (p ≤ 536870910)

/-- what `Add` is called with (`internal.Index.Add(r, bin, c, placed, mapped)`) -/
structure Rec where
  rid : Int
  start : Int
  stop : Int
  bin : Nat
  chunk : Chunk
  placed : Bool
  mapped : Bool
deriving DecidableEq, Repr, Inhabited

inductive AddRes
  | ok | errRange | errRefOrder | errPosOrder
  | errNoRef     -- placed record with a negative reference id
  | panicIndex   -- `i.Refs[rid]` out of range (unreachable: kept so that no default value is invented)
deriving DecidableEq, Repr, Inhabited

/-- inner loop of the bin bookkeeping: the first stored chunk whose end lies behind the new begin is
extended to the new end, otherwise the chunk is appended -/
def extendChunks : List Chunk → Chunk → List Chunk
  | [], c => [c]
  | x :: xs, c => if x.e > c.b then { x with e := c.e } :: xs else x :: extendChunks xs c

/-- bin bookkeeping: returns the new bin list and whether the bin existed -/
def addBin : List Bin → Nat → Chunk → List Bin × Bool
  | [], bin, c => ([⟨bin, [c]⟩], false)
  | b :: bs, bin, c =>
    if b.bin = bin then ({ b with chunks := extendChunks b.chunks c } :: bs, true)
    else let r := addBin bs bin c; (b :: r.1, r.2)

/-- Go's `/` on ints truncates towards zero; every dividend here is ≥ -1 -/
def tileOf (p : Int) : Nat := (p.tdiv tileWidth).toNat

/-- last tile overlapped by the half-open interval (repaired code) -/
def lastTile (start stop : Int) : Nat :=
  if stop > start then tileOf (stop - 1) else tileOf start

/-- tile (linear index) bookkeeping of the repaired `Add`: when the last overlapped tile is not yet
present, the array grows to `eiv+1` entries; the tiles `max biv len … eiv` get the chunk begin, the
tiles between the old end and `biv` stay zero -/
def addTiles (ivs : List Int) (start stop : Int) (cb : Int) : List Int :=
  let biv := tileOf start
  let eiv := lastTile start stop
  if eiv ≥ ivs.length then
    let frm := max biv ivs.length
    ivs ++ List.replicate (frm - ivs.length) 0 ++ List.replicate (eiv + 1 - frm) cb
  else ivs

def addStats (s : Option Stats) (c : Chunk) (mapped : Bool) : Stats :=
  let st : Stats := match s with
    | none => ⟨c, 0, 0⟩
    | some s => { s with chunk := ⟨s.chunk.b, c.e⟩ }
  if mapped then { st with mapped := st.mapped + 1 } else { st with unmapped := st.unmapped + 1 }

/-- the part of `Add` that works on `ref := &i.Refs[rid]`; returns the new reference index, the new
`LastRecord`, whether the index may keep its `IsSorted` flag (the bin existed, and — fixes/C15-3 — the new
tiles leave no gap of empty tiles behind the tiles recorded so far) and the result.  On the
position-order error the bin has already been recorded (as in the code). -/
def addRef (ref : RefIndex) (last : Int) (r : Rec) : RefIndex × Int × Bool × AddRes :=
  let nb := addBin ref.bins r.bin r.chunk
  if r.start < last then ({ ref with bins := nb.1 }, last, nb.2, .errPosOrder)
  else
    ({ bins := nb.1, stats := some (addStats ref.stats r.chunk r.mapped),
       intervals := addTiles ref.intervals r.start r.stop r.chunk.b }, r.start,
     nb.2 && !(decide (lastTile r.start r.stop ≥ ref.intervals.length) && decide (tileOf r.start > ref.intervals.length)),
     .ok)

/-- the value behind `i.Unmapped` after `if i.Unmapped == nil { i.Unmapped = new(uint64) }` -/
def umCount : Option Nat → Nat
  | none => 0
  | some n => n

/-- a reference index without records (`RefIndex{}`) -/
def emptyRef : RefIndex := {}

/-- `Index.Add` -/
def add (i : Index) (r : Rec) : Index × AddRes :=
  if !(validPos r.start && validPos r.stop) then (i, .errRange) else
  let um := umCount i.unmapped
  if !r.placed then ({ i with unmapped := some (um + 1) }, .ok) else
  let i := { i with unmapped := some um }
  if r.rid < 0 then (i, .errNoRef) else
  if r.rid < (i.refs.length : Int) - 1 then (i, .errRefOrder) else
  let rid := r.rid.toNat
  let grown := decide (rid ≥ i.refs.length)
  let refs := if grown then i.refs ++ List.replicate (rid + 1 - i.refs.length) emptyRef else i.refs
  let last := if grown then 0 else i.lastRecord
  match refs[rid]? with
  | none => (i, .panicIndex)   -- unreachable: rid < refs.length
  | some ref =>
    let x := addRef ref last r
    ({ i with refs := refs.set rid x.1, lastRecord := x.2.1, isSorted := i.isSorted && x.2.2.1 }, x.2.2.2)

/-- a whole sequence of Adds: final state and the result of every call -/
def addAll (i : Index) : List Rec → Index × List AddRes
  | [] => (i, [])
  | r :: rs =>
    let x := add i r
    let y := addAll x.1 rs
    (y.1, x.2 :: y.2)

/-! ### sort -/

def leBin (a b : Bin) : Bool := decide (a.bin ≤ b.bin)
def leChunk (a b : Chunk) : Bool := decide (a.b ≤ b.b)
def leOff (a b : Int) : Bool := decide (a ≤ b)

def sortChunks (cs : List Chunk) : List Chunk := cs.mergeSort leChunk

def sortRef (r : RefIndex) : RefIndex :=
  { bins := (r.bins.mergeSort leBin).map (fun b => { b with chunks := sortChunks b.chunks }),
    stats := r.stats,
    intervals := r.intervals.mergeSort leOff }

/-- `Index.sort`: nothing happens when the flag says sorted -/
def sort (i : Index) : Index :=
  if i.isSorted then i else { i with refs := i.refs.map sortRef, isSorted := true }

/-! ### Chunks -/

inductive QErr
  | noRef | invalid
  | panicSlice   -- `ref.Intervals[iv:]` with a negative `iv` (query begin < -TileWidth+1)
deriving DecidableEq, Repr, Inhabited

/-- `sort.Search` for the first bin with number ≥ b, then the equality test (the bins are sorted
whenever this runs, so the linear scan finds the same element as the binary search) -/
def findBin (bins : List Bin) (b : Nat) : Option Bin :=
  match bins.find? (fun x => decide (x.bin ≥ b)) with
  | some x => if x.bin = b then some x else none
  | none => none

/-- the inner tile loop of `Chunks` for one chunk (`ce` = its end): `k` is the tile number of the
head of the list, `nz` the `haveNonZero` flag -/
def tileLoop (beg stop : Int) (ce : Int) : List Int → Nat → Bool → Bool
  | [], _, _ => false
  | t :: ts, k, nz =>
    if nz && t == 0 then tileLoop beg stop ce ts (k + 1) nz
    else
      let tbeg : Int := (k : Int) * tileWidth
      let tend : Int := tbeg + tileWidth
      if decide (tend ≥ beg) && decide (tbeg ≤ stop) && decide (ce > t) then true
      else tileLoop beg stop ce ts (k + 1) true

def tileHit (ivs : List Int) (iv : Nat) (beg stop : Int) (ce : Int) : Bool :=
  tileLoop beg stop ce (ivs.drop iv) iv false

/-- candidate chunks of one reference, in the order the code appends them -/
def candidates (ref : RefIndex) (iv : Nat) (beg stop : Int) (bins : List Nat) : List Chunk :=
  bins.flatMap (fun b =>
    match findBin ref.bins b with
    | some bn => bn.chunks.filter (fun c => tileHit ref.intervals iv beg stop c.e)
    | none => [])

/-- `Index.Chunks(rid, beg, end)`; `bins` is `OverlappingBinsFor(beg, end)`.  The index is sorted in
place by the call; `chunksState` is the state afterwards. -/
def chunks (i : Index) (rid beg stop : Int) (bins : List Nat) : Except QErr (List Chunk) :=
  if rid < 0 ∨ rid ≥ (i.refs.length : Int) then .error .noRef else
  match (sort i).refs[rid.toNat]? with
  | none => .error .noRef
  | some ref =>
    let iv := beg.tdiv tileWidth
    if iv ≥ (ref.intervals.length : Int) then .error .invalid
    else if iv < 0 then .error .panicSlice
    else .ok (sortChunks (candidates ref iv.toNat beg stop bins))

def chunksState (i : Index) (rid : Int) : Index :=
  if rid < 0 ∨ rid ≥ (i.refs.length : Int) then i else sort i

/-! ### MergeChunks -/

/-- `Index.MergeChunks(s)` for a non-nil strategy: every bin's chunks are sorted by begin and replaced
by `s` of them -/
def mergeChunks (s : List Chunk → List Chunk) (i : Index) : Index :=
  { i with refs := i.refs.map (fun r =>
      { r with bins := r.bins.map (fun b => { b with chunks := s (sortChunks b.chunks) }) }) }

/-! ### the merge strategies: C17's models (Hts.Model.Merge) carried over to integer offsets

A virtual offset `v` corresponds to the `bgzf.Offset{File: v >> 16, Block: uint16(v)}` the code builds with
`makeOffset`; `Merge.vOff` is the way back.  The strategies used by the index model ARE C17's
`Merge.adjacent`, `Merge.compressor`, `Merge.squash`, applied through this correspondence. -/
namespace Local

def toOff (v : Int) : Hts.Model.Merge.Offset := ⟨v / 65536, (v % 65536).toNat⟩
def toM (c : Chunk) : Hts.Model.Merge.Chunk := ⟨toOff c.b, toOff c.e⟩
def ofM (c : Hts.Model.Merge.Chunk) : Chunk := ⟨Hts.Model.Merge.vOff c.b, Hts.Model.Merge.vOff c.e⟩

/-- a strategy of C17's model as a function on the index model's chunks -/
def lift (s : List Hts.Model.Merge.Chunk → List Hts.Model.Merge.Chunk) (cs : List Chunk) : List Chunk :=
  (s (cs.map toM)).map ofM

/-- `index.Adjacent` -/
def adjacent : List Chunk → List Chunk := lift Hts.Model.Merge.adjacent
/-- `index.CompressorStrategy(near)` -/
def compressor (near : Int) : List Chunk → List Chunk := lift (Hts.Model.Merge.compressor near)
/-- `index.Squash` -/
def squash : List Chunk → List Chunk := lift Hts.Model.Merge.squash

end Local
end Hts.Model.Index

/-! ### `bam.Index`: the BAI wrapper -/
namespace Hts.Model.Bai
open Hts.Model.Index

/-- what `bam.Index.Add` reads off a `sam.Record`: `hasRef` is `r.Ref != nil`, `rid = r.Ref.ID()`,
`pos = r.Pos`, `stop = r.End()`, the two flags -/
structure BaiRec where
  hasRef : Bool
  rid : Int
  pos : Int
  stop : Int
  unmapped : Bool
  mateUnmapped : Bool
  chunk : Chunk
deriving DecidableEq, Repr, Inhabited

/-- `sam.Record.Bin` = `BinFor(Pos, End())` with `binOf = internal.BinFor`; an alignment that consumes no
reference (`End() = Pos`) is binned as one base long (the flags play no role since the repair of
DESIGN §6 #24) -/
def recBin (binOf : Int → Int → Nat) (r : BaiRec) : Nat :=
  binOf r.pos (if r.stop = r.pos then r.stop + 1 else r.stop)

def toRec (binOf : Int → Int → Nat) (r : BaiRec) : Rec :=
  { rid := if r.hasRef then r.rid else -1, start := r.pos, stop := r.stop, bin := recBin binOf r,
    chunk := r.chunk, placed := r.hasRef && decide (r.pos ≠ -1), mapped := !r.unmapped }

def add (binOf : Int → Int → Nat) (i : Index) (r : BaiRec) : Index × AddRes :=
  Index.add i (toRec binOf r)

/-- `bam.Index.Chunks` with merge strategy `s` (`index.Adjacent` when the field is nil) -/
def chunks (binsOf : Int → Int → List Nat) (s : List Chunk → List Chunk) (i : Index) (rid beg stop : Int) :
    Except QErr (List Chunk) :=
  match Index.chunks i rid beg stop (binsOf beg stop) with
  | .error e => .error e
  | .ok cs => .ok (s cs)

end Hts.Model.Bai
