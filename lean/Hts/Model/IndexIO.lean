/-
Byte-level model of the index serialisations: BAI (bam/index.go + internal/index_{read,write}.go),
tabix (tabix/tabix.go) and CSI v1/v2 (csi/csi_{read,write}.go): little-endian writers and readers,
the statistics pseudo-bin, the optional trailing unplaced count, and `norm` (what the readers and
`sort()` canonicalise).  Core Lean only.

Readers return `Except Fault`: `err` where the Go reader returns an error (incl. negative counts, since
the repairs of C11), `panic` where it would panic (no reachable site is left; the constructor is kept
for the unreachable branches).  An index without references round-trips like any other.
-/
import Hts.Model.Index
import Hts.Model.Csi
import Hts.Model.Tabix
import Hts.Model.Coord
namespace Hts.Model.IndexIO
open Hts.Model.Index

abbrev Bytes := List UInt8

inductive Fault
  | err | panic
deriving DecidableEq, Repr, Inhabited

/-! ### little-endian integers -/

def byteAt (n i : Nat) : UInt8 := UInt8.ofNat (n / 256 ^ i % 256)

/-- `binary.Write` of a `uint32` -/
def le32 (n : Nat) : Bytes := [byteAt n 0, byteAt n 1, byteAt n 2, byteAt n 3]
/-- `binary.Write` of a `uint64` -/
def le64 (n : Nat) : Bytes := le32 (n % 4294967296) ++ le32 (n / 4294967296 % 4294967296)
/-- two's complement -/
def i32 (x : Int) : Bytes := le32 (x % 4294967296).toNat
def i64 (x : Int) : Bytes := le64 (x % 18446744073709551616).toNat

def signed32 (n : Nat) : Int := if n < 2147483648 then n else (n : Int) - 4294967296
def signed64 (n : Nat) : Int := if n < 9223372036854775808 then n else (n : Int) - 18446744073709551616

abbrev P (α : Type) := Bytes → Except Fault (α × Bytes)

def rU32 : P Nat
  | b0 :: b1 :: b2 :: b3 :: rest =>
    .ok (b0.toNat + 256 * b1.toNat + 65536 * b2.toNat + 16777216 * b3.toNat, rest)
  | _ => .error .err

def rI32 : P Int := fun bs => match rU32 bs with
  | .ok (n, rest) => .ok (signed32 n, rest)
  | .error e => .error e

def rU64 : P Nat := fun bs => match rU32 bs with
  | .ok (lo, rest) => match rU32 rest with
    | .ok (hi, rest') => .ok (lo + 4294967296 * hi, rest')
    | .error e => .error e
  | .error e => .error e

/-- a virtual offset: `makeOffset(uint64)` followed by `vOffset` is the signed reading -/
def rOff : P Int := fun bs => match rU64 bs with
  | .ok (n, rest) => .ok (signed64 n, rest)
  | .error e => .error e

/-- `n` repetitions of a parser -/
def rep {α : Type} (p : P α) : Nat → P (List α)
  | 0 => fun bs => .ok ([], bs)
  | n + 1 => fun bs => match p bs with
    | .ok (a, rest) => match rep p n rest with
      | .ok (as, rest') => .ok (a :: as, rest')
      | .error e => .error e
    | .error e => .error e

/-- `make([]T, n)` followed by a loop of `n` reads; a negative `n` is rejected with an error -/
def counted {α : Type} (n : Int) (p : P α) : P (List α) := fun bs =>
  if n < 0 then .error .err else rep p n.toNat bs

/-- `io.ReadFull(r, buf[:n])` -/
def rBytes (n : Nat) : P Bytes := fun bs =>
  if bs.length < n then .error .err else .ok (bs.take n, bs.drop n)

/-! ### `internal.WriteIndex` / `internal.ReadIndex` (shared by BAI and tabix) -/

def wChunk (c : Chunk) : Bytes := i64 c.b ++ i64 c.e
def wChunks (cs : List Chunk) : Bytes := i32 cs.length ++ cs.flatMap wChunk
def wBin (b : Bin) : Bytes := le32 b.bin ++ wChunks b.chunks
def wStatsBody (s : Stats) : Bytes := i64 s.chunk.b ++ i64 s.chunk.e ++ le64 s.mapped ++ le64 s.unmapped
def wStats (s : Stats) : Bytes := le32 statsDummyBin ++ le32 2 ++ wStatsBody s

def wBins (bins : List Bin) (stats : Option Stats) : Bytes :=
  match stats with
  | some s => i32 ((bins.length : Int) + 1) ++ bins.flatMap wBin ++ wStats s
  | none => i32 bins.length ++ bins.flatMap wBin

def wIntervals (ivs : List Int) : Bytes := i32 ivs.length ++ ivs.flatMap i64
def wRef (r : RefIndex) : Bytes := wBins r.bins r.stats ++ wIntervals r.intervals
def wUnmapped : Option Nat → Bytes
  | some n => le64 n
  | none => []

/-- `internal.WriteIndex`: `sort()` first -/
def wIndex (i : Index) : Bytes :=
  (sort i).refs.flatMap wRef ++ wUnmapped i.unmapped

def rChunk : P Chunk := fun bs => match rOff bs with
  | .ok (b, rest) => match rOff rest with
    | .ok (e, rest') => .ok (⟨b, e⟩, rest')
    | .error e => .error e
  | .error e => .error e

/-- `readChunks` -/
def rChunks (n : Int) : P (List Chunk) := fun bs =>
  if n = 0 then .ok ([], bs) else
  match counted n rChunk bs with
  | .ok (cs, rest) => .ok (sortChunks cs, rest)
  | .error e => .error e

/-- `readStats` -/
def rStatsBody : P Stats := fun bs => match rChunk bs with
  | .ok (c, r1) => match rU64 r1 with
    | .ok (m, r2) => match rU64 r2 with
      | .ok (u, r3) => .ok (⟨c, m, u⟩, r3)
      | .error e => .error e
    | .error e => .error e
  | .error e => .error e

/-- the loop of `readBins`: `k` iterations; an iteration either appends a bin or (for the pseudo-bin)
replaces the statistics -/
def rBinLoop (dummy : Nat) : Nat → List Bin → Option Stats → P (List Bin × Option Stats)
  | 0, acc, st => fun bs => .ok ((acc.reverse, st), bs)
  | k + 1, acc, st => fun bs =>
    match rU32 bs with
    | .error e => .error e
    | .ok (bin, r1) => match rI32 r1 with
      | .error e => .error e
      | .ok (n, r2) =>
        if bin = dummy then
          if n ≠ 2 then .error .err else
          match rStatsBody r2 with
          | .error e => .error e
          | .ok (s, r3) => rBinLoop dummy k acc (some s) r3
        else match rChunks n r2 with
          | .error e => .error e
          | .ok (cs, r3) => rBinLoop dummy k (⟨bin, cs⟩ :: acc) st r3

/-- `readBins` -/
def rBins : P (List Bin × Option Stats) := fun bs => match rI32 bs with
  | .error e => .error e
  | .ok (n, rest) =>
    if n = 0 then .ok (([], none), rest)
    else if n < 0 then .error .err
    else match rBinLoop statsDummyBin n.toNat [] none rest with
      | .error e => .error e
      | .ok ((bins, st), rest') => .ok ((bins.mergeSort leBin, st), rest')

/-- `readIntervals` -/
def rIntervals : P (List Int) := fun bs => match rI32 bs with
  | .error e => .error e
  | .ok (n, rest) =>
    if n = 0 then .ok ([], rest) else
    match counted n rOff rest with
    | .ok (os, rest') => .ok (os.mergeSort leOff, rest')
    | .error e => .error e

def rRef : P RefIndex := fun bs => match rBins bs with
  | .error e => .error e
  | .ok ((bins, st), r1) => match rIntervals r1 with
    | .error e => .error e
    | .ok (ivs, r2) => .ok (⟨bins, st, ivs⟩, r2)

/-- the optional trailing count: absent at a clean end of input, an error when cut -/
def rUnmapped (bs : Bytes) : Except Fault (Option Nat) :=
  if bs.isEmpty then .ok none
  else match rU64 bs with
    | .ok (n, _) => .ok (some n)
    | .error e => .error e

/-- `internal.ReadIndex(r, n, typ)` -/
def rIndex (n : Int) (bs : Bytes) : Except Fault Index :=
  match counted n rRef bs with
  | .error e => .error e
  | .ok (refs, rest) => match rUnmapped rest with
    | .error e => .error e
    | .ok um => .ok { refs := refs, unmapped := um, isSorted := true, lastRecord := maxInt }

/-- what the writers/readers canonicalise: the index after `sort()`, as a freshly read one -/
def norm (i : Index) : Index :=
  { refs := (sort i).refs, unmapped := i.unmapped, isSorted := true, lastRecord := maxInt }

/-! ### BAI -/

def baiMagic : Bytes := [0x42, 0x41, 0x49, 0x01]

/-- `bam.WriteIndex` -/
def writeBai (i : Index) : Bytes := baiMagic ++ i32 i.refs.length ++ wIndex i

/-- `bam.ReadIndex` -/
def readBai (bs : Bytes) : Except Fault Index :=
  match rBytes 4 bs with
  | .error e => .error e
  | .ok (m, r1) =>
    if m ≠ baiMagic then .error .err else
    match rI32 r1 with
    | .error e => .error e
    | .ok (n, r2) => rIndex n r2

/-! ### tabix -/
open Hts.Model.Tabix in
def tbiMagic : Bytes := [0x54, 0x42, 0x49, 0x01]

open Hts.Model.Tabix in
def wTabixHeader (h : Header) (names : List Name) : Bytes :=
  i32 ((h.format : Int) + (if h.zeroBased then 65536 else 0)) ++ i32 h.nameCol ++ i32 h.begCol ++ i32 h.endCol
    ++ i32 h.metaChar ++ i32 h.skip
    ++ i32 (names.foldl (fun n nm => n + ((nm.length : Int) + 1)) 0) ++ names.flatMap (fun nm => nm ++ [0])

open Hts.Model.Tabix in
/-- `tabix.WriteTo` -/
def writeTabix (t : TIndex) : Bytes :=
  tbiMagic ++ i32 t.idx.refs.length ++ wTabixHeader t.hdr t.names ++ wIndex t.idx

/-- `strings.Split(s, "\x00")` -/
def splitNul : Bytes → List Bytes
  | [] => [[]]
  | b :: bs =>
    if b = 0 then [] :: splitNul bs
    else match splitNul bs with
      | [] => [[b]]          -- unreachable: splitNul never returns []
      | w :: ws => (b :: w) :: ws

open Hts.Model.Tabix in
/-- `readTabixHeader` -/
def rTabixHeader : P (Header × List Name) := fun bs =>
  match rI32 bs with
  | .error e => .error e
  | .ok (fmt, r1) => match rI32 r1 with
    | .error e => .error e
    | .ok (nc, r2) => match rI32 r2 with
      | .error e => .error e
      | .ok (bc, r3) => match rI32 r3 with
        | .error e => .error e
        | .ok (ec, r4) => match rI32 r4 with
          | .error e => .error e
          | .ok (mc, r5) => match rI32 r5 with
            | .error e => .error e
            | .ok (sk, r6) => match rI32 r6 with
              | .error e => .error e
              | .ok (n, r7) =>
                if n < 0 then .error .err else
                if n = 0 then
                  .ok (({ format := (fmt % 256).toNat, zeroBased := decide ((fmt / 65536) % 2 = 1),
                          nameCol := nc, begCol := bc, endCol := ec, metaChar := mc, skip := sk }, []), r7)
                else
                match rBytes n.toNat r7 with
                | .error e => .error e
                | .ok (nb, r8) =>
                  match nb.getLast? with
                  | none => .error .panic          -- names[len(names)-1] on the empty string
                  | some l =>
                    if l ≠ 0 then .error .err else
                    .ok (({ format := (fmt % 256).toNat, zeroBased := decide ((fmt / 65536) % 2 = 1),
                            nameCol := nc, begCol := bc, endCol := ec, metaChar := mc, skip := sk },
                          splitNul nb.dropLast), r8)

open Hts.Model.Tabix in
/-- `tabix.ReadFrom` -/
def readTabix (bs : Bytes) : Except Fault TIndex :=
  match rBytes 4 bs with
  | .error e => .error e
  | .ok (m, r1) =>
    if m ≠ tbiMagic then .error .err else
    match rI32 r1 with
    | .error e => .error e
    | .ok (n, r2) =>
      match rTabixHeader r2 with
      | .error e => .error e
      | .ok ((h, names), r3) =>
        if (names.length : Int) ≠ n then .error .err else
        match rIndex n r3 with
        | .error e => .error e
        | .ok i => .ok { hdr := h, names := names, nameMap := buildMap names, idx := i }

open Hts.Model.Tabix in
def normTabix (t : TIndex) : TIndex :=
  { hdr := t.hdr, names := t.names, nameMap := buildMap t.names, idx := norm t.idx }

/-! ### CSI -/
open Hts.Model.Csi

def csiMagic : Bytes := [0x43, 0x53, 0x49]

/-- `binLimit := uint32(((uint64(1) << ((depth+1)*3)) - 1) / 7)` (WriteTo and ReadFrom, with fixes/C15-2: a
64-bit shift, the result truncated to `uint32`); equal to the number of bins `(8^(depth+1) - 1)/7` up to
depth 10, the deepest geometry whose bin numbers fit `uint32`.  (Depths above 20 are rejected by ReadFrom.) -/
def csiBinLimit (depth : Nat) : Nat := ((2 ^ ((depth + 1) * 3) - 1) / 7) % 4294967296

def wCBin (version : Nat) (b : CBin) : Bytes :=
  le32 b.bin ++ i64 b.left ++ (if version = 2 then le64 b.records else []) ++ wChunks b.chunks

def wCStats (version : Nat) (dummy : Nat) (s : Stats) : Bytes :=
  (if version = 1 then le32 dummy ++ le32 0 ++ le32 0 ++ le32 2
   else if version = 2 then le32 dummy ++ le32 0 ++ le32 0 ++ le32 0 ++ le32 0 ++ le32 2
   else []) ++ wStatsBody s

def wCBins (version dummy : Nat) (bins : List CBin) (stats : Option Stats) : Bytes :=
  match stats with
  | some s => i32 ((bins.length : Int) + 1) ++ bins.flatMap (wCBin version) ++ wCStats version dummy s
  | none => i32 bins.length ++ bins.flatMap (wCBin version)

/-- `csi.WriteTo` -/
def writeCsi (i : CIndex) : Bytes :=
  let dummy := csiBinLimit i.depth + 1
  csiMagic ++ [UInt8.ofNat i.version] ++ i32 i.minShift ++ i32 i.depth ++ i32 i.aux.length ++ i.aux
    ++ i32 i.refs.length ++ (Csi.sort i).refs.flatMap (fun r => wCBins i.version dummy r.bins r.stats)
    ++ wUnmapped i.unmapped

def rCBinLoop (version dummy : Nat) : Nat → List CBin → Option Stats → P (List CBin × Option Stats)
  | 0, acc, st => fun bs => .ok ((acc.reverse, st), bs)
  | k + 1, acc, st => fun bs =>
    match rU32 bs with
    | .error e => .error e
    | .ok (bin, r1) => match rOff r1 with
      | .error e => .error e
      | .ok (left, r2) =>
        match (if version = 2 then rU64 r2 else .ok (0, r2)) with
        | .error e => .error e
        | .ok (recs, r3) => match rI32 r3 with
          | .error e => .error e
          | .ok (n, r4) =>
            if bin = dummy then
              if n ≠ 2 then .error .err else
              match rStatsBody r4 with
              | .error e => .error e
              | .ok (s, r5) => rCBinLoop version dummy k acc (some s) r5
            else match rChunks n r4 with
              | .error e => .error e
              | .ok (cs, r5) => rCBinLoop version dummy k (⟨bin, left, recs, cs⟩ :: acc) st r5

/-- `csi.readBins` -/
def rCBins (version binLimit : Nat) : P (List CBin × Option Stats) := fun bs => match rI32 bs with
  | .error e => .error e
  | .ok (n, rest) =>
    if n = 0 then .ok (([], none), rest)
    else if n < 0 then .error .err
    else if n.toNat > binLimit + 1 then .error .err   -- every bin of the geometry plus the pseudo-bin
    else match rCBinLoop version (binLimit + 1) n.toNat [] none rest with
      | .error e => .error e
      | .ok ((bins, st), rest') => .ok ((bins.mergeSort leCBin, st), rest')

/-- the auxiliary block: read only when its announced length is positive -/
def rAux (na : Int) : P Bytes := fun bs =>
  if na > 0 then rBytes na.toNat bs else .ok ([], bs)

def rCRef (version binLimit : Nat) : P CRef := fun bs =>
  match rCBins version binLimit bs with
  | .ok ((bins, st), rest) => .ok (⟨bins, st⟩, rest)
  | .error e => .error e

/-- `csi.readIndices` -/
def rCRefs (version binLimit : Nat) (n : Int) : P (List CRef) := fun bs =>
  if n = 0 then .ok ([], bs) else counted n (rCRef version binLimit) bs

/-- `csi.ReadFrom` -/
def readCsi (bs : Bytes) : Except Fault CIndex :=
  match rBytes 3 bs with
  | .error e => .error e
  | .ok (m, r1) =>
    if m ≠ csiMagic then .error .err else
    match r1 with
    | [] => .error .err
    | v :: r2 =>
      if v.toNat ≠ 1 ∧ v.toNat ≠ 2 then .error .err else
      match rI32 r2 with
      | .error e => .error e
      | .ok (ms, r3) =>
        if ms < 0 then .error .err else
        match rI32 r3 with
        | .error e => .error e
        | .ok (dp, r4) =>
          if dp < 0 then .error .err else
          if ms + dp * 3 > 62 then .error .err else   -- coordinates are int64, bin numbers uint32
          match rI32 r4 with
          | .error e => .error e
          | .ok (na, r5) =>
            match rAux na r5 with
            | .error e => .error e
            | .ok (aux, r6) =>
              match rI32 r6 with
              | .error e => .error e
              | .ok (n, r7) =>
                match rCRefs v.toNat (csiBinLimit dp.toNat) n r7 with
                | .error e => .error e
                | .ok (refs, r8) => match rUnmapped r8 with
                  | .error e => .error e
                  | .ok um =>
                    .ok { aux := aux, version := v.toNat, refs := refs, unmapped := um,
                          minShift := ms.toNat, depth := dp.toNat, isSorted := true, lastRecord := 0 }

/-- canonical form of a CSI index: sorted; version 1 does not store the per-bin record counts -/
def normCsi (i : CIndex) : CIndex :=
  { aux := i.aux, version := i.version,
    refs := (Csi.sort i).refs.map (fun r =>
      { r with bins := r.bins.map (fun b => { b with records := if i.version = 2 then b.records else 0 }) }),
    unmapped := i.unmapped, minShift := i.minShift, depth := i.depth, isSorted := true, lastRecord := 0 }

/-! ### FNV-1a (64 bit) of a byte string: the digest the correspondence check compares -/
def fnv64 (bs : Bytes) : UInt64 :=
  bs.foldl (fun h b => (h ^^^ b.toUInt64) * 0x100000001b3) 0xcbf29ce484222325

end Hts.Model.IndexIO
