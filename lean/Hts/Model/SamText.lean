/-
Model of the SAM text layer of biogo/hts (core Lean only):

  sam/record.go   MarshalSAM, UnmarshalSAM, formatFlags, formatMate, formatSeq, formatQual, NewSeq/Expand
  sam/auxtags.go  samAux.String (text of an aux field), ParseAux, NewAux's narrowing of `int`/`uint`
  sam/cigar.go    Cigar.String, ParseCigar (with the 2^28-1 splitting), atoi
  sam/sam.go      Reader.Read line handling (LF/CRLF, last line), header / no-header modes
  strconv         ParseUint / ParseInt / Atoi (base 0 prefixes and underscores included), as far as
                  their result and error/no-error outcome go

Text is bytes (`List UInt8`).  Errors and panics are values (`Except Fault`).  The model mirrors the
code WITH the repairs fixes/C06-*.diff applied (hex flags, empty Z/H values, empty arrays, upper-case H
digits, last line of the reader); DESIGN.md section 6 #9, #11, #33, #34, #35.

Abstractions (tied by the correspondence check, go/cmd/harness/c06.go):
* a `*sam.Reference` is the value (id, name, length); pointer equality `ref == mate` is equality of these
  values (exact for references of one header, whose names are unique, and for the fake references
  UnmarshalSAM makes for a nil header);
* a `sam.Aux` (raw bytes in Go) is the decoded (tag, type, value); integers are `Int`s that the
  representation invariant `Aux.WF` keeps inside the range of their type;
* `sam.Seq` is the list of 4-bit base codes (`Length` = its length);
* Go `int` is `Int` with explicit 64-bit wrap-around where the code computes (`Pos+1`, `Atoi-1`);
* float text (`%v` of a float32, strconv.ParseFloat(s, 32)) is the parameter `FloatText`;
* the header is the list of (reference name, length); header text is C07's.
-/
import Hts.Model.Coord
namespace Hts.Model.SamText
open Hts.Model.Coord (CigarOp cigarIsValid)

abbrev Bytes := List UInt8

inductive Fault
  | err    -- the Go function returns a non-nil error
  | panic  -- the Go function panics
deriving DecidableEq, Repr

/-- float text as a parameter: `fmt` is `%v` of a float32 given by its bits, `parse` is
`float32(strconv.ParseFloat(s, 32))` as bits, `none` when ParseFloat returns an error -/
structure FloatText where
  fmt : UInt32 → Bytes
  parse : Bytes → Option UInt32

/-! ### decimal and hexadecimal text -/

def digitChar (d : Nat) : UInt8 := UInt8.ofNat (48 + d)

/-- `%d` of a non-negative integer; the fuel is the number itself + 1 (never exhausted) -/
def showNatF : Nat → Nat → Bytes
  | 0, _ => []
  | f + 1, n => if n < 10 then [digitChar n] else showNatF f (n / 10) ++ [digitChar (n % 10)]

def showNat (n : Nat) : Bytes := showNatF (n + 1) n

/-- `%d` / `%v` of a signed integer -/
def showInt (i : Int) : Bytes := if i < 0 then 45 :: showNat i.natAbs else showNat i.toNat

def hexDigitLower (d : Nat) : UInt8 := if d < 10 then UInt8.ofNat (48 + d) else UInt8.ofNat (87 + d)
def hexDigitUpper (d : Nat) : UInt8 := if d < 10 then UInt8.ofNat (48 + d) else UInt8.ofNat (55 + d)

/-- `%x` of a non-negative integer -/
def showHexF : Nat → Nat → Bytes
  | 0, _ => []
  | f + 1, n => if n < 16 then [hexDigitLower n] else showHexF f (n / 16) ++ [hexDigitLower (n % 16)]

def showHex (n : Nat) : Bytes := showHexF (n + 1) n

/-- Go `int` arithmetic: wrap into [-2^63, 2^63) -/
def wrap64 (x : Int) : Int := (x + 9223372036854775808) % 18446744073709551616 - 9223372036854775808

/-! ### strconv.ParseUint / ParseInt / Atoi -/

/-- strconv's `lower(c) = c | ('x' - 'X')` -/
def lower (c : UInt8) : UInt8 := c ||| 32

/-- value of a digit byte in ParseUint's loop: '0'..'9', then letters of either case from 10 -/
def digitVal (c : UInt8) : Option Nat :=
  if 48 ≤ c ∧ c ≤ 57 then some (c.toNat - 48)
  else if 97 ≤ lower c ∧ lower c ≤ 122 then some ((lower c).toNat - 87)
  else none

/-- ParseUint's digit loop with an unbounded accumulator (`none` = syntax error).  The Go loop stops
with a range error as soon as the value exceeds the bit size; the caller here checks the range after
the loop, which gives the same error/no-error outcome. -/
def digitsLoop (base : Nat) (base0 : Bool) : Bytes → Nat → Option Nat
  | [], n => some n
  | c :: rest, n =>
    if c = 95 ∧ base0 = true then digitsLoop base base0 rest n
    else match digitVal c with
      | none => none
      | some d => if base ≤ d then none else digitsLoop base base0 rest (n * base + d)

def isDec (c : UInt8) : Bool := decide (48 ≤ c) && decide (c ≤ 57)
def isHexChar (c : UInt8) : Bool := isDec c || (decide (97 ≤ lower c) && decide (lower c ≤ 102))

/-- the scan of strconv.underscoreOK; `i` is the class of the previous byte:
0 = '^' (start), 1 = '0' (digit or base prefix), 2 = '_', 3 = '!' (anything else) -/
def underscoreScan (hex : Bool) : Bytes → Nat → Bool
  | [], i => i != 2
  | c :: rest, i =>
    if isDec c || (hex && isHexChar c) then underscoreScan hex rest 1
    else if c = 95 then (if i != 1 then false else underscoreScan hex rest 2)
    else if i = 2 then false
    else underscoreScan hex rest 3

def isBasePrefixLetter (c : UInt8) : Bool := lower c = 98 || lower c = 111 || lower c = 120

/-- strconv.underscoreOK: underscores only between digits or after a base prefix -/
def underscoreOK (s : Bytes) : Bool :=
  let s := match s with
    | c :: rest => if c = 45 ∨ c = 43 then rest else s
    | [] => s
  match s with
  | a :: b :: rest =>
    if a = 48 ∧ isBasePrefixLetter b then underscoreScan (lower b = 120) rest 1
    else underscoreScan false s 0
  | _ => underscoreScan false s 0

/-- base and digits of ParseUint with base 0: `0b`/`0o`/`0x` prefixes need at least three bytes,
any other leading `0` means octal -/
def basePrefix (s : Bytes) : Nat × Bytes :=
  match s with
  | 48 :: rest =>
    match rest with
    | b :: _ :: _ =>
      if lower b = 98 then (2, rest.drop 1)
      else if lower b = 111 then (8, rest.drop 1)
      else if lower b = 120 then (16, rest.drop 1)
      else (8, rest)
    | _ => (8, rest)
  | _ => (10, s)

/-- `strconv.ParseUint(s, base, bits)` for base 0 or 10: the value, `none` for any error -/
def parseUintGo (s : Bytes) (base bits : Nat) : Option Nat :=
  if s.isEmpty then none
  else
    let base0 := base == 0
    let (b, body) := if base0 then basePrefix s else (base, s)
    match digitsLoop b base0 body 0 with
    | none => none
    | some n =>
      if 2 ^ bits ≤ n then none
      else if base0 && s.contains 95 && !underscoreOK s then none
      else some n

/-- `strconv.ParseInt(s, base, bits)` for base 0 or 10 -/
def parseIntGo (s : Bytes) (base bits : Nat) : Option Int :=
  match s with
  | [] => none
  | c :: rest =>
    let neg := c = 45
    let body := if c = 43 ∨ c = 45 then rest else s
    match parseUintGo body base bits with
    | none => none
    | some un =>
      let cutoff := 2 ^ (bits - 1)
      if ¬ neg ∧ cutoff ≤ un then none
      else if neg ∧ cutoff < un then none
      else some (if neg then -(un : Int) else (un : Int))

/-- `strconv.Atoi` on a 64-bit platform -/
def atoi (s : Bytes) : Option Int := parseIntGo s 10 64

/-! ### splitting and joining -/

/-- `bytes.Split(b, []byte{sep})`: always at least one field -/
def splitOn (sep : UInt8) : Bytes → List Bytes
  | [] => [[]]
  | c :: rest =>
    if c = sep then [] :: splitOn sep rest
    else match splitOn sep rest with
      | [] => [[c]]
      | f :: fs => (c :: f) :: fs

def joinWith (sep : UInt8) : List Bytes → Bytes
  | [] => []
  | [f] => f
  | f :: g :: fs => f ++ sep :: joinWith sep (g :: fs)

/-! ### flags -/

inductive FlagFmt
  | dec  -- sam.FlagDecimal
  | hex  -- sam.FlagHex
  | str  -- sam.FlagString
deriving DecidableEq, Repr

def flagLetters : Bytes := [112, 80, 117, 85, 114, 82, 49, 50, 115, 102, 100, 83]  -- "pPuUrR12sfdS"

/-- formatFlags(f, FlagString): the letters of the set bits, after clearing the pair-only bits of an
unpaired read -/
def flagString (f : UInt16) : Bytes :=
  let f := if f &&& 1 = 0 then f &&& ~~~(0xea : UInt16) else f
  (List.range 12).filterMap fun i => if f &&& ((1 : UInt16) <<< i.toUInt16) ≠ 0 then flagLetters[i]? else none

/-- formatFlags (repaired FlagHex: `0x%x` of the numeric value) -/
def formatFlags (f : UInt16) : FlagFmt → Bytes
  | .dec => showNat f.toNat
  | .hex => 48 :: 120 :: showHex f.toNat
  | .str => flagString f

/-! ### CIGAR text -/

def cigarLetters : Bytes := [77, 73, 68, 78, 83, 72, 80, 61, 88, 66, 63]  -- "MIDNSHP=XB?"

/-- `CigarOpType.String`: anything above `lastCigar` prints as `?` -/
def opLetter (t : Nat) : UInt8 := (cigarLetters[t]?).getD 63

/-- `cigarOpTypeLookup`: 10 (`lastCigar`) for every byte that is not an operation letter -/
def opOfLetter (c : UInt8) : Nat :=
  if c = 77 then 0 else if c = 73 then 1 else if c = 68 then 2 else if c = 78 then 3
  else if c = 83 then 4 else if c = 72 then 5 else if c = 80 then 6 else if c = 61 then 7
  else if c = 88 then 8 else if c = 66 then 9 else 10

/-- `Cigar.String` -/
def formatCigar (c : List CigarOp) : Bytes :=
  if c.isEmpty then [42] else c.flatMap fun co => showNat co.len ++ [opLetter co.typ]

def maxOpLen : Nat := 268435455  -- 1<<28 - 1

/-- sam.atoi on a run of decimal digits: at most 13 of them -/
def cigarAtoi (ds : Bytes) : Option Nat :=
  if 13 < ds.length then none else some (ds.foldl (fun n d => n * 10 + (d.toNat - 48)) 0)

/-- the emission loop `for { c = append(c, NewCigarOp(op, min(n, 1<<28-1))); n -= 1<<28-1; if n <= 0 {break} }`
in closed form: the operations and the value `n` is left with; `none` = NewCigarOp panics (n < 0,
which ParseCigar never passes: `n` comes from `atoi`) -/
def emitOps (op : Nat) (n : Int) : Option (List CigarOp × Int) :=
  if n < 0 then none
  else
    let m := n.toNat
    let k := if m = 0 then 1 else (m + maxOpLen - 1) / maxOpLen
    some ((List.range k).map (fun i => ⟨op, min (m - i * maxOpLen) maxOpLen⟩), n - (k * maxOpLen : Nat))

/-- ParseCigar's loops; `cur` = digits read since the last operation letter, `op`/`n` = the variables
of the Go function (set at every operation letter).  A run of digits that reaches the end of the
text without an operation letter is an error (repair C11: it used to re-emit the previous operation
with the already decremented `n`, which made NewCigarOp panic). -/
def parseCigarLoop : Bytes → Bytes → Nat → Int → Except Fault (List CigarOp)
  | [], cur, _, _ => if cur.isEmpty then .ok [] else .error .err
  | c :: rest, cur, op, n =>
    if isDec c then parseCigarLoop rest (cur ++ [c]) op n
    else match cigarAtoi cur with
      | none => .error .err
      | some v =>
        let op' := opOfLetter c
        if op' = 10 then .error .err
        else match emitOps op' v with
          | none => .error .panic
          | some (ops, n') => (parseCigarLoop rest [] op' n').map (ops ++ ·)

/-- `sam.ParseCigar` -/
def parseCigar (b : Bytes) : Except Fault (List CigarOp) :=
  if b = [42] then .ok [] else parseCigarLoop b [] 0 0

/-! ### sequence and qualities -/

def n16TableRev : Bytes := [61, 65, 67, 77, 71, 82, 83, 86, 84, 87, 89, 72, 75, 68, 66, 78]  -- "=ACMGRSVTWYHKDBN"

def baseChar (x : Fin 16) : UInt8 := n16TableRev.get (x.cast (by decide))

def n16Table : List Nat := [
  15, 15, 15, 15, 15, 15, 15, 15, 15, 15, 15, 15, 15, 15, 15, 15,
  15, 15, 15, 15, 15, 15, 15, 15, 15, 15, 15, 15, 15, 15, 15, 15,
  15, 15, 15, 15, 15, 15, 15, 15, 15, 15, 15, 15, 15, 15, 15, 15,
  1, 2, 4, 8, 15, 15, 15, 15, 15, 15, 15, 15, 15, 0, 15, 15,
  15, 1, 14, 2, 13, 15, 15, 4, 11, 15, 15, 12, 15, 3, 15, 15,
  15, 15, 5, 6, 8, 15, 7, 9, 15, 10, 15, 15, 15, 15, 15, 15,
  15, 1, 14, 2, 13, 15, 15, 4, 11, 15, 15, 12, 15, 3, 15, 15,
  15, 15, 5, 6, 8, 15, 7, 9, 15, 10, 15, 15, 15, 15, 15, 15,
  15, 15, 15, 15, 15, 15, 15, 15, 15, 15, 15, 15, 15, 15, 15, 15,
  15, 15, 15, 15, 15, 15, 15, 15, 15, 15, 15, 15, 15, 15, 15, 15,
  15, 15, 15, 15, 15, 15, 15, 15, 15, 15, 15, 15, 15, 15, 15, 15,
  15, 15, 15, 15, 15, 15, 15, 15, 15, 15, 15, 15, 15, 15, 15, 15,
  15, 15, 15, 15, 15, 15, 15, 15, 15, 15, 15, 15, 15, 15, 15, 15,
  15, 15, 15, 15, 15, 15, 15, 15, 15, 15, 15, 15, 15, 15, 15, 15,
  15, 15, 15, 15, 15, 15, 15, 15, 15, 15, 15, 15, 15, 15, 15, 15,
  15, 15, 15, 15, 15, 15, 15, 15, 15, 15, 15, 15, 15, 15, 15, 15]

/-- `n16Table[b]`: the 4-bit code of a base letter (15 = N for everything unknown) -/
def n16 (c : UInt8) : Fin 16 := Fin.ofNat 16 ((n16Table[c.toNat]?).getD 15)

/-- formatSeq: `*` for the empty sequence, else Expand -/
def formatSeq (s : List (Fin 16)) : Bytes := if s.isEmpty then [42] else s.map baseChar

/-- formatQual: `*` unless some value differs from 0xff -/
def formatQual (q : Option Bytes) : Bytes :=
  match q with
  | none => [42]
  | some q => if q.any (· != 255) then q.map (· + 33) else [42]

/-! ### auxiliary fields -/

inductive IntTy
  | c | C | s | S | i | I
deriving DecidableEq, Repr

def IntTy.letter : IntTy → UInt8
  | .c => 99 | .C => 67 | .s => 115 | .S => 83 | .i => 105 | .I => 73

def IntTy.lo : IntTy → Int
  | .c => -128 | .C => 0 | .s => -32768 | .S => 0 | .i => -2147483648 | .I => 0

def IntTy.hi : IntTy → Int
  | .c => 127 | .C => 255 | .s => 32767 | .S => 65535 | .i => 2147483647 | .I => 4294967295

def IntTy.signed : IntTy → Bool
  | .c | .s | .i => true
  | _ => false

def IntTy.bits : IntTy → Nat
  | .c | .C => 8
  | .s | .S => 16
  | .i | .I => 32

def IntTy.ofLetter (c : UInt8) : Option IntTy :=
  if c = 99 then some .c else if c = 67 then some .C else if c = 115 then some .s
  else if c = 83 then some .S else if c = 105 then some .i else if c = 73 then some .I else none

inductive AuxVal
  | char (c : UInt8)                     -- A
  | int (ty : IntTy) (v : Int)           -- c C s S i I
  | float (bits : UInt32)                -- f
  | text (s : Bytes)                     -- Z
  | hex (b : Bytes)                      -- H
  | ints (ty : IntTy) (vs : List Int)    -- B with an integer element type
  | floats (vs : List UInt32)            -- B:f
deriving DecidableEq, Repr

structure Aux where
  t0 : UInt8
  t1 : UInt8
  val : AuxVal
deriving DecidableEq, Repr

/-- representation invariant: integer values lie in the range of their Go type -/
def AuxVal.WF : AuxVal → Prop
  | .int ty v => ty.lo ≤ v ∧ v ≤ ty.hi
  | .ints ty vs => ∀ v ∈ vs, ty.lo ≤ v ∧ v ≤ ty.hi
  | _ => True

/-- `%c` of a byte: the UTF-8 encoding of the code point with that number -/
def utf8OfByte (c : UInt8) : Bytes := if c < 128 then [c] else [(192 : UInt8) ||| (c >>> 6), (128 : UInt8) ||| (c &&& 63)]

/-- `%X` of a byte slice (repaired: upper-case digits as SAM requires, no padding of the empty value) -/
def hexEncode (b : Bytes) : Bytes := b.flatMap fun x => [hexDigitUpper (x.toNat / 16), hexDigitUpper (x.toNat % 16)]

def fromHexChar (c : UInt8) : Option Nat :=
  if 48 ≤ c ∧ c ≤ 57 then some (c.toNat - 48)
  else if 97 ≤ c ∧ c ≤ 102 then some (c.toNat - 87)
  else if 65 ≤ c ∧ c ≤ 70 then some (c.toNat - 55)
  else none

/-- `encoding/hex.Decode`: `none` for a bad digit or an odd length -/
def hexDecode : Bytes → Option Bytes
  | [] => some []
  | [_] => none
  | a :: b :: rest =>
    match fromHexChar a, fromHexChar b, hexDecode rest with
    | some x, some y, some r => some (UInt8.ofNat (x * 16 + y) :: r)
    | _, _, _ => none

/-- `samAux.String`: TAG:TYPE:VALUE, every integer type with the letter `i` -/
def formatAux (ft : FloatText) (a : Aux) : Bytes :=
  [a.t0, a.t1, 58] ++
  match a.val with
  | .char c => [65, 58] ++ utf8OfByte c
  | .int _ v => [105, 58] ++ showInt v
  | .float b => [102, 58] ++ ft.fmt b
  | .text s => [90, 58] ++ s
  | .hex b => [72, 58] ++ hexEncode b
  | .ints ty vs => [66, 58, ty.letter] ++ vs.flatMap fun v => 44 :: showInt v
  | .floats vs => [66, 58, 102] ++ vs.flatMap fun b => 44 :: ft.fmt b

/-- NewAux on a Go `int` (negative values in ParseAux) / `uint`: the smallest type that holds the value -/
def narrowInt (v : Int) : Option AuxVal :=
  if v < 0 then
    if -128 ≤ v then some (.int .c v)
    else if -32768 ≤ v then some (.int .s v)
    else if -2147483648 ≤ v then some (.int .i v)
    else none
  else
    if v ≤ 255 then some (.int .C v)
    else if v ≤ 65535 then some (.int .S v)
    else if v ≤ 4294967295 then some (.int .I v)
    else none

/-- one array element: strconv.ParseInt / ParseUint with base 0 and the element's bit size -/
def parseElem (ty : IntTy) (s : Bytes) : Option Int :=
  if ty.signed then parseIntGo s 0 ty.bits else (parseUintGo s 0 ty.bits).map Int.ofNat

/-- the element texts after the type letter of a `B` value: none for a bare letter, else a comma and
the comma-separated elements -/
def arrayElems (rest : Bytes) : Option (List Bytes) :=
  match rest with
  | [] => some []
  | c :: body => if c = 44 then some (splitOn 44 body) else none

/-- the `B` case of ParseAux (repaired: a bare type letter is the empty array) -/
def parseArray (ft : FloatText) (txt : Bytes) : Option AuxVal :=
  match txt with
  | [] => none
  | t :: rest =>
    match arrayElems rest with
    | none => none
    | some nf =>
      if t = 102 then (nf.mapM ft.parse).map .floats
      else match IntTy.ofLetter t with
        | none => none
        | some ty => (nf.mapM (parseElem ty)).map (.ints ty)

/-- `sam.ParseAux` (repaired: values may be empty) -/
def parseAux (ft : FloatText) (text : Bytes) : Except Fault Aux :=
  match text with
  | t0 :: t1 :: c2 :: typ :: c4 :: txt =>
    if c2 ≠ 58 ∨ c4 ≠ 58 then .error .err
    else
      let v : Option AuxVal :=
        if typ = 65 then (match txt with | [c] => some (.char c) | _ => none)
        else if typ = 105 then (atoi txt).bind narrowInt
        else if typ = 102 then (ft.parse txt).map .float
        else if typ = 90 then some (.text txt)
        else if typ = 72 then (hexDecode txt).map .hex
        else if typ = 66 then parseArray ft txt
        else none
      match v with
      | none => .error .err
      | some v => .ok ⟨t0, t1, v⟩
  | _ => .error .err

/-! ### records -/

/-- a `*sam.Reference` as a value -/
structure Ref where
  id : Int
  name : Bytes
  len : Nat
deriving DecidableEq, Repr

/-- the header as far as records need it: reference names and lengths, in id order -/
structure Header where
  refs : List (Bytes × Nat)
deriving DecidableEq, Repr

def Header.refAt (h : Header) (i : Nat) : Option Ref := (h.refs[i]?).map fun p => ⟨i, p.1, p.2⟩

structure Record where
  name : Bytes
  flags : UInt16
  ref : Option Ref
  pos : Int
  mapq : UInt8
  cigar : List CigarOp
  mateRef : Option Ref
  matePos : Int
  tempLen : Int
  seq : List (Fin 16)
  qual : Option Bytes       -- `none` = nil slice
  aux : List Aux
deriving DecidableEq, Repr

/-- `(*Reference).Name` -/
def refName : Option Ref → Bytes
  | none => [42]
  | some r => r.name

/-- formatMate: `=` when the mate reference is the read's reference -/
def formatMate (ref mate : Option Ref) : Bytes :=
  match mate with
  | some m => if ref = some m then [61] else m.name
  | none => [42]

/-- the text fields of `MarshalSAM`, in order -/
def recordFields (ft : FloatText) (f : FlagFmt) (r : Record) : List Bytes :=
  [r.name, formatFlags r.flags f, refName r.ref, showInt (wrap64 (r.pos + 1)), showNat r.mapq.toNat,
   formatCigar r.cigar, formatMate r.ref r.mateRef, showInt (wrap64 (r.matePos + 1)), showInt r.tempLen,
   formatSeq r.seq, formatQual r.qual] ++ r.aux.map (formatAux ft)

/-- `Record.MarshalSAM(flags)` -/
def formatRecord (ft : FloatText) (f : FlagFmt) (r : Record) : Except Fault Bytes :=
  match r.qual with
  | some q => if q.length ≠ r.seq.length then .error .err else .ok (joinWith 9 (recordFields ft f r))
  | none => .ok (joinWith 9 (recordFields ft f r))

def findRef (refs : List (Bytes × Nat)) (name : Bytes) (i : Nat) : Option Ref :=
  match refs with
  | [] => none
  | p :: rest => if p.1 = name then some ⟨i, p.1, p.2⟩ else findRef rest name (i + 1)

/-- referenceForName: `*` is nil; without a header a fake reference (id -1, length 0); with a header
the first reference of that name -/
def referenceForName (h : Option Header) (name : Bytes) : Except Fault (Option Ref) :=
  if name = [42] then .ok none
  else match h with
    | none => .ok (some ⟨-1, name, 0⟩)
    | some h =>
      match findRef h.refs name 0 with
      | some r => .ok (some r)
      | none => .error .err

def ofOpt {α} : Option α → Except Fault α
  | some a => .ok a
  | none => .error .err

/-- the quality field of UnmarshalSAM -/
def parseQual (f10 : Bytes) (seqLen : Nat) : Option Bytes :=
  if f10 ≠ [42] then (if f10.isEmpty then none else some (f10.map (· - 33)))
  else if seqLen ≠ 0 then some (List.replicate seqLen 255)
  else none

/-- the sequence field: `*` is the empty sequence, else `NewSeq` -/
def parseSeq (f9 : Bytes) : List (Fin 16) := if f9 = [42] then [] else f9.map n16

/-- `if len(r.Cigar) != 0 && !r.Cigar.IsValid(r.Seq.Length)`, only when a sequence is given -/
def checkCigar (hasSeq : Bool) (cigar : List CigarOp) (seqLen : Nat) : Except Fault Unit :=
  if hasSeq = true ∧ cigar.isEmpty = false then
    match cigarIsValid cigar seqLen with
    | none => .error .panic
    | some false => .error .err
    | some true => .ok ()
  else .ok ()

/-- `if len(r.Qual) != 0 && len(r.Qual) != r.Seq.Length` -/
def checkQualLen (qual : Option Bytes) (seqLen : Nat) : Except Fault Unit :=
  match qual with
  | some q => if q.length ≠ 0 ∧ q.length ≠ seqLen then .error .err else .ok ()
  | none => .ok ()

/-- RNEXT: equal to RNAME, or `=`, means the read's reference -/
def parseMateRef (h : Option Header) (ref : Option Ref) (f2 f6 : Bytes) : Except Fault (Option Ref) :=
  if f2 = f6 ∨ f6 = [61] then .ok ref else referenceForName h f6

/-- `Record.UnmarshalSAM(h, b)` -/
def parseRecord (ft : FloatText) (h : Option Header) (b : Bytes) : Except Fault Record :=
  match splitOn 9 b with
  | f0 :: f1 :: f2 :: f3 :: f4 :: f5 :: f6 :: f7 :: f8 :: f9 :: f10 :: auxf => do
    let flags ← ofOpt (parseUintGo f1 0 16)
    let ref ← referenceForName h f2
    let pos ← ofOpt (atoi f3)
    let mapq ← ofOpt (parseUintGo f4 10 8)
    let cigar ← parseCigar f5
    let mate ← parseMateRef h ref f2 f6
    let matePos ← ofOpt (atoi f7)
    let tlen ← ofOpt (atoi f8)
    let seq := parseSeq f9
    checkCigar (f9 != [42]) cigar seq.length
    let qual := parseQual f10 seq.length
    checkQualLen qual seq.length
    let aux ← auxf.mapM (parseAux ft)
    pure { name := f0, flags := UInt16.ofNat flags, ref := ref, pos := wrap64 (pos - 1), mapq := UInt8.ofNat mapq,
           cigar := cigar, mateRef := mate, matePos := wrap64 (matePos - 1), tempLen := tlen, seq := seq,
           qual := qual, aux := aux }
  | _ => .error .err

/-! ### sam.Reader -/

/-- the successive results of `bufio.Reader.ReadBytes('\n')` with the terminator cut off; a final
piece without terminator is a line of its own unless it is empty (repaired: it used to be dropped) -/
def readerLines (input : Bytes) : List Bytes :=
  let parts := splitOn 10 input
  if parts.getLast? = some [] then parts.dropLast else parts

/-- one trailing `\r` is removed (repaired: an empty line is an error of UnmarshalSAM, not a panic) -/
def stripCR (b : Bytes) : Bytes := if b.getLast? = some 13 then b.dropLast else b

/-- what successive `Read` calls return for the lines after the header, when the input had a header:
one result per line -/
def readAll (ft : FloatText) (h : Header) (body : Bytes) : List (Except Fault Record) :=
  ((readerLines body).map stripCR).map (parseRecord ft (some h))

/-- `ReadBytes('\n')` when a terminator exists: the line without it, and the rest -/
def takeLine : Bytes → Option (Bytes × Bytes)
  | [] => none
  | c :: rest => if c = 10 then some ([], rest) else (takeLine rest).map fun p => (c :: p.1, p.2)

/-- NewReader's split of the input into header text (lines starting with `@`, each newline-terminated)
and the rest; `none` = NewReader fails (empty input, or a header line without newline).  An empty
header text means the reader works in no-header mode.  Fuel: the input length + 1. -/
def splitHeader : Nat → Bytes → Bytes → Option (Bytes × Bytes)
  | 0, _, _ => none
  | fuel + 1, acc, input =>
    match input with
    | [] => if acc.isEmpty then none else some (acc, [])
    | c :: _ =>
      if c ≠ 64 then some (acc, input)
      else
        match takeLine input with
        | some (l, rest) => splitHeader fuel (acc ++ l ++ [10]) rest
        | none => none

/-- no-header mode: references are created as they are seen, ids in order of first appearance -/
def resolveSeen (seen : List Bytes) (r : Option Ref) : List Bytes × Option Ref :=
  match r with
  | none => (seen, none)
  | some x =>
    match seen.findIdx? (· = x.name) with
    | some i => (seen, some ⟨i, x.name, 0⟩)
    | none => (seen ++ [x.name], some ⟨seen.length, x.name, 0⟩)

/-- successive `Read` results in no-header mode over the lines (terminator and CR already removed);
`seen` = the reference names met so far -/
def noHeaderLoop (ft : FloatText) : List Bytes → List Bytes → List (Except Fault Record)
  | [], _ => []
  | l :: rest, seen =>
    match parseRecord ft none l with
    | .error e => .error e :: noHeaderLoop ft rest seen
    | .ok r =>
      let (seen1, ref) := resolveSeen seen r.ref
      let (seen2, mate) := resolveSeen seen1 r.mateRef
      .ok { r with ref := ref, mateRef := mate } :: noHeaderLoop ft rest seen2

def readAllNoHeader (ft : FloatText) (body : Bytes) : List (Except Fault Record) :=
  noHeaderLoop ft ((readerLines body).map stripCR) []

/-- `sam.NewReader` followed by `Read` until it fails or reports EOF.  `parseHeader` stands for
`Header.UnmarshalText` (C07) as far as records need it: the references of the header text; `none` where it
fails.  Result `none` = NewReader returns an error. -/
def readFile (ft : FloatText) (parseHeader : Bytes → Option Header) (input : Bytes) :
    Option (List (Except Fault Record)) :=
  match splitHeader (input.length + 1) [] input with
  | none => none
  | some (hdr, body) =>
    if hdr.isEmpty then some (readAllNoHeader ft body)
    else (parseHeader hdr).map fun h => readAll ft h body

/-! ### BAM view -/

/-- a record as bam.Reader returns it: absent qualities are a run of 0xff of the sequence's length -/
def norm (r : Record) : Record :=
  { r with qual := some (match r.qual with | none => List.replicate r.seq.length 255 | some q => q) }

end Hts.Model.SamText
