/-
Primitives shared by the generated (Hts.Gen) and hand-written (Hts.Model) definitions.
Core Lean only.
-/
namespace Hts.GoPrim

/-- `math/bits.LeadingZeros8`, result as a Go `int` (modelled as Int). -/
def clz8 (x : BitVec 8) : Int :=
  if x.getLsbD 7 then 0
  else if x.getLsbD 6 then 1
  else if x.getLsbD 5 then 2
  else if x.getLsbD 4 then 3
  else if x.getLsbD 3 then 4
  else if x.getLsbD 2 then 5
  else if x.getLsbD 1 then 6
  else if x.getLsbD 0 then 7
  else 8

end Hts.GoPrim
