/-
Sequential model of bgzf.Writer's block splitting (bgzf/writer.go: Write 191-221, Flush 224-243,
Wait 247-253, Close 272-287).  Core Lean only.

What is modelled: the contents of `active.block[:active.next]`, the sequence of blocks handed to
`bg.queue` (in hand-off order, which is the order the emitter goroutine writes them), and `closed`.
The model is generic in the byte type `α` (block splitting never looks at the bytes) and in the block
size `bs` (the code's `len(c.block)`, = `BlockSize`); `Hts.Tie.C01` ties `BlockSize` to the source.

What is NOT modelled here: the goroutine hand-off (owned by C12/C09: `WriterLTS`), the error latch
(`bg.err`; the scripts of C01/C08 use an underlying writer that never fails, and a block that
`writeBlock` refuses is handled by `Hts.Model.Member.render`), compression (see `Hts.Model.Member`).
-/
set_option linter.unusedVariables false
namespace Hts.Model.BgzfWriter

/-- `bgzf.BlockSize` (bgzf.go:19), tied to the source by `Hts.Tie.C01`. -/
def BlockSize : Nat := 0xff00
/-- `bgzf.MaxBlockSize` (bgzf.go:20). -/
def MaxBlockSize : Nat := 0x10000

/-- Sequential writer state. `active` is `c.block[:c.next]` of the active compressor, `emitted` the
blocks queued so far in queue order, `closed` the flag of the same name. -/
structure State (α : Type) where
  active : List α
  emitted : List (List α)
  closed : Bool
deriving Repr, DecidableEq

def State.init {α : Type} : State α := ⟨[], [], false⟩

/--
The loop of `Writer.Write` (writer.go:202-217), one call = one iteration:

    for ; len(b) > 0 && err == nil; err = bg.Error() {
        var _n int
        if c.next == 0 || c.next+len(b) <= len(c.block) {
            _n = copy(c.block[c.next:], b); b = b[_n:]; c.next += _n; n += _n
        }
        if c.next == len(c.block) || _n == 0 { queue c; c = <-bg.waiting }   -- fresh compressor: next = 0
    }

`copy` moves `min (len b) (bs - next)` bytes.  The loop terminates because an iteration either consumes
at least one byte of `b` or (when `_n = 0`) replaces a non-empty active block by an empty one; with
`bs = 0` the Go loop would spin forever, hence `0 < bs`.
-/
def writeLoop {α : Type} (bs : Nat) (hbs : 0 < bs) (b active : List α) (emitted : List (List α)) :
    List α × List (List α) :=
  if hb : b = [] then (active, emitted)
  else if hc : active.length = 0 ∨ active.length + b.length ≤ bs then
    let n := min b.length (bs - active.length)
    let active' := active ++ b.take n
    if active'.length = bs ∨ n = 0 then writeLoop bs hbs (b.drop n) [] (emitted ++ [active'])
    else writeLoop bs hbs (b.drop n) active' emitted
  else writeLoop bs hbs b [] (emitted ++ [active])
termination_by 2 * b.length + (if active.length = 0 then 0 else 1)
decreasing_by
  all_goals have hpos : 0 < b.length := List.length_pos_iff.mpr hb
  · simp only [List.length_drop, List.length_nil]
    split <;> omega
  · simp only [List.length_drop, List.length_append, List.length_take]
    split <;> split <;> omega
  · have ha : ¬ active.length = 0 := fun h => hc (Or.inl h)
    simp only [List.length_nil, if_neg ha, if_true]
    omega

/-- Outcome of one API call as the caller sees it. -/
inductive Res where
  | ok (n : Nat)      -- nil error; `n` = bytes accepted (0 for Flush/Wait/Close)
  | errClosed         -- bgzf.ErrClosed
deriving Repr, DecidableEq

/-- `Writer.Write`. -/
def write {α : Type} (bs : Nat) (hbs : 0 < bs) (s : State α) (b : List α) : State α × Res :=
  if s.closed then (s, .errClosed)
  else
    let (a, e) := writeLoop bs hbs b s.active s.emitted
    ({ s with active := a, emitted := e }, .ok b.length)

/-- `Writer.Flush`: queue the active block iff it is non-empty. -/
def flush {α : Type} (s : State α) : State α × Res :=
  if s.closed then (s, .errClosed)
  else if s.active.length = 0 then (s, .ok 0)
  else ({ s with active := [], emitted := s.emitted ++ [s.active] }, .ok 0)

/-- `Writer.Wait`: no effect on the sequential state (and no `closed` test in the code). -/
def wait {α : Type} (s : State α) : State α × Res := (s, .ok 0)

/-- `Writer.Close`: the active block is queued even when empty; a second Close does nothing. -/
def close {α : Type} (s : State α) : State α × Res :=
  if s.closed then (s, .ok 0)
  else ({ active := [], emitted := s.emitted ++ [s.active], closed := true }, .ok 0)

inductive Op (α : Type) where
  | write (b : List α)
  | flush
  | wait
  | close
deriving Repr

def step {α : Type} (bs : Nat) (hbs : 0 < bs) (s : State α) : Op α → State α × Res
  | .write b => write bs hbs s b
  | .flush => flush s
  | .wait => wait s
  | .close => close s

/-- Run a script; results in call order. -/
def run {α : Type} (bs : Nat) (hbs : 0 < bs) : State α → List (Op α) → State α × List Res
  | s, [] => (s, [])
  | s, op :: ops =>
    let (s1, r) := step bs hbs s op
    let (s2, rs) := run bs hbs s1 ops
    (s2, r :: rs)

/-- The bytes the script hands to the writer successfully: payloads of the `write`s before the first
`close` (later ones are refused with ErrClosed). -/
def accepted {α : Type} : List (Op α) → List α
  | [] => []
  | .write b :: ops => b ++ accepted ops
  | .close :: _ => []
  | _ :: ops => accepted ops

theorem blockSize_pos : 0 < BlockSize := by decide

end Hts.Model.BgzfWriter
