/-
`bam.Reader` (Model/BamChunks.lean) as a client of the bgzf reader in the sense of Model/ReaderOverLTS.lean
(`Client`: a computation that uses the reader only through Read/ReadByte/Seek/Blocked and what they return), so
that it can be run over the read-ahead protocol.  Core Lean only.  Each definition is the function of
Model/BamChunks.lean of the same name without the `c` (`Lemmas/BamOverLTS.lean`: `…_run`).
-/
import Hts.Model.ReaderOverLTS
import Hts.Model.BamChunks
namespace Hts.Model.ReadAhead
open Hts.Model.Bgzf
open Hts.Spec.Flat (Offset Chunk vOffset)

def Client.bind {α β : Type} : Client α → (α → Client β) → Client β
  | .done a, f => f a
  | .op o k, f => .op o fun out r => (k out r).bind f

/-- What `io.ReadFull(bg, p)`, `len(p) = n > 0`, makes of the one `Read` it needs. -/
def fullOf (n : Nat) (o : Out) : List UInt8 × Option Err :=
  if n ≤ o.bytes.length then (o.bytes, none)
  else match o.err with
    | none => (o.bytes, some .short)
    | some .eof => (o.bytes, if o.bytes.length = 0 then some .eof else some .unexpectedEOF)
    | some e => (o.bytes, some e)

def cReadFull (n : Nat) (r : Reader) : Client (Reader × List UInt8 × Option Err) :=
  if n = 0 then .done (r, [], none)
  else .op (.read n) fun o r' => .done (r', (fullOf n o).1, (fullOf n o).2)

/-- `newBuffer` (bam/reader.go) as a client of the bgzf reader. -/
def cNewBuffer (br : BamReader) : Client (BamReader × Except Err (List UInt8)) :=
  (cReadFull 4 br.r).bind fun p1 =>
    match p1.2.2 with
    | some e => .done ({ br with r := p1.1, lastChunk := ⟨p1.1.lastChunk.bgn, p1.1.lastChunk.fin⟩ }, .error e)
    | none =>
      if leInt32 p1.2.1 = 0 then
        .done ({ br with r := p1.1, lastChunk := ⟨p1.1.lastChunk.bgn, p1.1.lastChunk.fin⟩ }, .error .eof)
      else if leInt32 p1.2.1 < 0 then
        .done ({ br with r := p1.1, lastChunk := ⟨p1.1.lastChunk.bgn, p1.1.lastChunk.fin⟩ }, .error .other)
      else
        (cReadFull (leInt32 p1.2.1).toNat p1.1).bind fun p2 =>
          match p2.2.2 with
          | some e =>
            .done ({ br with r := p2.1, lastChunk := ⟨p1.1.lastChunk.bgn, p2.1.lastChunk.fin⟩ },
              .error (if e = .eof then .unexpectedEOF else e))
          | none =>
            .done ({ br with r := p2.1, lastChunk := ⟨p1.1.lastChunk.bgn, p2.1.lastChunk.fin⟩ }, .ok p2.2.1)

/-- `bam.Reader.Read` -/
def cBamRead (br : BamReader) : Client (BamReader × Except Err (List UInt8)) :=
  match br.c with
  | some c => if vOffset c.fin ≤ vOffset br.r.lastChunk.fin then .done (br, .error .eof) else cNewBuffer br
  | none => cNewBuffer br

/-- The client loop `for { rec, err := br.Read(); … }`, at most `k` rounds. -/
def cReadN : Nat → BamReader → Client (BamReader × List (List UInt8 × Chunk) × Option Err)
  | 0, br => .done (br, [], none)
  | k + 1, br =>
    (cBamRead br).bind fun p =>
      match p.2 with
      | .ok body => (cReadN k p.1).bind fun q => .done (q.1, (body, p.1.lastChunk) :: q.2.1, q.2.2)
      | .error e => .done (p.1, [], some e)

/-- `SetChunk` -/
def cSetChunk (br : BamReader) : Option Chunk → Client (BamReader × Option Err)
  | none => .done ({ br with c := none }, none)
  | some c => .op (.seek c.bgn) fun o r' =>
      match o.err with
      | some e => .done ({ br with r := r' }, some e)
      | none => .done ({ br with r := r', c := some c }, none)

/-- The header decoder's reads (`BamReader.consumeHeader`). -/
def cHeader : List Nat → Reader → Client (Reader × Option Err)
  | [], r => .done (r, none)
  | n :: ns, _ => .op (.read n) fun o r' =>
      if o.bytes.length ≠ n then .done (r', some (o.err.getD .other))
      else match o.err with
        | some e => .done (r', some e)
        | none => cHeader ns r'

/-- `bam.NewReader` after `bgzf.NewReader` succeeded with `r0`. -/
def cBamNew (hs : List Nat) (r0 : Reader) : Client (Except Err BamReader) :=
  (cHeader hs r0).bind fun p =>
    match p.2 with
    | some e => .done (.error e)
    | none => .done (.ok ⟨p.1, none, ⟨⟨0, 0⟩, p.1.lastChunk.fin⟩⟩)

/-- Open the BAM file, then read up to `k` records noting their chunks. -/
def cSeqPass (hs : List Nat) (k : Nat) (r0 : Reader) : Client (Option (List (List UInt8 × Chunk) × Option Err)) :=
  (cBamNew hs r0).bind fun x =>
    match x with
    | .ok br => (cReadN k br).bind fun q => .done (some q.2)
    | .error _ => .done none

/-- Open the BAM file, `SetChunk(c)`, then read up to `k` records. -/
def cReplay (hs : List Nat) (c : Chunk) (k : Nat) (r0 : Reader) :
    Client (Option (Option Err × List (List UInt8 × Chunk) × Option Err)) :=
  (cBamNew hs r0).bind fun x =>
    match x with
    | .ok br => (cSetChunk br (some c)).bind fun p =>
        (cReadN k p.1).bind fun q => .done (some (p.2, q.2))
    | .error _ => .done none

end Hts.Model.ReadAhead
