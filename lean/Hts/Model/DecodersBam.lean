/-
C11 — the BAM record reader with explicit indexing: `bam.buffer` (unsafeBytes, readUint8/16, readInt32),
`readCigarOps`, `newBuffer` and `bam.(*Reader).Read` (bam/reader.go), panic-aware, written over the same
types as C05's model `Hts.Model.Bam`.  `Hts.Lemmas.DecodersBam` proves that this version computes exactly
C05's `decodeBody` (which C05's correspondence check ties to the code) and therefore never panics.
The aux walker is C05's `parseAux` here; its indexing is `parseAuxBam` of Hts.Model.Decoders.
Core Lean only.

A `Buf` holds `b.data[b.off:]` (what is left) and the sticky `err`; `b.data[s:b.off]` with `s = b.off`,
`b.off = s + n` is then the slice `[0:n]` of what is left, and `n` is a Go `int` that may be negative.
-/
import Hts.Model.Decoders
import Hts.Model.BamRecord
namespace Hts.Model.Decoders
open Outcome (ok err)
open Hts.Model.Bam (Byte Buf getU16 getU32 toI32 Record Omit)

/-- Go `error` of C05's model ↦ `err`, value ↦ `ok` -/
def liftE {α : Type} : Except Hts.Model.Bam.Fault α → Outcome α
  | .ok v => ok v
  | .error _ => err

/-- `b.unsafeBytes(n)`: `if b.err != nil {return nil}; if b.len() < n {b.err = …; return nil};
s := b.off; b.off += n; return b.data[s:b.off]` -/
def unsafeBytesIdx (b : Buf) (n : Int) : Outcome (List Byte × Buf) :=
  if b.err then ok ([], b)
  else if (b.data.length : Int) < n then ok ([], { b with err := true })
  else if n < 0 then .panic "bam.buffer.unsafeBytes:b.data[s:b.off]"
  else
    match sliceTo "bam.buffer.unsafeBytes:b.data[s:b.off]" b.data n.toNat with
    | ok d => ok (d, { b with data := b.data.drop n.toNat })
    | err => err
    | .panic s => .panic s

/-- `b.readUint8()`: `b.off++; return b.data[b.off-1]` after the `b.len() < 1` test -/
def readU8Idx (b : Buf) : Outcome (Byte × Buf) :=
  if b.err then ok (0, b)
  else if b.data.length < 1 then ok (0, { b with err := true })
  else
    match index "bam.buffer.readUint8:b.data[b.off-1]" b.data 0 with
    | ok x => ok (x, { b with data := b.data.drop 1 })
    | err => err
    | .panic s => .panic s

/-- `binary.LittleEndian.Uint16(d)` panics unless `len(d) >= 2` -/
def u16Of (site : String) (d : List Byte) : Outcome Nat :=
  match index site d 1, index site d 0 with
  | ok y, ok x => ok (getU16 x y)
  | .panic s, _ => .panic s
  | _, .panic s => .panic s
  | _, _ => err

/-- `binary.LittleEndian.Uint32(d)` panics unless `len(d) >= 4` -/
def u32Of (site : String) (d : List Byte) : Outcome Nat :=
  match index site d 3, index site d 0, index site d 1, index site d 2 with
  | ok w, ok x, ok y, ok z => ok (getU32 x y z w)
  | .panic s, _, _, _ => .panic s
  | _, .panic s, _, _ => .panic s
  | _, _, .panic s, _ => .panic s
  | _, _, _, .panic s => .panic s
  | _, _, _, _ => err

/-- `b.readUint16()` -/
def readU16Idx (b : Buf) : Outcome (Nat × Buf) :=
  if b.err then ok (0, b)
  else if b.data.length < 2 then ok (0, { b with err := true })
  else do
    let (d, b') ← unsafeBytesIdx b 2
    let v ← u16Of "bam.buffer.readUint16:binary.LittleEndian.Uint16(b.unsafeBytes(2))" d
    pure (v, b')

/-- `b.readInt32()` -/
def readI32Idx (b : Buf) : Outcome (Int × Buf) :=
  if b.err then ok (0, b)
  else if b.data.length < 4 then ok (0, { b with err := true })
  else do
    let (d, b') ← unsafeBytesIdx b 4
    let v ← u32Of "bam.buffer.readInt32:binary.LittleEndian.Uint32(b.unsafeBytes(4))" d
    pure (toI32 v, b')

/-- the loop of `readCigarOps`: `co[i] = CigarOp(Uint32(cb[i*4:(i+1)*4]))` for `i < len(cb)/4`;
`rem` is `cb[i*4:]` -/
def readCigarLoop : (k : Nat) → List Byte → Outcome (List (BitVec 32))
  | 0, _ => ok []
  | k + 1, rem =>
    match slice "bam.readCigarOps:cb[i*4:(i+1)*4]" rem 0 4 with
    | ok w =>
      match u32Of "bam.readCigarOps:binary.LittleEndian.Uint32(cb[i*4:(i+1)*4])" w with
      | ok v =>
        match readCigarLoop k (rem.drop 4) with
        | ok rest => ok (BitVec.ofNat 32 v :: rest)
        | err => err
        | .panic s => .panic s
      | err => err
      | .panic s => .panic s
    | err => err
    | .panic s => .panic s

/-- `readCigarOps(cb)` -/
def readCigarOpsIdx (cb : List Byte) : Outcome (List (BitVec 32)) := readCigarLoop (cb.length / 4) cb

/-- the `done:` part of Read with the explicit `br.h.Refs()[refID]`, `br.h.Refs()[nextRefID]` -/
def linkRefsIdx (nrefs : Nat) (refID nextRefID : Int) (r : Record) : Outcome Record :=
  if refID != -1 && (refID < -1 || refID ≥ (nrefs : Int)) then err
  else do
    let ref : Option Nat ←
      if refID == -1 then pure none
      else do
        let i ← indexInt "bam.Reader.Read:br.h.Refs()[refID]" (List.range nrefs) refID
        pure (some i)
    if nextRefID != -1 then
      if refID == nextRefID then pure { r with ref := ref, mateRef := ref }
      else if nextRefID < -1 || nextRefID ≥ (nrefs : Int) then err
      else do
        let j ← indexInt "bam.Reader.Read:br.h.Refs()[nextRefID]" (List.range nrefs) nextRefID
        pure { r with ref := ref, mateRef := some j }
    else pure { r with ref := ref, mateRef := none }

def finishIdx (nrefs : Nat) (refID nextRefID : Int) (b : Buf) (r : Record) : Outcome Record :=
  if b.err then err else linkRefsIdx nrefs refID nextRefID r

/-- `bam.(*Reader).Read` on the record buffer, statement by statement -/
def decodeBodyIdx (om : Omit) (nrefs : Nat) (body : List Byte) : Outcome Record := do
  let b : Buf := ⟨body, false⟩
  let (refID, b) ← readI32Idx b
  let (pos, b) ← readI32Idx b
  let (nLen, b) ← readU8Idx b
  let (mapq, b) ← readU8Idx b
  let b := b.discard 2
  let (nCigar, b) ← readU16Idx b
  let (flags, b) ← readU16Idx b
  let (lSeq, b) ← readI32Idx b
  let (nextRefID, b) ← readI32Idx b
  let (matePos, b) ← readI32Idx b
  let (tempLen, b) ← readI32Idx b
  if nLen.toNat < 1 then err
  else
    let (name, b) ← unsafeBytesIdx b ((nLen.toNat : Int) - 1)
    let b := b.discard 1
    let (cb, b) ← unsafeBytesIdx b ((nCigar : Int) * 4)
    let cigar ← readCigarOpsIdx cb
    let rec0 : Record :=
      { name := name, ref := none, pos := pos, mapq := mapq, cigar := cigar,
        flags := BitVec.ofNat 16 flags, mateRef := none, matePos := matePos, tempLen := tempLen,
        seqLen := 0, seq := [], qual := none, aux := [] }
    match om with
    | .all => finishIdx nrefs refID nextRefID b rec0
    | _ =>
      if lSeq < 0 then err
      else
        -- (lSeq >> 1) + (lSeq & 0x1), with lSeq ≥ 0 here
        let (seq, b) ← unsafeBytesIdx b (lSeq / 2 + lSeq % 2)
        let (qual, b) ← unsafeBytesIdx b lSeq
        let rec1 : Record := { rec0 with seqLen := lSeq.toNat, seq := seq, qual := some qual }
        match om with
        | .aux => finishIdx nrefs refID nextRefID b rec1
        | _ =>
          let (auxb, b) ← unsafeBytesIdx b b.data.length
          let aux ← liftE (Hts.Model.Bam.parseAux auxb)
          finishIdx nrefs refID nextRefID b { rec1 with aux := aux }

/-- `newBuffer` after the four size bytes were read: `size == 0` is io.EOF, `size < 0` an error,
`make([]byte, size)` beyond the 4 KiB buffer, else `br.buf[:size]`.  The value is the number of bytes to read. -/
def newBufferIdx (x y z w : Byte) : Outcome Nat :=
  let size := toI32 (getU32 x y z w)
  if size == 0 then err
  else if size < 0 then err
  else if 4096 < size then makeLen "bam.newBuffer:make([]byte, size)" size
  else
    match sliceTo "bam.newBuffer:br.buf[:size]" (List.replicate 4096 (0 : Byte)) size.toNat with
    | ok _ => ok size.toNat
    | err => err
    | .panic s => .panic s

end Hts.Model.Decoders
