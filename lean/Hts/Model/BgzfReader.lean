/-
Executable model of `bgzf.Reader` as used sequentially without a cache (bgzf/reader.go, bgzf/cache.go).
Core Lean only.

A *file* is the list of its gzip members, each given by its uncompressed payload and the size of the
compressed member (DEFLATE/CRC are out of scope here: `memberAt` is "seek the underlying file to this
offset and parse one member", which succeeds exactly at a member start and reports `io.EOF` exactly at
the end of the file).  The reader mirrors reader.go:533–663 (Read, ReadByte, nextBlock), Seek
(447–509) and the `block` type of cache.go literally: the current block with its `bytes.Reader` index
`pos`, its `offset` (`tx`, the source of `LastChunk`), the sticky `err`, `lastChunk` and `Blocked`.
The code path mirrored is the synchronous one (`bg.dec != nil`, rd = 1; a failed load leaves the block
`failAt` makes: base = the offset asked for, no header, no data); with read-ahead the same
block contents are delivered through the `working` channel and the correspondence check compares
every rd with this model.
-/
import Hts.Spec.FlatFile
namespace Hts.Model.Bgzf
open Hts.Spec.Flat (Offset Chunk vOffset Op)

/-- One gzip member: payload and compressed size (`NextBase − Base`). -/
structure Member where
  data : List UInt8
  csize : Nat

abbrev File := List Member

/-- Error values.  `fuel` and `short` are outcomes of the *model* (a loop bound was hit / `io.ReadFull`
would have had to loop); both are proved unreachable.  `panic` is a Go run-time panic. -/
inductive Err where
  | eof            -- io.EOF
  | unexpectedEOF  -- io.ErrUnexpectedEOF
  | other          -- any other error
  | fuel
  | short
  | panic
deriving DecidableEq, Repr

inductive Load where
  | ok (m : Member)
  | eof
  | bad

/-- Seek the underlying file to `off` and parse a member there. -/
def memberAt : File → Nat → Load
  | [], 0 => .eof
  | [], _ + 1 => .bad
  | m :: rest, off =>
    if off = 0 then .ok m
    else if off < m.csize then .bad
    else memberAt rest (off - m.csize)

/-- `bgzf.block` (cache.go): `base`, header size field (`hsize`, for `NextBase`), the decompressed data
with the `bytes.Reader` index `pos`, and `offset` (`tx`). -/
structure Block where
  base : Nat
  hsize : Nat
  data : List UInt8
  pos : Nat
  tx : Offset

namespace Block

/-- `b.buf.Len()` -/
def len (b : Block) : Nat := b.data.length - b.pos

def nextBase (b : Block) : Nat := b.base + b.hsize

/-- `block.Read(p)` with `len(p) = n`: `bytes.Reader.Read` returns `0, io.EOF` when nothing is left,
otherwise copies; `offset.Block += uint16(n)`. Result: bytes, EOF?, new block. -/
def read (b : Block) (n : Nat) : List UInt8 × Bool × Block :=
  if b.data.length ≤ b.pos then ([], true, b)
  else
    let out := (b.data.drop b.pos).take n
    (out, false, { b with pos := b.pos + out.length,
                          tx := ⟨b.tx.file, (b.tx.block + out.length) % 65536⟩ })

/-- `block.ReadByte()` -/
def readByte (b : Block) : UInt8 × Bool × Block :=
  match b.data.drop b.pos with
  | [] => (0, true, b)
  | c :: _ => (c, false, { b with pos := b.pos + 1, tx := ⟨b.tx.file, (b.tx.block + 1) % 65536⟩ })

/-- `block.seek(offset)`: `bytes.Reader.Seek(offset, 0)` accepts every non-negative offset. -/
def seek (b : Block) (off : Nat) : Block :=
  { b with pos := off, tx := ⟨b.tx.file, off % 65536⟩ }

/-- The block of a failed load (`decompressor.failAt`): labelled with the offset asked for, no header
(`hsize = 0`: `NextBase()` is −1; a loaded member always has a positive size) and no data (`buf == nil`). -/
def failed (base : Nat) : Block := ⟨base, 0, [], 0, ⟨base, 0⟩⟩

/-- `hasData()`: `buf != nil`.  Exactly the blocks of failed loads have none. -/
def hasData (b : Block) : Bool := b.hsize ≠ 0

/-- `dec.using(b).nextBlockAt(base).wait()` -/
def load (f : File) (_b : Block) (base : Nat) : Block × Option Err :=
  match memberAt f base with
  | .ok m => (⟨base, m.csize, m.data, 0, ⟨base, 0⟩⟩, none)
  | .eof => (failed base, some .eof)
  | .bad => (failed base, some .other)

end Block

structure Reader where
  file : File
  cur : Block
  lastChunk : Chunk
  err : Option Err
  blocked : Bool

namespace Reader

/-- `NewReader`: the first member is read synchronously; failure fails the constructor. -/
def new (f : File) : Except Err Reader :=
  match memberAt f 0 with
  | .ok m => .ok ⟨f, ⟨0, m.csize, m.data, 0, ⟨0, 0⟩⟩, ⟨⟨0, 0⟩, ⟨0, 0⟩⟩, none, false⟩
  | .eof => .error .eof
  | .bad => .error .other

/-- `nextBlock` (no cache): `bg.current, err = bg.dec.using(bg.current).nextBlockAt(NextBase).wait()` -/
def nextBlock (r : Reader) : Reader × Option Err :=
  let (b, e) := r.cur.load r.file r.cur.nextBase
  ({ r with cur := b }, e)

/-- `for bg.current.len() == 0 { bg.err = bg.nextBlock(); if bg.err != nil { return 0, bg.err } }`.
The result's `err` says whether the loop returned. -/
def skipEmpty : Nat → Reader → Reader
  | 0, r => { r with err := some .fuel }
  | fuel + 1, r =>
    if r.cur.len = 0 then
      match r.nextBlock with
      | (r', some e) => { r' with err := some e }
      | (r', none) => skipEmpty fuel { r' with err := none }
    else r

def setEnd (r : Reader) : Reader := { r with lastChunk := ⟨r.lastChunk.bgn, r.cur.tx⟩ }

/-- The copy loop of `Read`; `want` is `len(p) - n`.
```
for n < len(p) && bg.err == nil {
    _n, bg.err = bg.current.Read(p[n:]); n += _n
    if bg.err == io.EOF {
        if n == len(p) { bg.err = nil; break }
        if bg.Blocked { bg.err = nil; bg.lastChunk.End = bg.current.txOffset(); return n, io.EOF }
        bg.err = bg.nextBlock()
        if bg.err != nil { break }
    }
}
bg.lastChunk.End = bg.current.txOffset()
return n, bg.err
``` -/
def readLoop : Nat → Reader → Nat → Reader × List UInt8 × Option Err
  | 0, r, _ => ({ r with err := some .fuel }, [], some .fuel)
  | fuel + 1, r, want =>
    if 0 < want ∧ r.err = none then
      match r.cur.read want with
      | (out, false, b) =>
        let (r', rest, e) := readLoop fuel { r with cur := b } (want - out.length)
        (r', out ++ rest, e)
      | (out, true, b) =>
        let r := { r with cur := b, err := some .eof }
        if want - out.length = 0 then
          let r := { r with err := none }
          (r.setEnd, out, r.err)
        else if r.blocked then
          ({ r with err := none }.setEnd, out, some .eof)
        else
          match r.nextBlock with
          | (r', some e) =>
            let r' := { r' with err := some e }
            (r'.setEnd, out, r'.err)
          | (r', none) =>
            let (r'', rest, e) := readLoop fuel { r' with err := none } (want - out.length)
            (r'', out ++ rest, e)
    else (r.setEnd, [], r.err)

def skipFuel (r : Reader) : Nat := r.file.length + 1
def loopFuel (r : Reader) : Nat := 2 * r.file.length + 3

/-- `Reader.Read(p)`, `len(p) = n`. -/
def read (r : Reader) (n : Nat) : Reader × List UInt8 × Option Err :=
  match r.err with
  | some e => (r, [], some e)
  | none =>
    let r := r.skipEmpty r.skipFuel
    match r.err with
    | some e => (r, [], some e)
    | none =>
      let r := { r with lastChunk := ⟨r.cur.tx, r.lastChunk.fin⟩ }
      r.readLoop r.loopFuel n

/-- `Reader.ReadByte()` -/
def readByte (r : Reader) : Reader × UInt8 × Option Err :=
  match r.err with
  | some e => (r, 0, some e)
  | none =>
    let r := r.skipEmpty r.skipFuel
    match r.err with
    | some e => (r, 0, some e)
    | none =>
      let r := { r with lastChunk := ⟨r.cur.tx, r.lastChunk.fin⟩ }
      match r.cur.readByte with
      | (c, false, b) =>
        let r := { r with cur := b }
        (r.setEnd, c, none)
      | (c, true, b) =>
        let r := { r with cur := b, err := some .eof }
        if r.blocked then ({ r with err := none }.setEnd, c, some .eof)
        else
          let (r', e) := r.nextBlock
          let r' := { r' with err := e }
          (r'.setEnd, c, e)

/-- `Reader.Seek(off)` on a seekable file, no cache:
`if off.File != bg.current.Base() || !bg.current.hasData() { … load … }`. -/
def seek (r : Reader) (off : Offset) : Reader × Option Err :=
  if off.file ≠ r.cur.base ∨ r.cur.hasData = false then
    let (b, e) := r.cur.load r.file off.file
    let r := { r with cur := b, err := e }
    match e with
    | some e => (r, some e)
    | none => ({ r with cur := r.cur.seek off.block, err := none, lastChunk := ⟨off, off⟩ }, none)
  else
    ({ r with cur := r.cur.seek off.block, err := none, lastChunk := ⟨off, off⟩ }, none)

def setBlocked (r : Reader) (b : Bool) : Reader := { r with blocked := b }

/-- `BlockLen()` -/
def blockLen (r : Reader) : Nat := r.cur.len

end Reader

/-- What one operation returns. -/
structure Out where
  bytes : List UInt8
  err : Option Err

def Reader.step (r : Reader) : Op → Reader × Out
  | .read n => let (r', bs, e) := r.read n; (r', ⟨bs, e⟩)
  | .readByte => let (r', c, e) := r.readByte; (r', ⟨[c], e⟩)
  | .seek o => let (r', e) := r.seek o; (r', ⟨[], e⟩)
  | .setBlocked b => (r.setBlocked b, ⟨[], none⟩)

/-- Run a history, collecting per operation the output and the observable state after it. -/
def Reader.run (r : Reader) : List Op → List (Out × Reader)
  | [] => []
  | op :: ops => let (r', o) := r.step op; (o, r') :: Reader.run r' ops

/-- The flat view of a file: what `Hts.Spec.Flat` is about. -/
def flatBytes : File → List UInt8
  | [] => []
  | m :: rest => m.data ++ flatBytes rest

def layoutOf : File → Hts.Spec.Flat.Layout
  | [] => []
  | m :: rest => ⟨m.data.length, m.csize⟩ :: layoutOf rest

def flatOf (f : File) : Hts.Spec.Flat.FlatFile := ⟨flatBytes f, layoutOf f⟩

end Hts.Model.Bgzf
