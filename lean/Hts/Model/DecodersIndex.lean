/-
C11 — panic-aware model of the BAI reader: bam.ReadIndex, internal.ReadIndex, readIndices, readBins,
readChunks, readStats, readIntervals (internal/index_read.go), with the repairs fixes/C11-11 (negative
counts).  Core Lean only.

The stream is a byte list; `binary.Read`/`io.ReadFull` of k bytes is `take? k` (an error when fewer
are left).  `make([]T, n)` is the partial operation `makeLen` (panic when n < 0); a huge n is the
separate outcome `oom` of the implementation and is not modelled: the model simply goes on and fails at
the first read beyond the end of the input.  What is kept of the decoded index is what the canonical
comparison needs: the number of references and the length of its re-serialisation by WriteIndex.
-/
import Hts.Model.Decoders
namespace Hts.Model.Decoders
open Outcome (ok err)

/-- read k bytes -/
def take? (k : Nat) (s : Bytes) : Outcome (Bytes × Bytes) :=
  if s.length < k then err else ok (s.take k, s.drop k)

def leNat : Bytes → Nat
  | [] => 0
  | x :: rest => x.toNat + 256 * leNat rest

def rdI32 (s : Bytes) : Outcome (Int × Bytes) := do
  let (b, r) ← take? 4 s
  pure (asInt32 (leNat b), r)

def rdU32 (s : Bytes) : Outcome (Nat × Bytes) := do
  let (b, r) ← take? 4 s
  pure (leNat b, r)

def skip (k : Nat) (s : Bytes) : Outcome Bytes := do
  let (_, r) ← take? k s
  pure r

/-- `cnt` records of `size` bytes each, one read per record -/
def readRecords (size : Nat) : (cnt : Nat) → Bytes → Outcome Bytes
  | 0, s => ok s
  | cnt + 1, s =>
    match skip size s with
    | ok r => readRecords size cnt r
    | err => err
    | .panic p => .panic p

/-- `readChunks(r, n, typ)`: the number of chunks and the rest of the stream -/
def readChunksM (n : Int) (s : Bytes) : Outcome (Nat × Bytes) :=
  if n = 0 then ok (0, s)
  else if n < 0 then err
  else do
    let cnt ← makeLen "internal.readChunks:make([]bgzf.Chunk, n)" n
    let r ← readRecords 16 cnt s
    pure (cnt, r)

/-- `readIntervals(r, typ)` -/
def readIntervalsM (s : Bytes) : Outcome (Nat × Bytes) := do
  let (n, s) ← rdI32 s
  if n = 0 then pure (0, s)
  else if n < 0 then err
  else
    let cnt ← makeLen "internal.readIntervals:make([]bgzf.Offset, n)" n
    let r ← readRecords 8 cnt s
    pure (cnt, r)

def statsDummyBin : Nat := 37450

structure BinsAcc where
  nBins : Nat := 0
  nChunks : Nat := 0
  hasStats : Bool := false

/-- the loop of `readBins`: `for i := 0; i < len(bins); i++`, where the statistics pseudo-bin does
`bins = bins[:len(bins)-1]; i--`.  `remaining = len(bins) - i` decreases on both paths. -/
def readBinsLoop : (remaining : Nat) → (lenBins : Int) → Bytes → BinsAcc → Outcome (BinsAcc × Bytes)
  | 0, _, s, acc => ok (acc, s)
  | remaining + 1, lenBins, s, acc =>
    match rdU32 s with
    | ok (bin, s1) =>
      match rdI32 s1 with
      | ok (n, s2) =>
        if bin = statsDummyBin then
          if n ≠ 2 then err
          else
            match skip 32 s2 with
            | ok s3 =>
              -- bins = bins[:len(bins)-1]
              if lenBins - 1 < 0 ∨ lenBins < lenBins - 1 then .panic "internal.readBins:bins[:len(bins)-1]"
              else readBinsLoop remaining (lenBins - 1) s3 { acc with hasStats := true }
            | err => err
            | .panic p => .panic p
        else
          match readChunksM n s2 with
          | ok (cnt, s3) => readBinsLoop remaining lenBins s3 { acc with nBins := acc.nBins + 1, nChunks := acc.nChunks + cnt }
          | err => err
          | .panic p => .panic p
      | err => err
      | .panic p => .panic p
    | err => err
    | .panic p => .panic p

/-- `readBins(r, typ)` -/
def readBinsM (s : Bytes) : Outcome (BinsAcc × Bytes) := do
  let (n, s) ← rdI32 s
  if n = 0 then pure ({}, s)
  else if n < 0 then err
  else
    let cnt ← makeLen "internal.readBins:make([]Bin, n)" n
    readBinsLoop cnt cnt s {}

/-- bytes `writeBins` + `writeIntervals` produce for one reference -/
def refSerialLen (b : BinsAcc) (nIntervals : Nat) : Nat :=
  4 + 8 * b.nBins + 16 * b.nChunks + (if b.hasStats then 40 else 0) + 4 + 8 * nIntervals

/-- `readIndices`: `n` references; accumulates the serialised length -/
def readRefsLoop : (cnt : Nat) → Bytes → Nat → Outcome (Nat × Bytes)
  | 0, s, len => ok (len, s)
  | cnt + 1, s, len =>
    match readBinsM s with
    | ok (b, s1) =>
      match readIntervalsM s1 with
      | ok (ni, s2) => readRefsLoop cnt s2 (len + refSerialLen b ni)
      | err => err
      | .panic p => .panic p
    | err => err
    | .panic p => .panic p

/-- what `bam.ReadIndex` returns: `none` is the `nil, nil` of an index without references -/
abbrev BaiValue := Option (Nat × Nat)

/-- `internal.ReadIndex(r, n, typ)` for n ≠ 0: the references, then the optional count of unplaced
reads.  `base` is the length of what the caller's writer emits before the references. -/
def readIndexBody (n : Int) (s : Bytes) (base : Nat) : Outcome BaiValue :=
  if n < 0 then err
  else do
    let cnt ← makeLen "internal.readIndices:make([]RefIndex, n)" n
    let (len, rest) ← readRefsLoop cnt s base
    -- `binary.Read(r, ..., &nUnmapped)`: io.EOF (nothing left) is accepted, a partial value is an error
    if rest.length = 0 then pure (some (cnt, len))
    else if rest.length < 8 then err
    else pure (some (cnt, len + 8))

/-- `bam.ReadIndex` (since /repo 4339203-era repairs an index without references is read like any
other: `n == 0` no longer returns `nil, nil`) -/
def readBAI (s : Bytes) : Outcome BaiValue := do
  let (magic, s) ← take? 4 s
  if magic ≠ [66, 65, 73, 1] then err
  else
    let (n, s) ← rdI32 s
    readIndexBody n s 8

/-- number of zero-terminated names in a name block that ends with a zero byte:
`strings.Split(names[:len(names)-1], "\x00")` -/
def countNames (names : Bytes) : Nat := (splitOn 0 (names.take (names.length - 1))).length

/-- `readTabixHeader`'s name block: `l_nm < 0` is an error, `l_nm == 0` means no names (/repo bb4b88e),
otherwise the block must end with a zero byte.  Returns the number of names, `l_nm`, and the rest. -/
def readNames (s : Bytes) : Outcome (Nat × Nat × Bytes) := do
  let (lnm, s) ← rdI32 s
  if lnm < 0 then err
  else if lnm = 0 then pure (0, 0, s)
  else
    let cnt ← makeLen "tabix.readTabixHeader:make([]byte, n)" lnm
    let (names, s) ← take? cnt s
    let last ← indexInt "tabix.readTabixHeader:names[len(names)-1]" names ((names.length : Int) - 1)
    if last ≠ 0 then err
    else
      let _ ← sliceTo "tabix.readTabixHeader:names[:len(names)-1]" names (names.length - 1)
      pure (countNames names, cnt, s)

/-- `tabix.ReadFrom`: magic, n_ref, the six header words, the name block, the name count test
(`len(idx.refNames) != int(n)`), then `internal.ReadIndex` -/
def readTabix (s : Bytes) : Outcome BaiValue := do
  let (magic, s) ← take? 4 s
  if magic ≠ [84, 66, 73, 1] then err
  else
    let (n, s) ← rdI32 s
    let s ← skip 24 s
    let (nNames, lnm, s) ← readNames s
    if (nNames : Int) ≠ n then err
    else readIndexBody n s (36 + lnm)

end Hts.Model.Decoders
