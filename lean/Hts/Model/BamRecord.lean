/-
Executable model of the BAM record codec of biogo/hts AS IT IS (core Lean only):

* `encodeRecord`  mirrors `bam.(*Writer).Write` (bam/writer.go:76-123) byte for byte, including its two
  error returns and the place where it can panic (`a.Type()` of an aux shorter than 3 bytes);
* `decodeBody omit` mirrors `bam.(*Reader).Read` after the length prefix (bam/reader.go:120-193) on the
  light-weight `buffer` type (sticky `err`, zero values once it is set, `Read` returning that `err` at its
  `done:` label), and `parseAux`;
* `readRecord` mirrors `newBuffer` (the length prefix, `io.ReadFull` semantics) and `readAll` iterates it.

`encoding/binary.LittleEndian` is trusted and modelled by its arithmetic meaning (`putU32`/`getU32`).
What is NOT modelled: the sharing of the 4 KiB buffer between records (slice aliasing), the BGZF layer
(C01), the binary header (C07: an opaque byte block here), negative `Seq.Length` in a hand-built record.
-/
namespace Hts.Model.Bam

abbrev Byte := BitVec 8

/-- Every way a call can end other than with a value. `err*` are Go `error` returns, `panic*` are run-time
panics, `hang*` is a non-terminating loop. -/
inductive Fault where
  | errNameLen       -- Writer.Write: "bam: name absent or too long"
  | errQualLen       -- Writer.Write: "bam: sequence/quality length mismatch"
  | errUnexpectedEOF -- io.ReadFull: fewer bytes than asked for; Read: the record buffer ran out (`b.err`)
  | errBlockSize     -- newBuffer: "bam: invalid record: invalid block size" (negative)
  | errReadNameLen   -- Read: "bam: invalid read name length"
  | errSeqLen        -- Read: "bam: invalid sequence length"
  | errRefRange      -- Read: "bam: reference id out of range"
  | errMateRefRange  -- Read: "bam: mate reference id out of range"
  | errAuxTruncated  -- parseAux: "bam: truncated aux data" (fixed-width value cut short)
  | errAuxNoZero     -- parseAux: "bam: invalid zero terminated data: no zero"
  | errAuxZeroInTag  -- parseAux: "bam: invalid zero terminated data: zero in tag"
  | errAuxHexOdd     -- parseAux/decodeHex: "bam: invalid hex data: odd number of digits"
  | errAuxHexDigit   -- parseAux/decodeHex: "bam: invalid hex data: ..." (a character that is not a hex digit)
  | errAuxArrayHdr   -- parseAux: "bam: truncated aux array header"
  | errAuxArrayElem  -- parseAux: "bam: unrecognised array element type"
  | errAuxArrayLen   -- parseAux: "bam: invalid array length for aux data"
  | errAuxType       -- parseAux: "bam: unrecognised optional field type"
  | panicAuxType     -- buildAux: a.Type() = a[2] with len(a) < 3
  | fuel             -- model artefact, proved unreachable (Lemmas.BamStream)
  deriving DecidableEq, Repr

/-! ### little-endian fixed-width integers (encoding/binary, trusted) -/

/-- Go's `byte(n)` -/
def byteOf (n : Nat) : Byte := BitVec.ofNat 8 n

/-- `binary.LittleEndian.PutUint16(b, uint16(n))` -/
def putU16 (n : Nat) : List Byte := [byteOf n, byteOf (n / 256)]

/-- `binary.LittleEndian.PutUint32(b, uint32(n))` -/
def putU32 (n : Nat) : List Byte := [byteOf n, byteOf (n / 256), byteOf (n / 65536), byteOf (n / 16777216)]

/-- `writeInt32(int32(x))`: conversion of a Go `int` to `int32` keeps the low 32 bits -/
def putI32 (x : Int) : List Byte := putU32 (x % 4294967296).toNat

/-- `binary.LittleEndian.Uint16` -/
def getU16 (a b : Byte) : Nat := a.toNat + 256 * b.toNat

/-- `binary.LittleEndian.Uint32` -/
def getU32 (a b c d : Byte) : Nat := a.toNat + 256 * b.toNat + 65536 * c.toNat + 16777216 * d.toNat

/-- `int32(u)` for a `uint32` value -/
def toI32 (u : Nat) : Int := if u < 2147483648 then (u : Int) else (u : Int) - 4294967296

/-! ### records -/

/-- `sam.Record` as the BAM codec sees it.  `ref`/`mateRef`: `none` is the nil `*Reference`, `some i` is the
i-th reference of the header (identity in the header = index). `seq` are the packed `Doublet`s,
`qual = none` is the nil slice, an aux field is the raw `sam.Aux` byte string (tag, type, payload; the
payload of `Z` WITHOUT its terminating NUL, the payload of `H` = the DECODED bytes, not the hex digits). -/
structure Record where
  name : List Byte
  ref : Option Nat
  pos : Int
  mapq : Byte
  cigar : List (BitVec 32)
  flags : BitVec 16
  mateRef : Option Nat
  matePos : Int
  tempLen : Int
  seqLen : Nat
  seq : List Byte
  qual : Option (List Byte)
  aux : List (List Byte)
  deriving DecidableEq, Repr

/-- `(*Reference).ID()` -/
def refID : Option Nat → Int
  | none => -1
  | some i => (i : Int)

def cigarType (c : BitVec 32) : Nat := c.toNat % 16   -- co & 0xf
def cigarLen (c : BitVec 32) : Nat := c.toNat / 16    -- co >> 4

/-- the `Reference` column of `sam.consume` (11 entries) -/
def consumeRef : List Int := [1, 0, 1, 1, 0, 0, 0, 1, 1, -1, 0]

def unmapped (r : Record) : Bool := r.flags.toNat / 4 % 2 == 1
def mateUnmapped (r : Record) : Bool := r.flags.toNat / 8 % 2 == 1

/-- `CigarOpType.Consumes().Reference`: the table for op codes 0..10, the zero `Consume` for 11..15 -/
def consumeRefOf (t : Nat) : Int := consumeRef.getD t 0

/-- the loop of `Record.End` -/
def endLoop : List (BitVec 32) → Int → Int → Int
  | [], _, e => e
  | c :: cs, pos, e =>
    let pos := pos + (cigarLen c : Int) * consumeRefOf (cigarType c)
    endLoop cs pos (if e < pos then pos else e)

/-- `Record.End` -/
def recordEnd (r : Record) : Int :=
  if unmapped r || r.cigar.isEmpty then r.pos + 1 else endLoop r.cigar r.pos r.pos

/-- `internal.BinFor` (same text as the regenerated `Hts.Gen.Index.binFor`) -/
def binFor (beg : Int) (end_ : Int) : BitVec 32 :=
  let end_ : Int := end_ - 1
  if ((beg >>> 14) == (end_ >>> 14)) then
    ((4681#32 + (BitVec.ofInt 32 (beg >>> 14))))
  else if ((beg >>> 17) == (end_ >>> 17)) then
    ((585#32 + (BitVec.ofInt 32 (beg >>> 17))))
  else if ((beg >>> 20) == (end_ >>> 20)) then
    ((73#32 + (BitVec.ofInt 32 (beg >>> 20))))
  else if ((beg >>> 23) == (end_ >>> 23)) then
    ((9#32 + (BitVec.ofInt 32 (beg >>> 23))))
  else if ((beg >>> 26) == (end_ >>> 26)) then
    ((1#32 + (BitVec.ofInt 32 (beg >>> 26))))
  else
    (0#32)

/-- `Record.Bin`: `end := r.End(); if end == r.Pos { end++ }; BinFor(r.Pos, end)` — an alignment that consumes no
reference counts as one base long (repair fdfa0ce) -/
def recordBin (r : Record) : Nat :=
  let e := recordEnd r
  (binFor r.pos (if e = r.pos then e + 1 else e)).toNat

/-! ### Writer -/

def isZH (t : Byte) : Bool := t == 90#8 || t == 72#8   -- 'Z', 'H'

/-- upper-case hex digit of a nibble (`"0123456789ABCDEF"[n]`) -/
def hexDigit (n : Nat) : Byte := if n < 10 then BitVec.ofNat 8 (48 + n) else BitVec.ofNat 8 (55 + n)

/-- the value of an `H` field as written: two upper-case hex digits per byte -/
def hexEnc : List Byte → List Byte
  | [] => []
  | b :: bs => hexDigit (b.toNat / 16) :: hexDigit (b.toNat % 16) :: hexEnc bs

/-- one aux field as `buildAux` writes it: `H` = tag, type, the hex digits of the in-memory bytes, NUL;
`Z` = the field and NUL; every other type = the field -/
def encAuxT (t : Byte) (a : List Byte) : List Byte :=
  if t == 72#8 then a.take 3 ++ hexEnc (a.drop 3) ++ [0#8]
  else if t == 90#8 then a ++ [0#8]
  else a

/-- `buildAux` -/
def buildAux : List (List Byte) → Except Fault (List Byte)
  | [] => .ok []
  | a :: as =>
    match a[2]? with
    | none => .error .panicAuxType
    | some t =>
      match buildAux as with
      | .error f => .error f
      | .ok rest => .ok (encAuxT t a ++ rest)

/-- the quality bytes written: the slice, or `Seq.Length` times 0xff when it is nil -/
def qualBytes (r : Record) : List Byte :=
  match r.qual with
  | some q => q
  | none => List.replicate r.seqLen 0xff#8

/-- `recLen` of Writer.Write -/
def recLen (r : Record) (tags : List Byte) : Nat :=
  32 + r.name.length + 1 + r.cigar.length * 4 + r.seq.length + r.seqLen + tags.length

/-- the bytes Writer.Write puts into its buffer, given the aux block and the bin -/
def encodeWith (bin : Nat) (tags : List Byte) (r : Record) : List Byte :=
  putI32 (recLen r tags) ++
  putI32 (refID r.ref) ++
  putI32 r.pos ++
  [byteOf (r.name.length + 1)] ++
  [r.mapq] ++
  putU16 bin ++
  putU16 r.cigar.length ++
  putU16 r.flags.toNat ++
  putI32 r.seqLen ++
  putI32 (refID r.mateRef) ++
  putI32 r.matePos ++
  putI32 r.tempLen ++
  r.name ++ [0#8] ++
  r.cigar.flatMap (fun c => putU32 c.toNat) ++
  r.seq ++
  qualBytes r ++
  tags

/-- `bam.(*Writer).Write`: the bytes handed to the BGZF writer -/
def encodeRecord (r : Record) : Except Fault (List Byte) :=
  if r.name.length == 0 || r.name.length > 254 then .error .errNameLen
  else if (match r.qual with | some q => q.length != r.seqLen | none => false) then .error .errQualLen
  else match buildAux r.aux with
    | .error f => .error f
    | .ok tags => .ok (encodeWith (recordBin r) tags r)

/-! ### Reader: the `buffer` type -/

/-- `bam.buffer`: `data` is `b.data[b.off:]` -/
structure Buf where
  data : List Byte
  err : Bool
  deriving DecidableEq, Repr

def Buf.unsafeBytes (b : Buf) (n : Nat) : List Byte × Buf :=
  if b.err then ([], b)
  else if b.data.length < n then ([], { b with err := true })
  else (b.data.take n, { b with data := b.data.drop n })

def Buf.discard (b : Buf) (n : Nat) : Buf :=
  if b.err then b
  else if b.data.length < n then { b with err := true }
  else { b with data := b.data.drop n }

def Buf.readU8 (b : Buf) : Byte × Buf :=
  match b.err, b.data with
  | false, x :: rest => (x, ⟨rest, false⟩)
  | false, [] => (0, ⟨[], true⟩)
  | true, _ => (0, b)

def Buf.readU16 (b : Buf) : Nat × Buf :=
  match b.err, b.data with
  | false, x :: y :: rest => (getU16 x y, ⟨rest, false⟩)
  | false, d => (0, ⟨d, true⟩)
  | true, _ => (0, b)

def Buf.readI32 (b : Buf) : Int × Buf :=
  match b.err, b.data with
  | false, x :: y :: z :: w :: rest => (toI32 (getU32 x y z w), ⟨rest, false⟩)
  | false, d => (0, ⟨d, true⟩)
  | true, _ => (0, b)

/-- `readCigarOps` (`len(cb)/4` operations; a trailing partial word is ignored) -/
def readCigarOps : List Byte → List (BitVec 32)
  | x :: y :: z :: w :: rest => BitVec.ofNat 32 (getU32 x y z w) :: readCigarOps rest
  | _ => []

/-! ### Reader: parseAux -/

/-- `bam.jumps` -/
def jumps (t : Byte) : Int :=
  if t == 65#8 then 1            -- 'A'
  else if t == 99#8 then 1       -- 'c'
  else if t == 67#8 then 1       -- 'C'
  else if t == 115#8 then 2      -- 's'
  else if t == 83#8 then 2       -- 'S'
  else if t == 105#8 then 4      -- 'i'
  else if t == 73#8 then 4       -- 'I'
  else if t == 102#8 then 4      -- 'f'
  else if t == 90#8 then -1      -- 'Z'
  else if t == 72#8 then -1      -- 'H'
  else if t == 66#8 then -1      -- 'B'
  else 0

/-- `bytes.IndexByte(s, 0)` -/
def indexZero : List Byte → Option Nat
  | [] => none
  | x :: xs => if x == 0#8 then some 0 else (indexZero xs).map (· + 1)

/-- `unhex`: value of a hex digit of either case -/
def unhex (c : Byte) : Option Nat :=
  if 48 ≤ c.toNat ∧ c.toNat ≤ 57 then some (c.toNat - 48)
  else if 65 ≤ c.toNat ∧ c.toNat ≤ 70 then some (c.toNat - 55)
  else if 97 ≤ c.toNat ∧ c.toNat ≤ 102 then some (c.toNat - 87)
  else none

/-- the pair loop of `decodeHex` -/
def hexDec : List Byte → Except Fault (List Byte)
  | a :: b :: rest =>
    match unhex a, unhex b with
    | some hi, some lo =>
      match hexDec rest with
      | .error f => .error f
      | .ok bs => .ok (byteOf (hi * 16 + lo) :: bs)
    | _, _ => .error .errAuxHexDigit
  | _ => .ok []

/-- `decodeHex`: the in-memory `sam.Aux` of a stored `H` field `f` (tag, type, digits; without the NUL) -/
def decodeHex (f : List Byte) : Except Fault (List Byte) :=
  if (f.drop 3).length % 2 == 1 then .error .errAuxHexOdd
  else match hexDec (f.drop 3) with
    | .error e => .error e
    | .ok bs => .ok (f.take 3 ++ bs)

/-- the element types `parseAux` accepts for a `B` array: c C s S i I f -/
def isElemType (t : Byte) : Bool :=
  t == 99#8 || t == 67#8 || t == 115#8 || t == 83#8 || t == 105#8 || t == 73#8 || t == 102#8

/-- The loop of `parseAux`; `rest` is `aux[i:]`, `acc` the fields found so far in reverse order.
All bounds are checked against the length of the data (repairs a7b362b, c1aed68, 6537bbd): no outcome is a panic. -/
def parseAuxFuel : Nat → List Byte → List (List Byte) → Except Fault (List (List Byte))
  | 0, _, _ => .error .fuel
  | fuel + 1, rest, acc =>
    match rest with
    | _ :: _ :: t :: v =>
      let j := jumps t
      if j > 0 then
        let n := j.toNat + 3
        if rest.length < n then .error .errAuxTruncated
        else parseAuxFuel fuel (rest.drop n) (rest.take n :: acc)
      else if j < 0 then
        if isZH t then
          match indexZero rest with
          | none => .error .errAuxNoZero
          | some k =>
            if k < 3 then .error .errAuxZeroInTag
            else if t == 72#8 then
              -- 'H': the stored hex digits are decoded into a new field
              match decodeHex (rest.take k) with
              | .error f => .error f
              | .ok a => parseAuxFuel fuel (rest.drop (k + 1)) (a :: acc)
            else parseAuxFuel fuel (rest.drop (k + 1)) (rest.take k :: acc)
        else
          -- 'B'
          match v with
          | sub :: n0 :: n1 :: n2 :: n3 :: _ =>
            if !isElemType sub then .error .errAuxArrayElem
            else
              let j : Int := (getU32 n0 n1 n2 n3 : Int) * jumps sub + 8
              if j < 0 || (rest.length : Int) < j then .error .errAuxArrayLen
              else parseAuxFuel fuel (rest.drop j.toNat) (rest.take j.toNat :: acc)
          | _ => .error .errAuxArrayHdr
      else .error .errAuxType
    | _ => .ok acc.reverse     -- i+2 < len(aux) fails: up to two trailing bytes are ignored

/-- `parseAux` -/
def parseAux (aux : List Byte) : Except Fault (List (List Byte)) :=
  parseAuxFuel (aux.length + 1) aux []

/-! ### Reader: one record -/

inductive Omit where
  | none | aux | all      -- bam.None, bam.AuxTags, bam.AllVariableLengthData
  deriving DecidableEq, Repr

/-- the `done:` part of Read: reference ids to references of a header with `nrefs` references -/
def linkRefs (nrefs : Nat) (refID nextRefID : Int) (r : Record) : Except Fault Record :=
  if refID != -1 && (refID < -1 || refID ≥ (nrefs : Int)) then .error .errRefRange
  else
    let ref : Option Nat := if refID == -1 then none else some refID.toNat
    if nextRefID != -1 then
      if refID == nextRefID then .ok { r with ref := ref, mateRef := ref }
      else if nextRefID < -1 || nextRefID ≥ (nrefs : Int) then .error .errMateRefRange
      else .ok { r with ref := ref, mateRef := some nextRefID.toNat }
    else .ok { r with ref := ref, mateRef := none }

/-- the `done:` label of Read: the buffer's sticky error first (repair 1ddc343), then the reference links -/
def finish (nrefs : Nat) (refID nextRefID : Int) (b : Buf) (r : Record) : Except Fault Record :=
  if b.err then .error .errUnexpectedEOF else linkRefs nrefs refID nextRefID r

/-- `bam.(*Reader).Read` on the record buffer `body` (the `size` bytes after the length prefix).  The name-length,
sequence-length and aux errors are returned before the buffer's own error is looked at, as in the code. -/
def decodeBody (om : Omit) (nrefs : Nat) (body : List Byte) : Except Fault Record :=
  let b : Buf := ⟨body, false⟩
  let (refID, b) := b.readI32
  let (pos, b) := b.readI32
  let (nLen, b) := b.readU8
  let (mapq, b) := b.readU8
  let b := b.discard 2
  let (nCigar, b) := b.readU16
  let (flags, b) := b.readU16
  let (lSeq, b) := b.readI32
  let (nextRefID, b) := b.readI32
  let (matePos, b) := b.readI32
  let (tempLen, b) := b.readI32
  if nLen.toNat < 1 then .error .errReadNameLen
  else
    let (name, b) := b.unsafeBytes (nLen.toNat - 1)
    let b := b.discard 1
    let (cb, b) := b.unsafeBytes (nCigar * 4)
    let rec0 : Record :=
      { name := name, ref := none, pos := pos, mapq := mapq, cigar := readCigarOps cb,
        flags := BitVec.ofNat 16 flags, mateRef := none, matePos := matePos, tempLen := tempLen,
        seqLen := 0, seq := [], qual := none, aux := [] }
    match om with
    | .all => finish nrefs refID nextRefID b rec0
    | _ =>
      if lSeq < 0 then .error .errSeqLen
      else
        let l := lSeq.toNat
        let (seq, b) := b.unsafeBytes (l / 2 + l % 2)
        let (qual, b) := b.unsafeBytes l
        let rec1 : Record := { rec0 with seqLen := l, seq := seq, qual := some qual }
        match om with
        | .aux => finish nrefs refID nextRefID b rec1
        | _ =>
          let (auxb, b) := b.unsafeBytes b.data.length
          match parseAux auxb with
          | .error f => .error f
          | .ok aux => finish nrefs refID nextRefID b { rec1 with aux := aux }

/-! ### Reader: the length-prefixed stream -/

inductive ReadResult where
  | eof                                   -- Read returned io.EOF
  | fault (f : Fault)
  | record (r : Record) (rest : List Byte)
  deriving DecidableEq, Repr

/-- `newBuffer` followed by the body of `Read`, on the uncompressed byte stream after the header.
`io.ReadFull` returns `io.EOF` when not a single byte is available and `io.ErrUnexpectedEOF` when some but
not all are; a zero block size is reported as `io.EOF` too.  A stream that ends right after a block size is
`io.ErrUnexpectedEOF` (newBuffer maps the `io.EOF` of its second ReadFull, repair 74f912f). -/
def readRecord (om : Omit) (nrefs : Nat) (s : List Byte) : ReadResult :=
  match s with
  | [] => .eof
  | x :: y :: z :: w :: rest =>
    let size := toI32 (getU32 x y z w)
    if size == 0 then .eof
    else if size < 0 then .fault .errBlockSize
    else if rest.length < size.toNat then .fault .errUnexpectedEOF
    else match decodeBody om nrefs (rest.take size.toNat) with
      | .error f => .fault f
      | .ok r => .record r (rest.drop size.toNat)
  | _ => .fault .errUnexpectedEOF

/-- repeated `Read` until it returns something else than a record: the records, and `none` for `io.EOF` or the
fault -/
def readAllFuel : Nat → Omit → Nat → List Byte → List Record × Option Fault
  | 0, _, _, _ => ([], some .fuel)
  | fuel + 1, om, nrefs, s =>
    match readRecord om nrefs s with
    | .eof => ([], none)
    | .fault f => ([], some f)
    | .record r rest =>
      let (rs, e) := readAllFuel fuel om nrefs rest
      (r :: rs, e)

def readAll (om : Omit) (nrefs : Nat) (s : List Byte) : List Record × Option Fault :=
  readAllFuel (s.length + 1) om nrefs s

/-- the record part of a BAM file as `Writer` produces it: one `Write` per record -/
def encodeAll : List Record → Except Fault (List Byte)
  | [] => .ok []
  | r :: rs =>
    match encodeRecord r with
    | .error f => .error f
    | .ok bs =>
      match encodeAll rs with
      | .error f => .error f
      | .ok more => .ok (bs ++ more)

/-! ### what the reader is expected to return -/

/-- a record as the reader represents it: absent qualities become the 0xff run -/
def norm (r : Record) : Record := { r with qual := some (qualBytes r) }

/-- `Omit(AuxTags)` -/
def omitAux (r : Record) : Record := { r with aux := [] }

/-- `Omit(AllVariableLengthData)` -/
def omitAll (r : Record) : Record := { r with seqLen := 0, seq := [], qual := none, aux := [] }

/-! ### sam.NewSeq / Seq.Expand (constructors and accessors used to tie the packed form to letters) -/

/-- `sam.n16Table` -/
def n16Table : List Nat :=
  [15, 15, 15, 15, 15, 15, 15, 15, 15, 15, 15, 15, 15, 15, 15, 15,
   15, 15, 15, 15, 15, 15, 15, 15, 15, 15, 15, 15, 15, 15, 15, 15,
   15, 15, 15, 15, 15, 15, 15, 15, 15, 15, 15, 15, 15, 15, 15, 15,
   1, 2, 4, 8, 15, 15, 15, 15, 15, 15, 15, 15, 15, 0, 15, 15,
   15, 1, 14, 2, 13, 15, 15, 4, 11, 15, 15, 12, 15, 3, 15, 15,
   15, 15, 5, 6, 8, 15, 7, 9, 15, 10, 15, 15, 15, 15, 15, 15,
   15, 1, 14, 2, 13, 15, 15, 4, 11, 15, 15, 12, 15, 3, 15, 15,
   15, 15, 5, 6, 8, 15, 7, 9, 15, 10, 15, 15, 15, 15, 15, 15]

/-- `n16Table[b]` (entries 128..255 are all 0xf) -/
def n16 (b : Byte) : Nat := n16Table.getD b.toNat 15

/-- `sam.n16TableRev` = "=ACMGRSVTWYHKDBN" -/
def n16TableRev : List Byte :=
  [61#8, 65#8, 67#8, 77#8, 71#8, 82#8, 83#8, 86#8, 84#8, 87#8, 89#8, 72#8, 75#8, 68#8, 66#8, 78#8]

/-- `contract` of sam.NewSeq: two letters per byte, high nibble first, low nibble 0 for an odd tail -/
def contract : List Byte → List Byte
  | [] => []
  | [a] => [byteOf (n16 a * 16)]
  | a :: b :: rest => byteOf (n16 a * 16 + n16 b) :: contract rest

/-- the 4-bit codes of a packed sequence of `n` bases (`Doublet >> 4`, `Doublet & 0xf`); a missing
doublet is where `Seq.Expand` would panic -/
def codes : Nat → List Byte → Option (List Nat)
  | 0, _ => some []
  | 1, d :: _ => some [d.toNat / 16]
  | n + 2, d :: ds => (codes n ds).map (fun cs => d.toNat / 16 :: d.toNat % 16 :: cs)
  | _, [] => none

/-- `Seq.Expand` -/
def expand (n : Nat) (seq : List Byte) : Option (List Byte) :=
  (codes n seq).map (fun cs => cs.map (fun c => n16TableRev.getD c 0))

end Hts.Model.Bam
