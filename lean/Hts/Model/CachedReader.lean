/-
Executable model of the sequential (`rd = 1`) bgzf.Reader with an optional block cache
(bgzf/reader.go: Seek 447-508, Read 533-576, ReadByte 579-610, nextBlock 616-663, cacheSwap 667-692,
cachedBlockFor 711-723, cachePut 728-733, nextBlockAt 214-264; bgzf/cache.go: block).  Core Lean only.

* The file is a list of members `(base, size, payload)`; decompression is the look-up of the member that
  starts at an offset (DEFLATE/CRC are not part of this property: cached and uncached runs use the same
  members).  An offset at or beyond the end of the file gives `io.EOF`, any other non-member offset an error.
* Blocks are heap cells with identities, because the reader recycles buffers: the block that `Put` refuses
  becomes the next decompression target and is overwritten.  The cache maps base ↦ block id and is any
  `CacheOps` (LRU, FIFO, Random, StatsRecorder …).
* `Cfg` selects the code variant: `clearOnRebase` = repair C03-1 (`setBase` drops the old data, so a block
  whose decompression failed does not claim to hold data); `peekGuard` = repair C03-2 (`cacheSwap` does not
  recycle a block the cache still `Peek`s); `failReset` = repair C09-2 (`decompressor.failAt`: after a failed
  `readMember` the block is reset with `setOwner` — not used, no header, no data — and labelled with the
  requested offset); `lentGuard` = repair C03-5 (a block that `Get` handed out while the cache kept it indexed is
  remembered in `bg.lent` and never recycled, also when no cache is attached).  `Cfg.asIs` is the tree before
  these repairs, `Cfg.repaired` the tree with all of them.
* Not modelled: `bg.Header`, ownership of blocks by several readers sharing one cache
  (`ErrContaminatedCache`), read-ahead workers (`rd > 1`).
-/
import Hts.Model.Cache
import Hts.Spec.CacheContract
namespace Hts.Model.CachedReader
open Hts.Model.Cache Hts.Spec.CacheContract

structure Member where
  base : Int
  /-- size of the compressed member: the next member starts at `base + size` -/
  size : Int
  data : List Nat
deriving DecidableEq, Repr

abbrev File := List Member

def File.find (f : File) (off : Int) : Option Member := List.find? (fun m => m.base == off) f

/-- end of the file = end of the last member (0 for the empty file) -/
def File.len (f : File) : Int :=
  match f.getLast? with
  | some m => m.base + m.size
  | none => 0

/-- a `*block` -/
structure RBlk where
  base : Int := 0
  /-- contents of `buf` (meaningful when `hasData`) -/
  data : List Nat := []
  /-- `buf != nil` -/
  hasData : Bool := false
  /-- read position inside `buf` -/
  pos : Nat := 0
  /-- `offset.File`, `offset.Block`; `Block` is a `uint16` in the code: it wraps at 65536 (a member may hold exactly
  65536 bytes, so the offset at its end is 0) -/
  offFile : Int := 0
  offBlock : Nat := 0
  used : Bool := false
  /-- `expectedMemberSize(h)`: −1 when the header carries no BGZF size -/
  hsize : Int := -1
deriving DecidableEq, Repr

def RBlk.next (b : RBlk) : Int := if b.hsize = -1 then -1 else b.base + b.hsize

/-- `b.len()` -/
def RBlk.len (b : RBlk) : Nat := if b.hasData then b.data.length - b.pos else 0

/-- what a cache sees of the block -/
def RBlk.view (b : RBlk) : Blk := ⟨b.base, b.used, b.next⟩

/-- `bg.err` -/
inductive Err
  | none
  | eof
  | other
deriving DecidableEq, Repr

/-- ways in which a call does not return normally -/
inductive Fault
  /-- the recorded choice of Random's victim is not one the code can make -/
  | badHint
  /-- a loop of the code does not terminate -/
  | hang
  /-- nil dereference -/
  | panic
deriving DecidableEq, Repr

structure Cfg where
  peekGuard : Bool
  clearOnRebase : Bool
  failReset : Bool
  lentGuard : Bool
deriving DecidableEq, Repr

def Cfg.asIs : Cfg := ⟨false, false, false, false⟩
def Cfg.repaired : Cfg := ⟨true, true, true, true⟩

/-- a block whose load failed does not keep the data of its previous use -/
def Cfg.noStale (cfg : Cfg) : Prop := cfg.clearOnRebase = true ∨ cfg.failReset = true

structure Reader (σ : Type) where
  heap : Nat → RBlk
  /-- next unused block identity -/
  fresh : Nat
  /-- `bg.current` -/
  cur : Option Nat
  err : Err
  chunkBegin : Int × Nat
  chunkEnd : Int × Nat
  blocked : Bool
  cache : Option σ
  /-- keys of the victims the implementation's cache evicted, in order (Random only) -/
  hints : List Int
  /-- `bg.lent`: the last block `Get` returned while the cache still answered `Peek` for its base -/
  lent : Option Nat := none
  /-- not part of the Reader: the caller's cache objects that were attached earlier and have been replaced
  (`SetCache(nil)` or another cache); they keep the blocks they hold and can be attached again -/
  parked : List σ := []

variable {σ : Type}

def Reader.hview (r : Reader σ) : Heap := fun i => (r.heap i).view

def Reader.setB (r : Reader σ) (id : Nat) (b : RBlk) : Reader σ :=
  { r with heap := fun i => if i = id then b else r.heap i }

/-- `block.txOffset()` (with fix C02-1): `offset`, except at the end of a block that holds more than 0xffff bytes —
the 16-bit in-block offset has wrapped to 0 there, and the position reported is the start of the next block -/
def RBlk.txOffset (b : RBlk) : Int × Nat :=
  if b.hasData && b.len == 0 && decide (65535 < b.data.length) && decide (0 ≤ b.next) then (b.next, 0)
  else (b.offFile, b.offBlock)

/-- `cachePut(b)` with the cache `c`: `(reader, cache, block handed back, retained)` -/
def cachePut (o : CacheOps σ) (r : Reader σ) (c : σ) (b : Option Nat) :
    Except Fault (Reader σ × σ × Option Nat × Bool) :=
  match b with
  | none => .ok (r, c, none, false)
  | some id =>
    if !(r.heap id).hasData then .ok (r, c, some id, false)
    else
      let hint : Option Nat :=
        match r.hints with
        | [] => none
        | k :: _ => ((o.held c).find? (fun e => e.key == k)).map (·.id)
      match o.put r.hview c id hint with
      | none => .error .badHint
      | some (c', .refused) => .ok (r, c', some id, false)
      | some (c', .kept none) => .ok (r, c', none, true)
      | some (c', .kept (some v)) => .ok ({ r with hints := r.hints.drop 1 }, c', some v, true)
      | some (_, .panic) => .error .panic

/-- which block the reader keeps for the next decompression after `cachePut` on the miss path of `cacheSwap`:
none when the cache retained the block (a fresh one will be allocated), else the block handed back — unless
(repair C03-2) the cache still answers `Peek` for its base -/
def recycle (cfg : Cfg) (o : CacheOps σ) (r2 : Reader σ) (c2 : σ) (retained : Bool) (back : Option Nat) :
    Option Nat :=
  if retained then none
  else match back with
    | none => none
    | some id =>
      if (cfg.peekGuard && (o.peek r2.hview c2 (r2.heap id).base).1) || (cfg.lentGuard && r2.lent == some id) then none
      else some id

/-- `bg.lent = blk` when `b` -/
def markLent (r : Reader σ) (b : Bool) (id : Nat) : Reader σ := if b then { r with lent := some id } else r

/-- `cacheSwap(base)`: `true` = the current block was swapped for a cached one -/
def cacheSwap (cfg : Cfg) (o : CacheOps σ) (r : Reader σ) (base : Int) : Except Fault (Reader σ × Bool) :=
  match r.cache with
  | none =>
    -- repair C03-5: a block on loan from a (detached) cache is not recycled
    if cfg.lentGuard && r.cur.isSome && r.lent == r.cur then .ok ({ r with cur := none }, false) else .ok (r, false)
  | some c =>
    match o.get r.hview c base with
    | (c1, some id) =>
      -- cachedBlockFor: blk.seek(0); repair C03-5: if the cache still Peeks the base, the block is on loan
      let r1 := markLent (r.setB id { r.heap id with pos := 0, offBlock := 0 })
        (cfg.lentGuard && (o.peek r.hview c1 base).1) id
      -- cachePut(bg.current): result discarded
      match cachePut o r1 c1 r1.cur with
      | .error e => .error e
      | .ok (r2, c2, _, _) => .ok ({ r2 with cache := some c2, cur := some id }, true)
    | (c1, none) =>
      match cachePut o r c1 r.cur with
      | .error e => .error e
      | .ok (r2, c2, back, retained) =>
        .ok ({ r2 with cache := some c2, cur := recycle cfg o r2 c2 retained back }, false)

/-- the loop at the head of `nextBlockAt`: skip members the cache already holds.  `fuel` = number of held
entries + 1: `Peek` does not change anything, so not terminating within that many steps means a cycle. -/
def peekSkip (o : CacheOps σ) (h : Heap) (c : σ) : Nat → Int → Except Fault Int
  | 0, _ => .error .hang
  | fuel + 1, off =>
    let (e, nx) := o.peek h c off
    if e then peekSkip o h c fuel nx else .ok off

/-- the head of `nextBlockAt`: the offset that will really be read -/
def skipCached (o : CacheOps σ) (r : Reader σ) (off : Int) : Except Fault Int :=
  match r.cache with
  | none => .ok off
  | some c => peekSkip o r.hview c ((o.held c).length + 1) off

/-- `lazyBlock`: the block to decompress into — the one handed over by `using(bg.current)`, or a new one -/
def lazyBlock (r : Reader σ) : Reader σ × Nat :=
  match r.cur with
  | some id => (r, id)
  | none => ({ r with fresh := r.fresh + 1, cur := some r.fresh }.setB r.fresh {}, r.fresh)

/-- `d.blk.setBase(off)`; with repair C03-1 the block also forgets its previous data -/
def rebase (cfg : Cfg) (b : RBlk) (off : Int) : RBlk :=
  if cfg.clearOnRebase then { b with base := off, offFile := off, offBlock := 0, hasData := false, data := [], pos := 0 }
  else { b with base := off, offFile := off, offBlock := 0 }

/-- the block after a failed `readMember`: as `setBase` left it, or (repair C09-2) `failAt(off)`:
`setOwner` (used = false, header and data dropped, offset zeroed) followed by `setBase(off)` -/
def failedBlk (cfg : Cfg) (b1 : RBlk) (off : Int) : RBlk :=
  if cfg.failReset then
    { base := off, data := [], hasData := false, pos := 0, offFile := off, offBlock := 0, used := false, hsize := -1 }
  else b1

/-- the rest of `nextBlockAt` once the offset is known: `lazyBlock`, `setBase`, `readMember`, `setHeader`,
`readFrom` -/
def loadAt (cfg : Cfg) (f : File) (r : Reader σ) (off : Int) : Reader σ × Err :=
  let (r, id) := lazyBlock r
  let b1 := rebase cfg (r.heap id) off
  match f.find off with
  | some m => (r.setB id { b1 with hsize := m.size, data := m.data, pos := 0, hasData := true }, .none)
  | none => (r.setB id (failedBlk cfg b1 off), if off ≥ f.len then .eof else .other)

/-- `dec.using(bg.current).nextBlockAt(off).wait()`: the new current block and the error -/
def nextBlockAt (cfg : Cfg) (o : CacheOps σ) (f : File) (r : Reader σ) (off : Int) :
    Except Fault (Reader σ × Err) :=
  match skipCached o r off with
  | .error e => .error e
  | .ok off => .ok (loadAt cfg f r off)

/-- make the member at `base` the current block: from the cache if it is there, else by decompression
(the common part of `nextBlock` and `Seek`) -/
def fetch (cfg : Cfg) (o : CacheOps σ) (f : File) (r : Reader σ) (base : Int) : Except Fault (Reader σ × Err) :=
  match cacheSwap cfg o r base with
  | .error e => .error e
  | .ok (r1, true) => .ok (r1, .none)
  | .ok (r1, false) => nextBlockAt cfg o f r1 base

/-- `nextBlock()` -/
def nextBlock (cfg : Cfg) (o : CacheOps σ) (f : File) (r : Reader σ) : Except Fault (Reader σ × Err) :=
  match r.cur with
  | none => .error .panic
  | some id => fetch cfg o f r (r.heap id).next

inductive ErrClass
  | ok
  | eof
  | err
deriving DecidableEq, Repr

def Err.cls : Err → ErrClass
  | .none => .ok
  | .eof => .eof
  | .other => .err

/-- the tail of `Seek`: `bg.err = bg.current.seek(blk)`; `lastChunk = {off, off}` -/
def seekFin (r : Reader σ) (file : Int) (blk : Nat) : Except Fault (Reader σ × ErrClass) :=
  match r.cur with
  | none => .error .panic
  | some id =>
    if !(r.heap id).hasData then .error .panic
    else
      let r := r.setB id { r.heap id with pos := blk, offBlock := blk % 65536 }
      .ok ({ r with err := .none, chunkBegin := (file, blk), chunkEnd := (file, blk) }, .ok)

/-- `Seek(Offset{file, blk})` -/
def seek (cfg : Cfg) (o : CacheOps σ) (f : File) (r : Reader σ) (file : Int) (blk : Nat) :
    Except Fault (Reader σ × ErrClass) :=
  match r.cur with
  | none => .error .panic
  | some id =>
    if file ≠ (r.heap id).base || !(r.heap id).hasData then
      match fetch cfg o f r file with
      | .error e => .error e
      | .ok (r2, e) =>
        if e = .none then seekFin { r2 with err := .none } file blk else .ok ({ r2 with err := e }, e.cls)
    else seekFin r file blk

/-- `for bg.current.len() == 0 { bg.err = bg.nextBlock(); if bg.err != nil { return } }` -/
def skipEmpty (cfg : Cfg) (o : CacheOps σ) (f : File) : Nat → Reader σ → Except Fault (Reader σ)
  | 0, _ => .error .hang
  | fuel + 1, r =>
    match r.cur with
    | none => .error .panic
    | some id =>
      if (r.heap id).len = 0 then
        match nextBlock cfg o f r with
        | .error e => .error e
        | .ok (r1, e) =>
          if e = .none then skipEmpty cfg o f fuel { r1 with err := .none } else .ok { r1 with err := e }
      else .ok r

/-- the copy loop of `Read`: `want` bytes still to deliver, `acc` delivered so far.
Result: reader, bytes, and `true` if the Blocked early return was taken. -/
def readLoop (cfg : Cfg) (o : CacheOps σ) (f : File) :
    Nat → Reader σ → Nat → List Nat → Except Fault (Reader σ × List Nat × Bool)
  | 0, _, _, _ => .error .hang
  | fuel + 1, r, want, acc =>
    if want = 0 || r.err ≠ .none then .ok (r, acc, false)
    else
      match r.cur with
      | none => .error .panic
      | some id =>
        let b := r.heap id
        if !b.hasData then .error .panic
        else if b.len = 0 then
          -- current.Read returned (0, io.EOF)
          if r.blocked then .ok (r, acc, true)
          else
            match nextBlock cfg o f r with
            | .error e => .error e
            | .ok (r1, e) => readLoop cfg o f fuel { r1 with err := e } want acc
        else
          let k := min want b.len
          let bytes := (b.data.drop b.pos).take k
          let r1 := r.setB id { b with pos := b.pos + k, offBlock := (b.offBlock + k) % 65536, used := true }
          readLoop cfg o f fuel r1 (want - k) (acc ++ bytes)

/-- enough for every loop of `Read`: each iteration delivers at least one byte or moves to another member,
and between two deliveries at most all members (plus the failing fetch at the end) are passed -/
def fuelFor (f : File) (n : Nat) : Nat := (n + 1) * (f.length + 2) + 1

def curOffset (r : Reader σ) : Int × Nat :=
  match r.cur with
  | some id => (r.heap id).txOffset
  | none => (0, 0)

/-- `Read(p)` with `len(p) = n` -/
def read (cfg : Cfg) (o : CacheOps σ) (f : File) (r : Reader σ) (n : Nat) :
    Except Fault (Reader σ × List Nat × ErrClass) :=
  if r.err ≠ .none then .ok (r, [], r.err.cls)
  else
    match skipEmpty cfg o f (fuelFor f 0) r with
    | .error e => .error e
    | .ok r1 =>
      if r1.err ≠ .none then .ok (r1, [], r1.err.cls)
      else
        let r2 := { r1 with chunkBegin := curOffset r1 }
        match readLoop cfg o f (fuelFor f n) r2 n [] with
        | .error e => .error e
        | .ok (r3, bytes, true) =>
          -- Blocked: bg.err = nil; lastChunk.End = …; return n, io.EOF
          .ok ({ r3 with err := .none, chunkEnd := curOffset r3 }, bytes, .eof)
        | .ok (r3, bytes, false) => .ok ({ r3 with chunkEnd := curOffset r3 }, bytes, r3.err.cls)

/-- the tail of `ReadByte`: `skipEmpty` left a block with `len() > 0`, so `current.ReadByte` succeeds -/
def byteFin (r : Reader σ) : Except Fault (Reader σ × List Nat × ErrClass) :=
  match r.cur with
  | none => .error .panic
  | some id =>
    let b := r.heap id
    match (b.data.drop b.pos).head? with
    | none => .error .panic
    | some x =>
      let b' : RBlk := { b with pos := b.pos + 1, offBlock := (b.offBlock + 1) % 65536, used := true }
      let r3 := r.setB id b'
      .ok ({ r3 with chunkBegin := b.txOffset, chunkEnd := b'.txOffset }, [x], .ok)

/-- `ReadByte()` -/
def readByte (cfg : Cfg) (o : CacheOps σ) (f : File) (r : Reader σ) :
    Except Fault (Reader σ × List Nat × ErrClass) :=
  if r.err ≠ .none then .ok (r, [], r.err.cls)
  else
    match skipEmpty cfg o f (fuelFor f 0) r with
    | .error e => .error e
    | .ok r1 => if r1.err ≠ .none then .ok (r1, [], r1.err.cls) else byteFin r1

/-- `NewReader`: the first member is decompressed at once -/
def newReader (o : CacheOps σ) (cfg : Cfg) (f : File) : Except Fault (Reader σ × Err) :=
  let r0 : Reader σ := ⟨fun _ => {}, 0, none, .none, (0, 0), (0, 0), false, none, [], none, []⟩
  nextBlockAt cfg o f r0 0

inductive Op (σ : Type)
  | seek (file : Int) (blk : Nat)
  | read (n : Nat)
  | readByte
  | setCache (c : Option σ) (hints : List Int)
  /-- `SetCache(c)` for the `i`-th cache object that was replaced earlier, with whatever it holds -/
  | reattach (i : Nat) (hints : List Int)
  | setBlocked (b : Bool)

/-- what the caller sees of one call: bytes, error class, LastChunk -/
structure Out where
  bytes : List Nat
  err : ErrClass
  chunk : (Int × Nat) × (Int × Nat)
deriving DecidableEq, Repr

def step (cfg : Cfg) (o : CacheOps σ) (f : File) (r : Reader σ) : Op σ → Except Fault (Reader σ × Out)
  | .seek file blk =>
    match seek cfg o f r file blk with
    | .error e => .error e
    | .ok (r', e) => .ok (r', ⟨[], e, (r'.chunkBegin, r'.chunkEnd)⟩)
  | .read n =>
    match read cfg o f r n with
    | .error e => .error e
    | .ok (r', bs, e) => .ok (r', ⟨bs, e, (r'.chunkBegin, r'.chunkEnd)⟩)
  | .readByte =>
    match readByte cfg o f r with
    | .error e => .error e
    | .ok (r', bs, e) => .ok (r', ⟨bs, e, (r'.chunkBegin, r'.chunkEnd)⟩)
  | .setCache c hints =>
    let r' := { r with cache := c, hints := hints, parked := r.parked ++ r.cache.toList }
    .ok (r', ⟨[], .ok, (r'.chunkBegin, r'.chunkEnd)⟩)
  | .reattach i hints =>
    let r' : Reader σ :=
      match r.parked[i]? with
      | some c => { r with cache := some c, hints := hints, parked := r.parked.eraseIdx i ++ r.cache.toList }
      | none => { r with cache := none, hints := hints, parked := r.parked ++ r.cache.toList }
    .ok (r', ⟨[], .ok, (r'.chunkBegin, r'.chunkEnd)⟩)
  | .setBlocked b =>
    let r' := { r with blocked := b }
    .ok (r', ⟨[], .ok, (r'.chunkBegin, r'.chunkEnd)⟩)

def run (cfg : Cfg) (o : CacheOps σ) (f : File) : Reader σ → List (Op σ) → Except Fault (Reader σ × List Out)
  | r, [] => .ok (r, [])
  | r, op :: ops =>
    match step cfg o f r op with
    | .error e => .error e
    | .ok (r1, out) =>
      match run cfg o f r1 ops with
      | .error e => .error e
      | .ok (r2, outs) => .ok (r2, out :: outs)

/-- the same history without a cache: `SetCache` calls are dropped -/
def Op.uncached : Op σ → Op σ
  | .setCache _ _ => .setCache none []
  | .reattach _ _ => .setCache none []
  | op => op

end Hts.Model.CachedReader
