/-
Model of bgzf/index/strategy.go (Identity, Adjacent, Squash, CompressorStrategy).  Core Lean only.

A virtual offset is `(file, block)` with `block < 2^16`; `vOff` is Go's `File<<16 | Block`, which for
|File| < 2^47 is `File * 65536 + Block` (tie: Hts.Tie.C17).  The Go loops walk the slice left to right,
keep the chunk at index `c-1` as the merged-so-far left neighbour and delete it when it is merged into
`chunks[c]`; `mergeLoop` below is that loop with the left neighbour as an explicit argument.
-/
namespace Hts.Model.Merge

structure Offset where
  file : Int
  block : Nat
deriving DecidableEq, Repr

structure Chunk where
  b : Offset
  e : Offset
deriving DecidableEq, Repr

def vOff (o : Offset) : Int := o.file * 65536 + o.block

/-- `rightChunk.Begin = leftChunk.Begin; if vOffset(left.End) > vOffset(right.End) { right.End = left.End }` -/
def mergeInto (l r : Chunk) : Chunk :=
  { b := l.b, e := if vOff l.e > vOff r.e then l.e else r.e }

/-- the common loop of `adjacent` and `CompressorStrategy`: `l` is `chunks[c-1]`, the list is `chunks[c:]` -/
def mergeLoop (close : Chunk → Chunk → Bool) : Chunk → List Chunk → List Chunk
  | l, [] => [l]
  | l, r :: rs => if close l r then mergeLoop close (mergeInto l r) rs else l :: mergeLoop close r rs

def adjClose (l r : Chunk) : Bool := decide (vOff l.e ≥ vOff r.b)

/-- Go's `int64` arithmetic: a result reduced to `[-2^63, 2^63)` -/
def wrap64 (x : Int) : Int := (x + 2 ^ 63) % 2 ^ 64 - 2 ^ 63

/-- `rightChunk.Begin.File-leftChunk.End.File <= near`, with the wrap-around of Go's `int64` difference
(no wrap for file offsets in `[0, 2^63)`, whatever the threshold) -/
def nearClose (near : Int) (l r : Chunk) : Bool := decide (wrap64 (r.b.file - l.e.file) ≤ near)

/-- the comparison the documentation of `CompressorStrategy` states: distance between block starts at most `near` -/
def nearCloseExact (near : Int) (l r : Chunk) : Bool := decide (l.e.file + near ≥ r.b.file)

def identity (cs : List Chunk) : List Chunk := cs

def adjacent : List Chunk → List Chunk
  | [] => []
  | c :: cs => mergeLoop adjClose c cs

def compressor (near : Int) : List Chunk → List Chunk
  | [] => []
  | c :: cs => mergeLoop (nearClose near) c cs

/-- running maximum of `End` by virtual offset, keeping the earlier one on ties (strict `>` in the code) -/
def maxEnd (right : Offset) : List Chunk → Offset
  | [] => right
  | c :: cs => maxEnd (if vOff c.e > vOff right then c.e else right) cs

def squash : List Chunk → List Chunk
  | [] => []
  | c :: cs => [{ b := c.b, e := maxEnd c.e cs }]

/-- position `p` (a virtual offset as an integer) lies in the half-open chunk -/
def covers1 (c : Chunk) (p : Int) : Prop := vOff c.b ≤ p ∧ p < vOff c.e

def covers (cs : List Chunk) (p : Int) : Prop := ∃ c, c ∈ cs ∧ covers1 c p

/-- sorted by begin offset (non-strict) -/
def SortedB : List Chunk → Prop
  | [] => True
  | [_] => True
  | a :: b :: rest => vOff a.b ≤ vOff b.b ∧ SortedB (b :: rest)

end Hts.Model.Merge
