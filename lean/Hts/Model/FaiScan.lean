/-
Model of the token source of `fai.NewIndex` (fai/fai.go) — core Lean only.

  * `split`       — the Split function installed by `NewIndex`, branch by branch;
  * `splitEager`  — the seeded variant C19 round 5 (everything left is ONE token as soon as `atEOF` holds);
  * `drainF`/`drain`, `scanTokens` — `bufio.Scanner.Scan`'s loop for this use, parameterised by the split function:
       the source is a list of chunks (one per `Read`), `eofWithLast` says whether the last `Read` that
       delivers bytes returns them together with `io.EOF` (flate/gzip readers, iotest.DataErrReader) or
       whether `io.EOF` arrives on a separate, empty `Read` (bytes.Reader, os.File);
  * `lines`       — the specification: maximal `\n`-terminated pieces, plus the unterminated rest when non-empty;
  * `stepAll`, `newIndexTokens`, `newIndexStream` — `NewIndex`'s loop body (`Hts.Model.Fai.step`) run over a token
       sequence, and `NewIndex` over a chunked source.

Modelling assumptions about bufio.Scanner (go1.23 src/bufio/scan.go), all stated in notes/reports/C19.md:
  A1 unbounded buffer (`sc.Buffer(nil, math.MaxInt)`: `ErrTooLong` unreachable), the buffer's compaction and
     growth are invisible: the scanner state is the unconsumed bytes `buf = s.buf[s.start:s.end]`;
  A2 the source returns no error other than `io.EOF` and, after `io.EOF`, is not read again (Scan stops);
  A3 empty reads without EOF (empty chunks) are allowed in any number; the real scanner gives up with
     `io.ErrNoProgress` after 100 CONSECUTIVE empty reads — a source doing that is outside the model;
  A4 split is called only when the buffer is non-empty or EOF has been seen (`s.end > s.start || s.err != nil`),
     with `atEOF = (s.err != nil)`;
  A5 a split result `(advance, nil)` consumes `advance` bytes and makes the scanner read more (or stop, after EOF);
     a result with a token and `0 < advance ≤ len(buf)` emits the token and loops;
     a token with `advance = 0` (the real scanner: up to 100 repeats, then panic) or `advance > len(buf)`
     (`ErrAdvanceTooFar`) ENDS the model run: neither arises for `split`/`splitEager` (`split_advance_ok`).
-/
import Hts.Model.Fai
set_option linter.unusedVariables false
namespace Hts.Model.Fai

/-- `bytes.IndexByte(data, '\n')`: the length of the longest LF-free prefix when an LF follows it. -/
def indexLF (data : Bytes) : Option Nat :=
  let i := (data.takeWhile notLF).length
  if i < data.length then some i else none

abbrev SplitFn := Bytes → Bool → Nat × Option Bytes

/-- The Split function of `NewIndex` (result `(advance, token)`, the error is always nil). -/
def split : SplitFn := fun data atEOF =>
  if atEOF && data.isEmpty then (0, none)
  else match indexLF data with
    | some i => (i + 1, some (data.take (i + 1)))
    | none => if atEOF then (data.length, some data) else (0, none)

/-- Seeded variant: at EOF everything left is one token, complete lines included. -/
def splitEager : SplitFn := fun data atEOF =>
  if atEOF && data.isEmpty then (0, none)
  else if atEOF then (data.length, some data)
  else match indexLF data with
    | some i => (i + 1, some (data.take (i + 1)))
    | none => (0, none)

/-- Repeated `Scan` calls without a `Read`: tokens emitted and the bytes left in the buffer when split asks
for more data.  `fuel` bounds the number of split calls; `drain` supplies `len(buf)+1` (every emitted token
consumes at least one byte). -/
def drainF (sp : SplitFn) (atEOF : Bool) : Nat → Bytes → List Bytes × Bytes
  | 0, buf => ([], buf)
  | fuel + 1, buf =>
    if buf.isEmpty && !atEOF then ([], buf)          -- A4: nothing buffered, no EOF: read
    else
      match sp buf atEOF with
      | (adv, none) => ([], buf.drop adv)             -- A5: need more data
      | (adv, some tok) =>
        if 0 < adv ∧ adv ≤ buf.length then
          let r := drainF sp atEOF fuel (buf.drop adv)
          (tok :: r.1, r.2)
        else ([], buf)                                -- A5: outside the model

def drain (sp : SplitFn) (atEOF : Bool) (buf : Bytes) : List Bytes × Bytes :=
  drainF sp atEOF (buf.length + 1) buf

/-- All tokens `Scan` yields: `chunks` are the results of the successive `Read`s that return bytes (or nothing),
`buf` the unconsumed buffer.  After the last chunk `io.EOF` arrives — with it when `eofWithLast`, else on
one more, empty `Read`.  With no chunk at all the first `Read` returns `(0, io.EOF)`. -/
def scanFrom (sp : SplitFn) (eofWithLast : Bool) : List Bytes → Bytes → List Bytes
  | [], buf => (drain sp true buf).1
  | c :: cs, buf =>
    if cs.isEmpty && eofWithLast then (drain sp true (buf ++ c)).1
    else
      let r := drain sp false (buf ++ c)
      r.1 ++ scanFrom sp eofWithLast cs r.2

def scanTokens (sp : SplitFn) (eofWithLast : Bool) (chunks : List Bytes) : List Bytes :=
  scanFrom sp eofWithLast chunks []

/-- Specification: the maximal `\n`-terminated pieces of `data`, then the unterminated rest if non-empty. -/
def lines : Bytes → List Bytes
  | [] => []
  | b :: bs =>
    if notLF b then
      match lines bs with
      | [] => [[b]]
      | l :: ls => (b :: l) :: ls
    else [b] :: lines bs

/-- The `for sc.Scan()` loop of `NewIndex` over a given token sequence. -/
def stepAll (st : ScanState) : List Bytes → Except IdxErr ScanState
  | [] => .ok st
  | l :: ls =>
    match step st l with
    | .error e => .error e
    | .ok st' => stepAll st' ls

def newIndexTokens (toks : List Bytes) : Except IdxErr Index :=
  match stepAll {} toks with
  | .error e => .error e
  | .ok st => .ok (flush st).1

/-- `fai.NewIndex` over a source that delivers `chunks`. -/
def newIndexStream (eofWithLast : Bool) (chunks : List Bytes) : Except IdxErr Index :=
  newIndexTokens (scanTokens split eofWithLast chunks)

end Hts.Model.Fai
