/-
C11 — panic-aware model of the indexing in the SAM header text parsers (sam/parse_header.go):
the line dispatch of Header.UnmarshalText, the field loop shared by headerLine / referenceLine /
readGroupLine / programLine (repair fixes/C11-4), commentLine, the M5 decoding of referenceLine
(repair fixes/C11-6) and the `bh.refs[dupID]` lookups of referenceLine / AddReference with the
invariant that makes them safe.  Core Lean only.

What a field MEANS (strconv, net/url, time, the duplicate rules) is abstracted: the per-field action is
a parameter that may succeed or return an error; the theorems hold for every action that does not
itself panic.  There is no value-level correspondence stream for this file (the outcome class of a
header text depends on those abstracted parts); its tie is the panic-site inventory.
-/
import Hts.Model.Decoders
namespace Hts.Model.Decoders
open Outcome (ok err)

/-- `for _, f := range fields[1:] { if len(f) < 3 || f[2] != ':' { return errBadHeader }; copy(t[:], f[:2]); fs := string(f[3:]); ... }` -/
def fieldLoop {σ : Type} (act : σ → Bytes → Bytes → Outcome σ) : List Bytes → σ → Outcome σ
  | [], st => ok st
  | f :: fs, st =>
    if f.length < 3 then err
    else
      match index "sam.headerLine:f[2]" f 2 with
      | ok c =>
        if c ≠ 58 then err
        else
          match sliceTo "sam.headerLine:f[:2]" f 2, sliceFrom "sam.headerLine:f[3:]" f 3 with
          | ok tag, ok val =>
            match act st tag val with
            | ok st' => fieldLoop act fs st'
            | err => err
            | .panic s => .panic s
          | .panic s, _ => .panic s
          | _, .panic s => .panic s
          | _, _ => err
      | err => err
      | .panic s => .panic s

/-- a tagged header line: `fields := bytes.Split(l, "\t"); if len(fields) < minFields { return errBadHeader }`,
then the field loop over `fields[1:]` -/
def tagLine {σ : Type} (minFields : Nat) (act : σ → Bytes → Bytes → Outcome σ) (l : Bytes) (st : σ) : Outcome σ :=
  let fields := splitOn 9 l
  if fields.length < minFields then err
  else
    match sliceFrom "sam.headerLine:fields[1:]" fields 1 with
    | ok rest => fieldLoop act rest st
    | err => err
    | .panic s => .panic s

/-- `bytes.SplitN(l, "\t", 2)`: the line itself, or the text before and after the first tab -/
def splitFirst (sep : UInt8) (l : Bytes) : List Bytes :=
  if l.dropWhile (· ≠ sep) = [] then [l]
  else [l.takeWhile (· ≠ sep), (l.dropWhile (· ≠ sep)).drop 1]

/-- `commentLine` (as repaired by /repo b3083ef): `fields := bytes.SplitN(l, "\t", 2);
if len(fields) < 2 { return errBadHeader }; ... fields[1]` -/
def commentLineM (l : Bytes) : Outcome Bytes :=
  let fields := splitFirst 9 l
  if fields.length < 2 then err else index "sam.commentLine:fields[1]" fields 1

/-- the loop of `encoding/hex.Decode(dst, src)`: `dst[i] = ...` for every pair of `src` -/
def hexDecodeInto (dstLen : Nat) : (i : Nat) → Bytes → Outcome Unit
  | _, [] => ok ()
  | _, [_] => err
  | i, a :: b :: rest =>
    match hexVal a, hexVal b with
    | some _, some _ => if i < dstLen then hexDecodeInto dstLen (i + 1) rest else .panic "encoding/hex.Decode:dst[i]"
    | _, _ => err

/-- the `M5` field of `referenceLine` (repair fixes/C11-6): `if len(f[3:]) != hex.EncodedLen(len(hb))` -/
def md5Field (val : Bytes) : Outcome Unit :=
  if val.length ≠ 32 then err else hexDecodeInto 16 0 val

/-- `if len(l) > 0 && l[len(l)-1] == '\r' { l = l[:len(l)-1] }` -/
def stripCRIdx (l : Bytes) : Outcome Bytes :=
  if 0 < l.length then
    match indexInt "sam.Header.UnmarshalText:l[len(l)-1]" l ((l.length : Int) - 1) with
    | ok last => if last = 13 then sliceTo "sam.Header.UnmarshalText:l[:len(l)-1]" l (l.length - 1) else ok l
    | err => err
    | .panic s => .panic s
  else ok l

/-- `if len(l) == 0 { continue }; if l[0] != '@' || len(l) < 3 { return errBadHeader }; copy(t[:], l[1:3])` -/
def lineTagBody (l : Bytes) : Outcome (Option Bytes) :=
  if l.length = 0 then ok none
  else
    match index "sam.Header.UnmarshalText:l[0]" l 0 with
    | ok c =>
      if c ≠ 64 ∨ l.length < 3 then err
      else
        match slice "sam.Header.UnmarshalText:l[1:3]" l 1 3 with
        | ok t => ok (some t)
        | err => err
        | .panic s => .panic s
    | err => err
    | .panic s => .panic s

/-- the line dispatch of `Header.UnmarshalText` for one line (after the split at '\n'):
trailing '\r' removed, empty lines skipped, `l[0] != '@' || len(l) < 3`, tag = `l[1:3]`.
`some tag` = dispatch to the parser of that tag, `none` = nothing to do. -/
def lineTag (l : Bytes) : Outcome (Option Bytes) := stripCRIdx l >>= lineTagBody

/-- the reference table of a Header as far as indexing is concerned: `len(bh.refs)` and `bh.seenRefs` -/
structure RefTable where
  nrefs : Nat
  seen : List (Bytes × Nat)

/-- every id stored in `seenRefs` is an index into `refs` -/
def RefTable.wf (t : RefTable) : Prop := ∀ p ∈ t.seen, p.2 < t.nrefs

def lookupName (seen : List (Bytes × Nat)) (name : Bytes) : Option Nat :=
  match seen.find? (fun p => p.1 == name) with
  | some p => some p.2
  | none => none

/-- the end of `referenceLine` (as of /repo f32ca30: `if !nok || !lok { return errBadHeader }` comes first),
and `Header.AddReference` (`complete = true`): a name that is already in `seenRefs` reads (and possibly
overwrites) `bh.refs[dupID]`; a new name is registered as `len(bh.refs)` and appended.
`same`/`replaceable` stand for the `equalRefs` / length tests, `complete` for `nok && lok`. -/
def addRef (t : RefTable) (name : Bytes) (same replaceable complete : Bool) : Outcome RefTable :=
  if !complete then err
  else
    match lookupName t.seen name with
    | some dupID =>
      match index "sam.referenceLine:bh.refs[dupID]" (List.replicate t.nrefs ()) dupID with
      | ok _ => if same then ok t else if replaceable then ok t else err
      | err => err
      | .panic s => .panic s
    | none => ok { nrefs := t.nrefs + 1, seen := (name, t.nrefs) :: t.seen }

end Hts.Model.Decoders
