/-
The cache-free read-ahead protocol of `bgzf.Reader` (rd > 1) as a labelled transition system
(bgzf/reader.go: the worker goroutine in NewReader 391–433, nextBlock 616–663, Seek 447–509).  Core Lean only.

Threads: the *worker* goroutine and the *consumer* (the goroutine calling Read/Seek).  Channels: `waiting`
(idle decompressors; only their number matters), `working` (FIFO of decompressors carrying a block),
`control` (capacity 1, a redirect base; `none` inside = −1).  The read head (`bg.head`) serialises member
reads, and what a read returns depends only on the offset, so `nextBlockAt(off)` is one atomic step that
yields the block `⟨off, chain off⟩`.  A block is its base and its `NextBase` (`none` = the load failed /
end of file, `NextBase() = −1`).
-/
namespace Hts.Model.ReadAhead

structure Blk where
  base : Nat
  next : Option Nat
deriving DecidableEq, Repr

/-- The file as the protocol sees it: the base following the member at a base (`none`: no member there). -/
abbrev Chain := Nat → Option Nat

/-- Program counter and local `next` of the worker goroutine. -/
inductive Worker where
  | idle (next : Option Nat)   -- at `for dec := range bg.waiting`
  | have (next : Option Nat)   -- holds a decompressor, about to look at `control`
  | push (b : Blk)             -- block read, at `bg.working <- dec`
deriving DecidableEq, Repr

/-- Program counter of the consumer. -/
inductive Consumer where
  | idle                        -- between calls
  | scan (i : Nat)              -- nextBlock: `i` decompressors received from `working` so far
  | seekSync (off : Nat)        -- Seek: holds a decompressor, about to load `off` synchronously
  | seekMatch                   -- Seek: the decompressor taken from `working` had the block; at `bg.control <-`
  | seekSend                    -- Seek: block loaded, `control` drained, at `bg.control <- NextBase`
  | panicked                    -- `panic("bgzf: unexpected block")`
deriving DecidableEq, Repr

structure St where
  rd : Nat                      -- number of decompressors = cap(waiting) = cap(working)
  waiting : Nat
  working : List Blk
  control : Option (Option Nat)
  worker : Worker
  cur : Blk                     -- bg.current
  cons : Consumer
deriving Repr

/-- State after `NewReader(r, rd)`, rd > 1: all decompressors idle, the first block current. -/
def init (chain : Chain) (rd : Nat) : St :=
  ⟨rd, rd, [], none, .idle (chain 0), ⟨0, chain 0⟩, .idle⟩

inductive Label where
  | wTake | wRedirect | wRead | wPush          -- worker
  | cNext | cRecv                               -- consumer: nextBlock
  | cSeekFast | cSeekWaiting | cSeekWorking | cSeekMatchSend | cSeekSync | cSeekSend  -- consumer: Seek
deriving DecidableEq, Repr

def Label.isSeek : Label → Bool
  | .cSeekFast | .cSeekWaiting | .cSeekWorking | .cSeekMatchSend | .cSeekSync | .cSeekSend => true
  | _ => false

/-- One step of one thread. -/
inductive Step (chain : Chain) : St → Label → St → Prop where
  /-- `dec := <-bg.waiting` -/
  | wTake (s : St) (nx : Option Nat) (h1 : s.worker = .idle nx) (h2 : 0 < s.waiting) :
      Step chain s .wTake { s with waiting := s.waiting - 1, worker := .have nx }
  /-- `next, open = <-bg.control` (blocking when next < 0, polling otherwise), then `nextBlockAt(next)`;
  a redirect to −1 (sent by a Seek whose load failed) makes `nextBlockAt` fail: an error block is sent on. -/
  | wRedirect (s : St) (nx : Option Nat) (v : Option Nat) (h1 : s.worker = .have nx) (h2 : s.control = some v) :
      Step chain s .wRedirect
        (match v with
         | some b => { s with control := none, worker := .push ⟨b, chain b⟩ }
         | none => { s with control := none, worker := .push ⟨0, none⟩ })
  /-- `default:` branch of the poll, then `nextBlockAt(next)` -/
  | wRead (s : St) (b : Nat) (h1 : s.worker = .have (some b)) (h2 : s.control = none) :
      Step chain s .wRead { s with worker := .push ⟨b, chain b⟩ }
  /-- `next = dec.blk.NextBase(); bg.working <- dec` -/
  | wPush (s : St) (b : Blk) (h1 : s.worker = .push b) (h2 : s.working.length < s.rd) :
      Step chain s .wPush { s with working := s.working ++ [b], worker := .idle b.next }
  /-- `nextBlock()` is entered (the current block has a next base) -/
  | cNext (s : St) (e : Nat) (h1 : s.cons = .idle) (h2 : s.cur.next = some e) :
      Step chain s .cNext { s with cons := .scan 0 }
  /-- `dec := <-bg.working; bg.current, err = dec.wait(); bg.waiting <- dec; if Base() == base {break}`,
  and the `panic` when the loop bound is exhausted -/
  | cRecv (s : St) (i : Nat) (b : Blk) (rest : List Blk) (h1 : s.cons = .scan i) (h2 : s.working = b :: rest)
      (h3 : i < s.rd) :
      Step chain s .cRecv
        (if s.cur.next = some b.base then
           { s with working := rest, waiting := s.waiting + 1, cur := b, cons := .idle }
         else if i + 1 = s.rd then
           { s with working := rest, waiting := s.waiting + 1, cons := .panicked }
         else { s with working := rest, waiting := s.waiting + 1, cons := .scan (i + 1) })
  /-- Seek inside the current block -/
  | cSeekFast (s : St) (h1 : s.cons = .idle) : Step chain s .cSeekFast s
  /-- Seek: `case dec = <-bg.waiting` -/
  | cSeekWaiting (s : St) (off : Nat) (h1 : s.cons = .idle) (h2 : 0 < s.waiting) :
      Step chain s .cSeekWaiting { s with waiting := s.waiting - 1, cons := .seekSync off }
  /-- Seek: `case dec = <-bg.working` -/
  | cSeekWorking (s : St) (off : Nat) (b : Blk) (rest : List Blk) (h1 : s.cons = .idle)
      (h2 : s.working = b :: rest) :
      Step chain s .cSeekWorking
        (if b.next ≠ none ∧ b.base = off then { s with working := rest, cur := b, cons := .seekMatch }
         else { s with working := rest, cons := .seekSync off })
  /-- Seek: `bg.control <- bg.current.NextBase(); bg.waiting <- dec` (blocks while `control` is full) -/
  | cSeekMatchSend (s : St) (h1 : s.cons = .seekMatch) (h2 : s.control = none) :
      Step chain s .cSeekMatchSend
        { s with control := some s.cur.next, waiting := s.waiting + 1, cons := .idle }
  /-- Seek: synchronous `nextBlockAt(off)`, then `select { case <-bg.control: default: }` -/
  | cSeekSync (s : St) (off : Nat) (h1 : s.cons = .seekSync off) :
      Step chain s .cSeekSync { s with cur := ⟨off, chain off⟩, control := none, cons := .seekSend }
  /-- Seek: `bg.control <- bg.current.NextBase(); bg.waiting <- dec` -/
  | cSeekSend (s : St) (h1 : s.cons = .seekSend) (h2 : s.control = none) :
      Step chain s .cSeekSend
        { s with control := some s.cur.next, waiting := s.waiting + 1, cons := .idle }

/-- States reachable from `init` by steps whose labels satisfy `allowed`. -/
inductive Reach (chain : Chain) (rd : Nat) (allowed : Label → Bool) : St → Prop where
  | init : Reach chain rd allowed (init chain rd)
  | step (s t : St) (l : Label) (h : Reach chain rd allowed s) (hl : allowed l = true)
      (hs : Step chain s l t) : Reach chain rd allowed t

/-- The blocks in flight, in delivery order: `working`, then the block the worker is about to send. -/
def Worker.pending : Worker → List Blk
  | .push b => [b]
  | _ => []

def pipeline (s : St) : List Blk := s.working ++ s.worker.pending

/-- The base the worker will read next (`none` = −1). -/
def Worker.next : Worker → Option Nat
  | .idle nx => nx
  | .have nx => nx
  | .push b => b.next

def wnext (s : St) : Option Nat := s.worker.next

/-- Decompressors held by the threads. -/
def held (s : St) : Nat :=
  (match s.worker with | .idle _ => 0 | _ => 1) +
  (match s.cons with | .seekSync _ | .seekMatch | .seekSend => 1 | _ => 0)

end Hts.Model.ReadAhead
