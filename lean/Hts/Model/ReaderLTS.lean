/-
The read-ahead protocol of the cache-free `bgzf.Reader` (rd > 1) as a labelled transition system with an
executable step function (bgzf/reader.go at HEAD: the worker goroutine of NewReader, nextBlock with its
synchronous fall-back, the three paths of Seek, Close).  Core Lean only.

Threads: the *worker* goroutine and the *consumer* (the goroutine calling Read/ReadByte/Seek/Close; a
`bgzf.Reader` is not safe for concurrent use).  Channels: `waiting` (idle decompressors: only their number
matters), `working` (FIFO of decompressors carrying a block), `control` (capacity 1; a redirect base, `none`
inside = −1); `close(control)`, `close(waiting)` as flags.  Decompressors are anonymous: there are `rd` of them.

A block is its base and its `NextBase()`: `next = none` (−1) exactly when the load failed (`failAt` labels the
block with the offset asked for and strips header and data; a load at −1 fails in the underlying Seek and
leaves the base −1 = `none`).  The file is `chain : Nat → Option Nat` (base ↦ next base; `none`: no member
starts there — end of file or garbage).  `nextBlockAt(off)` runs under the `head` token and touches no channel,
so it is one atomic step; it yields `⟨off, chain off⟩`, or, when the label says so and `cfg.faults` allows it,
the failed block `⟨off, none⟩` (an I/O fault of the underlying reader, any pattern).  Inflating (`readFrom`
in its own goroutine, awaited by `wait()`) needs no shared resource and is folded into the load.

Consumer script: `next` = one `nextBlock()` call (a Read/ReadByte makes zero or more of them, and none while
`bg.err` is set, i.e. while the current block is a failed one), `seek off` = `Seek` with `off.File = off`,
`close`.  Events: API call/return and every member load of the underlying reader (offset, whether the count
reader had to Seek first, success).
-/
namespace Hts.Model.ReadAhead

structure Blk where
  base : Option Nat
  next : Option Nat
deriving DecidableEq, Repr, Inhabited

abbrev Chain := Nat → Option Nat

inductive Op where
  | next
  | seek (off : Nat)
  | close
  | note (id : Nat)            -- a marker of the test harness between API calls: no effect
  | nexts                      -- any number of `nextBlock()` calls (a Read whose number of calls is not known)
deriving DecidableEq, Repr, Inhabited

/-- Program counter and local `next` of the worker goroutine. -/
inductive Worker where
  | idle (nx : Option Nat)     -- at `for dec := range bg.waiting`
  | have (nx : Option Nat)     -- holds a decompressor, at the receive / poll of `control`
  | load (tgt : Option Nat)    -- holds a decompressor, at `dec.nextBlockAt(next, nil)`
  | push (b : Blk)             -- block loaded, at `bg.working <- dec`
  | exited (held : Bool)       -- returned (`close(bg.done)`); `held`: it returned while holding a decompressor
deriving DecidableEq, Repr, Inhabited

/-- Program counter of the consumer. -/
inductive Cons where
  | idle
  | scan (e : Nat) (i : Nat)   -- nextBlock: waiting for base `e`, `i` decompressors received so far
  | fetch (e : Nat)            -- nextBlock fall-back: holds the failed decompressor, at `nextBlockAt(base)`
  | sel (off : Nat)            -- Seek: at `select { case dec = <-bg.waiting: case dec = <-bg.working: }`
  | sync (off : Nat)           -- Seek: holds a decompressor, at `nextBlockAt(off.File, rs)`
  | drain (want : Nat)         -- holds a decompressor, at `select { case <-bg.control: default: }`
  | send (want : Nat)          -- holds a decompressor, at `bg.control <- NextBase(); bg.waiting <- dec`
  | ret (ok : Bool)            -- the call returns (ok = the current block is a good one)
  | closeW                     -- Close: `close(bg.control)` done, at `close(bg.waiting)`
  | join                       -- Close: at `<-bg.done`
  | closed                     -- Close has returned
  | panicked                   -- `panic("bgzf: unexpected block")`
deriving DecidableEq, Repr, Inhabited

inductive Ev where
  | call (op : Op)
  | ret (ok : Bool)
  | ld (off : Option Nat) (seeked : Bool) (ok : Bool)
deriving DecidableEq, Repr, Inhabited

structure Cfg where
  rd : Nat
  chain : Chain
  script : List Op
  faults : Bool

structure State where
  script : List Op
  waiting : Nat
  working : List Blk
  control : Option (Option Nat)
  ctlClosed : Bool
  wtClosed : Bool
  worker : Worker
  cur : Blk
  cons : Cons
  head : Option Nat            -- what the count reader believes the underlying offset is (none: unknown)
deriving DecidableEq, Repr, Inhabited

/-- State after `NewReader(r, rd)` succeeded: all decompressors idle, the first block current. -/
def init (cfg : Cfg) : State :=
  { script := cfg.script, waiting := cfg.rd, working := [], control := none, ctlClosed := false,
    wtClosed := false, worker := .idle (cfg.chain 0), cur := ⟨some 0, cfg.chain 0⟩, cons := .idle,
    head := cfg.chain 0 }

inductive Label where
  | api (choice : Bool) (fail : Bool)   -- consumer; `choice`: the select of Seek takes from `working`
  | wk (fail : Bool)                    -- worker; `fail`: this load hits an I/O fault
deriving DecidableEq, Repr, Inhabited

/-- `nextBlockAt(tgt)`: the block, the new head offset, the event. -/
def doLoad (cfg : Cfg) (s : State) (tgt : Option Nat) (fail : Bool) : Option (Blk × Option Nat × Ev) :=
  match tgt with
  | none => if fail then none else some (⟨none, none⟩, s.head, .ld none true false)
  | some t =>
    let sk := decide (s.head ≠ some t)
    if fail then
      if cfg.faults then some (⟨some t, none⟩, none, .ld (some t) sk false) else none
    else
      match cfg.chain t with
      | some nx => some (⟨some t, some nx⟩, some nx, .ld (some t) sk true)
      | none => some (⟨some t, none⟩, some t, .ld (some t) sk false)

def good (b : Blk) : Bool := b.next.isSome

def apiStep (cfg : Cfg) (s : State) (choice fail : Bool) : Option (Option Ev × State) :=
  match s.cons with
  | .idle =>
    if fail then none else
    match s.script with
    | [] => none
    | .nexts :: rest =>
      -- `choice`: the Read is over; otherwise one more nextBlock (only while the current block is a good one)
      if choice then some (none, { s with script := rest })
      else match s.cur.next with
        | some e => some (none, { s with cons := .scan e 0 })
        | none => none
    | .next :: rest =>
      if choice then none else
      match s.cur.next with
      | some e => some (some (.call .next), { s with script := rest, cons := .scan e 0 })
      | none => some (some (.call .next), { s with script := rest, cons := .ret false })
    | .seek off :: rest =>
      if choice then none else
      if s.cur.base = some off ∧ good s.cur then
        some (some (.call (.seek off)), { s with script := rest, cons := .ret true })
      else some (some (.call (.seek off)), { s with script := rest, cons := .sel off })
    | .close :: rest =>
      if choice then none else
      some (some (.call .close), { s with script := rest, ctlClosed := true, cons := .closeW })
    | .note id :: rest =>
      if choice then none else some (some (.call (.note id)), { s with script := rest })
  | .scan e i =>
    if choice || fail then none else
    match s.working with
    | [] => none
    | b :: rest =>
      if b.base = some e then
        some (none, { s with working := rest, waiting := s.waiting + 1, cur := b, cons := .ret (good b) })
      else if b.next = none then
        some (none, { s with working := rest, cons := .fetch e })
      else if i + 1 = cfg.rd then
        some (none, { s with working := rest, waiting := s.waiting + 1, cons := .panicked })
      else some (none, { s with working := rest, waiting := s.waiting + 1, cons := .scan e (i + 1) })
  | .fetch e =>
    if choice then none else
    match doLoad cfg s (some e) fail with
    | some (b, h, ev) => some (some ev, { s with cur := b, head := h, cons := .drain e })
    | none => none
  | .sel off =>
    if fail then none else
    if choice then
      match s.working with
      | [] => none
      | b :: rest =>
        if good b ∧ b.base = some off then some (none, { s with working := rest, cur := b, cons := .drain off })
        else some (none, { s with working := rest, cons := .sync off })
    else if 0 < s.waiting then some (none, { s with waiting := s.waiting - 1, cons := .sync off })
    else none
  | .sync off =>
    if choice then none else
    match doLoad cfg s (some off) fail with
    | some (b, h, ev) => some (some ev, { s with cur := b, head := h, cons := .drain off })
    | none => none
  | .drain w =>
    if choice || fail then none else some (none, { s with control := none, cons := .send w })
  | .send _ =>
    if choice || fail then none else
    match s.control with
    | none => some (none, { s with control := some s.cur.next, waiting := s.waiting + 1,
                                   cons := .ret (good s.cur) })
    | some _ => none
  | .ret ok => if choice || fail then none else some (some (.ret ok), { s with cons := .idle })
  | .closeW => if choice || fail then none else some (none, { s with wtClosed := true, cons := .join })
  | .join =>
    if choice || fail then none else
    match s.worker with
    | .exited _ => some (some (.ret true), { s with cons := .closed })
    | _ => none
  | .closed => none
  | .panicked => none

def wkStep (cfg : Cfg) (s : State) (fail : Bool) : Option (Option Ev × State) :=
  match s.worker with
  | .idle nx =>
    if fail then none
    else if 0 < s.waiting then some (none, { s with waiting := s.waiting - 1, worker := .have nx })
    else if s.wtClosed then some (none, { s with worker := .exited false })
    else none
  | .have nx =>
    if fail then none else
    match s.control with
    | some v =>
      if nx = none ∧ v = none then some (none, { s with control := none })
      else some (none, { s with control := none, worker := .load v })
    | none =>
      if s.ctlClosed then some (none, { s with worker := .exited true })
      else match nx with
        | some b => some (none, { s with worker := .load (some b) })
        | none => none
  | .load tgt =>
    match doLoad cfg s tgt fail with
    | some (b, h, ev) => some (some ev, { s with head := h, worker := .push b })
    | none => none
  | .push b =>
    if fail then none
    else if s.working.length < cfg.rd then
      some (none, { s with working := s.working ++ [b], worker := .idle b.next })
    else none
  | .exited _ => none

def next (cfg : Cfg) (s : State) : Label → Option (Option Ev × State)
  | .api c f => apiStep cfg s c f
  | .wk f => wkStep cfg s f

def Step (cfg : Cfg) (s t : State) : Prop := ∃ l e, next cfg s l = some (e, t)

inductive Reachable (cfg : Cfg) : State → Prop where
  | init : Reachable cfg (init cfg)
  | step {s t} : Reachable cfg s → Step cfg s t → Reachable cfg t

/-- runs with their observable trace, newest event first -/
inductive Run (cfg : Cfg) : List Ev → State → Prop where
  | init : Run cfg [] (init cfg)
  | step {tr s l e t} : Run cfg tr s → next cfg s l = some (e, t) → Run cfg (e.toList ++ tr) t

def labels : List Label :=
  [.api false false, .api true false, .api false true, .wk false, .wk true]

/-- all successors, executable -/
def succs (cfg : Cfg) (s : State) : List (Label × Option Ev × State) :=
  labels.filterMap fun l => (next cfg s l).map fun p => (l, p.1, p.2)

def enabled (cfg : Cfg) (s : State) : Bool := !(succs cfg s).isEmpty

/-- The consumer has run its whole script and returned from the last call (or from Close). -/
def ApiDone (s : State) : Prop := (s.cons = .idle ∧ s.script = []) ∨ s.cons = .closed

instance (s : State) : Decidable (ApiDone s) := by unfold ApiDone; exact inferInstance

def runLabels (cfg : Cfg) : State → List Label → Option State
  | s, [] => some s
  | s, l :: ls => match next cfg s l with
    | some (_, t) => runLabels cfg t ls
    | none => none

/-! ### Derived views used by the invariants -/

/-- The element of the delivery stream the worker is committed to. -/
inductive Slot where
  | blk (b : Blk)
  | tgt (t : Option Nat)
deriving DecidableEq, Repr

def Worker.committed : Worker → List Slot
  | .load t => [.tgt t]
  | .push b => [.blk b]
  | _ => []

/-- What the worker reads after its committed element, if nothing redirects it (`none`: it waits). -/
def Worker.natural : Worker → Option Nat
  | .idle nx => nx
  | .have nx => nx
  | .push b => b.next
  | _ => none

/-- Decompressors held by the worker. -/
def Worker.holds : Worker → Nat
  | .have _ => 1
  | .load _ => 1
  | .push _ => 1
  | .exited true => 1
  | _ => 0

/-- Decompressors held by the consumer. -/
def Cons.holds : Cons → Nat
  | .fetch _ => 1
  | .sync _ => 1
  | .drain _ => 1
  | .send _ => 1
  | _ => 0

/-- Blocks and committed loads in delivery order. -/
def stream (s : State) : List Slot := s.working.map .blk ++ s.worker.committed

end Hts.Model.ReadAhead
