/-
Model of the BGZF / BAM *byte-level* readers (property C10).  Core Lean only.

Unlike the member-list reader of C01/C02 this reader runs over an ARBITRARY byte string: it is the
code that decides where members begin and end, so it can be run on truncated and corrupted input.

Mirrors (with the C10 repairs applied, see `Quirks`):
* compress/gzip `Reader.readHeader`, `readString`, and the trailer check / multistream loop of
  `Reader.Read` (Go 1.23) — the part of compress/gzip that *frames*; DEFLATE and CRC-32 themselves
  are the `Codec` parameter;
* bgzf/reader.go `expectedMemberSize`, `decompressor.readMember`, `buffer.readLimited` (io.ReadFull),
  `nextBlockAt`, `Reader.Read`/`nextBlock` flattened to "all data, then the terminal error";
* bgzf/cache.go `readToEOF` / `block.readFrom` (data of a member is installed only if the gzip reader
  reached its verified end; the one-byte probe after MaxBlockSize bytes; more is io.ErrShortBuffer);
* bgzf/bgzf.go `HasEOF`;
* sam/parse_header.go `DecodeBinary` framing and bam/reader.go `newBuffer` (length-prefix framing).

`Quirks` selects, per defect found by the C10 check, between the behaviour of the unchanged tree
(`true`) and of the repaired tree (`false`).  The property theorems are about `Quirks.repaired`;
the driver runs `Quirks.repaired`; `Quirks.unrepaired` is kept for the witness theorems.
-/
namespace Hts.Model.BgzfBytes

abbrev Bytes := List UInt8

/-- Error values of the readers.  `eof` is Go's `io.EOF`: the *clean end*. -/
inductive Err where
  | eof                 -- io.EOF
  | unexpectedEOF       -- io.ErrUnexpectedEOF
  | gzHeader            -- gzip.ErrHeader
  | gzChecksum          -- gzip.ErrChecksum
  | noBlockSize         -- bgzf.ErrNoBlockSize
  | corrupt             -- bgzf.ErrCorrupt
  | shortBuffer         -- io.ErrShortBuffer (payload longer than MaxBlockSize)
  | inflate (code : Nat) -- error reported by the DEFLATE decoder (opaque to the model)
  | bam (code : Nat)    -- a BAM/SAM-level rejection (magic, negative length, …)
  | unreachable         -- a branch proved dead (`readAll_rest_lt`); never produced
deriving DecidableEq, Repr

/-- Result of the DEFLATE decoder on a byte string: the payload and the number of input bytes the
deflate stream occupies, or a failure. -/
inductive InflateResult where
  | ok (payload : Bytes) (used : Nat)
  /-- failure, after `produced` bytes of output had been delivered -/
  | fail (code : Nat) (produced : Nat)
deriving DecidableEq, Repr

/-- compress/flate and hash/crc32, as parameters.  No law is needed for the C10 theorems: they are
about what the reader does *with* these functions on every path. -/
structure Codec where
  inflate : Bytes → InflateResult
  crc32 : Bytes → Nat

/-- Defects of the unchanged tree, individually switchable (`true` = behaviour of the unchanged tree). -/
structure Quirks where
  /-- readMember: `need == 0` returns io.EOF (DESIGN §6 #32); repaired: ErrCorrupt. -/
  eofOnZeroNeed : Bool
  /-- readMember: io.ReadFull of the body with no byte available returns io.EOF (§6 #31);
      repaired: io.ErrUnexpectedEOF. -/
  eofOnEmptyBody : Bool
  /-- bam newBuffer: io.ReadFull of the record body with no byte available returns io.EOF;
      repaired: io.ErrUnexpectedEOF. -/
  bamEofOnEmptyBody : Bool
  /-- cache.go readToEOF: the count of the one-byte probe read after MaxBlockSize bytes is ignored, so a
      byte delivered together with io.EOF is dropped (audit H-1); repaired: any probed byte is
      io.ErrShortBuffer. -/
  dummyReadCountIgnored : Bool
deriving DecidableEq, Repr

def Quirks.repaired : Quirks := ⟨false, false, false, false⟩
def Quirks.unrepaired : Quirks := ⟨true, true, true, true⟩

def BlockSize : Nat := 0xff00
def MaxBlockSize : Nat := 0x10000

/-- little-endian value of a byte string (used on 2- and 4-byte fields) -/
def leNat : Bytes → Nat
  | [] => 0
  | b :: t => b.toNat + 256 * leNat t

/-! ### compress/gzip header -/

structure GzHeader where
  flg : UInt8
  mtime : Nat
  xfl : UInt8
  os : UInt8
  /-- `none` = FEXTRA not set (Go: nil slice) -/
  extra : Option Bytes
  name : Bytes
  comment : Bytes
deriving DecidableEq, Repr

/-- `Reader.readString`: number of bytes consumed (string and its NUL), `z.buf` holds 512 bytes.
`i` is the loop counter. -/
def readString : Nat → Bytes → Except Err Nat
  | i, [] => if i ≥ 512 then .error .gzHeader else .error .unexpectedEOF
  | i, b :: t =>
    if i ≥ 512 then .error .gzHeader
    else if b = 0 then .ok (i + 1)
    else readString (i + 1) t

/-- optional NUL-terminated field: (bytes consumed, content) -/
def readOptString (present : Bool) (s : Bytes) : Except Err (Nat × Bytes) :=
  if present then
    match readString 0 s with
    | .error e => .error e
    | .ok n => .ok (n, s.take (n - 1))
  else .ok (0, [])

def flagSet (flg : UInt8) (bit : UInt8) : Bool := flg &&& bit != 0

/-- FEXTRA: `(bytes consumed, Extra)` from the input after the ten fixed bytes -/
def readExtra (flg : UInt8) (r0 : Bytes) : Except Err (Nat × Option Bytes) :=
  if flagSet flg 4 then
    match r0 with
    | x0 :: x1 :: r1 =>
      if r1.length < x0.toNat + 256 * x1.toNat then .error .unexpectedEOF
      else .ok (2 + (x0.toNat + 256 * x1.toNat), some (r1.take (x0.toNat + 256 * x1.toNat)))
    | _ => .error .unexpectedEOF
  else .ok (0, none)

/-- FHCRC: the two bytes at offset `n` of the member must equal the low 16 bits of the CRC-32 of the
`n` header bytes before them -/
def readHdrCrc (crc32 : Bytes → Nat) (flg : UInt8) (s : Bytes) (n : Nat) : Except Err Nat :=
  if flagSet flg 2 then
    match s.drop n with
    | d0 :: d1 :: _ =>
      if d0.toNat + 256 * d1.toNat ≠ crc32 (s.take n) % 65536 then .error .gzHeader
      else .ok (n + 2)
    | _ => .error .unexpectedEOF
  else .ok n

/-- `Reader.readHeader` on the remaining input `s`: header and number of bytes consumed.
`io.ReadFull` of the first ten bytes: nothing → io.EOF, some → io.ErrUnexpectedEOF; every later short
read is `noEOF(err)` = io.ErrUnexpectedEOF. -/
def readHeader (crc32 : Bytes → Nat) (s : Bytes) : Except Err (GzHeader × Nat) :=
  match s with
  | [] => .error .eof
  | id1 :: id2 :: cm :: flg :: m0 :: m1 :: m2 :: m3 :: xfl :: os :: r0 =>
    if id1 ≠ 0x1f ∨ id2 ≠ 0x8b ∨ cm ≠ 8 then .error .gzHeader
    else
      match readExtra flg r0 with
      | .error e => .error e
      | .ok (nx, extra) =>
        match readOptString (flagSet flg 8) (r0.drop nx) with
        | .error e => .error e
        | .ok (nn, name) =>
          match readOptString (flagSet flg 16) (r0.drop (nx + nn)) with
          | .error e => .error e
          | .ok (nc, comment) =>
            match readHdrCrc crc32 flg s (10 + nx + nn + nc) with
            | .error e => .error e
            | .ok n => .ok (⟨flg, leNat [m0, m1, m2, m3], xfl, os, extra, name, comment⟩, n)
  | _ => .error .unexpectedEOF

/-! ### bgzf framing -/

/-- `bytes.Index`: first position at which `pat` occurs in `s` -/
def findSub (pat : Bytes) : Bytes → Option Nat
  | [] => if pat.isEmpty then some 0 else none
  | b :: t =>
    if pat.isPrefixOf (b :: t) then some 0
    else (findSub pat t).map (· + 1)

def bgzfExtraPrefix : Bytes := [0x42, 0x43, 0x02, 0x00]

/-- `expectedMemberSize`; `none` is Go's −1.
`i := bytes.Index(h.Extra, "BC\x02\x00"); if i < 0 || i+5 >= len(h.Extra) {return -1};
 return (int(h.Extra[i+4]) | int(h.Extra[i+5])<<8) + 1` -/
def expectedMemberSize (extra : Option Bytes) : Option Nat :=
  match extra with
  | none => none
  | some ex =>
    match findSub bgzfExtraPrefix ex with
    | none => none
    | some i =>
      match ex.drop (i + 4) with
      | lo :: hi :: _ => some (lo.toNat + 256 * hi.toNat + 1)
      | _ => none

/-- Result of `readMember` + `readLimited`: the gzip header, the buffered rest of the member
(`need` bytes: deflate data and trailer) and the input after the member. -/
structure Framed where
  hdr : GzHeader
  body : Bytes
  rest : Bytes
deriving DecidableEq, Repr

/-- `decompressor.readMember` on the remaining input `s` (the count reader is at the member start). -/
def readMember (q : Quirks) (c : Codec) (s : Bytes) : Except Err Framed :=
  match readHeader c.crc32 s with
  | .error e => .error e                       -- d.gz.Reset(d) failed (includes the clean io.EOF on empty input)
  | .ok (h, skipped) =>
    match expectedMemberSize h.extra with
    | none => .error .noBlockSize
    | some blockSize =>
      -- need := blockSize - skipped
      if blockSize = skipped then .error (if q.eofOnZeroNeed then .eof else .corrupt)
      else if blockSize < skipped then .error .corrupt
      else
        -- need := blockSize - skipped; io.ReadFull(src, r.data[:need]) on what follows the header
        if (s.drop skipped).length ≥ blockSize - skipped then
          .ok ⟨h, (s.drop skipped).take (blockSize - skipped), (s.drop skipped).drop (blockSize - skipped)⟩
        else if s.drop skipped = [] then .error (if q.eofOnEmptyBody then .eof else .unexpectedEOF)
        else .error .unexpectedEOF

/-! ### gzip member body: inflate, trailer check, multistream continuation inside the buffer -/

/-- The gzip reader (after its header) over the buffered `need` bytes, read to its end: success only
after the 8-byte trailer matched CRC-32 and ISIZE of what was inflated.
compress/gzip is in multistream mode after `Reset`: after a verified trailer it looks for a further
member *inside the buffer*; an empty remainder is the clean end.

Result: `ok (data, lastNonEmpty)` — all bytes delivered, then io.EOF; `lastNonEmpty` says that the last
gzip member holds at least one byte (then the final byte and io.EOF arrive in the same `Read`);
`error (e, produced)` — `produced` bytes are delivered without error, then `e` (compress/flate delivers
everything it decoded before it reports an error; a trailer mismatch is seen after the whole payload). -/
def gzBody (c : Codec) (buf : Bytes) : Except (Err × Nat) (Bytes × Bool) :=
  match c.inflate buf with
  | .fail code produced => .error (.inflate code, produced)
  | .ok payload used =>
    if _h8 : (buf.drop used).length < 8 then .error (.unexpectedEOF, payload.length)
    else if leNat ((buf.drop used).take 4) ≠ c.crc32 payload
        ∨ leNat (((buf.drop used).drop 4).take 4) ≠ payload.length % 4294967296 then
      .error (.gzChecksum, payload.length)
    else
      match readHeader c.crc32 ((buf.drop used).drop 8) with
      | .error .eof => .ok (payload, !payload.isEmpty)
      | .error e => .error (e, payload.length)
      | .ok (_, hl) =>
        match gzBody c (((buf.drop used).drop 8).drop hl) with
        | .error (e, n) => .error (e, payload.length + n)
        | .ok (p2, ne) => .ok (payload ++ p2, ne)
termination_by buf.length
decreasing_by
  simp only [List.length_drop] at _h8 ⊢
  omega

/-- cache.go `readToEOF` + `block.readFrom` over what the gzip reader delivers: up to `MaxBlockSize`
bytes are read into the block; if the reader has not ended by then, ONE more byte is probed:
nothing more and io.EOF → the block is complete; a byte → `io.ErrShortBuffer` (repaired).
The unchanged tree ignored the count of the probe and looked at its error only, so a 65537th byte
arriving together with io.EOF was dropped and the block accepted with 65536 bytes; and an error
arriving with that byte was returned in place of ErrShortBuffer (for the unrepaired variant the model
assumes the error does arrive with it; this affects the error kind only). -/
def readToEOF (q : Quirks) : Except (Err × Nat) (Bytes × Bool) → Except Err Bytes
  | .ok (data, lastNonEmpty) =>
    if data.length ≤ MaxBlockSize then .ok data
    else if q.dummyReadCountIgnored ∧ data.length = MaxBlockSize + 1 ∧ lastNonEmpty then
      .ok (data.take MaxBlockSize)
    else .error .shortBuffer
  | .error (e, produced) =>
    if produced ≤ MaxBlockSize then .error e
    else if q.dummyReadCountIgnored ∧ produced = MaxBlockSize + 1 then .error e
    else .error .shortBuffer

/-- One block: frame the member, run the gzip reader over it into the block buffer. -/
def readBlock (q : Quirks) (c : Codec) (s : Bytes) : Except Err (Bytes × Bytes) :=
  match readMember q c s with
  | .error e => .error e
  | .ok f =>
    match readToEOF q (gzBody c f.body) with
    | .error e => .error e
    | .ok payload => .ok (payload, f.rest)

/-- The whole stream as seen through `NewReader` + `Read`…: all bytes delivered, then the terminal
(sticky) error; `eof` is the clean end.  Data of a member is delivered only if `readBlock` succeeded. -/
def readAll (q : Quirks) (c : Codec) (s : Bytes) : Bytes × Err :=
  match readBlock q c s with
  | .error e => ([], e)
  | .ok (payload, rest) =>
    if _h : rest.length < s.length then
      let r := readAll q c rest
      (payload ++ r.1, r.2)
    else ([], .unreachable)
termination_by s.length

/-! ### HasEOF -/

def magicBlock : Bytes :=
  [0x1f, 0x8b, 0x08, 0x04, 0x00, 0x00, 0x00, 0x00, 0x00, 0xff, 0x06, 0x00, 0x42, 0x43, 0x02, 0x00,
   0x1b, 0x00, 0x03, 0x00, 0x00, 0x00, 0x00, 0x00, 0x00, 0x00, 0x00, 0x00]

/-- `bgzf.HasEOF`: `(result, errored)`; for fewer than 28 bytes `ReadAt` fails (negative offset) and
the result is `false` with an error. -/
def hasEOF (s : Bytes) : Bool × Bool :=
  if s.length < 28 then (false, true)
  else (s.drop (s.length - 28) == magicBlock, false)

/-! ### BAM on top of the flat data -/

/-- What a consumer of `bgzf.Reader` sees: the remaining data and the terminal error. -/
structure Flat where
  data : Bytes
  fin : Err
deriving DecidableEq, Repr

/-- `io.ReadFull(bg, buf[:n])` -/
def Flat.readFull (f : Flat) (n : Nat) : Except Err (Bytes × Flat) :=
  if n = 0 then .ok ([], f)
  else if f.data.length ≥ n then .ok (f.data.take n, { f with data := f.data.drop n })
  else if f.data = [] then .error f.fin
  else .error (if f.fin = .eof then .unexpectedEOF else f.fin)

/-- one `bg.Read(buf[:n])` whose error is returned by the caller as it is (`DecodeBinary`) -/
def Flat.read (f : Flat) (n : Nat) : Except Err (Bytes × Flat) :=
  if f.data = [] then .error f.fin
  else if f.data.length ≥ n then .ok (f.data.take n, { f with data := f.data.drop n })
  else .error f.fin

/-- what the model does not look into: the SAM header text parser and the record body decoder -/
structure BamSem where
  textOk : Bytes → Bool
  recOk : Bytes → Bool

def bamMagic : Bytes := [0x42, 0x41, 0x4d, 0x01]

/-- `readRefRecords` -/
def bamRefs : Nat → Flat → Except Err Flat
  | 0, f => .ok f
  | n + 1, f =>
    match f.readFull 4 with
    | .error e => .error e
    | .ok (ln, f) =>
      let lName := leNat ln
      if lName ≥ 2147483648 ∨ lName < 1 then .error (.bam 4)
      else match f.read lName with
        | .error e => .error e
        | .ok (name, f) =>
          if name.getLast? ≠ some 0 then .error (.bam 5)
          else match f.readFull 4 with
            | .error e => .error e
            | .ok (_, f) => bamRefs n f

/-- `sam.Header.DecodeBinary` as called by `bam.NewReader` -/
def bamHeader (sem : BamSem) (f : Flat) : Except Err Flat :=
  match f.readFull 4 with
  | .error e => .error e
  | .ok (magic, f) =>
    if magic ≠ bamMagic then .error (.bam 1)
    else match f.readFull 4 with
      | .error e => .error e
      | .ok (lt, f) =>
        let lText := leNat lt
        if lText ≥ 2147483648 then .error (.bam 2)
        else match f.read lText with
          | .error e => .error e
          | .ok (text, f) =>
            if !sem.textOk text then .error (.bam 6)
            else match f.readFull 4 with
              | .error e => .error e
              | .ok (nr, f) =>
                let nRef := leNat nr
                if nRef ≥ 2147483648 then .error (.bam 3)
                else bamRefs nRef f

/-- `newBuffer`: the next record body, or the error `Read` returns -/
def bamNext (q : Quirks) (f : Flat) : Except Err (Bytes × Flat) :=
  match f.readFull 4 with
  | .error e => .error e
  | .ok (sz, f) =>
    let size := leNat sz
    if size = 0 then .error .eof
    else if size ≥ 2147483648 then .error (.bam 7)
    else match f.readFull size with
      | .error e => .error (if e = .eof ∧ !q.bamEofOnEmptyBody then .unexpectedEOF else e)
      | .ok (body, f) => .ok (body, f)

/-- all records `bam.Reader.Read` returns, then its terminal error -/
def bamRecords (q : Quirks) (sem : BamSem) (f : Flat) : List Bytes × Err :=
  match bamNext q f with
  | .error e => ([], e)
  | .ok (body, f') =>
    if !sem.recOk body then ([], .bam 8)
    else if _h : f'.data.length < f.data.length then
      let r := bamRecords q sem f'
      (body :: r.1, r.2)
    else ([], .unreachable)
termination_by f.data.length

inductive BamOutcome where
  /-- `bam.NewReader` returned an error (no reader, no record) -/
  | headerErr (e : Err)
  /-- records returned by `Read`, then the error (`eof` = clean end) -/
  | records (rs : List Bytes) (e : Err)
deriving DecidableEq, Repr

/-- `bam.NewReader` + `Read` until an error, over a byte string -/
def bamReadAll (q : Quirks) (c : Codec) (sem : BamSem) (s : Bytes) : BamOutcome :=
  let r := readAll q c s
  match bamHeader sem ⟨r.1, r.2⟩ with
  | .error e => .headerErr e
  | .ok f =>
    let rr := bamRecords q sem f
    .records rr.1 rr.2

end Hts.Model.BgzfBytes
