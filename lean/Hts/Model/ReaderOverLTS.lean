/-
The byte-level consumer of `bgzf.Reader` on top of the read-ahead protocol (core Lean only).

`Model/ReaderLTS.lean` is the goroutine protocol of a reader with rd > 1; its blocks are identities
`(base, NextBase)`.  `Model/BgzfReader.lean` is the byte-level code of Read / ReadByte / Seek for rd = 1, where
a block is obtained by `Block.load`.  Here the two are put together:

* the byte-level code is written once more as a *program* (`Prog`): the same skip loop, copy loop, `ReadByte`
  and `Seek` as in `Model/BgzfReader.lean`, except that where that model loads a block itself the program
  makes a *call* (`nextBlock()` or the block-fetching part of `Seek(off)`) and continues with whatever block
  the call delivers;
* `Over cfg F p s a t` runs a program over the protocol: every call is the consumer's next script operation
  of the LTS, followed by ANY path of the LTS (any interleaving of the worker with the consumer, as many
  worker steps before, during and after the call as the scheduler likes) up to a state where the consumer has
  returned from that call; the block delivered to the program is the block the protocol has installed as
  `cur` — its identity `(base, NextBase)` comes from the protocol, its payload from the file at that base
  (`blockOf`);
* `Prog.seq` runs a program with the blocks the rd = 1 reader would load (on identities).
-/
import Hts.Model.ReaderLTSFile
namespace Hts.Model.ReadAhead
open Hts.Model.Bgzf
open Hts.Spec.Flat (Offset Chunk)

/-- The two calls of the byte-level code into the protocol. -/
inductive Call where
  | next               -- `bg.nextBlock()`
  | seek (off : Nat)   -- `Seek(off)` with `off.File = off`: fast-path test and block fetch
deriving DecidableEq, Repr

def Call.op : Call → Op
  | .next => .next
  | .seek off => .seek off

/-- The payload of the member that starts at `base` (nothing when no member starts there). -/
def payloadOf (F : File) (base : Nat) : List UInt8 :=
  match memberAt F base with
  | .ok m => m.data
  | _ => []

/-- The error of a load at `base` where no member starts: `io.EOF` at the end of the file. -/
def failErr (F : File) (base : Nat) : Err :=
  match memberAt F base with
  | .eof => .eof
  | _ => .other

/-- The block of the byte-level code for a block of the protocol: identity (base, header size field =
`NextBase − base`) from the protocol, payload from the file; a failed block is `failAt`'s. -/
def blockOf (F : File) (b : Blk) : Block × Option Err :=
  match b.base, b.next with
  | some base, some nx => (⟨base, nx - base, payloadOf F base, 0, ⟨base, 0⟩⟩, none)
  | some base, none => (Block.failed base, some (failErr F base))
  | none, _ => (Block.failed 0, some .other)

/-- A byte-level computation that obtains its blocks through calls. -/
inductive Prog (α : Type) where
  | done (a : α)
  | call (c : Call) (k : Block × Option Err → Prog α)

def Prog.bind {α β : Type} : Prog α → (α → Prog β) → Prog β
  | .done a, f => f a
  | .call c k, f => .call c fun x => (k x).bind f

/-! ### The code of `Model/BgzfReader.lean` with calls instead of loads -/

/-- `nextBlock` -/
def gNextBlock (r : Reader) : Prog (Reader × Option Err) :=
  .call .next fun be => .done ({ r with cur := be.1 }, be.2)

def gSkipEmpty : Nat → Reader → Prog Reader
  | 0, r => .done { r with err := some .fuel }
  | fuel + 1, r =>
    if r.cur.len = 0 then
      (gNextBlock r).bind fun p =>
        match p.2 with
        | some e => .done { p.1 with err := some e }
        | none => gSkipEmpty fuel { p.1 with err := none }
    else .done r

def gReadLoop : Nat → Reader → Nat → Prog (Reader × List UInt8 × Option Err)
  | 0, r, _ => .done ({ r with err := some .fuel }, [], some .fuel)
  | fuel + 1, r, want =>
    if 0 < want ∧ r.err = none then
      match r.cur.read want with
      | (out, false, b) =>
        (gReadLoop fuel { r with cur := b } (want - out.length)).bind fun q => .done (q.1, out ++ q.2.1, q.2.2)
      | (out, true, b) =>
        let r := { r with cur := b, err := some .eof }
        if want - out.length = 0 then
          let r := { r with err := none }
          .done (r.setEnd, out, r.err)
        else if r.blocked then
          .done ({ r with err := none }.setEnd, out, some .eof)
        else
          (gNextBlock r).bind fun p =>
            match p.2 with
            | some e =>
              let r' := { p.1 with err := some e }
              .done (r'.setEnd, out, r'.err)
            | none =>
              (gReadLoop fuel { p.1 with err := none } (want - out.length)).bind fun q =>
                .done (q.1, out ++ q.2.1, q.2.2)
    else .done (r.setEnd, [], r.err)

/-- `Reader.Read(p)` -/
def gRead (r : Reader) (n : Nat) : Prog (Reader × List UInt8 × Option Err) :=
  match r.err with
  | some e => .done (r, [], some e)
  | none =>
    (gSkipEmpty r.skipFuel r).bind fun r =>
      match r.err with
      | some e => .done (r, [], some e)
      | none =>
        let r := { r with lastChunk := ⟨r.cur.tx, r.lastChunk.fin⟩ }
        gReadLoop r.loopFuel r n

/-- `Reader.ReadByte()` -/
def gReadByte (r : Reader) : Prog (Reader × UInt8 × Option Err) :=
  match r.err with
  | some e => .done (r, 0, some e)
  | none =>
    (gSkipEmpty r.skipFuel r).bind fun r =>
      match r.err with
      | some e => .done (r, 0, some e)
      | none =>
        let r := { r with lastChunk := ⟨r.cur.tx, r.lastChunk.fin⟩ }
        match r.cur.readByte with
        | (c, false, b) =>
          let r := { r with cur := b }
          .done (r.setEnd, c, none)
        | (c, true, b) =>
          let r := { r with cur := b, err := some .eof }
          if r.blocked then .done ({ r with err := none }.setEnd, c, some .eof)
          else
            (gNextBlock r).bind fun p =>
              let r' := { p.1 with err := p.2 }
              .done (r'.setEnd, c, p.2)

/-- `Reader.Seek(off)`: the call is made on both paths (in the protocol `Seek` is one operation whose first
step is the same test on the current block); on the fast path the byte-level code keeps its block. -/
def gSeek (r : Reader) (off : Offset) : Prog (Reader × Option Err) :=
  if off.file ≠ r.cur.base ∨ r.cur.hasData = false then
    .call (.seek off.file) fun be =>
      let r := { r with cur := be.1, err := be.2 }
      match be.2 with
      | some e => .done (r, some e)
      | none => .done ({ r with cur := r.cur.seek off.block, err := none, lastChunk := ⟨off, off⟩ }, none)
  else
    .call (.seek off.file) fun _ =>
      .done ({ r with cur := r.cur.seek off.block, err := none, lastChunk := ⟨off, off⟩ }, none)

def gStep (r : Reader) : Hts.Spec.Flat.Op → Prog (Reader × Out)
  | .read n => (gRead r n).bind fun q => .done (q.1, ⟨q.2.1, q.2.2⟩)
  | .readByte => (gReadByte r).bind fun q => .done (q.1, ⟨[q.2.1], q.2.2⟩)
  | .seek o => (gSeek r o).bind fun q => .done (q.1, ⟨[], q.2⟩)
  | .setBlocked b => .done (r.setBlocked b, ⟨[], none⟩)

/-- A history: per operation what it returned and the reader after it (as `Reader.run`). -/
def gRun : Reader → List Hts.Spec.Flat.Op → Prog (List (Out × Reader))
  | _, [] => .done []
  | r, op :: ops =>
    (gStep r op).bind fun p => (gRun p.1 ops).bind fun l => .done ((p.2, p.1) :: l)

/-- As `gStep`, reporting the byte of a `ReadByte` only when there is no error (as `FReader.step` of
Model/BgzfReaderFaults.lean does: a byte returned with an error is not data). -/
def gStepF (r : Reader) : Hts.Spec.Flat.Op → Prog (Reader × Out)
  | .read n => (gRead r n).bind fun q => .done (q.1, ⟨q.2.1, q.2.2⟩)
  | .readByte => (gReadByte r).bind fun q => .done (q.1, ⟨if q.2.2 = none then [q.2.1] else [], q.2.2⟩)
  | .seek o => (gSeek r o).bind fun q => .done (q.1, ⟨[], q.2⟩)
  | .setBlocked b => .done (r.setBlocked b, ⟨[], none⟩)

def gRunF : Reader → List Hts.Spec.Flat.Op → Prog (List (Out × Reader))
  | _, [] => .done []
  | r, op :: ops =>
    (gStepF r op).bind fun p => (gRunF p.1 ops).bind fun l => .done ((p.2, p.1) :: l)

/-- A client of the reader that chooses each operation from what the earlier ones returned (output and reader
state, i.e. `LastChunk()`, `BlockLen()`): `bam.Reader`, `bam.Iterator`, `index.ChunkReader` are of this kind. -/
inductive Client (α : Type) where
  | done (a : α)
  | op (o : Hts.Spec.Flat.Op) (k : Out → Reader → Client α)

/-- The client over the sequential reader. -/
def Client.run {α : Type} : Client α → Reader → α × Reader
  | .done a, r => (a, r)
  | .op o k, r => (k (r.step o).2 (r.step o).1).run (r.step o).1

/-- The client as a program over the protocol. -/
def Client.prog {α : Type} : Client α → Reader → Prog (α × Reader)
  | .done a, r => .done (a, r)
  | .op o k, r => (gStep r o).bind fun p => (k p.2 p.1).prog p.1

/-! ### Running a program -/

/-- The block a call installs when every load is the sequential one (on identities). -/
def seqNext (chain : Chain) (c : Blk) : Call → Blk
  | .next =>
    match c.next with
    | some e => ⟨some e, chain e⟩
    | none => c
  | .seek off => if c.base = some off ∧ good c then c else ⟨some off, chain off⟩

/-- The program run with the blocks of the rd = 1 reader; `c` is the identity of the current block. -/
def Prog.seq {α : Type} (F : File) : Prog α → Blk → α × Blk
  | .done a, c => (a, c)
  | .call cl k, c => (k (blockOf F (seqNext (chainOf F) c cl))).seq F (seqNext (chainOf F) c cl)

/-- The calls the program makes when it gets the sequential blocks: the script with which it runs to its end. -/
def Prog.calls {α : Type} (F : File) : Prog α → Blk → List Op
  | .done _, _ => []
  | .call cl k, c => cl.op :: (k (blockOf F (seqNext (chainOf F) c cl))).calls F (seqNext (chainOf F) c cl)

/-- Any number of steps of the protocol, by either thread. -/
inductive Path (cfg : Cfg) : State → State → Prop where
  | refl {s : State} : Path cfg s s
  | tail {s u t : State} : Path cfg s u → Step cfg u t → Path cfg s t

/-- The program run over the protocol.  A call: the consumer is between calls and the call is the next
operation of its script; then any path of the LTS to a state where the consumer is between calls again with
exactly that operation gone from its script; the block delivered is the protocol's current block. -/
inductive Over (cfg : Cfg) (F : File) {α : Type} : Prog α → State → α → State → Prop where
  | done {a : α} {s : State} : Over cfg F (.done a) s a s
  | call {cl : Call} {k : Block × Option Err → Prog α} {rest : List Op} {s t u : State} {a : α} :
      s.cons = .idle → s.script = cl.op :: rest → Path cfg s t → t.cons = .idle → t.script = rest →
      Over cfg F (k (blockOf F t.cur)) t a u → Over cfg F (.call cl k) s a u

end Hts.Model.ReadAhead
