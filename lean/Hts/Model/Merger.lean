/-
Model of bam/merger.go: NewMerger, Read, cat, nextBySortOrder, reassignReference and the heap order
bySortOrderAndID — as repaired by fixes/C18-1 … C18-5.  Core Lean only.

What is modelled and how
* A source `bam.Reader` is the list of records it delivers next (`rest`), followed by the way that run ends
  (`term`: `Term.eof` or `Term.err e`).  io.EOF is returned for ever.  An error is either sticky (a
  bgzf.Reader keeps its error: `later = []`, the same error for ever) or NOT sticky (an error of decoding one
  record — reference id out of range, bad name length, bad aux — consumes the record and the next Read
  returns the following one: `later = (rest', term') :: …`, the runs that follow).  A source that fails at
  record n is `rest = the first n records`, `term = err e`.  `bam.Reader.Read` returns a record or an error,
  never both and never neither: `ReadRes`; `stop` carries the source as it is after the call.
  The repaired Merger never reads a source again after that source returned an error (fixes/C18-3: dropped
  from the heap; fixes/C18-6: concatenation releases its sources), which is why only `rest` and `term`
  of a source appear in the theorems.
* A record is the fields the merger and its comparison functions look at (`name`, `ref`, `pos`, `mate`,
  `matePos`) plus `uid` standing for everything else.  `ref`/`mate` are indices into the reference list
  of the header the record is linked to (`none` = nil pointer = unplaced / no mate reference).
* `sam.MergeHeaders` belongs to property C07.  Here its result is given data: `LinkFn`, with
  `links i x` = index in the merged header of reference `x` of source `i` (m.refLinks[i][x].ID()).
  For a single source MergeHeaders returns the source header and nil links and reassignReference does
  nothing: `links = none`.
* `container/heap` is the parameter `Heap`: `pop` returns some element and the remaining elements
  (`pop_perm`), and for a strict weak order the element returned is minimal (`pop_min`).  The slice
  order inside m.readers is not observable through these laws, so the heap is a list up to permutation;
  `heap.Push` is `cons`, `heap.Init` is the identity.
* the source id returned with each record by `Merger.read` is ghost information (Go's Read does not
  return it); it is what per-input statements are about.
-/
namespace Hts.Model.Merger

/-- a Go string as its bytes -/
abbrev Name := List Nat

structure Rec where
  name : Name
  ref : Option Nat
  pos : Int
  mate : Option Nat
  matePos : Int
  uid : Nat
deriving DecidableEq, Repr

/-- how a stream of records ends: io.EOF or another error (identified by a number) -/
inductive Term
  | eof
  | err (e : Nat)
deriving DecidableEq, Repr

structure Src where
  rest : List Rec
  term : Term
  /-- what the reader delivers after a non-sticky error `term`: the following runs -/
  later : List (List Rec × Term) := []
deriving Repr

inductive ReadRes
  | got (r : Rec) (s : Src)
  | stop (t : Term) (s : Src)

/-- the source after it has returned `term`: unchanged for io.EOF and for a sticky error, the next run
after a record-level error -/
def Src.afterStop (s : Src) : Src :=
  match s.term, s.later with
  | .err _, (rs, t) :: more => { rest := rs, term := t, later := more }
  | _, _ => s

/-- `(*bam.Reader).Read` -/
def Src.read (s : Src) : ReadRes :=
  match s.rest with
  | r :: rs => .got r { s with rest := rs }
  | [] => .stop s.term s.afterStop

/-! ### comparison functions -/

abbrev Less := Rec → Rec → Bool

/-- Go's `<` on strings: lexicographic on bytes, a proper prefix first -/
def bytesLt : List Nat → List Nat → Bool
  | _, [] => false
  | [], _ :: _ => true
  | a :: as, b :: bs => decide (a < b) || (a == b && bytesLt as bs)

/-- `(*sam.Record).LessByName` -/
def lessByName : Less := fun a b => bytesLt a.name b.name

/-- `lessByCoordinate` of bam/merger.go (fixes/C18-5): by reference ID, then position; `RefID() < 0`
(nil reference) sorts last -/
def lessByCoordinate : Less := fun a b =>
  match a.ref, b.ref with
  | none, _ => false
  | some _, none => true
  | some x, some y => decide (x < y) || (x == y && decide (a.pos < b.pos))

inductive SortOrder
  | unknown
  | unsorted
  | queryname
  | coordinate
deriving DecidableEq, Repr

/-- the `switch m.h.SortOrder` of NewMerger; `none` = m.less stays nil = concatenation -/
def chooseLess (so : SortOrder) (custom : Option Less) : Option Less :=
  match so with
  | .unknown => custom
  | .unsorted => none
  | .queryname => some lessByName
  | .coordinate => some lessByCoordinate

/-- a strict weak order given as a Boolean function -/
structure StrictWeak {α : Type} (lt : α → α → Bool) : Prop where
  irrefl : ∀ a, lt a a = false
  trans : ∀ a b c, lt a b = true → lt b c = true → lt a c = true
  negTrans : ∀ a b c, lt a b = false → lt b c = false → lt a c = false

/-! ### re-linking -/

abbrev LinkFn := Nat → Nat → Nat

/-- `reassignReference` (fixes/C18-1: the mate reference too) -/
def relink (links : Option LinkFn) (id : Nat) (r : Rec) : Rec :=
  match links with
  | none => r
  | some l => { r with ref := r.ref.map (l id), mate := r.mate.map (l id) }

/-! ### the heap of sources that have a head -/

/-- a `reader` that is in the heap: its head record (already re-linked) and the rest of its source -/
structure Live where
  id : Nat
  head : Rec
  src : Src
deriving Repr

/-- `(*bySortOrderAndID).Less` -/
def heapLess (less : Less) (a b : Live) : Bool :=
  less a.head b.head || (decide (a.id < b.id) && !less b.head a.head)

/-- `container/heap` over a slice of readers, up to the arrangement of the slice -/
structure Heap where
  pop : (Live → Live → Bool) → List Live → Option (Live × List Live)
  pop_nil : ∀ lt, pop lt [] = none
  pop_perm : ∀ lt l, l ≠ [] → ∃ x rest, pop lt l = some (x, rest) ∧ (x :: rest).Perm l
  pop_min : ∀ lt l x rest, StrictWeak lt → pop lt l = some (x, rest) → ∀ y, y ∈ rest → lt y x = false

/-! ### the Merger -/

inductive Mode
  /-- m.less == nil: m.readers, in order, and m.err (set, with m.readers = nil, by the first error) -/
  | cat (readers : List (Nat × Src)) (err : Option Nat)
  /-- m.less != nil: m.less, the heap m.readers, m.err -/
  | sorted (less : Less) (heap : List Live) (err : Option Nat)

structure Merger where
  /-- m.refLinks (nil for a single source) -/
  links : Option LinkFn
  mode : Mode

structure Input where
  so : SortOrder
  src : Src

inductive NewErr
  | noSource
  | sortOrderMismatch
  /-- sam.MergeHeaders returned an error (e.g. one reference name with two lengths) -/
  | headerMerge
deriving DecidableEq, Repr

def enumFrom {α : Type} : Nat → List α → List (Nat × α)
  | _, [] => []
  | i, a :: as => (i, a) :: enumFrom (i + 1) as

/-- the loop of NewMerger that reads the first record of every source (re-linked at once, fixes/C18-5),
followed by the filter in front of heap.Init (fixes/C18-2, C18-3): sources without a first record are
left out, the first error other than io.EOF is kept -/
def initHeads (links : Option LinkFn) : List (Nat × Src) → List Live × Option Nat
  | [] => ([], none)
  | (i, s) :: rest =>
    let (ls, e) := initHeads links rest
    match s.read with
    | .got r s' => ({ id := i, head := relink links i r, src := s' } :: ls, e)
    | .stop .eof _ => (ls, e)
    | .stop (.err x) _ => (ls, some x)

/-- `NewMerger(less, src...)`.  `merged` is what sam.MergeHeaders (property C07) answered for the headers:
`none` = an error, `some linkFn` = the link table.  For a single source MergeHeaders returns the source's
header and nil links without looking at anything, so `merged` is not consulted. -/
def newMerger (custom : Option Less) (merged : Option LinkFn) (inputs : List Input) : Except NewErr Merger :=
  match inputs with
  | [] => .error .noSource
  | i0 :: _ =>
    if inputs.all (fun i => i.so == i0.so) then
      match (if inputs.length = 1 then some none else merged.map some) with
      | none => .error .headerMerge
      | some links =>
        let srcs := enumFrom 0 (inputs.map (·.src))
        match chooseLess i0.so custom with
        | none => .ok { links := links, mode := .cat srcs none }
        | some less =>
          let (heap, err) := initHeads links srcs
          .ok { links := links, mode := .sorted less heap err }
    else .error .sortOrderMismatch

/-- what one `Read` returns: a record (with the ghost id of its source) or the final error -/
inductive Out
  | got (id : Nat) (r : Rec)
  | fin (t : Term)

def errTerm : Option Nat → Term
  | none => .eof
  | some e => .err e

/-- `Read` with `m.less == nil`: the answer without sources (`m.err` or io.EOF), else `cat` (fixes/C18-4,
C18-6): an exhausted source is dropped and the next one is read; any other error is kept in `m.err`, the
sources are released and the error is returned -/
def catRead (links : Option LinkFn) : List (Nat × Src) → Option Nat → Out × (List (Nat × Src) × Option Nat)
  | [], err => (.fin (errTerm err), ([], err))
  | (id, s) :: rest, err =>
    match s.read with
    | .got r s' => (.got id (relink links id r), ((id, s') :: rest, err))
    | .stop .eof _ => catRead links rest err
    | .stop (.err e) _ => (.fin (.err e), ([], some e))

/-- `Read` with `m.less != nil`: the empty-heap answer, else `nextBySortOrder` -/
def sortedRead (H : Heap) (links : Option LinkFn) (less : Less) (heap : List Live) (err : Option Nat) :
    Out × (List Live × Option Nat) :=
  match H.pop (heapLess less) heap with
  | none => (.fin (errTerm err), (heap, err))
  | some (x, rest) =>
    match x.src.read with
    | .got r s' => (.got x.id x.head, ({ x with head := relink links x.id r, src := s' } :: rest, err))
    | .stop .eof _ => (.got x.id x.head, (rest, err))
    | .stop (.err e) _ => (.got x.id x.head, (rest, match err with | none => some e | some _ => err))

/-- `(*Merger).Read` -/
def Merger.read (H : Heap) (m : Merger) : Out × Merger :=
  match m.mode with
  | .cat rs err =>
    let (o, st) := catRead m.links rs err
    (o, { m with mode := .cat st.1 st.2 })
  | .sorted less heap err =>
    let (o, st) := sortedRead H m.links less heap err
    (o, { m with mode := .sorted less st.1 st.2 })

/-- call `Read` until it returns an error, at most `n` times: the records and the final error -/
def drain (H : Heap) : Nat → Merger → List (Nat × Rec) × Option Term
  | 0, _ => ([], none)
  | n + 1, m =>
    match m.read H with
    | (.got id r, m') =>
      let (o, f) := drain H n m'
      ((id, r) :: o, f)
    | (.fin t, _) => ([], some t)

/-- number of records the merger can still return -/
def Merger.size (m : Merger) : Nat :=
  match m.mode with
  | .cat rs _ => (rs.map fun p => p.2.rest.length).sum
  | .sorted _ heap _ => (heap.map fun x => 1 + x.src.rest.length).sum

/-- read the merger to its end (`size + 1` calls suffice: Hts.Props.C18.merge_terminates) -/
def Merger.readAll (H : Heap) (m : Merger) : List (Nat × Rec) × Option Term :=
  drain H (m.size + 1) m

/-- the merger after calling `Read` until it returned an error, at most `n` times -/
def Merger.advance (H : Heap) : Nat → Merger → Merger
  | 0, m => m
  | n + 1, m =>
    match m.read H with
    | (.got _ _, m') => m'.advance H n
    | (.fin _, m') => m'

/-! ### an executable heap (used by the driver and the non-vacuity examples) -/

/-- a minimal element (the left-most one) and the other elements -/
def popMin {α : Type} (lt : α → α → Bool) : List α → Option (α × List α)
  | [] => none
  | a :: as =>
    match popMin lt as with
    | none => some (a, [])
    | some (b, rest) => if lt b a then some (b, a :: rest) else some (a, b :: rest)

theorem popMin_perm {α : Type} (lt : α → α → Bool) :
    ∀ l : List α, l ≠ [] → ∃ x rest, popMin lt l = some (x, rest) ∧ (x :: rest).Perm l
  | [], h => absurd rfl h
  | a :: as, _ => by
    unfold popMin
    cases as with
    | nil => exact ⟨a, [], by simp [popMin], List.Perm.refl _⟩
    | cons a' as' =>
      obtain ⟨b, rest, hb, hp⟩ := popMin_perm lt (a' :: as') (by simp)
      rw [hb]
      by_cases h : lt b a = true
      · refine ⟨b, a :: rest, by simp [h], ?_⟩
        exact (List.Perm.swap a b rest).trans (List.Perm.cons a hp)
      · refine ⟨a, b :: rest, by simp [h], ?_⟩
        exact List.Perm.cons a hp

theorem popMin_min {α : Type} (lt : α → α → Bool) (sw : StrictWeak lt) :
    ∀ (l : List α) (x : α) (rest : List α), popMin lt l = some (x, rest) → ∀ y, y ∈ rest → lt y x = false
  | [], _, _, h => by simp [popMin] at h
  | a :: as, x, rest, h => by
    unfold popMin at h
    cases hp : popMin lt as with
    | none =>
      rw [hp] at h
      simp only [Option.some.injEq, Prod.mk.injEq] at h
      intro y hy
      rw [← h.2] at hy
      cases hy
    | some br =>
      obtain ⟨b, rest'⟩ := br
      rw [hp] at h
      have ih := popMin_min lt sw as b rest' hp
      by_cases hba : lt b a = true
      · simp only [hba, if_true, Option.some.injEq, Prod.mk.injEq] at h
        obtain ⟨rfl, rfl⟩ := h
        intro y hy
        cases hy with
        | head =>
          cases hab : lt a b with
          | false => rfl
          | true => have := sw.trans _ _ _ hab hba; rw [sw.irrefl] at this; cases this
        | tail _ hy => exact ih y hy
      · have hba' : lt b a = false := by cases hh : lt b a <;> simp_all
        simp only [hba', Bool.false_eq_true, if_false, Option.some.injEq, Prod.mk.injEq] at h
        obtain ⟨rfl, rfl⟩ := h
        intro y hy
        cases hy with
        | head => exact hba'
        | tail _ hy => exact sw.negTrans _ _ _ (ih y hy) hba'

/-- the executable instance of the heap parameter -/
def scanHeap : Heap where
  pop := fun lt l => popMin lt l
  pop_nil := fun _ => rfl
  pop_perm := fun lt l h => popMin_perm lt l h
  pop_min := fun lt l x rest sw h => popMin_min lt sw l x rest h

end Hts.Model.Merger
