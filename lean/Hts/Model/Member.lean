/-
Model of one BGZF member as bgzf.Writer produces it (bgzf/writer.go: compressor.writeBlock 131-172,
writeOK 92-112, Close 272-287) and as bgzf.Reader takes it apart again (bgzf/reader.go: readMember
277-306, expectedMemberSize 268-274; bgzf/cache.go: readFrom/readToEOF 138-176).  Core Lean only.

DEFLATE, CRC-32 and the gzip XFL hint of the chosen level are the parameter `CodecFns`; `Codec` adds
the laws the theorems assume of them (nothing else about compress/flate, hash/crc32 is used).
The parts of compress/gzip that are plain framing (Writer.Write's header, Writer.Close's trailer,
Reader.readHeader, the trailer check of Reader.Read) are modelled here as they behave in go1.23.

`writeBlock` mirrors the code WITH the repair of fixes/C08-1-bsize-search.diff (the back-patch search
for "BC\x02\x00" starts at the extra field, offset 12); `writeBlockOrig` is the unrepaired search over
the whole buffer, kept for the witness theorem in `Hts.Props.C08`.
-/
import Hts.Model.BgzfWriter
namespace Hts.Model.Member

abbrev Byte := UInt8

/-- little-endian fields, as encoding/binary.LittleEndian.PutUint16/32 -/
def le16 (n : Nat) : List Byte := [UInt8.ofNat (n % 256), UInt8.ofNat (n / 256 % 256)]
def le32 (n : Nat) : List Byte :=
  [UInt8.ofNat (n % 256), UInt8.ofNat (n / 256 % 256), UInt8.ofNat (n / 65536 % 256), UInt8.ofNat (n / 16777216 % 256)]

/-- The external components. `deflate` = what flate.Writer emits for Write(p) followed by Close at
the writer's level; `inflate` = flate.Reader on a byte stream: decodes ONE complete DEFLATE stream
from the front and reports how many bytes it consumed (it reads byte-wise from the member buffer, so
it consumes exactly the stream); `crc32` = hash/crc32 IEEE; `xfl` = 2 for level 9, 4 for level 1,
else 0 (gzip.Writer.Write). -/
structure CodecFns where
  deflate : List Byte → List Byte
  inflate : List Byte → Option (List Byte × Nat)
  crc32 : List Byte → Nat
  xfl : Byte

/-- The laws assumed of the external components (sampled on every run by the correspondence check:
the implementation's reader decodes every block the writer produced, and the marker). -/
structure Codec extends CodecFns where
  /-- a DEFLATE stream is self-delimiting and decodes to what was compressed -/
  inflate_deflate : ∀ x rest, inflate (deflate x ++ rest) = some (x, (deflate x).length)
  /-- the two bytes `03 00` of the EOF marker are a complete DEFLATE stream of no data -/
  inflate_marker : ∀ rest, inflate (3 :: 0 :: rest) = some ([], 2)
  crc32_lt : ∀ x, crc32 x < 2 ^ 32
  crc32_nil : crc32 [] = 0

/-- zlib's deflateBound, the bound `bgzf.compressBound` relies on (bgzf.go:36-38); an OPTIONAL law,
used only by `default_header_fits` (sampled by the tie on every block written). -/
def Bounded (c : CodecFns) : Prop :=
  ∀ x : List Byte, (c.deflate x).length ≤ x.length + x.length / 4096 + x.length / 16384 + x.length / 33554432 + 13

/-- gzip.Header as the Writer's embedded header: Go strings are rune sequences here, because
gzip.Writer.writeString ranges over runes. `mtime` = ModTime.Unix() when ModTime is after the epoch,
else 0. -/
structure Header where
  name : List Nat := []
  comment : List Nat := []
  extra : List Byte := []
  mtime : Nat := 0
  os : Byte := 255
deriving Repr, DecidableEq

/-- errors of compressor.writeBlock -/
inductive WErr where
  | gzip        -- any error of gzip.Writer.Write's header ("Extra data is too large", "non-Latin-1 header string")
  | noBC        -- gzip.ErrHeader: bytes.Index found no "BC\x02\x00"
  | overflow    -- bgzf.ErrBlockOverflow
deriving Repr, DecidableEq

def bgzfExtra : List Byte := [66, 67, 2, 0, 0, 0]
def bgzfExtraPrefix : List Byte := [66, 67, 2, 0]
def magicBlock : List Byte :=
  [0x1f, 0x8b, 0x08, 0x04, 0x00, 0x00, 0x00, 0x00, 0x00, 0xff, 0x06, 0x00, 0x42, 0x43, 0x02, 0x00,
   0x1b, 0x00, 0x03, 0x00, 0x00, 0x00, 0x00, 0x00, 0x00, 0x00, 0x00, 0x00]
def minFrame : Nat := 20 + bgzfExtra.length
def compressBound (srcLen : Nat) : Nat :=
  srcLen + srcLen / 4096 + srcLen / 16384 + srcLen / 33554432 + 13 + minFrame

/-- gzip.Writer.writeString: every rune must be in 1..255 and is written as one Latin-1 byte,
followed by NUL. -/
def latin1 (s : List Nat) : Option (List Byte) :=
  if s.all (fun v => v ≠ 0 ∧ v ≤ 255) then some (s.map UInt8.ofNat) else none

/-- The header bytes gzip.Writer.Write emits before the first compressed byte
(ID1 ID2 CM FLG MTIME XFL OS, XLEN + extra, name NUL, comment NUL). `Extra` is never nil here
(`append([]byte(bgzfExtra), c.Extra...)`), so FEXTRA is always set. -/
def gzipHeader (c : CodecFns) (h : Header) : Except WErr (List Byte) :=
  let ex := bgzfExtra ++ h.extra
  if ex.length > 0xffff then .error .gzip
  else
    let nameB := if h.name = [] then some [] else (latin1 h.name).map (· ++ [0])
    let commB := if h.comment = [] then some [] else (latin1 h.comment).map (· ++ [0])
    match nameB, commB with
    | some nb, some cb =>
      let flg : Byte := 4 + (if h.name = [] then 0 else 8) + (if h.comment = [] then 0 else 16)
      .ok (0x1f :: 0x8b :: 8 :: flg :: (le32 (h.mtime % 2 ^ 32) ++ (c.xfl :: h.os :: (le16 ex.length ++ (ex ++ (nb ++ cb))))))
    | _, _ => .error .gzip

/-- bytes.Index -/
def indexOf (pat : List Byte) : List Byte → Option Nat
  | [] => if pat.isEmpty then some 0 else none
  | x :: xs => if pat.isPrefixOf (x :: xs) then some 0 else (indexOf pat xs).map (· + 1)

/-- the member before the back-patch: header, DEFLATE data, CRC32, ISIZE (gzip.Writer.Close) -/
def rawMember (c : CodecFns) (hdr p : List Byte) : List Byte :=
  hdr ++ (c.deflate p ++ (le32 (c.crc32 p) ++ le32 (p.length % 2 ^ 32)))

/-- the tail of writeBlock: size test and back-patch of BSIZE at `i+4`, `i+5` -/
def patch (b : List Byte) (i : Nat) : Except WErr (List Byte) :=
  let size := b.length - 1
  if size ≥ BgzfWriter.MaxBlockSize then .error .overflow
  else .ok ((b.set (i + 4) (UInt8.ofNat (size % 256))).set (i + 5) (UInt8.ofNat (size / 256 % 256)))

/-- REPAIRED search: `bytes.Index(b[12:], bgzfExtraPrefix) + 12` when `len(b) > 12`. -/
def findBC (b : List Byte) : Option Nat :=
  if b.length > 12 then (indexOf bgzfExtraPrefix (b.drop 12)).map (· + 12) else none

/-- compressor.writeBlock (repaired search): the bytes put into `c.buf`, or `c.err`. -/
def writeBlock (c : CodecFns) (h : Header) (p : List Byte) : Except WErr (List Byte) :=
  match gzipHeader c h with
  | .error e => .error e
  | .ok hdr =>
    let b := rawMember c hdr p
    match findBC b with
    | none => .error .noBC
    | some i => patch b i

/-- compressor.writeBlock as it is on the unrepaired tree: `bytes.Index(b, bgzfExtraPrefix)`. -/
def writeBlockOrig (c : CodecFns) (h : Header) (p : List Byte) : Except WErr (List Byte) :=
  match gzipHeader c h with
  | .error e => .error e
  | .ok hdr =>
    let b := rawMember c hdr p
    match indexOf bgzfExtraPrefix b with
    | none => .error .noBC
    | some i => patch b i

/-- What the emitter goroutine writes for the queued blocks, in order, and the error it latches:
it stops at the first block whose compressor reports an error (writer.go:82-86, 95-98). -/
def render (c : CodecFns) (h : Header) : List (List Byte) → List Byte × Option WErr
  | [] => ([], none)
  | p :: ps =>
    match writeBlock c h p with
    | .error e => ([], some e)
    | .ok m =>
      let (out, e) := render c h ps
      (m ++ out, e)

/-- Everything the underlying io.Writer has received when `Close` returns, and Close's result
(`none` = nil): the marker is appended iff no error was latched (writer.go:282-284). `blocks` are the
blocks queued by the script including the one Close queues (`BgzfWriter.State.emitted`). -/
def closeOutput (c : CodecFns) (h : Header) (blocks : List (List Byte)) : List Byte × Option WErr :=
  match render c h blocks with
  | (out, none) => (out ++ magicBlock, none)
  | (out, some e) => (out, some e)

/-- bgzf.HasEOF on the whole output: the last 28 bytes equal the marker. -/
def hasEOF (out : List Byte) : Bool :=
  decide (magicBlock.length ≤ out.length) && (out.drop (out.length - magicBlock.length) == magicBlock)

/-! ### reader side -/

/-- split `n` bytes off the front (io.ReadFull) -/
def takeN (n : Nat) (s : List Byte) : Option (List Byte × List Byte) :=
  if n ≤ s.length then some (s.take n, s.drop n) else none

/-- gzip.Reader.readString: bytes up to NUL; at most 512 bytes including the NUL (len(z.buf)). -/
def readCString : Nat → List Byte → Option (List Byte × List Byte)
  | _, [] => none
  | 0, _ => none
  | fuel + 1, b :: s => if b = 0 then some ([], s) else (readCString fuel s).map (fun (x, r) => (b :: x, r))

def u16 (b0 b1 : Byte) : Nat := b0.toNat + 256 * b1.toNat
def u32 (b0 b1 b2 b3 : Byte) : Nat := b0.toNat + 256 * b1.toNat + 65536 * b2.toNat + 16777216 * b3.toNat

/-- gzip.Reader.readHeader: the Extra field and what follows the header.  (FHCRC is checked against
the running CRC of the header bytes.) -/
def readHeader (c : CodecFns) (s : List Byte) : Option (List Byte × List Byte) :=
  match s with
  | id1 :: id2 :: cm :: flg :: m0 :: m1 :: m2 :: m3 :: xfl :: os :: s1 =>
    if id1 ≠ 0x1f ∨ id2 ≠ 0x8b ∨ cm ≠ 8 then none
    else
      let fixed := [id1, id2, cm, flg, m0, m1, m2, m3, xfl, os]
      -- FEXTRA
      let r1 : Option (List Byte × List Byte × List Byte) :=
        if flg &&& 4 ≠ 0 then
          match s1 with
          | x0 :: x1 :: s2 => (takeN (u16 x0 x1) s2).map (fun (e, r) => (e, [x0, x1] ++ e, r))
          | _ => none
        else some ([], [], s1)
      match r1 with
      | none => none
      | some (extra, seen1, s3) =>
        let r2 : Option (List Byte × List Byte) :=
          if flg &&& 8 ≠ 0 then (readCString 512 s3).map (fun (x, r) => (x ++ [0], r)) else some ([], s3)
        match r2 with
        | none => none
        | some (seen2, s4) =>
          let r3 : Option (List Byte × List Byte) :=
            if flg &&& 16 ≠ 0 then (readCString 512 s4).map (fun (x, r) => (x ++ [0], r)) else some ([], s4)
          match r3 with
          | none => none
          | some (seen3, s5) =>
            if flg &&& 2 ≠ 0 then
              match s5 with
              | h0 :: h1 :: s6 =>
                if u16 h0 h1 = c.crc32 (fixed ++ seen1 ++ seen2 ++ seen3) % 65536 then some (extra, s6) else none
              | _ => none
            else some (extra, s5)
  | _ => none

/-- bgzf.expectedMemberSize: `none` is the code's -1. -/
def expectedMemberSize (extra : List Byte) : Option Nat :=
  match indexOf bgzfExtraPrefix extra with
  | none => none
  | some i =>
    if i + 5 ≥ extra.length then none
    else
      match extra[i + 4]?, extra[i + 5]? with
      | some a, some b => some (u16 a b + 1)
      | _, _ => none

/-- decompressor.readMember followed by block.readFrom on a file `s` positioned at a member start:
the decoded payload and the rest of the file.  `none` = anything but a clean decode (header error,
ErrNoBlockSize, `need ≤ 0`, short file, DEFLATE error, CRC/ISIZE mismatch, bytes left over in the
member buffer, more than MaxBlockSize bytes of data): error classes are C10's business. -/
def readMember (c : CodecFns) (s : List Byte) : Option (List Byte × List Byte) :=
  match readHeader c s with
  | none => none
  | some (extra, afterHdr) =>
    match expectedMemberSize extra with
    | none => none
    | some blockSize =>
      let skipped := s.length - afterHdr.length
      if blockSize ≤ skipped then none
      else
        match takeN (blockSize - skipped) afterHdr with
        | none => none
        | some (buf, rest) =>
          match c.inflate buf with
          | none => none
          | some (data, k) =>
            match buf.drop k with
            | [c0, c1, c2, c3, i0, i1, i2, i3] =>
              if u32 c0 c1 c2 c3 = c.crc32 data ∧ u32 i0 i1 i2 i3 = data.length % 2 ^ 32
                  ∧ data.length ≤ BgzfWriter.MaxBlockSize then some (data, rest)
              else none
            | _ => none

/-- The blocks a sequential reader meets in file `s` until the clean io.EOF at the end of the file.
`fuel` bounds the number of members; `readStream` supplies `s.length + 1`, which always suffices
because a member is at least one byte long. -/
def readStreamAux (c : CodecFns) : Nat → List Byte → Option (List (List Byte))
  | _, [] => some []
  | 0, _ :: _ => none
  | fuel + 1, s@(_ :: _) =>
    match readMember c s with
    | none => none
    | some (data, rest) => (readStreamAux c fuel rest).map (data :: ·)

def readStream (c : CodecFns) (s : List Byte) : Option (List (List Byte)) := readStreamAux c (s.length + 1) s

end Hts.Model.Member
