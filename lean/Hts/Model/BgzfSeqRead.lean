/-
Minimal sequential model of bgzf.Reader.Read / ReadByte (bgzf/reader.go:533-610, nextBlock 616-663)
over a list of already-decoded blocks.  Core Lean only.  No Seek, no cache, `Blocked = false`
(the seeking reader is `Hts.Model.BgzfReader`, owned by C02).

State: `cur` = unread bytes of `bg.current` (`current.len()` = `cur.length`), `rest` = the decoded
payloads of the members that follow in the file, `eof` = `bg.err == io.EOF` (sticky).  The only error
this model can produce is the clean `io.EOF` of `nextBlock` when no member follows; decoding errors
belong to C10.
-/
set_option linter.unusedVariables false
namespace Hts.Model.BgzfSeqRead

structure State (α : Type) where
  cur : List α
  rest : List (List α)
  eof : Bool
deriving Repr, DecidableEq

/-- `NewReader`: the first member is decoded eagerly; an empty file makes NewReader fail (io.EOF). -/
def init {α : Type} : List (List α) → Option (State α)
  | [] => none
  | b :: bs => some ⟨b, bs, false⟩

/-- Everything the reader has not delivered yet. -/
def State.remaining {α : Type} (s : State α) : List α := s.cur ++ s.rest.flatten

/--
    for bg.current.len() == 0 { bg.err = bg.nextBlock(); if bg.err != nil { return 0, bg.err } }

Returns `none` when `nextBlock` reports io.EOF (no member follows), else the first non-empty block
and what follows it.
-/
def skipEmpty {α : Type} : List α → List (List α) → Option (List α × List (List α))
  | [], [] => none
  | [], b :: r => skipEmpty b r
  | a :: cur, rest => some (a :: cur, rest)

/--
The copy loop of `Read` (reader.go:551-572), `acc` = `p[:n]`, `want` = `len(p)`:

    for n < len(p) && bg.err == nil {
        _n, bg.err = bg.current.Read(p[n:]); n += _n       -- bytes.Reader: (0, io.EOF) iff nothing is left
        if bg.err == io.EOF {
            if n == len(p) { bg.err = nil; break }           -- (dead: _n = 0 here and n < len(p))
            bg.err = bg.nextBlock(); if bg.err != nil { break }
        }
    }

Result: bytes copied, new `cur`, new `rest`, and whether the loop ended with `bg.err = io.EOF`.
-/
def readLoop {α : Type} (want : Nat) (acc cur : List α) (rest : List (List α)) :
    List α × List α × List (List α) × Bool :=
  if hw : acc.length < want then
    match cur, rest with
    | [], [] => (acc, [], [], true)
    | [], b :: r => readLoop want acc b r
    | a :: t, rest =>
      let k := min (want - acc.length) (a :: t).length
      readLoop want (acc ++ (a :: t).take k) ((a :: t).drop k) rest
  else (acc, cur, rest, false)
termination_by (rest.length, want - acc.length)
decreasing_by
  · exact Prod.Lex.left _ _ (by simp)
  · apply Prod.Lex.right
    simp only [List.length_append, List.length_take, List.length_cons]
    omega

/-- One `Read(p)` with `len(p) = n`: returned bytes and whether the error is io.EOF (else nil). -/
def read {α : Type} (n : Nat) (s : State α) : State α × List α × Bool :=
  if s.eof then (s, [], true)
  else match skipEmpty s.cur s.rest with
    | none => ({ cur := [], rest := [], eof := true }, [], true)
    | some (cur, rest) =>
      let (out, cur', rest', e) := readLoop n [] cur rest
      ({ cur := cur', rest := rest', eof := e }, out, e)

/-- One `ReadByte()`. (`current.ReadByte` cannot report io.EOF after the empty-block skip.) -/
def readByte {α : Type} (s : State α) : State α × Option α × Bool :=
  if s.eof then (s, none, true)
  else match skipEmpty s.cur s.rest with
    | none => ({ cur := [], rest := [], eof := true }, none, true)
    | some ([], rest) => ({ cur := [], rest := rest, eof := false }, none, false)  -- unreachable (skipEmpty_ne_nil)
    | some (a :: cur, rest) => ({ cur := cur, rest := rest, eof := false }, some a, false)

inductive Op where
  | read (n : Nat)
  | readByte
deriving Repr, DecidableEq

/-- result of one op: bytes delivered, io.EOF? -/
def step {α : Type} (s : State α) : Op → State α × List α × Bool
  | .read n => read n s
  | .readByte =>
    let (s', b, e) := readByte s
    (s', b.toList, e)

def run {α : Type} : State α → List Op → State α × List (List α × Bool)
  | s, [] => (s, [])
  | s, op :: ops =>
    let (s1, r) := step s op
    let (s2, rs) := run s1 ops
    (s2, r :: rs)

end Hts.Model.BgzfSeqRead
