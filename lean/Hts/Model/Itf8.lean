/-
Hand-written model of cram/encoding/itf8 (Len, Encode, Decode).
Core Lean only.  `Hts.Tie.C20` proves the generated definitions (from the Go AST) equal to these.
Go `int` results are `Int`; `Decode` returns Go's triple `(v, n, ok)`.
-/
import Hts.Model.GoPrim
namespace Hts.Model.Itf8
open Hts.GoPrim

abbrev Byte := BitVec 8

def len (u : BitVec 32) : Int :=
  if u.ult 0x80#32 then 1
  else if u.ult 0x4000#32 then 2
  else if u.ult 0x200000#32 then 3
  else if u.ult 0x10000000#32 then 4
  else 5

/-- The bytes `Encode` stores into `b[0..n)`. -/
def encode (u : BitVec 32) : List Byte :=
  if u.ult 0x80#32 then [u.setWidth 8]
  else if u.ult 0x4000#32 then [(u >>> 8).setWidth 8 &&& 0x3f#8 ||| 0x80#8, u.setWidth 8]
  else if u.ult 0x200000#32 then [(u >>> 16).setWidth 8 &&& 0x1f#8 ||| 0xc0#8, (u >>> 8).setWidth 8, u.setWidth 8]
  else if u.ult 0x10000000#32 then
    [(u >>> 24).setWidth 8 &&& 0x0f#8 ||| 0xe0#8, (u >>> 16).setWidth 8, (u >>> 8).setWidth 8, u.setWidth 8]
  else
    [(u >>> 28).setWidth 8 ||| 0xf0#8, (u >>> 20).setWidth 8, (u >>> 12).setWidth 8, (u >>> 4).setWidth 8, u.setWidth 8]

/-- Encoded width announced by the first byte (1..5). -/
def width (b0 : Byte) : Int :=
  if b0.ult 0x80#8 then 1
  else if b0.ult 0xc0#8 then 2
  else if b0.ult 0xe0#8 then 3
  else if b0.ult 0xf0#8 then 4
  else 5

def z (x : Byte) : BitVec 32 := x.setWidth 32

def decode (b : List Byte) : BitVec 32 × Int × Bool :=
  if b.length = 0 then (0#32, 0, false)
  else
    let n := width (b.getD 0 0#8)
    if (b.length : Int) < n then (0#32, n, false)
    else if n = 1 then (z (b.getD 0 0), n, true)
    else if n = 2 then (z (b.getD 1 0) ||| z (b.getD 0 0 &&& 0x3f#8) <<< 8, n, true)
    else if n = 3 then (z (b.getD 2 0) ||| z (b.getD 1 0) <<< 8 ||| z (b.getD 0 0 &&& 0x1f#8) <<< 16, n, true)
    else if n = 4 then
      (z (b.getD 3 0) ||| z (b.getD 2 0) <<< 8 ||| z (b.getD 1 0) <<< 16 ||| z (b.getD 0 0 &&& 0x0f#8) <<< 24, n, true)
    else if n = 5 then
      (z (b.getD 4 0 &&& 0x0f#8) ||| z (b.getD 3 0) <<< 4 ||| z (b.getD 2 0) <<< 12 ||| z (b.getD 1 0) <<< 20
        ||| z (b.getD 0 0 &&& 0x0f#8) <<< 28, n, true)
    else (0#32, n, true)

end Hts.Model.Itf8
