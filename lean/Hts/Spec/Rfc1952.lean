/-
Specification of the gzip member format (RFC 1952 §2.2-2.3) and of the BGZF constraints on a member
(SAM specification §4.1 "The BGZF compression format"), written from those texts and independent of
bgzf/*.go and of Hts.Model.*.  Core Lean only.

RFC 1952 §2.3:   ID1 ID2 CM FLG MTIME(4) XFL OS
                 [XLEN(2) extra field(XLEN)]        if FLG.FEXTRA (bit 2)
                 [file name, zero-terminated]       if FLG.FNAME (bit 3)
                 [comment, zero-terminated]         if FLG.FCOMMENT (bit 4)
                 [CRC16(2)]                         if FLG.FHCRC (bit 1): low 16 bits of the CRC-32 of the header
                 compressed blocks  CRC32(4)  ISIZE(4)
  ID1 = 31, ID2 = 139, CM = 8 (deflate); FLG bits 5-7 are reserved and must be zero;
  CRC32 is that of the uncompressed data, ISIZE its length modulo 2^32; multi-byte numbers are
  little-endian.  §2.3.1.1: the extra field is a sequence of sub-fields SI1 SI2 LEN(2) data(LEN).
  §2.2: a gzip file is a series of members.
SAM §4.1: each BGZF block is a gzip member whose extra field carries a sub-field with SI1 = 66,
  SI2 = 67, LEN = 2 whose value is BSIZE = total block size minus 1; a block is at most 2^16 bytes.
  (The property C08 additionally limits the uncompressed payload to 65280 = 0xff00 bytes.)

DEFLATE (RFC 1951) and CRC-32 are parameters of the specification.
-/
namespace Hts.Spec.Rfc1952

abbrev Byte := UInt8

/-- the two external functions the format refers to -/
structure Ext where
  /-- decode one complete DEFLATE stream from the front of the input: (data, number of bytes it occupies) -/
  inflate : List Byte → Option (List Byte × Nat)
  crc32 : List Byte → Nat

def le16 (b0 b1 : Byte) : Nat := b0.toNat + 256 * b1.toNat
def le32 (b0 b1 b2 b3 : Byte) : Nat := b0.toNat + 256 * b1.toNat + 65536 * b2.toNat + 16777216 * b3.toNat

/-- a parsed member -/
structure Member where
  flg : Nat
  mtime : Nat
  xfl : Nat
  os : Nat
  extra : Option (List Byte)
  name : Option (List Byte)
  comment : Option (List Byte)
  data : List Byte      -- the uncompressed data
  size : Nat            -- number of bytes the member occupies
deriving Repr, DecidableEq

def splitAtN (n : Nat) (s : List Byte) : Option (List Byte × List Byte) :=
  if n ≤ s.length then some (s.take n, s.drop n) else none

/-- a zero-terminated string: the bytes before the first 0, and what follows the 0 -/
def zstring : List Byte → Option (List Byte × List Byte)
  | [] => none
  | b :: s => if b = 0 then some ([], s) else (zstring s).map (fun (x, r) => (b :: x, r))

def bit (flg : Nat) (k : Nat) : Bool := flg / 2 ^ k % 2 = 1

/-- Parse one member from the front of `s`; the rest of `s` is returned. -/
def parseMember (x : Ext) (s : List Byte) : Option (Member × List Byte) :=
  match s with
  | id1 :: id2 :: cm :: flg :: m0 :: m1 :: m2 :: m3 :: xfl :: os :: s1 =>
    if id1.toNat ≠ 31 ∨ id2.toNat ≠ 139 ∨ cm.toNat ≠ 8 ∨ flg.toNat ≥ 32 then none
    else
      let f := flg.toNat
      let extraR : Option (Option (List Byte) × List Byte) :=
        if bit f 2 then
          match s1 with
          | x0 :: x1 :: s2 => (splitAtN (le16 x0 x1) s2).map (fun (e, r) => (some e, r))
          | _ => none
        else some (none, s1)
      extraR.bind fun (extra, s3) =>
      let nameR : Option (Option (List Byte) × List Byte) :=
        if bit f 3 then (zstring s3).map (fun (n, r) => (some n, r)) else some (none, s3)
      nameR.bind fun (name, s4) =>
      let commR : Option (Option (List Byte) × List Byte) :=
        if bit f 4 then (zstring s4).map (fun (n, r) => (some n, r)) else some (none, s4)
      commR.bind fun (comment, s5) =>
      let hcrcR : Option (List Byte) :=
        if bit f 1 then
          match s5 with
          | h0 :: h1 :: s6 =>
            if le16 h0 h1 = x.crc32 (s.take (s.length - s5.length)) % 65536 then some s6 else none
          | _ => none
        else some s5
      hcrcR.bind fun s6 =>
      (x.inflate s6).bind fun (data, k) =>
      match s6.drop k with
      | c0 :: c1 :: c2 :: c3 :: i0 :: i1 :: i2 :: i3 :: rest =>
        if le32 c0 c1 c2 c3 = x.crc32 data ∧ le32 i0 i1 i2 i3 = data.length % 2 ^ 32 then
          some ({ flg := f, mtime := le32 m0 m1 m2 m3, xfl := xfl.toNat, os := os.toNat, extra := extra, name := name,
                  comment := comment, data := data, size := s.length - rest.length }, rest)
        else none
      | _ => none
  | _ => none

/-- A gzip file is a series of members (zero or more): all members of `s`, or `none` if `s` is not
such a series.  `fuel` bounds the number of members; `parseMembers` supplies enough. -/
def parseMembersAux (x : Ext) : Nat → List Byte → Option (List Member)
  | _, [] => some []
  | 0, _ :: _ => none
  | fuel + 1, s@(_ :: _) => (parseMember x s).bind fun (m, rest) => (parseMembersAux x fuel rest).map (m :: ·)

def parseMembers (x : Ext) (s : List Byte) : Option (List Member) := parseMembersAux x (s.length + 1) s

/-- What a multi-member gzip decoder expands the file to. -/
def gunzip (x : Ext) (s : List Byte) : Option (List Byte) :=
  (parseMembers x s).map fun ms => (ms.map (·.data)).flatten

/-- RFC 1952 §2.3.1.1: the extra field as a list of sub-fields (SI1, SI2, data). -/
def subfields : List Byte → Option (List (Byte × Byte × List Byte))
  | [] => some []
  | si1 :: si2 :: l0 :: l1 :: t =>
    if _h : le16 l0 l1 ≤ t.length then
      (subfields (t.drop (le16 l0 l1))).map ((si1, si2, t.take (le16 l0 l1)) :: ·)
    else none
  | _ => none
termination_by s => s.length
decreasing_by simp only [List.length_drop, List.length_cons]; omega

/-- value of the first BC sub-field with LEN = 2 -/
def bsizeOf : List (Byte × Byte × List Byte) → Option Nat
  | [] => none
  | (si1, si2, d) :: rest =>
    if si1.toNat = 66 ∧ si2.toNat = 67 ∧ d.length = 2 then
      match d with
      | [a, b] => some (le16 a b)
      | _ => none
    else bsizeOf rest

def BlockMax : Nat := 65536
def PayloadMax : Nat := 65280

/-- The BGZF constraints on a member: FEXTRA set, the extra field is a well-formed sub-field sequence
containing a BC sub-field of length 2 whose value is the member size minus one; at most 64 KiB; at most
65280 bytes of payload. -/
def IsBgzf (m : Member) : Prop :=
  bit m.flg 2 = true ∧
  (∃ ex subs, m.extra = some ex ∧ subfields ex = some subs ∧ bsizeOf subs = some (m.size - 1)) ∧
  0 < m.size ∧ m.size ≤ BlockMax ∧ m.data.length ≤ PayloadMax

/-- The stricter header the SAM specification tabulates: FLG = 4 exactly (no name, no comment). -/
def IsStrictBgzf (m : Member) : Prop := IsBgzf m ∧ m.flg = 4

end Hts.Spec.Rfc1952
