/-
The abstract contract of `bgzf.Cache` that the reader relies on (bgzf/cache.go:13-34), independent of any
particular cache:

* `Get` returns a block stored under the requested key **and removes it** ("The returned Block must be
  removed from the Cache") — ownership passes to the caller;
* `Put` either refuses the block (nothing changes, the caller keeps it) or retains it, possibly handing
  back exactly one previously held block, which is no longer held;
* `Peek` says `true` exactly for the held keys and reports the held block's `NextBase()`.

`CacheOps` is the uniform executable interface (used by the reader model of C03 and by the driver);
`Contract` is the specification; Hts.Lemmas.CacheContract proves it for LRU, Random and any
StatsRecorder over a conforming cache, and shows that FIFO violates `get_hit`.
Core Lean only.
-/
import Hts.Model.Cache
namespace Hts.Spec.CacheContract
open Hts.Model.Cache

/-- uniform interface; `put` takes the victim the implementation chose (only Random looks at it) and
answers `none` if that choice is not allowed -/
structure CacheOps (σ : Type) where
  put : Heap → σ → Nat → Option Nat → Option (σ × PutRes)
  get : Heap → σ → Int → σ × Option Nat
  peek : Heap → σ → Int → Bool × Int
  /-- the `(key, block)` pairs currently indexed -/
  held : σ → List Entry

def lruOps : CacheOps LCache where
  put h c id _ := some (c.put h id)
  get := LCache.get .lru
  peek := LCache.peek
  held c := c.items

def fifoOps : CacheOps LCache where
  put h c id _ := some (c.put h id)
  get := LCache.get .fifo
  peek := LCache.peek
  held c := c.items

def randomOps : CacheOps RCache where
  put := RCache.put
  get _ c k := c.get k
  peek := RCache.peek
  held c := c.items

/-- `StatsRecorder{Cache: inner}`: same blocks, plus counters -/
def recorderOps {σ : Type} (o : CacheOps σ) : CacheOps (σ × Stats) where
  put h s id hint := (o.put h s.1 id hint).map (fun (c, r) => ((c, s.2.onPut r), r))
  get h s k := let (c, r) := o.get h s.1 k; ((c, s.2.onGet r), r)
  peek h s k := o.peek h s.1 k
  held s := o.held s.1

/-- the contract, for states satisfying the cache's own well-formedness predicate `wf`
(capacity ≥ 1, keys pairwise distinct), which every operation preserves -/
structure Contract {σ : Type} (o : CacheOps σ) (wf : σ → Prop) : Prop where
  get_wf : ∀ h s k, wf s → wf (o.get h s k).1
  put_wf : ∀ h s id hint s' r, wf s → o.put h s id hint = some (s', r) → wf s'
  put_no_panic : ∀ h s id hint s', wf s → o.put h s id hint ≠ some (s', .panic)
  /-- Get hands the block over: it was held under the requested key and is not held afterwards -/
  get_hit : ∀ h s k s' id, wf s → o.get h s k = (s', some id) →
    ⟨k, id⟩ ∈ o.held s ∧ ∀ e, e ∈ o.held s' ↔ (e ∈ o.held s ∧ e ≠ ⟨k, id⟩)
  get_miss : ∀ h s k s', wf s → o.get h s k = (s', none) →
    o.held s' = o.held s ∧ ∀ e ∈ o.held s, e.key ≠ k
  put_refused : ∀ h s id hint s', wf s → o.put h s id hint = some (s', .refused) → o.held s' = o.held s
  /-- a retained block is indexed under its current base; at most one other block leaves -/
  put_kept : ∀ h s id hint s' ev, wf s → o.put h s id hint = some (s', .kept ev) →
    (∀ e ∈ o.held s, e.key ≠ (h id).base) ∧
    match ev with
    | none => ∀ e, e ∈ o.held s' ↔ (e = ⟨(h id).base, id⟩ ∨ e ∈ o.held s)
    | some v => ∃ kv, (⟨kv, v⟩ : Entry) ∈ o.held s ∧
        ∀ e, e ∈ o.held s' ↔ (e = ⟨(h id).base, id⟩ ∨ (e ∈ o.held s ∧ e ≠ ⟨kv, v⟩))
  peek_hit : ∀ h s k nx, wf s → o.peek h s k = (true, nx) → ∃ id, (⟨k, id⟩ : Entry) ∈ o.held s ∧ nx = (h id).next
  peek_miss : ∀ h s k nx, wf s → o.peek h s k = (false, nx) → nx = -1 ∧ ∀ e ∈ o.held s, e.key ≠ k
  /-- held keys are pairwise distinct -/
  keys_distinct : ∀ s, wf s → (o.held s).Pairwise (fun a b => a.key ≠ b.key)

/-! ### The stated eviction policy of LRU and FIFO, written down independently of the linked list

"LRU / FIFO … eviction behavior where Unused Blocks are preferentially evicted": retained blocks wait in
two queues in order of arrival — those that had been read from when they were put (`used`) and those that
had not (`unused`).  Eviction takes the newest unused block if there is one, otherwise the oldest used
block.  (`Get` removes, so for LRU "least recently used" is "least recently put".) -/

structure PolicyQ where
  cap : Int
  /-- oldest first -/
  used : List Entry
  /-- oldest first -/
  unused : List Entry
deriving DecidableEq, Repr

namespace PolicyQ

def new (n : Int) : PolicyQ := ⟨n, [], []⟩

def len (q : PolicyQ) : Int := q.used.length + q.unused.length

def holds (q : PolicyQ) (k : Int) : Bool := q.used.any (fun e => e.key == k) || q.unused.any (fun e => e.key == k)

/-- the victim and the state without it -/
def evict (q : PolicyQ) : Option (Entry × PolicyQ) :=
  match q.unused.getLast? with
  | some v => some (v, { q with unused := q.unused.dropLast })
  | none =>
    match q.used with
    | [] => none
    | v :: t => some (v, { q with used := t })

def put (h : Heap) (q : PolicyQ) (id : Nat) : PolicyQ × PutRes :=
  let b := h id
  if q.holds b.base then (q, .refused)
  else if q.len = q.cap then
    if !b.used then (q, .refused)
    else match q.evict with
      | none => (q, .panic)
      | some (v, q') => ({ q' with used := q'.used ++ [⟨b.base, id⟩] }, .kept (some v.id))
  else if b.used then ({ q with used := q.used ++ [⟨b.base, id⟩] }, .kept none)
  else ({ q with unused := q.unused ++ [⟨b.base, id⟩] }, .kept none)

def removeKeyQ (q : PolicyQ) (k : Int) : PolicyQ :=
  { q with used := q.used.filter (fun e => e.key != k), unused := q.unused.filter (fun e => e.key != k) }

/-- the block retained for base `k` (keys are pairwise distinct in every reachable state, so the order of
the search is immaterial; it is fixed as newest used block first to make `find` total) -/
def find (q : PolicyQ) (k : Int) : Option Entry :=
  (q.used.reverse.find? (fun e => e.key == k)).or (q.unused.find? (fun e => e.key == k))

/-- `Get(k)` at policy level: the block found leaves its queue (FIFO: unless it is `Used()`, as coded) -/
def get (fifo : Bool) (h : Heap) (q : PolicyQ) (k : Int) : PolicyQ × Option Nat :=
  match q.find k with
  | none => (q, none)
  | some e => (if fifo && (h e.id).used then q else q.removeKeyQ k, some e.id)

/-- `Peek(k)` at policy level -/
def peek (h : Heap) (q : PolicyQ) (k : Int) : Bool × Int :=
  match q.find k with
  | none => (false, -1)
  | some e => (true, (h e.id).next)

/-- evict `n` times (stops when empty) -/
def dropN (q : PolicyQ) : Nat → PolicyQ
  | 0 => q
  | n + 1 => match q.evict with
    | none => q
    | some (_, q') => dropN q' n

end PolicyQ

end Hts.Spec.CacheContract
