/-
Specification of the coordinate arithmetic, written from the SAM specification (v1, §1.4.6 CIGAR
operations, §4.2.1 BIN, §5.3 the binning scheme and its C code) and the CSI generalisation
(min_shift, depth), independently of the Go code.  Natural-number arithmetic only.
-/
import Hts.Model.Coord
namespace Hts.Spec.Coord
open Hts.Model.Coord (CigarOp)

/-- §1.4.6: M, D, N, =, X consume the reference -/
def refConsuming (t : Nat) : Bool := t == 0 || t == 2 || t == 3 || t == 7 || t == 8

/-- §1.4.6: M, I, S, =, X consume the query -/
def queryConsuming (t : Nat) : Bool := t == 0 || t == 1 || t == 4 || t == 7 || t == 8

def refLen : List CigarOp → Int
  | [] => 0
  | co :: rest => (if refConsuming co.typ then (co.len : Int) else 0) + refLen rest

def queryLen : List CigarOp → Int
  | [] => 0
  | co :: rest => (if queryConsuming co.typ then (co.len : Int) else 0) + queryLen rest

/-- signed reference movement with the `B` (back, type 9) extension -/
def refMove (co : CigarOp) : Int :=
  if refConsuming co.typ then co.len else if co.typ = 9 then -(co.len : Int) else 0

/-- coordinate reached after a CIGAR prefix -/
def posAfter (pos : Int) : List CigarOp → Int
  | [] => pos
  | co :: rest => posAfter (pos + refMove co) rest

/-- highest coordinate reached by any prefix of the CIGAR (with `B`, the end of the alignment) -/
def maxReach (pos : Int) : List CigarOp → Int
  | [] => pos
  | co :: rest => let m := maxReach (pos + refMove co) rest; if pos < m then m else pos

/-- first bin number of level `l` (level 0 = the root bin): (8^l - 1)/7 -/
def levelOffset (l : Nat) : Nat := (8 ^ l - 1) / 7

/-- §5.3 `reg2bin` for the half-open interval [b, e+1): starting at the deepest level (shift `s`),
the first level at which both ends fall into the same bin.  `l` levels below the root remain. -/
def reg2binAux (b e : Nat) (s : Nat) : (l : Nat) → Nat
  | 0 => 0
  | l + 1 => if b >>> s = e >>> s then levelOffset (l + 1) + (b >>> s) else reg2binAux b e (s + 3) l

/-- bin of [beg, end) in the scheme (minShift, depth); BAI is (14, 5) -/
def reg2bin (beg end_ minShift depth : Nat) : Nat := reg2binAux beg (end_ - 1) minShift depth

/-- bins of level `l` overlapping [b, e] (inclusive `e`) -/
def levelBins (b e minShift depth l : Nat) : List Nat :=
  let s := minShift + 3 * (depth - l)
  (List.range ((e >>> s) - (b >>> s) + 1)).map (fun i => levelOffset l + (b >>> s) + i)

/-- §5.3 `reg2bins`: all bins of all levels overlapping [beg, end) -/
def reg2bins (beg end_ minShift depth : Nat) : List Nat :=
  (List.range (depth + 1)).flatMap (fun l => levelBins beg (end_ - 1) minShift depth l)

end Hts.Spec.Coord
