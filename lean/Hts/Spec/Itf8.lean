/-
Independent specification of ITF-8 and LTF-8 (CRAM format specification v3, section 2.3),
written by arithmetic on natural numbers; no bit operations, no reference to the Go code.

ITF-8: the number of leading 1 bits of the first byte is the number of bytes that follow;
the remaining bits of the first byte are the most significant bits of the value and the
following bytes are the rest, big-endian.  The 5-byte form carries 4+8+8+8+4 = 32 bits: only
the low 4 bits of its last byte are significant.  Writers (htsjdk, and this library) put the
low 8 bits of the value into that last byte.
LTF-8: the same scheme for 64 bit values with up to 8 following bytes.
-/
namespace Hts.Spec

/-- big-endian value of a byte list -/
def beVal : List Nat → Nat
  | [] => 0
  | b :: bs => b * 256 ^ bs.length + beVal bs

/-- `k` big-endian bytes of `u` (low `8k` bits) -/
def beBytes (u : Nat) : Nat → List Nat
  | 0 => []
  | k + 1 => (u / 256 ^ k % 256) :: beBytes u k

namespace Itf8

def encode (u : Nat) : List Nat :=
  if u < 2 ^ 7 then [u]
  else if u < 2 ^ 14 then (0x80 + u / 2 ^ 8) :: beBytes u 1
  else if u < 2 ^ 21 then (0xc0 + u / 2 ^ 16) :: beBytes u 2
  else if u < 2 ^ 28 then (0xe0 + u / 2 ^ 24) :: beBytes u 3
  else [0xf0 + u / 2 ^ 28, u / 2 ^ 20 % 256, u / 2 ^ 12 % 256, u / 2 ^ 4 % 256, u % 256]

/-- number of bytes announced by a first byte -/
def width (b0 : Nat) : Nat :=
  if b0 < 0x80 then 1 else if b0 < 0xc0 then 2 else if b0 < 0xe0 then 3 else if b0 < 0xf0 then 4 else 5

/-- value of a complete encoding (exactly `width b0` bytes) -/
def value : List Nat → Option Nat
  | [b0] => if b0 < 0x80 then some b0 else none
  | [b0, b1] => if 0x80 ≤ b0 ∧ b0 < 0xc0 then some ((b0 - 0x80) * 2 ^ 8 + b1) else none
  | [b0, b1, b2] => if 0xc0 ≤ b0 ∧ b0 < 0xe0 then some ((b0 - 0xc0) * 2 ^ 16 + b1 * 2 ^ 8 + b2) else none
  | [b0, b1, b2, b3] =>
    if 0xe0 ≤ b0 ∧ b0 < 0xf0 then some ((b0 - 0xe0) * 2 ^ 24 + b1 * 2 ^ 16 + b2 * 2 ^ 8 + b3) else none
  | [b0, b1, b2, b3, b4] =>
    if 0xf0 ≤ b0 ∧ b0 < 0x100 then
      some ((b0 - 0xf0) * 2 ^ 28 + b1 * 2 ^ 20 + b2 * 2 ^ 12 + b3 * 2 ^ 4 + b4 % 16)
    else none
  | _ => none

end Itf8

namespace Ltf8

def encode (u : Nat) : List Nat :=
  if u < 2 ^ 7 then [u]
  else if u < 2 ^ 14 then (0x80 + u / 2 ^ 8) :: beBytes u 1
  else if u < 2 ^ 21 then (0xc0 + u / 2 ^ 16) :: beBytes u 2
  else if u < 2 ^ 28 then (0xe0 + u / 2 ^ 24) :: beBytes u 3
  else if u < 2 ^ 35 then (0xf0 + u / 2 ^ 32) :: beBytes u 4
  else if u < 2 ^ 42 then (0xf8 + u / 2 ^ 40) :: beBytes u 5
  else if u < 2 ^ 49 then (0xfc + u / 2 ^ 48) :: beBytes u 6
  else if u < 2 ^ 56 then 0xfe :: beBytes u 7
  else 0xff :: beBytes u 8

def width (b0 : Nat) : Nat :=
  if b0 < 0x80 then 1 else if b0 < 0xc0 then 2 else if b0 < 0xe0 then 3 else if b0 < 0xf0 then 4
  else if b0 < 0xf8 then 5 else if b0 < 0xfc then 6 else if b0 < 0xfe then 7 else if b0 < 0xff then 8 else 9

/-- the leading-ones prefix of a first byte announcing `w` bytes in total (0, 0x80, 0xc0, …, 0xfe, 0xff) -/
def lead (w : Nat) : Nat := 256 - 2 ^ (9 - w)

/-- value of a complete encoding (exactly `width b0` bytes): the bits of the first byte after its
prefix, then the following bytes, big-endian -/
def value : List Nat → Option Nat
  | [] => none
  | b0 :: rest =>
    if rest.length + 1 = width b0 then some ((b0 - lead (width b0)) * 256 ^ rest.length + beVal rest) else none

end Ltf8
end Hts.Spec
