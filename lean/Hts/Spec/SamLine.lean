/-
The SAM alignment line, written from the SAM specification (SAMv1, section 1.4 "The alignment section:
mandatory fields" and 1.5 "optional fields"; base and operation codes from section 4.2), independently
of the Go code and of the model.  Core Lean only; does not import the model.

An `Alignment` is the abstract content of one line.  `samLine` is the formatter: the eleven mandatory
fields and the optional `TAG:TYPE:VALUE` fields, TAB-separated.  The specification fixes everything
about the text except the digits of a floating-point value (`[-+]?[0-9]*\.?[0-9]+([eE][-+]?[0-9]+)?`),
so the text of a float is a parameter.
-/
namespace Hts.Spec.SamLine

abbrev Bytes := List UInt8

/-- `[0-9]+` of a natural number without leading zeros (the library function for decimal digits) -/
def decimal (n : Nat) : Bytes := (Nat.toDigits 10 n).map fun c => UInt8.ofNat c.toNat

/-- `[-+]?[0-9]+`: a minus sign for negative values, no plus sign -/
def signedDecimal (i : Int) : Bytes := if i < 0 then 45 :: decimal i.natAbs else decimal i.toNat

/-- section 4.2: CIGAR operations in code order, `MIDNSHP=X` → 0..8 -/
def cigarOpChars : Bytes := [77, 73, 68, 78, 83, 72, 80, 61, 88]

/-- the letter of an operation code; codes above 8 are not SAM operations (shown as `?`) -/
def cigarOpChar (code : Nat) : UInt8 := (cigarOpChars[code]?).getD 63

/-- section 4.2.4: base codes, `=ACMGRSVTWYHKDBN` → 0..15 -/
def baseChars : Bytes := [61, 65, 67, 77, 71, 82, 83, 86, 84, 87, 89, 72, 75, 68, 66, 78]

def baseOfCode (x : Fin 16) : UInt8 := baseChars.get (x.cast (by decide))

/-- RNEXT: `*` unavailable, `=` identical to RNAME, or a reference name -/
inductive RNext
  | unavailable
  | same
  | name (n : Bytes)
deriving DecidableEq, Repr

/-- value of an optional field, by the TYPE letter it is printed with -/
inductive OptVal
  | A (c : UInt8)                         -- printable character
  | i (v : Int)                           -- signed integer
  | f (bits : UInt32)                     -- single-precision float
  | Z (s : Bytes)                         -- printable string, spaces allowed
  | H (b : Bytes)                         -- byte array in hex
  | Bint (elt : UInt8) (vs : List Int)    -- integer array, `elt` one of cCsSiI
  | Bfloat (vs : List UInt32)             -- float array
deriving DecidableEq, Repr

structure Opt where
  tag0 : UInt8
  tag1 : UInt8
  val : OptVal
deriving DecidableEq, Repr

structure Alignment where
  qname : Bytes
  flag : Nat
  rname : Option Bytes            -- `none`: `*`
  pos : Int                       -- 1-based leftmost position, 0 when unavailable
  mapq : Nat
  cigar : List (Nat × Nat)        -- (length, operation code); empty: `*`
  rnext : RNext
  pnext : Int
  tlen : Int
  seq : Bytes                     -- base letters; empty: `*`
  qual : Option (List Nat)        -- Phred qualities; `none`: `*`
  opt : List Opt
deriving DecidableEq, Repr

def upperHexDigit (d : Nat) : UInt8 := if d < 10 then UInt8.ofNat (48 + d) else UInt8.ofNat (55 + d)

/-- H: `([0-9A-F][0-9A-F])*`, two upper-case digits per byte -/
def hexString (b : Bytes) : Bytes := b.flatMap fun x => [upperHexDigit (x.toNat / 16), upperHexDigit (x.toNat % 16)]

def cigarString (c : List (Nat × Nat)) : Bytes :=
  match c with
  | [] => [42]
  | _ => c.flatMap fun op => decimal op.1 ++ [cigarOpChar op.2]

def rnameString : Option Bytes → Bytes
  | none => [42]
  | some n => n

def rnextString : RNext → Bytes
  | .unavailable => [42]
  | .same => [61]
  | .name n => n

def seqString (s : Bytes) : Bytes := match s with | [] => [42] | _ => s

/-- QUAL: ASCII of Phred quality plus 33 -/
def qualString : Option (List Nat) → Bytes
  | none => [42]
  | some q => q.map fun v => UInt8.ofNat (v + 33)

/-- `TAG:TYPE:VALUE` -/
def optString (fmtFloat : UInt32 → Bytes) (o : Opt) : Bytes :=
  [o.tag0, o.tag1, 58] ++
  match o.val with
  | .A c => [65, 58, c]
  | .i v => [105, 58] ++ signedDecimal v
  | .f b => [102, 58] ++ fmtFloat b
  | .Z s => [90, 58] ++ s
  | .H b => [72, 58] ++ hexString b
  | .Bint elt vs => [66, 58, elt] ++ vs.flatMap fun v => 44 :: signedDecimal v
  | .Bfloat vs => [66, 58, 102] ++ vs.flatMap fun b => 44 :: fmtFloat b

def tabJoin : List Bytes → Bytes
  | [] => []
  | [f] => f
  | f :: g :: fs => f ++ 9 :: tabJoin (g :: fs)

def fields (fmtFloat : UInt32 → Bytes) (a : Alignment) : List Bytes :=
  [a.qname, decimal a.flag, rnameString a.rname, signedDecimal a.pos, decimal a.mapq, cigarString a.cigar,
   rnextString a.rnext, signedDecimal a.pnext, signedDecimal a.tlen, seqString a.seq, qualString a.qual]
  ++ a.opt.map (optString fmtFloat)

/-- one alignment line, without line terminator -/
def samLine (fmtFloat : UInt32 → Bytes) (a : Alignment) : Bytes := tabJoin (fields fmtFloat a)


/-! ### the lines of a SAM text (section 1: "each line is TAB-delimited"; lines end in LF, or CR LF) -/

/-- a line without the CR of a CR LF line end: one final CR is dropped -/
def dropCR : Bytes → Bytes
  | [] => []
  | [c] => if c = 13 then [] else [c]
  | c :: d :: rest => c :: dropCR (d :: rest)

/-- scanning left to right with the bytes of the current line in `cur`: an LF ends the line; what is left
at the end of the text is a line of its own unless it is empty -/
def linesFrom : Bytes → Bytes → List Bytes
  | [], cur => if cur.isEmpty then [] else [dropCR cur]
  | c :: rest, cur => if c = 10 then dropCR cur :: linesFrom rest [] else linesFrom rest (cur ++ [c])

/-- the lines of a text, line ends removed -/
def textLines (s : Bytes) : List Bytes := linesFrom s []

/-! ### the grammar's character classes and ranges (section 1.4, 1.5) -/

/-- QNAME `[!-?A-~]{1,254}` -/
def QNameChar (c : UInt8) : Prop := (33 ≤ c ∧ c ≤ 63) ∨ (65 ≤ c ∧ c ≤ 126)
instance (c : UInt8) : Decidable (QNameChar c) := by unfold QNameChar; infer_instance

/-- a character of a reference name: `[0-9A-Za-z!#$%&+./:;?@^_|~-]` or `*`, `=` (not in first position) -/
def RNameChar (c : UInt8) : Prop :=
  33 ≤ c ∧ c ≤ 126 ∧ c ≠ 34 ∧ c ≠ 39 ∧ c ≠ 40 ∧ c ≠ 41 ∧ c ≠ 44 ∧ c ≠ 60 ∧ c ≠ 62 ∧ c ≠ 91 ∧ c ≠ 92 ∧
    c ≠ 93 ∧ c ≠ 96 ∧ c ≠ 123 ∧ c ≠ 125
instance (c : UInt8) : Decidable (RNameChar c) := by unfold RNameChar; infer_instance

/-- RNAME other than `*`: `[:rname:∧*=][:rname:]*` -/
def RNameOK (n : Bytes) : Prop :=
  match n with
  | [] => False
  | c :: rest => c ≠ 42 ∧ c ≠ 61 ∧ RNameChar c ∧ ∀ d ∈ rest, RNameChar d
instance (n : Bytes) : Decidable (RNameOK n) := by
  unfold RNameOK; split <;> infer_instance

/-- type A `[!-~]` -/
def PrintChar (c : UInt8) : Prop := 33 ≤ c ∧ c ≤ 126
instance (c : UInt8) : Decidable (PrintChar c) := by unfold PrintChar; infer_instance

/-- type Z `[ !-~]*` -/
def PrintOrSpace (c : UInt8) : Prop := 32 ≤ c ∧ c ≤ 126
instance (c : UInt8) : Decidable (PrintOrSpace c) := by unfold PrintOrSpace; infer_instance

def isAlpha (c : UInt8) : Prop := (65 ≤ c ∧ c ≤ 90) ∨ (97 ≤ c ∧ c ≤ 122)
def isAlnum (c : UInt8) : Prop := isAlpha c ∨ (48 ≤ c ∧ c ≤ 57)
instance (c : UInt8) : Decidable (isAlpha c) := by unfold isAlpha; infer_instance
instance (c : UInt8) : Decidable (isAlnum c) := by unfold isAlnum; infer_instance

/-- TAG `[A-Za-z][A-Za-z0-9]` -/
def TagOK (t0 t1 : UInt8) : Prop := isAlpha t0 ∧ isAlnum t1
instance (t0 t1 : UInt8) : Decidable (TagOK t0 t1) := by unfold TagOK; infer_instance

end Hts.Spec.SamLine
