/-
Specification side of C19: what a well-formed FASTA file *is*, independent of the code.

A file is a list of records `(name, desc?, bases, width ≥ 1, eol ∈ {LF, CRLF}, finalNewline, blanksAfter)`,
optionally preceded by blank lines.
Its bytes are obtained by cutting the bases into lines of `width` bases (the last one shorter or equal),
terminating every line with the record's terminator (the very last line of the record only when
`finalNewline`), and appending the blank (whitespace-only) lines that follow the record.

`Rec.entry` states the *true* index entry of a record directly from this description: the number of bases,
the byte offset of the first base, the number of bases and bytes of the first sequence line (the FAI
convention: LINEBASES/LINEWIDTH are those of the first line).

Core Lean only (the model driver links this file: the harness compares `render`/`entries` with its own
generator).
-/
set_option linter.unusedVariables false
set_option linter.unusedSimpArgs false
namespace Hts.Spec.Fasta

abbrev Bytes := List UInt8

def LF : UInt8 := 10
def CR : UInt8 := 13
def GT : UInt8 := 62
def TAB : UInt8 := 9
def SP : UInt8 := 32

inductive Eol where
  | lf
  | crlf
  deriving DecidableEq, Repr

def Eol.bytes : Eol → Bytes
  | .lf => [LF]
  | .crlf => [CR, LF]

structure Rec where
  name : Bytes
  /-- separator (space or tab) followed by the description text -/
  desc : Option Bytes
  bases : Bytes
  width : Nat
  eol : Eol
  /-- is the last line of the record (header line if there are no bases) terminated? -/
  finalNewline : Bool
  /-- whitespace content of the blank lines after the record; each is followed by LF -/
  blanksAfter : List Bytes
  deriving Repr

structure File where
  /-- whitespace content of the blank lines before the first record; each is followed by LF -/
  leadingBlanks : List Bytes := []
  recs : List Rec
  deriving Repr

/-- the bases cut into lines of `w` bases; the last line has `1..w` bases; no line for no bases -/
def seqLines (w : Nat) (bs : Bytes) : List Bytes :=
  if h : w = 0 ∨ bs.length ≤ w then (if bs = [] then [] else [bs])
  else bs.take w :: seqLines w (bs.drop w)
termination_by bs.length
decreasing_by simp only [List.length_drop]; omega

def Rec.headerLine (r : Rec) : Bytes := GT :: (r.name ++ r.desc.getD [])

/-- line contents of a record, without terminators -/
def Rec.lines (r : Rec) : List Bytes := r.headerLine :: seqLines r.width r.bases

/-- put the terminator after every line, after the last one only if `fin` -/
def terminate (eol : Bytes) (fin : Bool) : List Bytes → List Bytes
  | [] => []
  | [l] => [if fin then l ++ eol else l]
  | l :: l' :: ls => (l ++ eol) :: terminate eol fin (l' :: ls)

def blankLines (bl : List Bytes) : List Bytes := bl.map (· ++ [LF])

/-- all lines of a record as they appear in the file (terminators included) -/
def Rec.fileLines (r : Rec) : List Bytes :=
  terminate r.eol.bytes r.finalNewline r.lines ++ blankLines r.blanksAfter

def Rec.render (r : Rec) : Bytes := r.fileLines.flatten

/-- the bytes before the first record -/
def File.leading (f : File) : Bytes := (blankLines f.leadingBlanks).flatten

def File.render (f : File) : Bytes := f.leading ++ (f.recs.map Rec.render).flatten

/-- An index entry, as the FAI format defines it. -/
structure Entry where
  name : Bytes
  length : Nat
  start : Nat
  basesPerLine : Nat
  bytesPerLine : Nat
  deriving DecidableEq, Repr

/-- The true entry of a record whose first byte is at offset `pre` of the file. -/
def Rec.entry (pre : Nat) (r : Rec) : Entry :=
  let first := r.bases.take r.width
  let single := decide (r.bases.length ≤ r.width)
  { name := r.name
    length := r.bases.length
    start := pre + r.headerLine.length +
      (if r.bases = [] ∧ r.finalNewline = false then 0 else r.eol.bytes.length)
    basesPerLine := first.length
    bytesPerLine :=
      if r.bases = [] then 0
      else first.length + (if single ∧ r.finalNewline = false then 0 else r.eol.bytes.length) }

def entriesFrom (pre : Nat) : List Rec → List Entry
  | [] => []
  | r :: rs => r.entry pre :: entriesFrom (pre + r.render.length) rs

def File.entries (f : File) : List Entry := entriesFrom f.leading.length f.recs

/-! ### Well-formedness (explicit, decidable) -/

/-- visible ASCII -/
def isGraphic (b : UInt8) : Bool := decide (33 ≤ b.toNat ∧ b.toNat ≤ 126)

/-- a base / residue symbol: visible ASCII other than `>` -/
def isBase (b : UInt8) : Bool := isGraphic b && decide (b.toNat ≠ 62)

/-- description text: printable ASCII or tab -/
def isDescByte (b : UInt8) : Bool := decide ((32 ≤ b.toNat ∧ b.toNat ≤ 126) ∨ b.toNat = 9)

/-- content of a blank line: space, tab, VT, FF, CR (not LF) -/
def isBlankByte (b : UInt8) : Bool :=
  decide (b.toNat = 32 ∨ b.toNat = 9 ∨ b.toNat = 11 ∨ b.toNat = 12 ∨ b.toNat = 13)

def descOK : Option Bytes → Bool
  | none => true
  | some [] => false
  | some (s :: t) => (decide (s.toNat = 32) || decide (s.toNat = 9)) && t.all isDescByte

/-- one record; `last` says whether it is the last record of the file -/
def Rec.wf (r : Rec) (last : Bool) : Bool :=
  !r.name.isEmpty && r.name.all isGraphic && descOK r.desc && r.bases.all isBase &&
  decide (1 ≤ r.width) && r.blanksAfter.all (·.all isBlankByte) &&
  (r.finalNewline || (last && r.blanksAfter.isEmpty))

def recsWf : List Rec → Bool
  | [] => true
  | [r] => r.wf true
  | r :: r' :: rs => r.wf false && recsWf (r' :: rs)

/-- pairwise distinct names -/
def namesDistinct : List Rec → Bool
  | [] => true
  | r :: rs => !(rs.any (·.name == r.name)) && namesDistinct rs

/-- A well-formed FASTA file: at least one record, every record well formed, names pairwise distinct;
blank lines before the first record contain white space only. -/
def File.WF (f : File) : Prop :=
  f.recs ≠ [] ∧ recsWf f.recs = true ∧ namesDistinct f.recs = true ∧
    f.leadingBlanks.all (·.all isBlankByte) = true

instance (f : File) : Decidable f.WF := by unfold File.WF; infer_instance

end Hts.Spec.Fasta
