/-
Flat-file specification of BGZF virtual offsets (C02, C13).  Core Lean only.

A BGZF file, seen from the reading side, is a *flat* byte string (the concatenation of the
uncompressed block payloads) plus a *layout*: for every block its uncompressed length and the size
of its compressed member.  A virtual offset `(file, block)` names the logical position
`start_i + block` where `file` is the compressed start of block `i`.  Nothing here mentions a
current block, a decompressor or a cursor: the specification of a read is "take the bytes of the flat
string at the logical position".
-/
namespace Hts.Spec.Flat

/-- `bgzf.Offset`: compressed file offset of a block start, and a byte offset into the block's data. -/
structure Offset where
  file : Nat
  block : Nat
deriving DecidableEq, Repr, Inhabited

/-- `bgzf.Chunk`. -/
structure Chunk where
  bgn : Offset
  fin : Offset
deriving DecidableEq, Repr, Inhabited

/-- `vOffset`: `o.File<<16 | int64(o.Block)` (`Block` is a `uint16`, so `|` is `+`). -/
def vOffset (o : Offset) : Nat := o.file * 65536 + o.block

/-- One block of the layout: uncompressed length and compressed member size. -/
structure BlockInfo where
  len : Nat
  csize : Nat
deriving DecidableEq, Repr

abbrev Layout := List BlockInfo

/-- Number of uncompressed bytes. -/
def total : Layout → Nat
  | [] => 0
  | b :: rest => b.len + total rest

/-- Compressed length of the file (= the offset just after the last member). -/
def fileLen : Layout → Nat
  | [] => 0
  | b :: rest => b.csize + fileLen rest

def Offset.shift (o : Offset) (c : Nat) : Offset := ⟨o.file + c, o.block⟩

/-- Logical position named by a valid *seek target*: `(base_i, k)` with `k ≤ len_i`. -/
def seekTarget : Layout → Offset → Option Nat
  | [], _ => none
  | b :: rest, o =>
    if o.file = 0 then (if o.block ≤ b.len then some o.block else none)
    else if o.file < b.csize then none
    else (seekTarget rest ⟨o.file - b.csize, o.block⟩).map (· + b.len)

/-- Logical position named by an offset: seek targets, and `(fileLen, 0) ↦ total` (the `End` reported
after the data has been read to its end). -/
def toLogical (L : Layout) (o : Offset) : Option Nat :=
  match seekTarget L o with
  | some p => some p
  | none => if o.file = fileLen L ∧ o.block = 0 then some (total L) else none

/-- The offset reported *before* the byte at logical position `p` (`p < total`): the block that
contains byte `p`, never the end of an earlier block.  `(fileLen, 0)` when `p ≥ total`. -/
def offBefore : Layout → Nat → Offset
  | [], _ => ⟨0, 0⟩
  | b :: rest, p => if p < b.len then ⟨0, p⟩ else (offBefore rest (p - b.len)).shift b.csize

/-- The offset reported *after* the byte at logical position `q - 1` (`0 < q ≤ total`): the block
that contains byte `q - 1`; at a block end this is `(base, len)`, not `(next base, 0)`. -/
def offAfter : Layout → Nat → Offset
  | [], _ => ⟨0, 0⟩
  | b :: rest, q => if q ≤ b.len then ⟨0, q⟩ else (offAfter rest (q - b.len)).shift b.csize

/-- Bytes left in the block that contains logical position `p` (empty blocks contain nothing);
`0` when `p ≥ total`. -/
def blockRem : Layout → Nat → Nat
  | [], _ => 0
  | b :: rest, p => if p < b.len then b.len - p else blockRem rest (p - b.len)

/-- A flat file: the flat copy of the data and the block layout. -/
structure FlatFile where
  bytes : List UInt8
  layout : Layout

/-- State of the flat reader: a logical position, the Blocked flag and the last reported chunk. -/
structure State where
  pos : Nat
  blocked : Bool
  last : Chunk
deriving Repr

/-- Result of one read in the flat model. -/
structure ReadResult where
  bytes : List UInt8
  eof : Bool
  st : State

/-- `Read` of `n` bytes.
* at the end of the data: nothing, `io.EOF`, the chunk is not touched;
* otherwise `m = min n rem` bytes of the flat copy, where `rem` is what is left of the data (of the
  block, in Blocked mode); `io.EOF` exactly when `n > rem`; `Begin` is the offset before the first
  byte, `End` the offset after the last one (`(fileLen,0)` when the data ended). -/
def read (F : FlatFile) (s : State) (n : Nat) : ReadResult :=
  let tot := total F.layout
  if tot ≤ s.pos then ⟨[], true, s⟩
  else
    let rem := if s.blocked then blockRem F.layout s.pos else tot - s.pos
    let m := min n rem
    let b := offBefore F.layout s.pos
    let e : Offset :=
      if n = 0 then b
      else if rem < n ∧ !s.blocked then ⟨fileLen F.layout, 0⟩
      else offAfter F.layout (s.pos + m)
    ⟨(F.bytes.drop s.pos).take m, decide (rem < n), { s with pos := s.pos + m, last := ⟨b, e⟩ }⟩

/-- `ReadByte` = `Read` of one byte; the byte is 0 when nothing was read. -/
def readByte (F : FlatFile) (s : State) : UInt8 × Bool × State :=
  let r := read F s 1
  (r.bytes.headD 0, r.eof, r.st)

/-- `Seek` to a valid seek target. -/
def seek (F : FlatFile) (s : State) (o : Offset) : Option State :=
  (seekTarget F.layout o).map fun p => { s with pos := p, last := ⟨o, o⟩ }

def setBlocked (s : State) (b : Bool) : State := { s with blocked := b }

def init : State := ⟨0, false, ⟨⟨0, 0⟩, ⟨0, 0⟩⟩⟩

/-- Operations of a history. -/
inductive Op where
  | read (n : Nat)
  | readByte
  | seek (o : Offset)
  | setBlocked (b : Bool)

/-- What is observed of one operation: the bytes returned (for `ReadByte` the one byte), whether
`io.EOF` was returned, and `LastChunk()` after the call. -/
structure Obs where
  bytes : List UInt8
  eof : Bool
  last : Chunk

/-- A history is valid when every seek goes to a block start plus an offset up to the block's length. -/
def ValidOps (L : Layout) : List Op → Prop
  | [] => True
  | .seek o :: ops => (seekTarget L o).isSome ∧ ValidOps L ops
  | _ :: ops => ValidOps L ops

def step (F : FlatFile) (s : State) : Op → State × Obs
  | .read n => let r := read F s n; (r.st, ⟨r.bytes, r.eof, r.st.last⟩)
  | .readByte => let (c, eof, s') := readByte F s; (s', ⟨[c], eof, s'.last⟩)
  | .seek o =>
    match seek F s o with
    | some s' => (s', ⟨[], false, s'.last⟩)
    | none => (s, ⟨[], false, s.last⟩)   -- not a valid history
  | .setBlocked b => (setBlocked s b, ⟨[], false, s.last⟩)

/-- The observations of a whole history in the flat model. -/
def run (F : FlatFile) (s : State) : List Op → List Obs
  | [] => []
  | op :: ops => let (s', o) := step F s op; o :: run F s' ops

end Hts.Spec.Flat
