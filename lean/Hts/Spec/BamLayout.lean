/-
The BAM alignment record layout, written independently from the SAM specification (SAMv1 §4.2 "The BAM
format", table of the alignment section, and §4.2.4 for auxiliary data), core Lean only.
Nothing here refers to the implementation or to its model: the input is an alignment in semantic form
(numbers, CIGAR operations as (length, op) pairs, one 4-bit code per base, typed auxiliary values) and
the output is the byte string.  All multi-byte numbers are little-endian (§4.2: "All multi-byte numbers
in BAM are little-endian"), computed by division and remainder.
-/
namespace Hts.Spec.Bam

abbrev Byte := BitVec 8

/-- the `w`-byte little-endian form of `n` (of `n mod 256^w`) -/
def le : Nat → Nat → List Byte
  | 0, _ => []
  | w + 1, n => BitVec.ofNat 8 (n % 256) :: le w (n / 256)

/-- two's complement of a signed value in `w` bytes -/
def twos (w : Nat) (x : Int) : Nat := (x % ((256 ^ w : Nat) : Int)).toNat

/-- int32_t -/
def int32 (x : Int) : List Byte := le 4 (twos 4 x)

/-- element types of a `B` array and of the numeric scalar types: `c C s S i I f` -/
inductive Elem where
  | c | C | s | S | i | I | f
  deriving DecidableEq, Repr

def Elem.letter : Elem → Byte
  | .c => 99#8 | .C => 67#8 | .s => 115#8 | .S => 83#8 | .i => 105#8 | .I => 73#8 | .f => 102#8

def Elem.width : Elem → Nat
  | .c => 1 | .C => 1 | .s => 2 | .S => 2 | .i => 4 | .I => 4 | .f => 4

def Elem.signed : Elem → Bool
  | .c => true | .s => true | .i => true | _ => false

/-- A typed auxiliary value (§4.2.4).  Numbers are mathematical integers, a float is its IEEE-754 single
precision bit pattern (as an unsigned number), `Z` is a printable string, `H` a string of hex digits
(`hex s`: `s` IS the digit text, two digits per byte of the array it denotes); both are stored NUL-terminated. -/
inductive AuxValue where
  | char (c : Byte)                       -- A
  | num (t : Elem) (v : Int)              -- c C s S i I f
  | str (s : List Byte)                   -- Z
  | hex (s : List Byte)                   -- H
  | arr (t : Elem) (vs : List Int)        -- B: subtype, int32 count, values
  deriving DecidableEq, Repr

/-- `tag` (2 bytes) `val_type` (1 byte) `value` -/
def auxBytes (t0 t1 : Byte) : AuxValue → List Byte
  | .char c => [t0, t1, 65#8, c]
  | .num t v => [t0, t1, t.letter] ++ le t.width (twos t.width v)
  | .str s => [t0, t1, 90#8] ++ s ++ [0#8]
  | .hex s => [t0, t1, 72#8] ++ s ++ [0#8]
  | .arr t vs => [t0, t1, 66#8, t.letter] ++ le 4 vs.length ++ vs.flatMap (fun v => le t.width (twos t.width v))

/-- An alignment in semantic form.  `seq` holds one code 0..15 per base ("=ACMGRSVTWYHKDBN" → [0, 15]),
`qual = none` means the qualities are omitted, `cigar` holds (op_len, op) with op in "MIDNSHP=X" → 0..8. -/
structure Alignment where
  refID : Int
  pos : Int
  mapq : Nat
  bin : Nat
  flag : Nat
  nextRefID : Int
  nextPos : Int
  tlen : Int
  readName : List Byte
  cigar : List (Nat × Nat)
  seq : List Nat
  qual : Option (List Byte)
  aux : List ((Byte × Byte) × AuxValue)
  deriving DecidableEq, Repr

/-- "4-bit encoded read ...; the earlier base is stored in the high-order 4 bits of the byte";
`(l_seq+1)/2` bytes, an unused final nibble is zero -/
def packSeq : List Nat → List Byte
  | [] => []
  | [a] => [BitVec.ofNat 8 (a * 16)]
  | a :: b :: rest => BitVec.ofNat 8 (a * 16 + b) :: packSeq rest

/-- "Phred base quality (a sequence of 0xFF if absent)" -/
def qualField (a : Alignment) : List Byte :=
  match a.qual with
  | some q => q
  | none => List.replicate a.seq.length 0xff#8

/-- everything after `block_size` -/
def body (a : Alignment) : List Byte :=
  int32 a.refID ++                                  -- refID
  int32 a.pos ++                                    -- pos
  le 1 (a.readName.length + 1) ++                   -- l_read_name (including the NUL)
  le 1 a.mapq ++                                    -- mapq
  le 2 a.bin ++                                     -- bin
  le 2 a.cigar.length ++                            -- n_cigar_op
  le 2 a.flag ++                                    -- flag
  le 4 a.seq.length ++                              -- l_seq
  int32 a.nextRefID ++                              -- next_refID
  int32 a.nextPos ++                                -- next_pos
  int32 a.tlen ++                                   -- tlen
  a.readName ++ [0#8] ++                            -- read_name, NUL-terminated
  a.cigar.flatMap (fun c => le 4 (c.1 * 16 + c.2)) ++   -- cigar: op_len<<4|op
  packSeq a.seq ++                                  -- seq
  qualField a ++                                    -- qual
  a.aux.flatMap (fun tv => auxBytes tv.1.1 tv.1.2 tv.2)

/-- `block_size` ("total length of the alignment record, excluding this field") followed by the record -/
def layout (a : Alignment) : List Byte := le 4 (body a).length ++ body a

/-! ### which alignments the format can represent -/

def Elem.inRange (t : Elem) (v : Int) : Prop :=
  if t.signed then -((256 ^ t.width / 2 : Nat) : Int) ≤ v ∧ v < ((256 ^ t.width / 2 : Nat) : Int)
  else 0 ≤ v ∧ v < ((256 ^ t.width : Nat) : Int)

/-- `[0-9A-F]`: the characters of an `H` value (SAMv1 §1.5: "H  [0-9A-F]+  Byte array in the Hex format") -/
def isHexDigit (c : Byte) : Bool := (48 ≤ c.toNat && c.toNat ≤ 57) || (65 ≤ c.toNat && c.toNat ≤ 70)

def AuxValue.Valid : AuxValue → Prop
  | .char _ => True
  | .num t v => t.inRange v
  | .str s => 0#8 ∉ s
  | .hex s => s.length % 2 = 0 ∧ ∀ c ∈ s, isHexDigit c = true
  | .arr t vs => vs.length < 4294967296 ∧ ∀ v ∈ vs, t.inRange v

structure Alignment.Valid (nrefs : Nat) (a : Alignment) : Prop where
  nrefs_lt : nrefs < 2147483648
  refID : -1 ≤ a.refID ∧ a.refID < nrefs
  nextRefID : -1 ≤ a.nextRefID ∧ a.nextRefID < nrefs
  pos : -2147483648 ≤ a.pos ∧ a.pos < 2147483648
  nextPos : -2147483648 ≤ a.nextPos ∧ a.nextPos < 2147483648
  tlen : -2147483648 ≤ a.tlen ∧ a.tlen < 2147483648
  mapq : a.mapq < 256
  flag : a.flag < 65536
  name : 1 ≤ a.readName.length ∧ a.readName.length ≤ 254 ∧ 0#8 ∉ a.readName
  cigar : a.cigar.length ≤ 65535 ∧ ∀ c ∈ a.cigar, c.1 < 268435456 ∧ c.2 ≤ 8
  seq : ∀ c ∈ a.seq, c < 16
  qual : ∀ q, a.qual = some q → q.length = a.seq.length
  aux : ∀ tv ∈ a.aux, tv.2.Valid ∧ tv.1.1 ≠ 0#8 ∧ tv.1.2 ≠ 0#8
  size : (body a).length < 2147483648

end Hts.Spec.Bam
