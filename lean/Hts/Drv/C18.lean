/-
Driver commands of property C18 (core Lean only).

  c18.merge <orders> <less> <links> <inputs>
    orders  one letter per input: u(nknown) n (unsorted) q(ueryname) c(oordinate); "-" for no input
    less    the custom less given to NewMerger: nil | pos | namedesc | matepos
    links   per input (separated by "/") the merged reference index of each source reference ("3,0,1", "-" = none);
            "x" when the header merge is never reached, "E" when sam.MergeHeaders returns an error
    inputs  per input (separated by "/") its runs, separated by "+"; a run is how it ends ("e" = io.EOF, "f<n>" =
            error n) and the records delivered before, ";"-separated, each
            <name in hex>:<ref>:<pos>:<mate>:<matepos>:<uid>   (ref/mate -1 = nil).  After the error of a run the
            reader goes on with the next run (record-level error); the end of the last run is returned for ever.
  answer: "<input>.<index>:<ref>:<mate>,…|<eof | err:n | more>|<a>,<b>"  or  "newerr:eof" / "newerr:mismatch"
          (a, b: what the next two calls of Read return after the final error: eof | err:n | rec)
-/
import Hts.Drv.Util
import Hts.Model.Merger
namespace Hts.Drv.C18
open Hts.Drv Hts.Model.Merger

def parseOrder (c : Char) : Option SortOrder :=
  if c == 'u' then some .unknown else if c == 'n' then some .unsorted
  else if c == 'q' then some .queryname else if c == 'c' then some .coordinate else none

def parseLess (s : String) : Option (Option Less) :=
  if s == "nil" then some none
  else if s == "pos" then some (some fun a b => decide (a.pos < b.pos))
  else if s == "namedesc" then some (some fun a b => bytesLt b.name a.name)
  else if s == "matepos" then some (some fun a b => decide (a.matePos < b.matePos))
  else none

def parseRef (s : String) : Option (Option Nat) := do
  let i ← parseInt s
  if i < 0 then some none else some (some i.toNat)

def parseRec (s : String) : Option Rec :=
  match s.splitOn ":" with
  | [n, r, p, m, mp, u] => do
    some { name := ← parseHex n, ref := ← parseRef r, pos := ← parseInt p, mate := ← parseRef m,
           matePos := ← parseInt mp, uid := ← parseNat u }
  | _ => none

def parseTerm (s : String) : Option Term :=
  if s == "e" then some .eof
  else match s.toList with
    | 'f' :: ds => do some (.err (← parseNat (String.ofList ds)))
    | _ => none

def parseRun (s : String) : Option (List Rec × Term) :=
  match s.splitOn ";" with
  | t :: rs => do some (← rs.mapM parseRec, ← parseTerm t)
  | [] => none

def parseSrc (s : String) : Option Src := do
  match ← (s.splitOn "+").mapM parseRun with
  | (rs, t) :: more => some { rest := rs, term := t, later := more }
  | [] => none

def parseLinkList (s : String) : Option (List Nat) :=
  if s == "-" then some [] else (s.splitOn ",").mapM parseNat

def mkLinkFn (ls : List (List Nat)) : LinkFn := fun i x =>
  match ls[i]? with
  | some l => (match l[x]? with | some y => y | none => 999999)
  | none => 999999

def showRef : Option Nat → String
  | none => "-"
  | some x => toString x

def showOut (o : List (Nat × Rec)) : String :=
  ",".intercalate (o.map fun p => s!"{p.1}.{p.2.uid}:{showRef p.2.ref}:{showRef p.2.mate}")

def showFin : Option Term → String
  | none => "more"
  | some .eof => "eof"
  | some (.err e) => s!"err:{e}"

def showAgain : Out → String
  | .got _ _ => "rec"
  | .fin t => showFin (some t)

def zipInputs : List SortOrder → List Src → List Input
  | so :: sos, s :: ss => { so := so, src := s } :: zipInputs sos ss
  | _, _ => []

def merge (orders less links inputs : String) : Option String := do
  let custom ← parseLess less
  let sos ← if orders == "-" then some [] else orders.toList.mapM parseOrder
  let srcs ← if inputs == "-" then some [] else (inputs.splitOn "/").mapM parseSrc
  let ls ← if links == "x" || links == "E" then some [] else (links.splitOn "/").mapM parseLinkList
  let merged : Option LinkFn := if links == "E" then none else some (mkLinkFn ls)
  if sos.length ≠ srcs.length then none else
  match newMerger custom merged (zipInputs sos srcs) with
  | .error .noSource => some "newerr:eof"
  | .error .sortOrderMismatch => some "newerr:mismatch"
  | .error .headerMerge => some "newerr:hdr"
  | .ok m =>
    let (out, fin) := m.readAll scanHeap
    let a := (m.advance scanHeap (m.size + 1)).read scanHeap
    let b := a.2.read scanHeap
    some s!"{showOut out}|{showFin fin}|{showAgain a.1},{showAgain b.1}"

def handle (cmd : String) (args : List String) : Option String :=
  match cmd, args with
  | "c18.merge", [orders, less, links, inputs] => merge orders less links inputs
  | _, _ => none

end Hts.Drv.C18
