/-
Driver commands of property C18 (core Lean only).  Command names start with "c18.".
-/
import Hts.Drv.Util
namespace Hts.Drv.C18
open Hts.Drv

def handle (cmd : String) (args : List String) : Option String :=
  match cmd, args with
  | _, _ => none

end Hts.Drv.C18
