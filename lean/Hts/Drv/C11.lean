/-
Driver commands of property C11 (core Lean only).  Command names start with "c11.".
-/
import Hts.Drv.Util
namespace Hts.Drv.C11
open Hts.Drv

def handle (cmd : String) (args : List String) : Option String :=
  match cmd, args with
  | _, _ => none

end Hts.Drv.C11
