/-
Driver commands of property C11 (core Lean only).  Command names start with "c11.".

  c11.cigar <hex>                 sam.ParseCigar          -> ok <typ:len,..|-> | err | panic
  c11.cigarsweep <n> <pos> <ops>  accessors on a raw CIGAR -> valid=<b> end=<e> lens=<r>,<q> str=<hex> | panic
  c11.aux <hex> <oracle>          sam.ParseAux            -> ok <hex> | err | panic
  c11.auxsweep <hex>              accessors on raw aux bytes -> ok | panic
  c11.bamaux <hex>                bam.parseAux            -> ok <hex,hex..|-> | err | panic
  c11.bai <hex>                   bam.ReadIndex           -> ok nil | ok <refs> <bytes WriteIndex writes> | err | panic
  c11.tbi <hex>                   tabix.ReadFrom          -> ok nil | ok <refs> <bytes WriteTo writes> | err | panic
  c11.cramdef <hex>               cram definition.readFrom -> ok <magic> <version> <id> <bytes left> | err | panic
  c11.cramcont <hex>              cram Container.readFrom  -> ok <blockLen> <refID> <start> <span> <nRec> <recCount> <bases>
                                                              <blocks> <landmarks,|-> <crc32> <bytes left> | err | panic
  c11.cramblock <hex>             cram Block.readFrom      -> ok <method> <typ> <contentID> <compressedSize> <rawSize>
                                                              <data hex> <crc32> <bytes left> | err | panic
  c11.cramvalue <method> <typ> <data hex> <expanded hex | e> <texthex=o|e or ->   cram Block.Value on a block
                                  with these fields; the 4th argument is what the decompressor answers for the data,
                                  the 5th what Header.UnmarshalText answers for the header text
                                  -> ok header | ok slice <fields> | ok block <method> <data hex> | err | panic | oracle-miss
  c11.cramalloc <kind> <hex>      the count handed to make: kind b = Block.readFrom, s = itf8slice -> <n> | none | panic

The oracle of c11.aux is what the real strconv answered for the pieces of this text:
`kind:hexkey=value;...` with kind a (Atoi), i8/i16/i32 (ParseInt base 0), u8/u16/u32 (ParseUint base 0),
f (Float32bits of ParseFloat 32); value `e` is an error return; `-` is the empty table.
-/
import Hts.Drv.Util
import Hts.Drv.C16
import Hts.Model.Decoders
import Hts.Model.DecodersIndex
import Hts.Model.CramDec
import Hts.Drv.C10
namespace Hts.Drv.C11
open Hts.Drv Hts.Model.Decoders Hts.Model.Coord

def toBytes (l : List Nat) : Bytes := l.map UInt8.ofNat
def ofBytes (b : Bytes) : List Nat := b.map UInt8.toNat

def showCigar (c : List CigarOp) : String :=
  if c.isEmpty then "-" else ",".intercalate (c.map fun co => s!"{co.typ}:{co.len}")

def showOutcome {α} (f : α → String) : Outcome α → String
  | .ok v => "ok " ++ f v
  | .err => "err"
  | .panic _ => "panic"

structure OracleEntry where
  kind : String
  key : Bytes
  val : Option Int

def parseEntry (s : String) : Option OracleEntry :=
  match s.splitOn "=" with
  | [lhs, v] =>
    match lhs.splitOn ":" with
    | [kind, k] => do
      let key ← parseHex k
      let val ← if v == "e" then some none else (parseInt v).map some
      some ⟨kind, toBytes key, val⟩
    | _ => none
  | _ => none

def parseOracle (s : String) : Option (List OracleEntry) :=
  if s == "-" then some [] else (s.splitOn ";").mapM parseEntry

def lookup (tab : List OracleEntry) (kind : String) (key : Bytes) : Option Int :=
  match tab.find? (fun e => e.kind == kind && e.key == key) with
  | some e => e.val
  | none => none

def tableParsers (tab : List OracleEntry) : Parsers :=
  { atoi := lookup tab "a"
    parseInt := fun bits => lookup tab s!"i{bits}"
    parseUint := fun bits => lookup tab s!"u{bits}"
    parseFloat32 := lookup tab "f" }

def cigarSweep (n pos : Int) (c : List CigarOp) : String :=
  match cigarIsValidGo c n, recordEnd false pos c, cigarLengths c, c.mapM (fun co => opString co.typ) with
  | .ok v, some e, some (r, q), .ok str => s!"valid={boolStr v} end={e} lens={r},{q} str={hexOfNats (ofBytes str)}"
  | _, _, _, _ => "panic"

/-! ### CRAM readers (Hts.Model.CramDec); CRC-32 is computed here (Hts.Drv.C10.crc32) -/

open Hts.Model.CramDec in
def showInts (l : List Int) : String :=
  if l.isEmpty then "-" else ",".intercalate (l.map toString)

def hx (b : Bytes) : String := hexOfNats (ofBytes b)

open Hts.Model.CramDec in
def showSliceHdr (s : SliceHdr) : String :=
  s!"{s.refID} {s.start} {s.span} {s.nRec} {s.recCount} {s.blocks} {showInts s.blockIDs} {s.embeddedRefID} {hx s.md5} {hx s.tags}"

open Hts.Model.CramDec in
def showValue : Value → String
  | .headerText t => s!"header {hx t}"
  | .slice s => s!"slice {showSliceHdr s}"
  | .block m d => s!"block {m} {hx d}"

def handle (cmd : String) (args : List String) : Option String :=
  match cmd, args with
  | "c11.cigar", [h] => do
    some (showOutcome showCigar (parseCigar (toBytes (← parseHex h))))
  | "c11.cigarsweep", [n, pos, c] => do
    some (cigarSweep (← parseInt n) (← parseInt pos) (← Hts.Drv.C16.parseCigar c))
  | "c11.aux", [h, o] => do
    let tab ← parseOracle o
    some (showOutcome (fun b => hexOfNats (ofBytes b)) (parseAux (tableParsers tab) (toBytes (← parseHex h))))
  | "c11.auxsweep", [h] => do
    some (showOutcome (fun _ => "") (auxSweep (toBytes (← parseHex h)))).trimAscii.toString
  | "c11.bamaux", [h] => do
    some (showOutcome (fun l => if l.isEmpty then "-" else ",".intercalate (l.map fun b => hexOfNats (ofBytes b)))
      (parseAuxBam (toBytes (← parseHex h))))
  | "c11.bai", [h] => do
    some (showOutcome (fun v => match v with | none => "nil" | some (n, len) => s!"{n} {len}") (readBAI (toBytes (← parseHex h))))
  | "c11.tbi", [h] => do
    some (showOutcome (fun v => match v with | none => "nil" | some (n, len) => s!"{n} {len}") (readTabix (toBytes (← parseHex h))))
  | "c11.cramdef", [h] => do
    some (showOutcome (fun (d, rest) => s!"{hx d.magic} {hx d.version} {hx d.id} {rest.length}")
      (Hts.Model.CramDec.readDefinition (toBytes (← parseHex h))))
  | "c11.cramcont", [h] => do
    some (showOutcome (fun (c, rest) =>
        s!"{c.blockLen} {c.refID} {c.start} {c.span} {c.nRec} {c.recCount} {c.bases} {c.blocks} {showInts c.landmarks} {c.crc32} {rest.length}")
      (Hts.Model.CramDec.readContainer Hts.Drv.C10.crc32 (toBytes (← parseHex h))))
  | "c11.cramblock", [h] => do
    some (showOutcome (fun (b, rest) =>
        s!"{b.method} {b.typ} {b.contentID} {b.compressedSize} {b.rawSize} {hx b.data} {b.crc32} {rest.length}")
      (Hts.Model.CramDec.readBlock Hts.Drv.C10.crc32 (toBytes (← parseHex h))))
  | "c11.cramvalue", [m, t, h, e, o] => do
    let data := toBytes (← parseHex h)
    let exp ← if e == "e" then some none else (parseHex e).map (fun x => some (toBytes x))
    let X : Hts.Model.CramDec.Expanders := ⟨fun _ _ => exp⟩
    let b : Hts.Model.CramDec.Block :=
      { method := ← parseNat m, typ := ← parseNat t, contentID := 0, compressedSize := data.length,
        rawSize := data.length, data := data, crc32 := 0 }
    match Hts.Model.CramDec.blockValue X b with
    | .ok (.headerText text) =>
      match o.splitOn "=" with
      | [th, v] => if th == hx text then some (if v == "o" then "ok header" else "err") else some "oracle-miss"
      | _ => some "oracle-miss"
    | r => some (showOutcome showValue r)
  | "c11.cramalloc", [k, h] => do
    let s := toBytes (← parseHex h)
    if k == "b" then
      match Hts.Model.CramDec.blockHeader s with
      | .ok (_, hd) => some (toString hd.compressedSize)
      | .err => some "none"
      | .panic _ => some "panic"
    else
      match Hts.Model.CramDec.sliceCount { src := s } with
      | .ok (_, some n) => some (toString n)
      | .ok (_, none) => some "none"
      | .err => some "none"
      | .panic _ => some "panic"
  | _, _ => none

end Hts.Drv.C11
