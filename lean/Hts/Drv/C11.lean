/-
Driver commands of property C11 (core Lean only).  Command names start with "c11.".

  c11.cigar <hex>                 sam.ParseCigar          -> ok <typ:len,..|-> | err | panic
  c11.cigarsweep <n> <pos> <ops>  accessors on a raw CIGAR -> valid=<b> end=<e> lens=<r>,<q> str=<hex> | panic
  c11.aux <hex> <oracle>          sam.ParseAux            -> ok <hex> | err | panic
  c11.auxsweep <hex>              accessors on raw aux bytes -> ok | panic
  c11.bamaux <hex>                bam.parseAux            -> ok <hex,hex..|-> | err | panic
  c11.bai <hex>                   bam.ReadIndex           -> ok nil | ok <refs> <bytes WriteIndex writes> | err | panic
  c11.tbi <hex>                   tabix.ReadFrom          -> ok nil | ok <refs> <bytes WriteTo writes> | err | panic

The oracle of c11.aux is what the real strconv answered for the pieces of this text:
`kind:hexkey=value;...` with kind a (Atoi), i8/i16/i32 (ParseInt base 0), u8/u16/u32 (ParseUint base 0),
f (Float32bits of ParseFloat 32); value `e` is an error return; `-` is the empty table.
-/
import Hts.Drv.Util
import Hts.Drv.C16
import Hts.Model.Decoders
import Hts.Model.DecodersIndex
namespace Hts.Drv.C11
open Hts.Drv Hts.Model.Decoders Hts.Model.Coord

def toBytes (l : List Nat) : Bytes := l.map UInt8.ofNat
def ofBytes (b : Bytes) : List Nat := b.map UInt8.toNat

def showCigar (c : List CigarOp) : String :=
  if c.isEmpty then "-" else ",".intercalate (c.map fun co => s!"{co.typ}:{co.len}")

def showOutcome {α} (f : α → String) : Outcome α → String
  | .ok v => "ok " ++ f v
  | .err => "err"
  | .panic _ => "panic"

structure OracleEntry where
  kind : String
  key : Bytes
  val : Option Int

def parseEntry (s : String) : Option OracleEntry :=
  match s.splitOn "=" with
  | [lhs, v] =>
    match lhs.splitOn ":" with
    | [kind, k] => do
      let key ← parseHex k
      let val ← if v == "e" then some none else (parseInt v).map some
      some ⟨kind, toBytes key, val⟩
    | _ => none
  | _ => none

def parseOracle (s : String) : Option (List OracleEntry) :=
  if s == "-" then some [] else (s.splitOn ";").mapM parseEntry

def lookup (tab : List OracleEntry) (kind : String) (key : Bytes) : Option Int :=
  match tab.find? (fun e => e.kind == kind && e.key == key) with
  | some e => e.val
  | none => none

def tableParsers (tab : List OracleEntry) : Parsers :=
  { atoi := lookup tab "a"
    parseInt := fun bits => lookup tab s!"i{bits}"
    parseUint := fun bits => lookup tab s!"u{bits}"
    parseFloat32 := lookup tab "f" }

def cigarSweep (n pos : Int) (c : List CigarOp) : String :=
  match cigarIsValidGo c n, recordEnd false pos c, cigarLengths c, c.mapM (fun co => opString co.typ) with
  | .ok v, some e, some (r, q), .ok str => s!"valid={boolStr v} end={e} lens={r},{q} str={hexOfNats (ofBytes str)}"
  | _, _, _, _ => "panic"

def handle (cmd : String) (args : List String) : Option String :=
  match cmd, args with
  | "c11.cigar", [h] => do
    some (showOutcome showCigar (parseCigar (toBytes (← parseHex h))))
  | "c11.cigarsweep", [n, pos, c] => do
    some (cigarSweep (← parseInt n) (← parseInt pos) (← Hts.Drv.C16.parseCigar c))
  | "c11.aux", [h, o] => do
    let tab ← parseOracle o
    some (showOutcome (fun b => hexOfNats (ofBytes b)) (parseAux (tableParsers tab) (toBytes (← parseHex h))))
  | "c11.auxsweep", [h] => do
    some (showOutcome (fun _ => "") (auxSweep (toBytes (← parseHex h)))).trimAscii.toString
  | "c11.bamaux", [h] => do
    some (showOutcome (fun l => if l.isEmpty then "-" else ",".intercalate (l.map fun b => hexOfNats (ofBytes b)))
      (parseAuxBam (toBytes (← parseHex h))))
  | "c11.bai", [h] => do
    some (showOutcome (fun v => match v with | none => "nil" | some (n, len) => s!"{n} {len}") (readBAI (toBytes (← parseHex h))))
  | "c11.tbi", [h] => do
    some (showOutcome (fun v => match v with | none => "nil" | some (n, len) => s!"{n} {len}") (readTabix (toBytes (← parseHex h))))
  | _, _ => none

end Hts.Drv.C11
