/-
Driver commands of property C01 (core Lean only).  Command names start with "c01.".

  c01.write <ops>            ops = comma-separated  w<len> | f | t | c   (Write of <len> bytes, Flush, Wait, Close)
      -> <results>|<lengths of the queued blocks>|<length of the active block>
         results: comma-separated  ok<n> | closed ;  lists are "-" when empty
  c01.read <blocklens> <ops> blocklens = comma-separated decoded block lengths of the file (in file order),
                             ops = comma-separated  r<len> | b   (Read with len(p)=<len>, ReadByte)
      -> comma-separated  <bytes returned>:<index of the first returned byte in the flat data or ->:<1 if io.EOF else 0>
         or "newreader-eof" when the file has no member
  c01.readstream <streamhex> <table>
      Member.readStream (the reader half of `roundtrip`: gzip header parse, expectedMemberSize, BSIZE-delimited
      buffer, inflate, CRC-32/ISIZE check, nothing left over) on the bytes the implementation produced.
      The DEFLATE decoder is supplied by the harness as a finite table keyed by content (entries
      "start:len:used:payloadhex": the byte string stream[start, start+len) inflates to payload using `used` bytes);
      a byte string that is not in the table does not inflate.  CRC-32 is computed here.
      -> "<lengths of the non-empty decoded blocks>|<number of blocks>|<hash of the concatenated data>"  or  "none"
-/
import Hts.Drv.Util
import Hts.Model.BgzfWriter
import Hts.Model.BgzfSeqRead
import Hts.Model.Member
import Hts.Drv.C10
namespace Hts.Drv.C01
open Hts.Drv Hts.Model

def joinOr (xs : List String) : String := if xs.isEmpty then "-" else ",".intercalate xs

def splitList (s : String) : List String := if s == "-" then [] else s.splitOn ","

def parseWOp (t : String) : Option (BgzfWriter.Op Unit) :=
  if t == "f" then some .flush
  else if t == "t" then some .wait
  else if t == "c" then some .close
  else if t.startsWith "w" then (t.drop 1).toNat?.map (fun n => .write (List.replicate n ()))
  else none

def showRes : BgzfWriter.Res → String
  | .ok n => s!"ok{n}"
  | .errClosed => "closed"

def parseROp (t : String) : Option BgzfSeqRead.Op :=
  if t == "b" then some .readByte
  else if t.startsWith "r" then (t.drop 1).toNat?.map .read
  else none

/-- blocks whose bytes are their own index in the flat data -/
def mkBlocks : Nat → List Nat → List (List Nat)
  | _, [] => []
  | start, n :: ns => (List.range' start n) :: mkBlocks (start + n) ns

def showRead (r : List Nat × Bool) : String :=
  let first := match r.1 with | [] => "-" | a :: _ => toString a
  s!"{r.1.length}:{first}:{if r.2 then 1 else 0}"

/-- table entry: (start, len, used, payload) -/
def parseInfl (s : String) : Option (Nat × Nat × Nat × List UInt8) :=
  match s.splitOn ":" with
  | [st, ln, used, pay] => do
    some ((← parseNat st), (← parseNat ln), (← parseNat used), (← parseHex pay).map UInt8.ofNat)
  | _ => none

def streamCodec (stream : List UInt8) (tbl : List (Nat × Nat × Nat × List UInt8)) : Member.CodecFns :=
  let keyed := tbl.filterMap fun (st, ln, used, pay) =>
    if st + ln ≤ stream.length then some ((stream.drop st).take ln, pay, used) else none
  { deflate := fun _ => []
    inflate := fun bs => (keyed.find? (fun p => p.1 == bs)).map (·.2)
    crc32 := Hts.Drv.C10.crc32
    xfl := 0 }

def handle (cmd : String) (args : List String) : Option String :=
  match cmd, args with
  | "c01.readstream", [sh, tb] => do
    let stream := (← parseHex sh).map UInt8.ofNat
    let tbl ← (splitList tb).mapM parseInfl
    match Member.readStream (streamCodec stream tbl) stream with
    | none => some "none"
    | some blocks =>
      let ne := blocks.filter (fun b => !b.isEmpty)
      some s!"{joinOr (ne.map (fun b => toString b.length))}|{blocks.length}|{Hts.Drv.C10.dataHash blocks.flatten}"
  | "c01.write", [ops] => do
    let ops ← (splitList ops).mapM parseWOp
    let (s, rs) := BgzfWriter.run BgzfWriter.BlockSize BgzfWriter.blockSize_pos BgzfWriter.State.init ops
    some s!"{joinOr (rs.map showRes)}|{joinOr (s.emitted.map (fun b => toString b.length))}|{s.active.length}"
  | "c01.read", [lens, ops] => do
    let lens ← (splitList lens).mapM (·.toNat?)
    let ops ← (splitList ops).mapM parseROp
    match BgzfSeqRead.init (mkBlocks 0 lens) with
    | none => some "newreader-eof"
    | some s =>
      let (_, rs) := BgzfSeqRead.run s ops
      some (joinOr (rs.map showRead))
  | _, _ => none

end Hts.Drv.C01
