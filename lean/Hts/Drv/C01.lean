/-
Driver commands of property C01 (core Lean only).  Command names start with "c01.".
-/
import Hts.Drv.Util
namespace Hts.Drv.C01
open Hts.Drv

def handle (cmd : String) (args : List String) : Option String :=
  match cmd, args with
  | _, _ => none

end Hts.Drv.C01
