/-
Driver commands of property C06 (core Lean only).  Command names start with "c06.".

Record syntax (12 tokens): name flags ref pos mapq cigar mate matepos tlen seq qual aux
  name   hex bytes, `-` when empty
  ref    `*` or `id:namehex:len`
  cigar  `typ:len,typ:len` or `-`
  seq    one hex digit per base (the 4-bit code), `-` when empty
  qual   `nil`, `-` (empty, not nil) or hex bytes
  aux    `-` or items joined by `;`, an item is `TTTT:code:payload` with TTTT the tag in hex and
         code/payload: `A`/byte hex, `c C s S i I`/decimal, `f`/8 hex digits (bits), `Z H`/hex bytes or `-`,
         `Bc BC Bs BS Bi BI`/decimals joined by `,` or `-`, `Bf`/bits joined by `,` or `-`
Header syntax: `nil`, `-` (no references) or `namehex:len,namehex:len`.
Float table: `-` or `bits=texthex,...` (bits = 8 hex digits); formatting looks up bits, parsing looks up text.
Results: `ok ...`, `err`, `panic`.
-/
import Hts.Drv.Util
import Hts.Model.SamText
import Hts.Model.SamTextSpec
import Hts.Model.SamBam
namespace Hts.Drv.C06
open Hts.Drv Hts.Model.SamText
open Hts.Model.Coord (CigarOp)

def bytesOfHex (s : String) : Option Bytes := (parseHex s).map (·.map UInt8.ofNat)
def hexOfBytes (b : Bytes) : String := hexOfNats (b.map UInt8.toNat)

def hex8 (n : Nat) : String :=
  String.ofList ((List.range 8).reverse.map fun i => hexDigit (n / 16 ^ i % 16))

def parseBits (s : String) : Option UInt32 := do
  let bs ← parseHex s
  if bs.length ≠ 4 then none else some (UInt32.ofNat (bs.foldl (fun a b => a * 256 + b) 0))

def parseFloatTab (s : String) : Option (List (UInt32 × Bytes)) :=
  if s == "-" then some [] else
  (s.splitOn ",").mapM fun e =>
    match e.splitOn "=" with
    | [b, t] => do some (← parseBits b, ← bytesOfHex t)
    | _ => none

def floatText (tab : List (UInt32 × Bytes)) : FloatText where
  fmt := fun b => match tab.find? (·.1 == b) with | some e => e.2 | none => [63, 63]
  parse := fun t => (tab.find? (·.2 == t)).map (·.1)

def parseRef (s : String) : Option (Option Ref) :=
  if s == "*" then some none else
  match s.splitOn ":" with
  | [i, n, l] => do some (some ⟨← parseInt i, ← bytesOfHex n, ← parseNat l⟩)
  | _ => none

def showRef : Option Ref → String
  | none => "*"
  | some r => s!"{r.id}:{hexOfBytes r.name}:{r.len}"

def parseOp (s : String) : Option CigarOp :=
  match s.splitOn ":" with
  | [t, n] => do some ⟨← parseNat t, ← parseNat n⟩
  | _ => none

def parseCigarTok (s : String) : Option (List CigarOp) :=
  if s == "-" then some [] else (s.splitOn ",").mapM parseOp

def showCigar (c : List CigarOp) : String :=
  if c.isEmpty then "-"
  else if c.length ≤ 64 then ",".intercalate (c.map fun co => s!"{co.typ}:{co.len}")
  else s!"#{c.length}:{c.foldl (fun a co => a + co.len) 0}:{(c.head?.map (·.typ)).getD 0}:{(c.getLast?.map (·.len)).getD 0}"

def parseSeq (s : String) : Option (List (Fin 16)) :=
  if s == "-" then some [] else s.toList.mapM fun c => (hexVal c).map (Fin.ofNat 16)

def showSeq (s : List (Fin 16)) : String :=
  if s.isEmpty then "-" else String.ofList (s.map fun x => hexDigit x.val)

def parseQualTok (s : String) : Option (Option Bytes) :=
  if s == "nil" then some none else (bytesOfHex s).map some

def showQual : Option Bytes → String
  | none => "nil"
  | some q => hexOfBytes q

def intTyOfCode (s : String) : Option IntTy :=
  match s with
  | "c" => some .c | "C" => some .C | "s" => some .s | "S" => some .S | "i" => some .i | "I" => some .I
  | _ => none

def codeOfIntTy : IntTy → String
  | .c => "c" | .C => "C" | .s => "s" | .S => "S" | .i => "i" | .I => "I"

def parseList {α} (f : String → Option α) (s : String) : Option (List α) :=
  if s == "-" then some [] else (s.splitOn ",").mapM f

def parseAuxItem (s : String) : Option Aux :=
  match s.splitOn ":" with
  | [tag, code, payload] => do
    let tg ← bytesOfHex tag
    match tg with
    | [t0, t1] =>
      let v : Option AuxVal :=
        match code with
        | "A" => do match ← bytesOfHex payload with | [c] => some (.char c) | _ => none
        | "f" => (parseBits payload).map .float
        | "Z" => (bytesOfHex payload).map .text
        | "H" => (bytesOfHex payload).map .hex
        | "Bf" => (parseList parseBits payload).map .floats
        | _ =>
          match intTyOfCode code with
          | some ty => (parseInt payload).map (.int ty)
          | none =>
            if code.length == 2 && code.front == 'B' then
              match intTyOfCode (code.drop 1).toString with
              | some ty => (parseList parseInt payload).map (.ints ty)
              | none => none
            else none
      v.map fun v => ⟨t0, t1, v⟩
    | _ => none
  | _ => none

def showList {α} (f : α → String) (l : List α) : String :=
  if l.isEmpty then "-" else ",".intercalate (l.map f)

def showAuxItem (a : Aux) : String :=
  let tag := hexOfBytes [a.t0, a.t1]
  match a.val with
  | .char c => s!"{tag}:A:{hexOfBytes [c]}"
  | .int ty v => s!"{tag}:{codeOfIntTy ty}:{v}"
  | .float b => s!"{tag}:f:{hex8 b.toNat}"
  | .text t => s!"{tag}:Z:{hexOfBytes t}"
  | .hex t => s!"{tag}:H:{hexOfBytes t}"
  | .ints ty vs => s!"{tag}:B{codeOfIntTy ty}:{showList toString vs}"
  | .floats vs => s!"{tag}:Bf:{showList (fun b => hex8 b.toNat) vs}"

def parseAuxTok (s : String) : Option (List Aux) :=
  if s == "-" then some [] else (s.splitOn ";").mapM parseAuxItem

def showAuxTok (l : List Aux) : String :=
  if l.isEmpty then "-" else ";".intercalate (l.map showAuxItem)

def parseRecordToks : List String → Option Record
  | [name, flags, ref, pos, mapq, cigar, mate, matepos, tlen, seq, qual, aux] => do
    some { name := ← bytesOfHex name, flags := UInt16.ofNat (← parseNat flags), ref := ← parseRef ref,
           pos := ← parseInt pos, mapq := UInt8.ofNat (← parseNat mapq), cigar := ← parseCigarTok cigar,
           mateRef := ← parseRef mate, matePos := ← parseInt matepos, tempLen := ← parseInt tlen,
           seq := ← parseSeq seq, qual := ← parseQualTok qual, aux := ← parseAuxTok aux }
  | _ => none

def showRecord (r : Record) : String :=
  " ".intercalate [hexOfBytes r.name, toString r.flags.toNat, showRef r.ref, toString r.pos,
    toString r.mapq.toNat, showCigar r.cigar, showRef r.mateRef, toString r.matePos, toString r.tempLen,
    showSeq r.seq, showQual r.qual, showAuxTok r.aux]

def parseHeader (s : String) : Option (Option Header) :=
  if s == "nil" then some none
  else if s == "-" then some (some ⟨[]⟩)
  else do
    let refs ← (s.splitOn ",").mapM fun e =>
      match e.splitOn ":" with
      | [n, l] => do some (← bytesOfHex n, ← parseNat l)
      | _ => none
    some (some ⟨refs⟩)

def showFault : Fault → String
  | .err => "err"
  | .panic => "panic"

def showRes {α} (f : α → String) : Except Fault α → String
  | .ok a => "ok " ++ f a
  | .error e => showFault e

def parseFlagFmt (s : String) : Option FlagFmt :=
  match s with
  | "0" => some .dec | "1" => some .hex | "2" => some .str | _ => none

/-- results of successive reads, up to and including the first failure -/
def showReads : List (Except Fault Record) → List String
  | [] => ["eof"]
  | .ok r :: rest => ("ok " ++ showRecord r) :: showReads rest
  | .error e :: _ => [showFault e]

def hexOfBam (b : List Hts.Model.Bam.Byte) : String := hexOfNats (b.map BitVec.toNat)

/-- the memory form `toBam r`: reference indices, CIGAR words, packed sequence, qualities, raw aux fields -/
def showMem (r : Record) : String :=
  let b := Hts.Model.SamBam.toBam r
  let optNat : Option Nat → String := fun x => match x with | none => "*" | some i => toString i
  " ".intercalate [hexOfBam b.name, optNat b.ref, optNat b.mateRef,
    showList (fun c : BitVec 32 => toString c.toNat) b.cigar, toString b.seqLen, hexOfBam b.seq,
    (match b.qual with | none => "nil" | some q => hexOfBam q), showList hexOfBam b.aux |>.replace "," ";"]

def handle (cmd : String) (args : List String) : Option String :=
  match cmd, args with
  | "c06.mem", rec => do some ("ok " ++ showMem (← parseRecordToks rec))
  | "c06.fmt", f :: tab :: rec => do
    let ft := floatText (← parseFloatTab tab)
    some (showRes hexOfBytes (formatRecord ft (← parseFlagFmt f) (← parseRecordToks rec)))
  | "c06.spec", h :: tab :: rec => do
    let ft := floatText (← parseFloatTab tab)
    let hd ← (← parseHeader h)
    let r ← parseRecordToks rec
    some ("ok " ++ hexOfBytes (Hts.Spec.SamLine.samLine ft.fmt (toSpec r)) ++ " " ++ boolStr (decide (HeaderOK hd ∧ Expressible hd r)))
  | "c06.parse", [h, tab, line] => do
    let ft := floatText (← parseFloatTab tab)
    some (showRes showRecord (parseRecord ft (← parseHeader h) (← bytesOfHex line)))
  | "c06.cigar", [b] => do some (showRes showCigar (parseCigar (← bytesOfHex b)))
  | "c06.aux", [tab, b] => do
    let ft := floatText (← parseFloatTab tab)
    some (showRes showAuxItem (parseAux ft (← bytesOfHex b)))
  | "c06.auxfmt", [tab, a] => do
    let ft := floatText (← parseFloatTab tab)
    some ("ok " ++ hexOfBytes (formatAux ft (← parseAuxItem a)))
  | "c06.read", [h, tab, input] => do
    let ft := floatText (← parseFloatTab tab)
    let inp ← bytesOfHex input
    let hd ← parseHeader h
    match readFile ft (fun _ => hd) inp with
    | none => some "newreader-err"
    | some rs => some (" | ".intercalate (showReads rs))
  | _, _ => none

end Hts.Drv.C06
