/-
Driver commands of property C06 (core Lean only).  Command names start with "c06.".
-/
import Hts.Drv.Util
namespace Hts.Drv.C06
open Hts.Drv

def handle (cmd : String) (args : List String) : Option String :=
  match cmd, args with
  | _, _ => none

end Hts.Drv.C06
