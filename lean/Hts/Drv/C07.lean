/-
Driver commands of property C07 (core Lean only).

  c07.run <history>        one token per executed operation: fnv64 of the observation after it, joined by '.'
  c07.runv <k> <history>   the observation after operation k, with marshalled text/binary in hex

History syntax: operations separated by ';', fields by ',', byte strings in hex ('-' = empty); see
go/cmd/harness/c07.go (c07Op.enc).  The observation format is that of c07World.obs.
-/
import Hts.Drv.Util
import Hts.Model.Header
namespace Hts.Drv.C07
open Hts.Drv Hts.Model.Header

def tagOf (b : Bytes) : Option Tag :=
  match b with
  | [x, y] => some (x, y)
  | _ => none

def parseOthers (s : String) : Option Tags :=
  if s == "-" then some []
  else (s.splitOn "+").mapM fun kv =>
    match kv.splitOn ":" with
    | [k, v] => do some (← tagOf (← parseHex k), ← parseHex v)
    | _ => none

def parseNats (s : String) : Option (List Nat) :=
  if s == "-" then some [] else (s.splitOn ".").mapM parseNat

def parseOp (s : String) : Option Op :=
  match s.splitOn "," with
  | ["h0"] => some .h0
  | ["hd", t, ps] => do some (.hd (← parseHex t) (← parseNats ps))
  | ["pa", t] => do some (.pa (← parseHex t))
  | ["de", t] => do some (.de (← parseHex t))
  | ["um", h, t] => do some (.um (← parseNat h) (← parseHex t))
  | ["co", h, t] => do some (.co (← parseNat h) (← parseHex t))
  | ["sh", h, v, so, go] => do some (.sh (← parseNat h) (← parseHex v) (← parseInt so) (← parseInt go))
  | ["hs", h, t, v] => do some (.hs (← parseNat h) (← tagOf (← parseHex t)) (← parseHex v))
  | ["nr", n, l, m5, as, sp, ur, o] => do
    let u ← parseHex ur
    some (.nr (← parseHex n) { len := ← parseInt l, md5 := ← parseHex m5, asm := ← parseHex as, sp := ← parseHex sp,
                               uri := if u.isEmpty then none else some (0, u), other := ← parseOthers o })
  | ["ng", n, cn, ds, fo, ks, lb, pg, pl, pu, sm, dt, pi, o] => do
    some (.ng (← parseHex n) { cn := ← parseHex cn, ds := ← parseHex ds, dt := ← parseHex dt, fo := ← parseHex fo,
                               ks := ← parseHex ks, lb := ← parseHex lb, pg := ← parseHex pg, pi := ← parseInt pi,
                               pl := ← parseHex pl, pu := ← parseHex pu, sm := ← parseHex sm, other := ← parseOthers o })
  | ["np", n, pn, cl, pp, vn, o] => do
    some (.np (← parseHex n) { pn := ← parseHex pn, cl := ← parseHex cl, pp := ← parseHex pp, vn := ← parseHex vn,
                               other := ← parseOthers o })
  | ["ar", h, p] => do some (.ar (← parseNat h) (← parseNat p))
  | ["rr", h, p] => do some (.rr (← parseNat h) (← parseNat p))
  | ["sr", p, n] => do some (.sr (← parseNat p) (← parseHex n))
  | ["gr", h, i] => do some (.gr (← parseNat h) (← parseNat i))
  | ["cr", p] => do some (.cr (← parseNat p))
  | ["ag", h, p] => do some (.ag (← parseNat h) (← parseNat p))
  | ["rg", h, p] => do some (.rg (← parseNat h) (← parseNat p))
  | ["sg", p, n] => do some (.sg (← parseNat p) (← parseHex n))
  | ["gg", h, i] => do some (.gg (← parseNat h) (← parseNat i))
  | ["cg", p] => do some (.cg (← parseNat p))
  | ["ap", h, p] => do some (.ap (← parseNat h) (← parseNat p))
  | ["rp", h, p] => do some (.rp (← parseNat h) (← parseNat p))
  | ["sp", p, n] => do some (.sp (← parseNat p) (← parseHex n))
  | ["gp", h, i] => do some (.gp (← parseNat h) (← parseNat i))
  | ["cp", p] => do some (.cp (← parseNat p))
  | ["cl", h] => do some (.cl (← parseNat h))
  | ["mg", hs] => do some (.mg (← parseNats hs))
  | _ => none

def parseHist (s : String) : Option (List Op) := (s.splitOn ";").mapM parseOp

def fnv64 (bs : List Nat) : UInt64 :=
  bs.foldl (fun h c => (h ^^^ c.toUInt64) * 1099511628211) 14695981039346656037

def hex16 (x : UInt64) : String :=
  String.ofList ((List.range 16).map fun i => hexDigit (((x >>> (4 * (15 - i)).toUInt64) &&& 15).toNat))

def resStr : Res → String
  | .ok => "ok" | .err => "err" | .panic => "panic" | .skip => "skip"

def bytesOut (verbose : Bool) (b : Bytes) : String := if verbose then hexOfNats b else hex16 (fnv64 b)

def idNames (l : List (Int × Bytes)) : String :=
  String.join (l.map fun p => s!"{p.1}.{hexOfNats p.2}/")

def poolStr {α : Type} (k : KW α) (p : List (Option Nat)) : String :=
  String.join (p.map fun e =>
    match e with
    | none => "nil/"
    | some o =>
      match k.heap[o]? with
      | some x => s!"{x.id}.{hexOfNats x.name}/"
      | none => "nil/")

def linkStr (w : World) (hn : Nat) (ls : List (List Nat)) : String :=
  let items := match w.refs.tabs[hn]? with
    | some t => t.items
    | none => []
  String.join ((ls.zipIdx).map fun (l, i) =>
    String.join ((l.zipIdx).map fun (o, j) =>
      match w.refs.heap[o]? with
      | some x =>
        let owned := if idx items x.id == some o then 1 else 0
        s!"{i}.{j}.{x.id}.{hexOfNats x.name}.{owned}/"
      | none => s!"{i}.{j}.nil/"))

def obs (verbose : Bool) (o : StepOut) : String :=
  let w := o.w
  let hs := (List.range w.hdrs.length).map fun k =>
    if !live w k then s!"|H{k}=dead"
    else s!"|H{k}=T:{bytesOut verbose (marshalText w k)},B:{bytesOut verbose (marshalBinary w k)},R:{idNames (w.refs.names k)},G:{idNames (w.rgs.names k)},P:{idNames (w.pgs.names k)}"
  let ls := match o.links with
    | some (hn, ls) => "|L:" ++ linkStr w hn ls
    | none => ""
  resStr o.res ++ String.join hs ++ "|RP:" ++ poolStr w.refs w.rpool ++ "|GP:" ++ poolStr w.rgs w.gpool ++
    "|PP:" ++ poolStr w.pgs w.ppool ++ ls

def token (s : String) : String := hex16 (fnv64 (s.toList.map Char.toNat))

/-- run a history; the history ends after a panic (the Go state is unspecified then) -/
def runHist (w : World) : List Op → List String → List String
  | [], acc => acc.reverse
  | op :: ops, acc =>
    let o := step goExt w op
    let acc := token (obs false o) :: acc
    if o.res == .panic then acc.reverse else runHist o.w ops acc

def runVerbose (w : World) : List Op → Nat → String
  | [], _ => "end"
  | op :: ops, k =>
    let o := step goExt w op
    if k = 0 then obs true o
    else if o.res == .panic then "end-after-panic" else runVerbose o.w ops (k - 1)

def handle (cmd : String) (args : List String) : Option String :=
  match cmd, args with
  | "c07.run", [h] => do some (".".intercalate (runHist {} (← parseHist h) []))
  | "c07.runv", [k, h] => do some (runVerbose {} (← parseHist h) (← parseNat k))
  | _, _ => none

end Hts.Drv.C07
