/-
Driver commands of property C07 (core Lean only).  Command names start with "c07.".
-/
import Hts.Drv.Util
namespace Hts.Drv.C07
open Hts.Drv

def handle (cmd : String) (args : List String) : Option String :=
  match cmd, args with
  | _, _ => none

end Hts.Drv.C07
