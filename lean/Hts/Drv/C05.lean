/-
Driver commands of property C05 (core Lean only).  Command names start with "c05.".

A record is 13 arguments:
  name(hex) ref pos mapq cigar(hex of the uint32s, little-endian) flags mateRef matePos tempLen seqLen
  seq(hex of the doublets) qual(hex, or `*` for the nil slice) aux(`.` for none, else hex strings joined by `,`)
`ref`/`mateRef` are -1 for nil.  Byte strings are answered as `<length> <FNV-1a-64 of the bytes>`, records as the
FNV-1a-64 of the canonical serialisation `ser` below (the harness computes the same on its side).
-/
import Hts.Drv.Util
import Hts.Model.BamRecord
import Hts.Model.BamView
import Hts.Spec.BamLayout
namespace Hts.Drv.C05
open Hts.Drv Hts.Model.Bam

def toBytes (ns : List Nat) : List Byte := ns.map (BitVec.ofNat 8)

def fnv (h : UInt64) (bs : List Byte) : UInt64 :=
  bs.foldl (fun h b => (h ^^^ b.toNat.toUInt64) * 0x100000001b3) h

def fnv0 : UInt64 := 0xcbf29ce484222325

def digest (bs : List Byte) : String := s!"{bs.length} {(fnv fnv0 bs).toNat}"

/-- n little-endian bytes of a natural number -/
def leBytes : Nat → Nat → List Byte
  | 0, _ => []
  | w + 1, n => BitVec.ofNat 8 n :: leBytes w (n / 256)

def i64 (x : Int) : List Byte := leBytes 8 (x % 18446744073709551616).toNat
def str (bs : List Byte) : List Byte := leBytes 4 bs.length ++ bs

/-- canonical serialisation of a record as returned by the reader (nil and empty qualities coincide) -/
def ser (r : Record) : List Byte :=
  str r.name ++ i64 (refID r.ref) ++ i64 r.pos ++ [r.mapq] ++
  leBytes 4 r.cigar.length ++ r.cigar.flatMap (fun c => leBytes 4 c.toNat) ++
  leBytes 2 r.flags.toNat ++ i64 (refID r.mateRef) ++ i64 r.matePos ++ i64 r.tempLen ++
  leBytes 8 r.seqLen ++ str r.seq ++ str (r.qual.getD []) ++
  leBytes 4 r.aux.length ++ r.aux.flatMap str

def faultName : Fault → String
  | .errNameLen => "err:namelen" | .errQualLen => "err:quallen" | .errUnexpectedEOF => "err:unexpectedEOF"
  | .errBlockSize => "err:blocksize" | .errReadNameLen => "err:readnamelen" | .errSeqLen => "err:seqlen"
  | .errRefRange => "err:refrange" | .errMateRefRange => "err:materefrange" | .errAuxTruncated => "err:auxtruncated"
  | .errAuxNoZero => "err:auxnozero" | .errAuxZeroInTag => "err:auxzerointag" | .errAuxHexOdd => "err:auxhexodd" | .errAuxHexDigit => "err:auxhexdigit" | .errAuxArrayHdr => "err:auxarrayhdr"
  | .errAuxArrayElem => "err:auxarrayelem" | .errAuxArrayLen => "err:auxarraylen" | .errAuxType => "err:auxtype"
  | .panicAuxType => "panic:auxtype" | .fuel => "model:fuel"

def cigarOfBytes : List Byte → List (BitVec 32) := readCigarOps

def parseOptRef (s : String) : Option (Option Nat) := do
  let i ← parseInt s
  if i < 0 then some none else some (some i.toNat)

def parseAuxList (s : String) : Option (List (List Byte)) :=
  if s == "." then some []
  else (s.splitOn ",").mapM (fun h => (parseHex h).map toBytes)

def parseRecord (args : List String) : Option Record :=
  match args with
  | [name, ref, pos, mapq, cigar, flags, mref, mpos, tlen, seqLen, seq, qual, aux] => do
    let name ← parseHex name
    let ref ← parseOptRef ref
    let pos ← parseInt pos
    let mapq ← parseNat mapq
    let cigar ← parseHex cigar
    let flags ← parseNat flags
    let mref ← parseOptRef mref
    let mpos ← parseInt mpos
    let tlen ← parseInt tlen
    let seqLen ← parseNat seqLen
    let seq ← parseHex seq
    let qual ← if qual == "*" then some none else (parseHex qual).map (fun q => some (toBytes q))
    let aux ← parseAuxList aux
    some { name := toBytes name, ref := ref, pos := pos, mapq := BitVec.ofNat 8 mapq,
           cigar := cigarOfBytes (toBytes cigar), flags := BitVec.ofNat 16 flags, mateRef := mref,
           matePos := mpos, tempLen := tlen, seqLen := seqLen, seq := toBytes seq, qual := qual, aux := aux }
  | _ => none

def parseOmit (s : String) : Option Omit :=
  if s == "0" then some .none else if s == "1" then some .aux else if s == "2" then some .all else none

def showRead (res : List Record × Option Fault) : String :=
  let all := res.1.flatMap ser
  let e := match res.2 with | none => "eof" | some f => faultName f
  s!"{res.1.length} {(fnv fnv0 all).toNat} {e}"

def hexB (bs : List Byte) : String := hexOfNats (bs.map BitVec.toNat)

def showElem (t : Hts.Spec.Bam.Elem) : String :=
  String.ofList [Char.ofNat t.letter.toNat]

def showAuxValue : Hts.Spec.Bam.AuxValue → String
  | .char c => s!"A:{c.toNat}"
  | .num t v => s!"{showElem t}:{v}"
  | .str s => s!"Z:{hexB s}"
  | .hex s => s!"H:{hexB s}"
  | .arr t vs => s!"B:{showElem t}:{vs.length}:" ++ ",".intercalate (vs.map toString)

def handle (cmd : String) (args : List String) : Option String :=
  match cmd, args with
  | "c05.enc", args => do
    let r ← parseRecord args
    match encodeRecord r with
    | .ok bs => some ("ok " ++ digest bs)
    | .error f => some (faultName f)
  | "c05.spec", bin :: args => do
    let bin ← parseNat bin
    let r ← parseRecord args
    match view bin r with
    | some a => some (digest (Hts.Spec.Bam.layout a))
    | none => some "noview"
  | "c05.rt", om :: nrefs :: args => do
    -- write one record, read it back
    let om ← parseOmit om
    let nrefs ← parseNat nrefs
    let r ← parseRecord args
    match encodeRecord r with
    | .ok bs => some (showRead (readAll om nrefs bs))
    | .error f => some (faultName f)
  | "c05.dec", [om, nrefs, stream] => do
    let om ← parseOmit om
    let nrefs ← parseNat nrefs
    let s ← parseHex stream
    some (showRead (readAll om nrefs (toBytes s)))
  | "c05.view", [seqLen, seq, cigar, aux] => do
    let seqLen ← parseNat seqLen
    let seq ← parseHex seq
    let cigar ← parseHex cigar
    let aux ← parseAuxList aux
    let letters := match expand seqLen (toBytes seq) with | some l => hexB l | none => "panic"
    let cg := ",".intercalate ((cigarOfBytes (toBytes cigar)).map (fun c => s!"{cigarLen c}:{cigarType c}"))
    let av := ";".intercalate (aux.map (fun a => match auxView a with
      | some ((t0, t1), v) => s!"{t0.toNat}.{t1.toNat}:{showAuxValue v}"
      | none => "noview"))
    some s!"{letters} [{cg}] [{av}]"
  | "c05.contract", [letters] => do
    let l ← parseHex letters
    some (hexB (contract (toBytes l)))
  | _, _ => none

end Hts.Drv.C05
