/-
Driver commands of property C05 (core Lean only).  Command names start with "c05.".
-/
import Hts.Drv.Util
namespace Hts.Drv.C05
open Hts.Drv

def handle (cmd : String) (args : List String) : Option String :=
  match cmd, args with
  | _, _ => none

end Hts.Drv.C05
