/-
Driver commands of property C02 (core Lean only).  Command names start with "c02.".
-/
import Hts.Drv.Util
namespace Hts.Drv.C02
open Hts.Drv

def handle (cmd : String) (args : List String) : Option String :=
  match cmd, args with
  | _, _ => none

end Hts.Drv.C02
