/-
Driver commands of property C02 (core Lean only).  Command names start with "c02.".

  c02.run <blocks> <ops>      the reader model with the repaired txOffset (Model/BgzfReader64.lean: `run64`; equal to
                              `Reader.run` when every payload is below 65536 bytes, `run64_eq_run`)
     blocks = `len:csize:seed` joined by ','   (payload byte j of a block = (seed + j + (j/256)*13) % 256, or for seed ≥ 1000 the low byte of an integer hash of uint32(seed*31+j))
              or `x<hex>:csize` for an explicit payload
     ops    = joined by ',':  r<n> (Read of n bytes) | b (ReadByte) | s<file>.<block> (Seek) | B1 | B0 (Blocked)
     answer = per op `n:class:bf.bb:ef.eb:blocklen:hash` joined by ';'
              (class = ok | eof | err; hash = fold (h*31+b) % 65521 from 7 over the bytes returned)
  c02.flat <blocks> <ops>   the same history through the flat specification (Hts.Spec.Flat)
-/
import Hts.Drv.Util
import Hts.Model.BgzfReader64
import Hts.Drv.C02Lts
namespace Hts.Drv.C02
open Hts.Drv Hts.Model.Bgzf Hts.Spec.Flat

def genData (seed len : Nat) : List UInt8 :=
  if seed ≥ 1000 then
    -- incompressible payload: multiplicative hash of the position (uint32 arithmetic)
    (List.range len).map fun j =>
      let x0 := (seed * 31 + j) % 4294967296
      let x1 := x0 ^^^ (x0 / 65536)
      let x2 := (x1 * 73244475) % 4294967296
      let x3 := x2 ^^^ (x2 / 65536)
      let x4 := (x3 * 73244475) % 4294967296
      let x5 := x4 ^^^ (x4 / 65536)
      UInt8.ofNat (x5 % 256)
  else
    (List.range len).map fun j => UInt8.ofNat ((seed + j + (j / 256) * 13) % 256)

def parseMember (s : String) : Option Member :=
  match s.splitOn ":" with
  | [l, c, sd] => do
    let l ← parseNat l
    let c ← parseNat c
    let sd ← parseNat sd
    some ⟨genData sd l, c⟩
  | [h, c] =>
    if h.startsWith "x" then do
      let bs ← parseHex (h.drop 1).toString
      let c ← parseNat c
      some ⟨bs.map UInt8.ofNat, c⟩
    else none
  | _ => none

def parseFile (s : String) : Option File :=
  if s == "-" then some [] else (s.splitOn ",").mapM parseMember

def parseOffset (s : String) : Option Offset :=
  match s.splitOn "." with
  | [f, b] => do some ⟨← parseNat f, ← parseNat b⟩
  | _ => none

def parseOp (s : String) : Option Op :=
  if s == "b" then some .readByte
  else if s == "B1" then some (.setBlocked true)
  else if s == "B0" then some (.setBlocked false)
  else if s.startsWith "r" then (parseNat (s.drop 1).toString).map .read
  else if s.startsWith "s" then (parseOffset (s.drop 1).toString).map .seek
  else none

def parseOps (s : String) : Option (List Op) :=
  if s == "-" then some [] else (s.splitOn ",").mapM parseOp

def hashBytes (bs : List UInt8) : Nat :=
  bs.foldl (fun h b => (h * 31 + b.toNat) % 65521) 7

def errClass : Option Err → String
  | none => "ok"
  | some .eof => "eof"
  | some .unexpectedEOF => "ueof"
  | some .other => "err"
  | some .fuel => "MODEL-FUEL"
  | some .short => "MODEL-SHORT"
  | some .panic => "panic"

def showOff (o : Offset) : String := s!"{o.file}.{o.block}"

def showRes (bs : List UInt8) (e : Option Err) (last : Chunk) (blen : Nat) : String :=
  s!"{bs.length}:{errClass e}:{showOff last.bgn}:{showOff last.fin}:{blen}:{hashBytes bs}"

def runModel (f : File) (ops : List Op) : String :=
  match Reader.new f with
  | .error e => "new:" ++ errClass (some e)
  | .ok r =>
    ";".intercalate ((r.run64 ops).map fun (o, r') => showRes o.bytes o.err r'.lastChunk r'.blockLen)

/-- The same history through the flat specification (`Hts.Spec.Flat.run`); BlockLen is not part of it. -/
def showObs (o : Obs) : String :=
  s!"{o.bytes.length}:{if o.eof then "eof" else "ok"}:{showOff o.last.bgn}:{showOff o.last.fin}:{hashBytes o.bytes}"

def validOps (L : Layout) : List Op → Bool
  | [] => true
  | .seek o :: ops => (seekTarget L o).isSome && validOps L ops
  | _ :: ops => validOps L ops

def handle (cmd : String) (args : List String) : Option String :=
  match cmd, args with
  | "c02.run", [blocks, ops] => do
    let f ← parseFile blocks
    let ops ← parseOps ops
    some (runModel f ops)
  | "c02.flat", [blocks, ops] => do
    let f ← parseFile blocks
    let ops ← parseOps ops
    if validOps (layoutOf f) ops then
      some (";".intercalate ((Hts.Spec.Flat.run (flatOf f) init ops).map showObs))
    else some "invalid-history"
  | c, a => Hts.Drv.C02Lts.handle c a

end Hts.Drv.C02
