/-
Driver commands of property C19 (core Lean only).  Command names start with "c19.".
-/
import Hts.Drv.Util
namespace Hts.Drv.C19
open Hts.Drv

def handle (cmd : String) (args : List String) : Option String :=
  match cmd, args with
  | _, _ => none

end Hts.Drv.C19
