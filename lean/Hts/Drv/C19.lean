/-
Driver commands of property C19 (core Lean only).  Command names start with "c19.".

  c19.render <file>                       bytes of the Spec rendering
  c19.true <file>                         Spec entries
  c19.index <hex>                         Model newIndex
  c19.write <recs>                        Model writeTo
  c19.readfrom <hex>                      Model readFrom (records sorted by name)
  c19.pos <rec> <p,p,...>                 Model Record.Position
  c19.reads <hex> <rec> <sizes> <ranges>  Model seqWhole/seqRange + Read calls (sizes used cyclically)
  c19.readsE <hex> <rec> <sizes> <ranges> the same over a ReaderAt that reports io.EOF with a complete read ending at
                                          the end of the file (readCallsE with eager = true everywhere)

<file> = `lead/records`: lead = blank lines before the first record (`n` or hex contents separated by '.'),
         records separated by ';', each `name,desc|n,bases,width,L|C,0|1,blank.blank...|n` (hex fields);
<rec>  = `name:length:start:basesPerLine:bytesPerLine`; <recs> = records separated by '|'.
-/
import Hts.Drv.Util
import Hts.Model.Fai
import Hts.Spec.Fasta
namespace Hts.Drv.C19
open Hts.Drv Hts.Model.Fai

def parseBytes (s : String) : Option Bytes := (parseHex s).map (·.map UInt8.ofNat)

def hexB (b : Bytes) : String := hexOfNats (b.map UInt8.toNat)

def parseSpecRec (s : String) : Option Hts.Spec.Fasta.Rec :=
  match s.splitOn "," with
  | [n, d, b, w, e, f, bl] => do
    let name ← parseBytes n
    let desc ← if d == "n" then some none else (parseBytes d).map some
    let bases ← parseBytes b
    let width ← parseNat w
    let eol ← if e == "L" then some Hts.Spec.Fasta.Eol.lf else if e == "C" then some Hts.Spec.Fasta.Eol.crlf else none
    let fin ← if f == "1" then some true else if f == "0" then some false else none
    let blanks ← if bl == "n" then some [] else (bl.splitOn ".").mapM parseBytes
    some { name, desc, bases, width, eol, finalNewline := fin, blanksAfter := blanks }
  | _ => none

def parseFile (s : String) : Option Hts.Spec.Fasta.File :=
  match s.splitOn "/" with
  | [lead, rs] => do
    let leadingBlanks ← if lead == "n" then some [] else (lead.splitOn ".").mapM parseBytes
    let recs ← (rs.splitOn ";").mapM parseSpecRec
    some { leadingBlanks, recs }
  | _ => none

def recStr (name : Bytes) (a b c d : Int) : String := s!"{hexB name}:{a}:{b}:{c}:{d}"

def joinOr (sep : String) (l : List String) : String := if l.isEmpty then "-" else sep.intercalate l

def indexStr (idx : Index) : String :=
  "ok " ++ joinOr "|" (idx.map fun r => recStr r.name r.length r.start r.basesPerLine r.bytesPerLine)

def parseRecord (s : String) : Option Record :=
  match s.splitOn ":" with
  | [n, a, b, c, d] => do
    some { name := ← parseBytes n, length := ← parseNat a, start := ← parseNat b,
           basesPerLine := ← parseNat c, bytesPerLine := ← parseNat d }
  | _ => none

def bytesLe : Bytes → Bytes → Bool
  | [], _ => true
  | _ :: _, [] => false
  | a :: as, b :: bs => if a < b then true else if b < a then false else bytesLe as bs

def idxErrStr : IdxErr → String
  | .missingName => "err:noname"
  | .duplicate => "err:dup"
  | .shortLine => "err:short"
  | .longLine => "err:long"

/-- `limit` buffer sizes taken cyclically -/
def cycle (sizes : List Nat) (limit : Nat) : List Nat :=
  (List.range limit).map fun i => sizes.getD (i % sizes.length) 1

def readStr (eager : Bool) (file : Bytes) (s : Seq) (sizes : List Nat) : String :=
  let limit := (s.stop - s.start) + 8
  let rs := if eager then readCallsE (fun _ _ => true) file s (cycle sizes limit)
            else readCalls file s (cycle sizes limit)
  if rs.any (fun r => r.2 == .panicDiv) then "panic"
  else if rs.any (fun r => r.2 == .badLayout) then "bad"
  else match rs.getLast? with
    | none => "hang"
    | some (_, .nil) => "hang"
    | some _ =>
      let data := (rs.map (·.1)).flatten
      let counts := rs.map fun r => s!"{r.1.length}" ++ (if r.2 == .eof then "e" else "")
      hexB data ++ "|" ++ ".".intercalate counts
where _unused : Unit := ()

instance : BEq RdErr := ⟨fun a b => decide (a = b)⟩

def oneRange (eager : Bool) (file : Bytes) (r : Record) (sizes : List Nat) (rg : String) : Option String :=
  if rg == "w" then
    match seqWhole [r] r.name with
    | .ok s => some (readStr eager file s sizes)
    | .error _ => some "err"
  else
    match rg.splitOn ":" with
    | [a, b] => do
      let s ← parseInt a
      let e ← parseInt b
      match seqRange [r] r.name s e with
      | .ok sq => some (readStr eager file sq sizes)
      | .error _ => some "err"
    | _ => none

def handle (cmd : String) (args : List String) : Option String :=
  match cmd, args with
  | "c19.render", [f] => do
    let file ← parseFile f
    some (hexB file.render)
  | "c19.true", [f] => do
    let file ← parseFile f
    some ("ok " ++ joinOr "|" (file.entries.map fun e => recStr e.name e.length e.start e.basesPerLine e.bytesPerLine))
  | "c19.index", [h] => do
    let bs ← parseBytes h
    match newIndex bs with
    | .ok idx => some (indexStr idx)
    | .error e => some (idxErrStr e)
  | "c19.write", [rs] => do
    let recs ← if rs == "-" then some [] else (rs.splitOn "|").mapM parseRecord
    some (hexB (writeTo recs))
  | "c19.readfrom", [h] => do
    let bs ← parseBytes h
    match readFrom bs with
    | .error .quotedField => some "quoted"
    | .error _ => some "err"
    | .ok recs =>
      if recs.any (fun r => r.length < 0 || r.start < 0 || r.basesPerLine < 0 || r.bytesPerLine < 0) then some "neg"
      else
        let sorted := recs.mergeSort (fun a b => bytesLe a.name b.name)
        some ("ok " ++ joinOr "|" (sorted.map fun r => recStr r.name r.length r.start r.basesPerLine r.bytesPerLine))
  | "c19.pos", [r, ps] => do
    let rec ← parseRecord r
    let ps ← (ps.splitOn ",").mapM parseInt
    some (",".intercalate (ps.map fun p =>
      match rec.Position p with
      | .ok n => toString n
      | .error _ => "panic"))
  | "c19.reads", [h, r, sz, rgs] => do
    let file ← parseBytes h
    let rec ← parseRecord r
    let sizes ← (sz.splitOn ",").mapM parseNat
    let outs ← (rgs.splitOn ",").mapM (oneRange false file rec sizes)
    some (";".intercalate outs)
  | "c19.readsE", [h, r, sz, rgs] => do
    let file ← parseBytes h
    let rec ← parseRecord r
    let sizes ← (sz.splitOn ",").mapM parseNat
    let outs ← (rgs.splitOn ",").mapM (oneRange true file rec sizes)
    some (";".intercalate outs)
  | _, _ => none

end Hts.Drv.C19
