/-
Driver commands of property C16 (core Lean only).
CIGAR syntax: `typ:len,typ:len` or `-`.  Long bin lists are summarised as `#count:sum:first:last`.
-/
import Hts.Drv.Util
import Hts.Model.Coord
namespace Hts.Drv.C16
open Hts.Drv Hts.Model.Coord

def parseOp (s : String) : Option CigarOp :=
  match s.splitOn ":" with
  | [t, n] => do some ⟨← parseNat t, ← parseNat n⟩
  | _ => none

def parseCigar (s : String) : Option (List CigarOp) :=
  if s == "-" then some [] else (s.splitOn ",").mapM parseOp

def parseBool (s : String) : Option Bool :=
  if s == "1" then some true else if s == "0" then some false else none

def showList (l : List Nat) : String :=
  if l.length ≤ 48 then
    (if l.isEmpty then "-" else ",".intercalate (l.map toString))
  else
    s!"#{l.length}:{l.foldl (· + ·) 0}:{l.head!}:{l.getLast!}"

def showOpt {α} [ToString α] : Option α → String
  | some x => toString x
  | none => "panic"

def handle (cmd : String) (args : List String) : Option String :=
  match cmd, args with
  | "c16.end", [u, pos, c] => do
    some (showOpt (recordEnd (← parseBool u) (← parseInt pos) (← parseCigar c)))
  | "c16.len", [u, pos, c] => do
    some (showOpt (recordLen (← parseBool u) (← parseInt pos) (← parseCigar c)))
  | "c16.lengths", [c] => do
    match cigarLengths (← parseCigar c) with
    | some (r, q) => some s!"{r} {q}"
    | none => some "panic"
  | "c16.isvalid", [n, c] => do
    some (showOpt ((cigarIsValid (← parseCigar c) (← parseInt n)).map boolStr))
  | "c16.bin", [u, mu, pos, c] => do
    some (showOpt (recordBin (← parseBool u) (← parseBool mu) (← parseInt pos) (← parseCigar c)))
  | "c16.binfor", [b, e] => do some (toString (binFor (← parseInt b) (← parseInt e)))
  | "c16.bins", [b, e] => do some (showList (overlappingBinsFor (← parseInt b) (← parseInt e)))
  | "c16.valid", [i] => do some (boolStr (isValidIndexPos (← parseInt i)))
  | "c16.reg2bin", [b, e, ms, d] => do
    some (toString (reg2bin (← parseInt b) (← parseInt e) (← parseNat ms) (← parseNat d)))
  | "c16.reg2bins", [b, e, ms, d] => do
    -- Go's loop semantics: a `for i := b; i <= e; i++` with e = 2^32-1 never exits
    match reg2binsGo (← parseInt b) (← parseInt e) (← parseNat ms) (← parseNat d) with
    | some l => some (showList l)
    | none => some "diverges"
  | "c16.csivalid", [i, ms, d] => do
    some (boolStr (csiValidIndexPos (← parseInt i) (← parseNat ms) (← parseNat d)))
  | _, _ => none

end Hts.Drv.C16
