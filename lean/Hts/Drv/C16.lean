/-
Driver commands of property C16 (core Lean only).  Command names start with "c16.".
-/
import Hts.Drv.Util
namespace Hts.Drv.C16
open Hts.Drv

def handle (cmd : String) (args : List String) : Option String :=
  match cmd, args with
  | _, _ => none

end Hts.Drv.C16
