/-
Driver commands of property C12 (core Lean only).  Command names start with "c12.".
-/
import Hts.Drv.Util
namespace Hts.Drv.C12
open Hts.Drv

def handle (cmd : String) (args : List String) : Option String :=
  match cmd, args with
  | _, _ => none

end Hts.Drv.C12
