/-
Driver commands of property C12 / C09 writer part (core Lean only).  Command names start with "c12.".

  c12.trace <wc> <repaired 0|1> <faultFrom|-> <script> <events>
      is the observed event trace a path of the writer LTS (with unobservable steps in between)?
      answer: `path out=<ids> eof=<0|1> done=<0|1> stuck=<0|1> err=<0|1>`  or  `reject <index of first unmatched event>`
  c12.tracec <wc> <repaired> <faultFrom|-> <ids of blocks whose compression fails|-> <script> <events>
      as c12.trace, with the compression-failure oracle
  c12.traceu … same, but only the underlying writer's calls are observed (API events are hidden steps)
  c12.explore <wc> <repaired 0|1> <faultFrom|-> <script>
      exhaustive exploration of the LTS for this configuration:
      `states=<n> dead=<n> badprefix=<n> final=<n> outs=<distinct final outs>`
  c12.seq <script>      the sequential writer's output: `<nblocks> <eof>`
  c12.abstract <concrete script: w<bytes>|f|wt|c>
      the Lean abstraction `Hts.Model.WriterCompose.absScript` of a concrete script (payload sizes) to the LTS
      script (`w<k>`, `f0|f1`, `wt`, `c`) — compared with the harness's own block-splitting simulation

script:  comma separated  w<k> | f0 | f1 | wt | c          ("-" = empty)
events:  comma separated  C<op> (call) | R<ok|err|closed> (return) | U<blk|e>:<0|1> (underlying Write, ok flag)
-/
import Hts.Drv.Util
import Hts.Model.WriterLTS
import Hts.Model.WriterAbs
import Std.Data.HashSet
namespace Hts.Drv.C12
open Hts.Drv Hts.Model.WriterLTS

deriving instance Hashable for Op, Res, ISt, Item, ApiPc, EmPc, State

def parseOp (s : String) : Option Op :=
  if s == "wt" then some .wait
  else if s == "c" then some .close
  else if s == "f0" then some (.flush false)
  else if s == "f1" then some (.flush true)
  else if s.startsWith "w" then (parseNat (s.drop 1).toString).map .write
  else none

def parseList {α} (f : String → Option α) (s : String) : Option (List α) :=
  if s == "-" then some [] else (s.splitOn ",").mapM f

def parseRes (s : String) : Option Res :=
  if s == "ok" then some .ok else if s == "err" then some .err else if s == "closed" then some .closed else none

def parseEv (s : String) : Option Ev :=
  if s.startsWith "C" then (parseOp (s.drop 1).toString).map .call
  else if s.startsWith "R" then (parseRes (s.drop 1).toString).map fun r => .ret .wait r 0
  else if s.startsWith "U" then
    match (s.drop 1).toString.splitOn ":" with
    | [b, k] => do
      let ok ← if k == "1" then some true else if k == "0" then some false else none
      if b == "e" then some (.uw none ok) else do some (.uw (some (← parseNat b)) ok)
    | _ => none
  else none

/-- observed event vs model event: the harness cannot see `submitted`, and a return belongs to the last call -/
def evMatch (obs e : Ev) : Bool :=
  match obs, e with
  | .call a, .call b => a == b
  | .ret _ r _, .ret _ r' _ => r == r'
  | .uw b k, .uw b' k' => b == b' && k == k'
  | _, _ => false

def mkCfg (wc : Nat) (rep : Bool) (fault : Option Nat) (script : List Op) (cfaults : List Nat := []) : Cfg :=
  { wc := wc, script := script, repaired := rep,
    fault := fun i => match fault with | none => false | some k => decide (k ≤ i),
    cfault := fun b => cfaults.contains b }

def parseFault (s : String) : Option (Option Nat) :=
  if s == "-" then some none else (parseNat s).map some

/-- closure under unobservable steps -/
def isApiEv : Ev → Bool
  | .uw _ _ => false
  | _ => true

/-- is this step unobservable?  (`hideApi`: only the underlying writer is observed, as for bam.Writer) -/
def isTau (hideApi : Bool) : Option Ev → Bool
  | none => true
  | some e => hideApi && isApiEv e

partial def tauClosure (cfg : Cfg) (hide : Bool) (front : List State) (seen : Std.HashSet State) (acc : List State) : List State :=
  match front with
  | [] => acc
  | s :: rest =>
    let ts := (succs cfg s).filterMap fun (_, e, t) => if isTau hide e then some t else none
    let (front', seen', acc') := ts.foldl (fun (f, sn, a) t =>
      if sn.contains t then (f, sn, a) else (t :: f, sn.insert t, t :: a)) (rest, seen, acc)
    tauClosure cfg hide front' seen' acc'

def closure (cfg : Cfg) (hide : Bool) (ss : List State) : List State :=
  let seen := ss.foldl (fun sn s => sn.insert s) ({} : Std.HashSet State)
  tauClosure cfg hide ss seen ss

def dedupe (ss : List State) : List State :=
  (ss.foldl (fun (sn, a) s => if sn.contains s then (sn, a) else (sn.insert s, s :: a))
    (({} : Std.HashSet State), ([] : List State))).2

def stepObs (cfg : Cfg) (hide : Bool) (ss : List State) (obs : Ev) : List State :=
  dedupe ((closure cfg hide ss).flatMap fun s =>
    (succs cfg s).filterMap fun (_, e, t) =>
      match e with
      | some e => if !(isTau hide (some e)) && evMatch obs e then some t else none
      | none => none)

def replay (cfg : Cfg) (hide : Bool) : List State → List Ev → Nat → Except Nat (List State)
  | ss, [], _ => .ok ss
  | ss, ev :: evs, i =>
    match stepObs cfg hide ss ev with
    | [] => .error i
    | ss' => replay cfg hide ss' evs (i + 1)

def showNats (l : List Nat) : String :=
  if l.isEmpty then "-" else ",".intercalate (l.map toString)

def b01 (b : Bool) : String := if b then "1" else "0"

def traceCmd (hide : Bool) (wc : Nat) (rep : Bool) (fault : Option Nat) (script : List Op) (evs : List Ev)
    (cfaults : List Nat := []) : String :=
  let cfg := mkCfg wc rep fault script cfaults
  match replay cfg hide [init cfg] evs 0 with
  | .error i => s!"reject {i}"
  | .ok ss =>
    let cl := closure cfg hide ss
    let done := cl.any fun s => decide (ApiDone s)
    -- stuck: from the states compatible with the trace the model can reach a state that is not finished and has no step
    let stuck := cl.any fun s => !(decide (AllIdle s)) && !(enabled cfg s)
    match ss with
    | [] => "reject 0"
    | s :: _ => s!"path out={showNats s.out} eof={b01 s.eof} done={b01 done} stuck={b01 stuck} err={b01 (cl.any (·.err))}"

/-- exhaustive exploration (all steps, observable or not) -/
partial def exploreAux (cfg : Cfg) (front : List State) (seen : Std.HashSet State) (acc : List State) : List State :=
  match front with
  | [] => acc
  | s :: rest =>
    let ts := (succs cfg s).map fun (_, _, t) => t
    let (front', seen', acc') := ts.foldl (fun (f, sn, a) t =>
      if sn.contains t then (f, sn, a) else (t :: f, sn.insert t, t :: a)) (rest, seen, acc)
    exploreAux cfg front' seen' acc'

def exploreCmd (wc : Nat) (rep : Bool) (fault : Option Nat) (script : List Op) : String :=
  let cfg := mkCfg wc rep fault script
  let s0 := init cfg
  let all := exploreAux cfg [s0] (({} : Std.HashSet State).insert s0) [s0]
  let dead := all.filter fun s => !(decide (AllIdle s)) && !(enabled cfg s)
  let badp := all.filter fun s => s.out != List.range s.out.length
  let fin := all.filter fun s => decide (AllIdle s)
  let outs := (fin.map fun s => (s.out, s.eof)).eraseDups
  let deadDesc := match dead with
    | [] => "-"
    | s :: _ => (toString (repr s.api)).replace " " "" ++ "/" ++ ((toString (repr s.em)).replace " " "").replace "\n" ""
  s!"states={all.length} dead={dead.length} badprefix={badp.length} final={fin.length} outs={outs.length} deadAt={deadDesc}"

/-- a concrete script by payload sizes: `w<bytes>` | `f` | `wt` | `c` -/
def parseConcrete (s : String) : Option (Hts.Model.BgzfWriter.Op Unit) :=
  if s == "wt" then some .wait
  else if s == "c" then some .close
  else if s == "f" then some .flush
  else if s.startsWith "w" then (parseNat (s.drop 1).toString).map fun n => .write (List.replicate n ())
  else none

def showOp : Op → String
  | .write k => s!"w{k}"
  | .flush b => if b then "f1" else "f0"
  | .wait => "wt"
  | .close => "c"

def handle (cmd : String) (args : List String) : Option String :=
  match cmd, args with
  | "c12.abstract", [script] => do
    let ops ← parseList parseConcrete script
    let abs := Hts.Model.WriterCompose.absScript ops
    some (if abs.isEmpty then "-" else ",".intercalate (abs.map showOp))
  | "c12.traceu", [wc, rep, fault, script, evs] => do
    some (traceCmd true (← parseNat wc) (rep == "1") (← parseFault fault) (← parseList parseOp script) (← parseList parseEv evs))
  | "c12.tracec", [wc, rep, fault, cfs, script, evs] => do
    some (traceCmd false (← parseNat wc) (rep == "1") (← parseFault fault) (← parseList parseOp script)
      (← parseList parseEv evs) (← parseList parseNat cfs))
  | "c12.trace", [wc, rep, fault, script, evs] => do
    some (traceCmd false (← parseNat wc) (rep == "1") (← parseFault fault) (← parseList parseOp script) (← parseList parseEv evs))
  | "c12.explore", [wc, rep, fault, script] => do
    some (exploreCmd (← parseNat wc) (rep == "1") (← parseFault fault) (← parseList parseOp script))
  | "c12.seq", [script] => do
    let sc ← parseList parseOp script
    let r := sequentialWriter sc
    some s!"{r.1.length} {b01 r.2}"
  | _, _ => none

end Hts.Drv.C12
