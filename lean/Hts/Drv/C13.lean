/-
Driver commands of property C13 (core Lean only).  Command names start with "c13.".

  c13.bam <blocks> <hdrReads> <ops>
     blocks   as in c02.run (`x<hex>:csize` or `len:csize:seed`, joined by ',')
     hdrReads sizes of the header decoder's reads joined by ',' (or '-')
     ops      joined by ',':  A (Read until an error) | C<bf>.<bb>-<ef>.<eb> (SetChunk) | N (SetChunk(nil)) | S<bf>.<bb> (Reader.Seek)
              | I<chunk>+<chunk>… (NewIterator, Next until false, Close; `I-` = no chunks)
     answer   per op joined by ';':
              A, I → records `len.hash.bf.bb.ef.eb` (body length, body hash, bam LastChunk) joined by '|', then
                     '|' and the class of the error that ended the loop (for I: of Error(), `ok` when nil)
              C, N, S → ok | eof | err
  c13.cr <blocks> <chunk>+<chunk>… <sizes>
     ChunkReader over a fresh reader; per Read `n:class:hash` joined by ';'
-/
import Hts.Drv.Util
import Hts.Drv.C02
import Hts.Model.ChunkReader
import Hts.Model.BamChunks
namespace Hts.Drv.C13
open Hts.Drv Hts.Drv.C02 Hts.Model.Bgzf Hts.Spec.Flat

def parseChunk (s : String) : Option Chunk :=
  match s.splitOn "-" with
  | [b, e] => do some ⟨← parseOffset b, ← parseOffset e⟩
  | _ => none

def parseChunks (s : String) : Option (List Chunk) :=
  if s == "-" then some [] else (s.splitOn "+").mapM parseChunk

def parseNats (s : String) : Option (List Nat) :=
  if s == "-" then some [] else (s.splitOn ",").mapM parseNat

def showRec (body : List UInt8) (c : Chunk) : String :=
  s!"{body.length}.{hashBytes body}.{showOff c.bgn}.{showOff c.fin}"

/-- `for { rec, err := br.Read(); if err != nil { break } }` -/
def readAll : Nat → BamReader → List String → BamReader × List String
  | 0, br, acc => (br, ("MODEL-FUEL" :: acc).reverse)
  | fuel + 1, br, acc =>
    match br.read with
    | (br', .ok body) => readAll fuel br' (showRec body br'.lastChunk :: acc)
    | (br', .error e) => (br', (errClass (some e) :: acc).reverse)

def iterAll : Nat → Iterator → List String → Iterator × List String
  | 0, it, acc => (it, ("MODEL-FUEL" :: acc).reverse)
  | fuel + 1, it, acc =>
    match it.next with
    | (it', some body) => iterAll fuel it' (showRec body it'.br.lastChunk :: acc)
    | (it', none) => (it', (errClass it'.error :: acc).reverse)

def fuelOf (br : BamReader) : Nat := (br.r.file.foldl (fun n m => n + m.data.length) 0) + 2

def runOps : BamReader → List String → List String → Option (List String)
  | _, [], acc => some acc.reverse
  | br, op :: ops, acc =>
    if op == "A" then
      let (br', rs) := readAll (fuelOf br) br []
      runOps br' ops ("|".intercalate rs :: acc)
    else if op == "N" then
      let (br', e) := br.setChunk none
      runOps br' ops (errClass e :: acc)
    else if op.startsWith "S" then do
      let o ← parseOffset (op.drop 1).toString
      let (br', e) := br.seek o
      runOps br' ops (errClass e :: acc)
    else if op.startsWith "C" then do
      let c ← parseChunk (op.drop 1).toString
      let (br', e) := br.setChunk (some c)
      runOps br' ops (errClass e :: acc)
    else if op.startsWith "I" then do
      let cs ← parseChunks (op.drop 1).toString
      match Iterator.new br cs with
      | .error e => some (("new:" ++ errClass (some e)) :: acc).reverse
      | .ok it =>
        let (it', rs) := iterAll (fuelOf br * (cs.length + 1) + cs.length + 2) it []
        let (br', _) := it'.close
        runOps br' ops ("|".intercalate rs :: acc)
    else none

def handle (cmd : String) (args : List String) : Option String :=
  match cmd, args with
  | "c13.bam", [blocks, hdr, ops] => do
    let f ← parseFile blocks
    let hs ← parseNats hdr
    match BamReader.new f hs with
    | .error e => some ("new:" ++ errClass (some e))
    | .ok br =>
      let rs ← runOps br (if ops == "-" then [] else ops.splitOn ",") []
      some (";".intercalate rs)
  | "c13.cr", [blocks, chunks, sizes] => do
    let f ← parseFile blocks
    let cs ← parseChunks chunks
    let ns ← parseNats sizes
    match Reader.new f with
    | .error e => some ("new:" ++ errClass (some e))
    | .ok r =>
      match ChunkReader.new r cs with
      | .error e => some ("newcr:" ++ errClass (some e))
      | .ok cr =>
        some (";".intercalate ((cr.run ns).map fun (out, e) => s!"{out.length}:{errClass e}:{hashBytes out}"))
  | _, _ => none

end Hts.Drv.C13
