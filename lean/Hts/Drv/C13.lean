/-
Driver commands of property C13 (core Lean only).  Command names start with "c13.".
-/
import Hts.Drv.Util
namespace Hts.Drv.C13
open Hts.Drv

def handle (cmd : String) (args : List String) : Option String :=
  match cmd, args with
  | _, _ => none

end Hts.Drv.C13
