/-
Driver commands of property C09 (core Lean only).  Command names start with "c09.".
The writer part of C09 uses the `c12.trace` / `c12.traceu` commands of Hts.Drv.C12 (same LTS, with a fault oracle).

  c09.read <members> <err|eof> <cut|->
      members: comma separated  <compressed size>:<payload size>
      sequential read of the whole file through a source that fails from byte offset <cut> on:
      `n=<payload bytes delivered> end=<eof|err>`
  c09.hist <blocks> <oracle> <ops>
      blocks, ops as in c02.run; oracle: one letter per load attempt after NewReader, in program order:
      o (no fault) | x (the load fails: error, error after partial data, truncation inside the member)
      | e (the source reports a clean end of input at the member start); "-" = no faults.
      The operational model `Hts.Model.Bgzf.FReader` (rd = 1 path); answer as c02.run, plus `|<loads used>|<class of Close()>`.
-/
import Hts.Drv.Util
import Hts.Model.ReaderFaults
import Hts.Model.BgzfReaderFaults
import Hts.Drv.C02
namespace Hts.Drv.C09
open Hts.Drv Hts.Model.ReaderFaults

def parseMember (s : String) : Option (Nat × Nat) :=
  match s.splitOn ":" with
  | [c, n] => do some (← parseNat c, ← parseNat n)
  | _ => none

def parseOracle (s : String) : Option (List Hts.Model.Bgzf.LoadFault) :=
  if s == "-" then some []
  else s.toList.mapM fun c =>
    if c == 'o' then some Hts.Model.Bgzf.LoadFault.ok
    else if c == 'x' then some Hts.Model.Bgzf.LoadFault.err
    else if c == 'e' then some Hts.Model.Bgzf.LoadFault.eof
    else none

def handle (cmd : String) (args : List String) : Option String :=
  match cmd, args with
  | "c09.read", [ms, kind, cut] => do
    let ms ← if ms == "-" then some [] else (ms.splitOn ",").mapM parseMember
    let kind ← if kind == "err" then some FaultKind.err else if kind == "eof" then some FaultKind.eof else none
    let cut ← if cut == "-" then some none else (parseNat cut).map some
    let r := readAllLen cut kind 0 ms
    some s!"n={r.1} end={if r.2 == End.eof then "eof" else "err"}"
  | "c09.hist", [blocks, oracle, ops] => do
    let f ← Hts.Drv.C02.parseFile blocks
    let ops ← Hts.Drv.C02.parseOps ops
    let orc ← parseOracle oracle
    match Hts.Model.Bgzf.Reader.new f with
    | .error e => some ("new:" ++ Hts.Drv.C02.errClass (some e))
    | .ok r =>
      let run := (Hts.Model.Bgzf.FReader.mk r orc).run ops
      let last := match run.getLast? with
        | some (_, x) => x
        | none => Hts.Model.Bgzf.FReader.mk r orc
      let used := orc.length - last.oracle.length
      some (";".intercalate (run.map fun (o, x) =>
        Hts.Drv.C02.showRes o.bytes o.err x.r.lastChunk x.r.blockLen) ++
        s!"|{used}|{Hts.Drv.C02.errClass last.close}")
  | _, _ => none

end Hts.Drv.C09
