/-
Driver commands of property C09 (core Lean only).  Command names start with "c09.".
The writer part of C09 uses the `c12.trace` / `c12.traceu` commands of Hts.Drv.C12 (same LTS, with a fault oracle).

  c09.read <members> <err|eof> <cut|->
      members: comma separated  <compressed size>:<payload size>
      sequential read of the whole file through a source that fails from byte offset <cut> on:
      `n=<payload bytes delivered> end=<eof|err>`
-/
import Hts.Drv.Util
import Hts.Model.ReaderFaults
namespace Hts.Drv.C09
open Hts.Drv Hts.Model.ReaderFaults

def parseMember (s : String) : Option (Nat × Nat) :=
  match s.splitOn ":" with
  | [c, n] => do some (← parseNat c, ← parseNat n)
  | _ => none

def handle (cmd : String) (args : List String) : Option String :=
  match cmd, args with
  | "c09.read", [ms, kind, cut] => do
    let ms ← if ms == "-" then some [] else (ms.splitOn ",").mapM parseMember
    let kind ← if kind == "err" then some FaultKind.err else if kind == "eof" then some FaultKind.eof else none
    let cut ← if cut == "-" then some none else (parseNat cut).map some
    let r := readAllLen cut kind 0 ms
    some s!"n={r.1} end={if r.2 == End.eof then "eof" else "err"}"
  | _, _ => none

end Hts.Drv.C09
