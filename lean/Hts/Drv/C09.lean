/-
Driver commands of property C09 (core Lean only).  Command names start with "c09.".
-/
import Hts.Drv.Util
namespace Hts.Drv.C09
open Hts.Drv

def handle (cmd : String) (args : List String) : Option String :=
  match cmd, args with
  | _, _ => none

end Hts.Drv.C09
