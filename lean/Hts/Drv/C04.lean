/-
Driver commands of properties C04 and C15 (core Lean only).  Command names start with "c04." / "c15."
(the C15 handler in Hts/Drv/C15.lean re-uses the machinery defined here).

  c04.codes <kind> <cfg> <recs>                         -> result code per Add (o r f p n X), stops at X
  c04.add   <kind> <cfg> <recs>                         -> codes, digest of the written index
  c04.q     <kind> <cfg> <recs> <phase> <strategy> <qs> -> Chunks answers; phase pre | rt | merged

  kind  bai | csi | tbx
  cfg   bai: - or the query-time MergeStrategy (identity|adjacent|squash|compress:n)      csi: minShift,depth,version,auxhex      tbx: format,zb,nc,bc,ec,meta,skip,namehex/namehex/…
  recs  rid,start,end,flags,cb,ce;…   flags: 1 placed, 2 mapped, 4 mate-unmapped (bai); the element `S` = the index
        is written once at this point (sort() in place): a second-use history
  qs    rid,beg,end;…
-/
import Hts.Drv.Util
import Hts.Model.Index
import Hts.Model.Csi
import Hts.Model.Tabix
import Hts.Model.IndexIO
import Hts.Model.Coord
namespace Hts.Drv.C04
open Hts.Drv Hts.Model Hts.Model.Index Hts.Model.IndexIO

structure GRec where
  rid : Int
  start : Int
  stop : Int
  flags : Nat
  cb : Int
  ce : Int

def GRec.placed (r : GRec) : Bool := r.flags % 2 = 1
def GRec.mapped (r : GRec) : Bool := r.flags / 2 % 2 = 1
def GRec.mateUnm (r : GRec) : Bool := r.flags / 4 % 2 = 1

inductive Cfg
  | bai (qs : List Chunk → List Chunk)   -- the `MergeStrategy` field (query time); Adjacent when nil
  | csi (minShift depth version : Nat) (aux : Bytes)
  | tbx (hdr : Tabix.Header) (names : List Tabix.Name)

inductive St
  | bai (i : Index) (qs : List Chunk → List Chunk)
  | csi (i : Csi.CIndex)
  | tbx (t : Tabix.TIndex) (pool : List Tabix.Name)

def parseInts (s : String) : Option (List Int) := (s.splitOn ",").mapM parseInt

/-- `none` is the marker "S": the index is written once at this point (`sort()` in place) -/
def parseRecs (s : String) : Option (List (Option GRec)) :=
  if s == "-" then some [] else
  (s.splitOn ";").mapM (fun t =>
    if t == "S" then some none else do
    match ← parseInts t with
    | [rid, st, en, fl, cb, ce] => some (some ⟨rid, st, en, fl.toNat, cb, ce⟩)
    | _ => none)

def parseQueries (s : String) : Option (List (Int × Int × Int)) :=
  if s == "-" then some [] else
  (s.splitOn ";").mapM (fun t => do
    match ← parseInts t with
    | [rid, b, e] => some (rid, b, e)
    | _ => none)

def toBytes (ns : List Nat) : Bytes := ns.map UInt8.ofNat

def parseStrategy (s : String) : Option (List Chunk → List Chunk) :=
  if s == "identity" then some id
  else if s == "adjacent" then some Local.adjacent
  else if s == "squash" then some Local.squash
  else match s.splitOn ":" with
    | ["compress", n] => (parseInt n).map Local.compressor
    | _ => none

def parseCfg (kind cfg : String) : Option Cfg :=
  match kind with
  | "bai" => if cfg == "-" then some (.bai Local.adjacent) else (parseStrategy cfg).map .bai
  | "csi" =>
    match cfg.splitOn "," with
    | [ms, d, v, aux] => do
      let ms ← parseNat ms
      let d ← parseNat d
      let v ← parseNat v
      let aux ← parseHex aux
      some (.csi ms d v (toBytes aux))
    | _ => none
  | "tbx" =>
    match cfg.splitOn "," with
    | [f, z, nc, bc, ec, mc, sk, names] => do
      let f ← parseNat f
      let z ← parseNat z
      let nc ← parseInt nc
      let bc ← parseInt bc
      let ec ← parseInt ec
      let mc ← parseInt mc
      let sk ← parseInt sk
      let ns ← (names.splitOn "/").mapM parseHex
      some (.tbx { format := f, zeroBased := z = 1, nameCol := nc, begCol := bc, endCol := ec, metaChar := mc, skip := sk }
        (ns.map toBytes))
    | _ => none
  | _ => none

def initSt : Cfg → St
  | .bai qs => .bai {} qs
  | .csi ms d v aux => .csi { aux := aux, version := v, minShift := ms, depth := d }
  | .tbx h pool => .tbx { hdr := h } pool

/-- the harness's `name(i)`: the pool entry or "?i" -/
def poolName (pool : List Tabix.Name) (i : Int) : Tabix.Name :=
  if i < 0 then (s!"?{i}").toUTF8.toList
  else match pool[i.toNat]? with
    | some n => n
    | none => (s!"?{i}").toUTF8.toList

def addOne (st : St) (r : GRec) : St × AddRes :=
  let c : Chunk := ⟨r.cb, r.ce⟩
  match st with
  | .bai i qs =>
    let x := Bai.add Coord.binFor i
      { hasRef := decide (r.rid ≥ 0), rid := r.rid, pos := r.start, stop := r.stop,
        unmapped := !r.mapped, mateUnmapped := r.mateUnm, chunk := c }
    (.bai x.1 qs, x.2)
  | .csi i =>
    let x := Csi.add Coord.reg2bin i
      { rid := r.rid, start := r.start, stop := r.stop, chunk := c, placed := r.placed, mapped := r.mapped }
    (.csi x.1, x.2)
  | .tbx t pool =>
    let x := Tabix.add Coord.binFor t
      { name := poolName pool r.rid, start := r.start, stop := r.stop, chunk := c, placed := r.placed, mapped := r.mapped }
    (.tbx x.1 pool, x.2)

def codeOf : AddRes → Char
  | .ok => 'o' | .errRange => 'r' | .errRefOrder => 'f' | .errPosOrder => 'p' | .errNoRef => 'n'
  | .panicIndex => 'X'

/-- what a `WriteIndex`/`WriteTo` call does to the index in memory: `sort()` -/
def sortSt : St → St
  | .bai i qs => .bai (Index.sort i) qs
  | .csi i => .csi (Csi.sort i)
  | .tbx t pool => .tbx { t with idx := Index.sort t.idx } pool

/-- adds until the first panic; the marker sorts the index in place -/
def build (st : St) : List (Option GRec) → List Char → St × List Char
  | [], acc => (st, acc.reverse)
  | none :: rs, acc => build (sortSt st) rs acc
  | some r :: rs, acc =>
    let x := addOne st r
    if x.2 = .panicIndex then (x.1, ('X' :: acc).reverse) else build x.1 rs (codeOf x.2 :: acc)

def writeSt : St → Bytes
  | .bai i _ => writeBai i
  | .csi i => writeCsi i
  | .tbx t _ => writeTabix t

/-- `none` = the reader returned a nil index without an error -/
def rereadSt (st : St) (bs : Bytes) : Except Fault (Option St) :=
  match st with
  | .bai _ qs => match readBai bs with
    | .ok i => .ok (some (.bai i qs))
    | .error e => .error e
  | .csi _ => match readCsi bs with
    | .ok i => .ok (some (.csi i))
    | .error e => .error e
  | .tbx _ pool => match readTabix bs with
    | .ok t => .ok (some (.tbx t pool))
    | .error e => .error e

def mergeSt (s : List Chunk → List Chunk) : St → St
  | .bai i qs => .bai (Index.mergeChunks s i) qs
  | .csi i => .csi (Csi.mergeChunks s i)
  | .tbx t pool => .tbx (Tabix.mergeChunks s t) pool

def chunksText (cs : List Chunk) : String :=
  "ok:" ++ ",".intercalate (cs.map (fun c => s!"{c.b}-{c.e}"))

def qerrText : QErr → String
  | .noRef => "err:noref" | .invalid => "err:invalid" | .panicSlice => "panic"

def answer (st : St) (q : Int × Int × Int) : String :=
  let (rid, b, e) := q
  match st with
  | .bai i qs => match Bai.chunks Coord.overlappingBinsFor qs i rid b e with
    | .ok cs => chunksText cs
    | .error x => qerrText x
  | .csi i => chunksText (Csi.chunks Coord.reg2bins Local.adjacent i rid b e)
  | .tbx t pool => match Tabix.chunks Coord.overlappingBinsFor Local.adjacent t (poolName pool rid) b e with
    | .ok cs => chunksText cs
    | .error x => qerrText x

def hex64 (x : UInt64) : String :=
  String.ofList ((List.range 16).reverse.map (fun i => hexDigit (x.toNat / 16 ^ i % 16)))

def digest (bs : Bytes) : String :=
  let base := s!"{bs.length}:{hex64 (fnv64 bs)}"
  if bs.length ≤ 600 then base ++ ":" ++ hexOfNats (bs.map UInt8.toNat) else base

def setup (kind cfg recs : String) : Option (St × String) := do
  let c ← parseCfg kind cfg
  let rs ← parseRecs recs
  let x := build (initSt c) rs []
  some (x.1, String.ofList x.2)

def handle (cmd : String) (args : List String) : Option String :=
  match cmd, args with
  | "c04.codes", [kind, cfg, recs] => do
    let (_, codes) ← setup kind cfg recs
    some codes
  | "c04.add", [kind, cfg, recs] => do
    let (st, codes) ← setup kind cfg recs
    some s!"{codes} {digest (writeSt st)}"
  | "c04.q", [kind, cfg, recs, phase, strat, qs] => do
    let (st, _) ← setup kind cfg recs
    let qs ← parseQueries qs
    let st' ← match phase with
      | "pre" => some st
      | "rt" => match rereadSt st (writeSt st) with
        | .ok (some s) => some s
        | _ => none
      | "merged" => do
        let s ← parseStrategy strat
        some (mergeSt s st)
      | _ => none
    if qs.isEmpty then some "-" else
    some (";".intercalate (qs.map (answer st')))
  | _, _ => none

end Hts.Drv.C04
