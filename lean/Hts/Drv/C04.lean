/-
Driver commands of property C04 (core Lean only).  Command names start with "c04.".
-/
import Hts.Drv.Util
namespace Hts.Drv.C04
open Hts.Drv

def handle (cmd : String) (args : List String) : Option String :=
  match cmd, args with
  | _, _ => none

end Hts.Drv.C04
