/-
Driver commands of property C15 (core Lean only); the case format is that of Hts/Drv/C04.lean.

  c15.stats <kind> <cfg> <recs>          -> statistics text of the index built by Add
  c15.rt    <kind> <cfg> <recs> <qs>     -> write, read, write again: digest, statistics, answers | nil | err | panic
  c15.rd    <kind> <pool> <hex> <qs>     -> read the given bytes, write: digest, statistics, answers | nil | err | panic
-/
import Hts.Drv.C04
namespace Hts.Drv.C15
open Hts.Drv Hts.Drv.C04 Hts.Model Hts.Model.Index Hts.Model.IndexIO

def statsOne : Option Stats → String
  | none => "-"
  | some s => s!"{s.chunk.b}-{s.chunk.e},{s.mapped},{s.unmapped}"

def unmText : Option Nat → String
  | none => "u=-"
  | some n => s!"u={n}"

def statsText : St → String
  | .bai i _ => ";".intercalate ([s!"n={i.refs.length}"] ++ i.refs.map (fun r => statsOne r.stats) ++ [unmText i.unmapped])
  | .csi i => ";".intercalate ([s!"n={i.refs.length}"] ++ i.refs.map (fun r => statsOne r.stats) ++ [unmText i.unmapped])
  | .tbx t _ => ";".intercalate ([s!"n={t.idx.refs.length}"] ++ t.idx.refs.map (fun r => statsOne r.stats) ++ [unmText t.idx.unmapped])

def answers (st : St) (qs : List (Int × Int × Int)) : String :=
  if qs.isEmpty then "-" else ";".intercalate (qs.map (answer st))

def report (base : St) (bs : Bytes) (qs : List (Int × Int × Int)) : String :=
  match rereadSt base bs with
  | .error .err => "err"
  | .error .panic => "panic"
  | .ok none => "nil"
  | .ok (some st2) => s!"{digest (writeSt st2)} {statsText st2} {answers st2 qs}"

def handle (cmd : String) (args : List String) : Option String :=
  match cmd, args with
  | "c15.stats", [kind, cfg, recs] => do
    let (st, _) ← setup kind cfg recs
    some (statsText st)
  | "c15.rt", [kind, cfg, recs, qs] => do
    let (st, _) ← setup kind cfg recs
    let qs ← parseQueries qs
    some (report st (writeSt st) qs)
  | "c15.rd", [kind, pool, hex, qs] => do
    let qs ← parseQueries qs
    let bs ← parseHex hex
    let base : St ← match kind with
      | "bai" => if pool == "-" then some (.bai {} Local.adjacent) else (parseStrategy pool).map (.bai {})
      | "csi" => some (.csi {})
      | "tbx" => do
        -- "n" followed by "/<hex>" per pool name ("n/-" is the one empty name, "n" no name at all)
        let ns ← match pool.splitOn "/" with
          | "n" :: rest => rest.mapM parseHex
          | _ => none
        some (.tbx {} (ns.map toBytes))
      | _ => none
    some (report base (toBytes bs) qs)
  | _, _ => none

end Hts.Drv.C15
