/-
Driver commands of property C15 (core Lean only).  Command names start with "c15.".
-/
import Hts.Drv.Util
namespace Hts.Drv.C15
open Hts.Drv

def handle (cmd : String) (args : List String) : Option String :=
  match cmd, args with
  | _, _ => none

end Hts.Drv.C15
