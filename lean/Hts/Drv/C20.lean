import Hts.Drv.Util
import Hts.Model.Itf8
import Hts.Model.Ltf8
import Hts.Spec.Itf8
import Hts.Model.CramStream
namespace Hts.Drv.C20
open Hts.Drv Hts.Model

def handle (cmd : String) (args : List String) : Option String :=
  match cmd, args with
  | "itf8.enc", [v] => do
    let i ← parseInt v
    let u := BitVec.ofInt 32 i
    let bs := Itf8.encode u
    some s!"{Itf8.len u} {hexOfNats (bs.map BitVec.toNat)}"
  | "itf8.spec", [v] => do
    let i ← parseInt v
    let u := BitVec.ofInt 32 i
    some (hexOfNats (Hts.Spec.Itf8.encode u.toNat))
  | "itf8.dec", [h] => do
    let bs ← parseHex h
    let (v, n, ok) := Itf8.decode (bs.map (BitVec.ofNat 8))
    some s!"{v.toInt} {n} {boolStr ok}"
  | "ltf8.enc", [v] => do
    let i ← parseInt v
    let u := BitVec.ofInt 64 i
    let bs := Ltf8.encode u
    some s!"{Ltf8.len u} {hexOfNats (bs.map BitVec.toNat)}"
  | "ltf8.spec", [v] => do
    let i ← parseInt v
    let u := BitVec.ofInt 64 i
    some (hexOfNats (Hts.Spec.Ltf8.encode u.toNat))
  | "ltf8.dec", [h] => do
    let bs ← parseHex h
    let (v, n, ok) := Ltf8.decode (bs.map (BitVec.ofNat 8))
    some s!"{v.toInt} {n} {boolStr ok}"
  | "itf8.stream", [h] => do
    let bs ← parseHex h
    match CramStream.itf8 (bs.map (BitVec.ofNat 8)) with
    | .ok (v, rest) => some s!"{v.toInt} {bs.length - rest.length}"
    | .error .eof => some "eof"
    | .error .unexpectedEOF => some "ueof"
    | .error .undecodable => some "undecodable"
  | "ltf8.stream", [h] => do
    let bs ← parseHex h
    match CramStream.ltf8 (bs.map (BitVec.ofNat 8)) with
    | .ok (v, rest) => some s!"{v.toInt} {bs.length - rest.length}"
    | .error .eof => some "eof"
    | .error .unexpectedEOF => some "ueof"
    | .error .undecodable => some "undecodable"
  | _, _ => none

end Hts.Drv.C20
