/-
Driver commands of property C03 (core Lean only).  Command names start with "c03.".

  c03.run <pg><cr><fr><lg> <base>,<size>,<hex> … | op …
      pg, cr, fr, lg ∈ {0,1}: peekGuard / clearOnRebase / failReset / lentGuard (code variant, see Hts.Model.CachedReader.Cfg)
      members of the file, then the history:
        s<file>,<blk>   Seek            r<n>  Read(n bytes)      b  ReadByte       B0 / B1  Blocked := false / true
        c-              SetCache(nil)   c<kind>,<cap>[,<victim key>…]   SetCache(new cache); kind L F R SL SF SR;
                        the victim keys are the bases of the blocks the implementation's cache evicted, in order
        c=<k>           SetCache(the k-th cache object created in this history, with what it holds)     z   the caller sleeps
        S               StatsRecorder.Stats() of the attached cache
      answer: the outcome of NewReader, then per op   <hex bytes>/<ok|eof|err>/<bf>,<bb>,<ef>,<eb>/<cache calls>
      where the cache calls made by the reader during the op are  G<base>=<0|1>  P<base>=<r|k|e<evicted base>> joined by ';'
      a fault ends the answer with  !hang  !panic  !hint
-/
import Hts.Drv.Util
import Hts.Model.CachedReader
namespace Hts.Drv.C03
open Hts.Drv Hts.Model.Cache Hts.Spec.CacheContract Hts.Model.CachedReader

/-- any provided cache, with the recorder's counters and a log of the calls made -/
inductive AnyCache
  | l (kind : Kind) (c : LCache) (st : Stats) (log : List String) (rec : Bool)
  | r (c : RCache) (st : Stats) (log : List String) (rec : Bool)

def AnyCache.log : AnyCache → List String
  | .l _ _ _ g _ => g
  | .r _ _ g _ => g

def AnyCache.stats : AnyCache → Option Stats
  | .l _ _ s _ rec => if rec then some s else none
  | .r _ s _ rec => if rec then some s else none

def AnyCache.items : AnyCache → List Entry
  | .l _ c _ _ _ => c.items
  | .r c _ _ _ => c.items

def keyOf (items : List Entry) (id : Nat) : String :=
  match items.find? (fun e => e.id == id) with
  | some e => toString e.key
  | none => "?"

def putLog (h : Heap) (items : List Entry) (id : Nat) (r : PutRes) : String :=
  let b := (h id).base
  match r with
  | .refused => s!"P{b}=r"
  | .kept none => s!"P{b}=k"
  | .kept (some v) => s!"P{b}=e{keyOf items v}"
  | .panic => s!"P{b}=P"

def anyOps : CacheOps AnyCache where
  put h a id hint :=
    match a with
    | .l kd c st g rec =>
      let (c', r) := c.put h id
      some (.l kd c' (st.onPut r) (putLog h c.items id r :: g) rec, r)
    | .r c st g rec =>
      (c.put h id hint).map fun (c', r) => (.r c' (st.onPut r) (putLog h c.items id r :: g) rec, r)
  get h a k :=
    match a with
    | .l kd c st g rec =>
      let (c', r) := c.get kd h k
      (.l kd c' (st.onGet r) (s!"G{k}={if r.isSome then 1 else 0}" :: g) rec, r)
    | .r c st g rec =>
      let (c', r) := c.get k
      (.r c' (st.onGet r) (s!"G{k}={if r.isSome then 1 else 0}" :: g) rec, r)
  peek h a k :=
    match a with
    | .l _ c _ _ _ => c.peek h k
    | .r c _ _ _ => c.peek h k
  held a := a.items

def mkCache (kind : String) (cap : Int) : Option AnyCache :=
  match kind with
  | "L" => some (.l .lru (LCache.new cap) {} [] false)
  | "SL" => some (.l .lru (LCache.new cap) {} [] true)
  | "F" => some (.l .fifo (LCache.new cap) {} [] false)
  | "SF" => some (.l .fifo (LCache.new cap) {} [] true)
  | "R" => some (.r (RCache.new cap) {} [] false)
  | "SR" => some (.r (RCache.new cap) {} [] true)
  | _ => none

def parseMember (s : String) : Option Member :=
  match s.splitOn "," with
  | [b, z, h] => do
    let b ← parseInt b
    let z ← parseInt z
    let d ← parseHex h
    some ⟨b, z, d⟩
  | _ => none

def parseOp (tok : String) : Option (Option (Op AnyCache)) :=
  let op := (tok.take 1).toString
  let rest := (tok.drop 1).toString
  match op with
  | "s" =>
    match rest.splitOn "," with
    | [f, b] => do
      let f ← parseInt f
      let b ← parseNat b
      some (some (.seek f b))
    | _ => none
  | "r" => (parseNat rest).map (fun n => some (.read n))
  | "b" => some (some .readByte)
  | "B" => some (some (.setBlocked (rest == "1")))
  | "S" => some none
  | "c" =>
    if rest == "-" then some (some (.setCache none []))
    else
      match rest.splitOn "," with
      | kind :: cap :: hs => do
        let cap ← parseInt cap
        let c ← mkCache kind cap
        let hs ← hs.mapM parseInt
        some (some (.setCache (some c) hs))
      | _ => none
  | _ => none

def errStr : ErrClass → String
  | .ok => "ok"
  | .eof => "eof"
  | .err => "err"

def faultStr : Fault → String
  | .badHint => "!hint"
  | .hang => "!hang"
  | .panic => "!panic"

def logLen (r : Reader AnyCache) : Nat :=
  match r.cache with
  | some a => a.log.length
  | none => 0

def showOut (o : Out) (calls : List String) : String :=
  s!"{hexOfNats o.bytes}/{errStr o.err}/{o.chunk.1.1},{o.chunk.1.2},{o.chunk.2.1},{o.chunk.2.2}/{";".intercalate calls}"

/-- which of the caller's cache objects (numbered in creation order) is attached and which are detached, in the
order of `Reader.parked`, with the victim hints each had left when it was detached -/
structure Objs where
  cur : Option Nat := none
  made : Nat := 0
  ids : List Nat := []
  hints : List (Nat × List Int) := []

/-- the attached object (if any) is replaced: it goes to the end of `parked` -/
def Objs.park (ob : Objs) (r : Reader AnyCache) : Objs :=
  match ob.cur, r.cache with
  | some k, some _ =>
    let ids' := ob.ids ++ [k]
    let hints' := (k, r.hints) :: ob.hints.filter (fun p => p.1 != k)
    { ob with cur := none, ids := ids', hints := hints' }
  | _, _ => { ob with cur := none }

def runOps (cfg : Cfg) (f : File) : Reader AnyCache → Objs → List String → List String → List String
  | _, _, [], acc => acc.reverse
  | r, ob, tok :: rest, acc =>
    if tok == "z" then
      -- the caller sleeps: nothing happens in the sequential reader
      runOps cfg f r ob rest (showOut ⟨[], .ok, (r.chunkBegin, r.chunkEnd)⟩ [] :: acc)
    else if tok.startsWith "c=" then
      match parseNat (tok.drop 2).toString with
      | none => ("?" :: acc).reverse
      | some k =>
        if ob.cur == some k then
          -- SetCache(the cache that is attached already)
          runOps cfg f r ob rest (showOut ⟨[], .ok, (r.chunkBegin, r.chunkEnd)⟩ [] :: acc)
        else
        match ob.ids.idxOf? k with
        | none => ("?" :: acc).reverse
        | some i =>
          let hs := ((ob.hints.find? (fun p => p.1 == k)).map (·.2)).getD []
          let ob1 := ob.park r
          match step cfg anyOps f r (.reattach i hs) with
          | .error e => (faultStr e :: acc).reverse
          | .ok (r', out) =>
            runOps cfg f r' { ob1 with cur := some k, ids := ob1.ids.eraseIdx i } rest (showOut out [] :: acc)
    else
    match parseOp tok with
    | none => ("?" :: acc).reverse
    | some none =>
      let s := match r.cache.bind AnyCache.stats with
        | some t => s!"{t.gets},{t.misses},{t.puts},{t.retains},{t.evictions}"
        | none => "-"
      runOps cfg f r ob rest (s :: acc)
    | some (some op) =>
      let before := match op with
        | .setCache _ _ => 0
        | _ => logLen r
      let ob' : Objs := match op with
        | .setCache (some _) _ => let o1 := ob.park r; { o1 with cur := some o1.made, made := o1.made + 1 }
        | .setCache none _ => ob.park r
        | _ => ob
      match step cfg anyOps f r op with
      | .error e => (faultStr e :: acc).reverse
      | .ok (r', out) =>
        let calls := match r'.cache with
          | some a => (a.log.take (a.log.length - before)).reverse
          | none => []
        let calls := match op with
          | .setCache _ _ => []
          | _ => calls
        runOps cfg f r' ob' rest (showOut out calls :: acc)

def handle (cmd : String) (args : List String) : Option String :=
  match cmd, args with
  | "c03.run", cfg :: rest => do
    let bit (c : Char) : Option Bool := if c == '1' then some true else if c == '0' then some false else none
    let cfg : Cfg ← match cfg.toList with
      | [a, b, c, d] => do some ⟨← bit a, ← bit b, ← bit c, ← bit d⟩
      | _ => none
    let f ← (rest.takeWhile (· ≠ "|")).mapM parseMember
    let ops := (rest.dropWhile (· ≠ "|")).drop 1
    match newReader anyOps cfg f with
    | .error e => some (faultStr e)
    | .ok (r, e) =>
      if e ≠ .none then some (errStr e.cls)
      else some (" ".intercalate ("ok" :: runOps cfg f r {} ops []))
  | _, _ => none

end Hts.Drv.C03
