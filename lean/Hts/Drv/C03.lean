/-
Driver commands of property C03 (core Lean only).  Command names start with "c03.".
-/
import Hts.Drv.Util
namespace Hts.Drv.C03
open Hts.Drv

def handle (cmd : String) (args : List String) : Option String :=
  match cmd, args with
  | _, _ => none

end Hts.Drv.C03
