/-
Driver commands of property C14 (core Lean only).  Command names start with "c14.".

  c14.hist <kind> <cap> tok…     run one sequential history through the model; one result per token
  c14.lin  <kind> <cap> tok… | t:inv:res:tok=result …
                                 search a linearization of a complete concurrent history

kind: L F R (LRU, FIFO, Random), SL SF SR (StatsRecorder around them).
tokens:  b<id>,<base>,<used01>,<next>   heap cell := …            → .
         p<id>[,<victim id>]            Put(block id)             → r | k- | k<evicted id> | P | !
         g<base>                        Get                        → - | <id>
         k<base>                        Peek                       → 0,-1 | 1,<next>
         l / c                          Len / Cap                  → n
         r<n>[,victims] d<n>[,victims] f<n>[,victims]  Resize / Drop / cache.Free → . | . | t/f  (! = choice not allowed)
         s                              Stats (recorder kinds)     → gets,misses,puts,retains,evictions
-/
import Hts.Drv.Util
import Hts.Model.Cache
import Hts.Spec.CacheContract
namespace Hts.Drv.C14
open Hts.Drv Hts.Model.Cache

inductive AnyCache
  | l (kind : Kind) (c : LCache)
  | r (c : RCache)
deriving DecidableEq

structure St where
  cache : AnyCache
  stats : Option Stats
  heap : List (Nat × Blk)
deriving DecidableEq

def heapFn (hp : List (Nat × Blk)) : Heap := fun i =>
  match hp.find? (fun p => p.1 == i) with
  | some p => p.2
  | none => ⟨-1, false, -1⟩

def mkState (kind : String) (cap : Int) : Option St :=
  match kind with
  | "L" => some ⟨.l .lru (LCache.new cap), none, []⟩
  | "F" => some ⟨.l .fifo (LCache.new cap), none, []⟩
  | "R" => some ⟨.r (RCache.new cap), none, []⟩
  | "SL" => some ⟨.l .lru (LCache.new cap), some {}, []⟩
  | "SF" => some ⟨.l .fifo (LCache.new cap), some {}, []⟩
  | "SR" => some ⟨.r (RCache.new cap), some {}, []⟩
  | _ => none

def showPut : PutRes → String
  | .refused => "r"
  | .kept none => "k-"
  | .kept (some v) => s!"k{v}"
  | .panic => "P"

def parseNats (xs : List String) : Option (List Nat) := xs.mapM parseNat

/-- all (state, result) pairs the model allows for one token.  `obs` is the observed result: used only
to pick Random's victim on `p` when the token carries none; `enum` = enumerate Random's drop choices
when the token carries no victims (linearizability search). -/
def stepTok (s : St) (tok : String) (obs : Option String) (enum : Bool) : List (St × String) :=
  let op := tok.take 1 |>.toString
  let args := if tok.length ≤ 1 then [] else (tok.drop 1).toString.splitOn ","
  let h := heapFn s.heap
  match op, args with
  | "b", [i, b, u, n] =>
    match parseNat i, parseInt b, parseNat u, parseInt n with
    | some i, some b, some u, some n => [({ s with heap := (i, ⟨b, u != 0, n⟩) :: s.heap }, ".")]
    | _, _, _, _ => []
  | "p", i :: rest =>
    match parseNat i with
    | none => []
    | some i =>
      let hint : Option Nat :=
        match rest with
        | [v] => parseNat v
        | _ => match obs with
          | some o => if o.startsWith "k" then parseNat (o.drop 1).toString else none
          | none => none
      let fin (c : AnyCache) (r : PutRes) : List (St × String) :=
        [({ s with cache := c, stats := s.stats.map (·.onPut r) }, showPut r)]
      match s.cache with
      | .l kd c => let (c', r) := c.put h i; fin (.l kd c') r
      | .r c =>
        match c.put h i hint with
        | some (c', r) => fin (.r c') r
        | none => [(s, "!")]
  | "g", [k] =>
    match parseInt k with
    | none => []
    | some k =>
      let fin (c : AnyCache) (r : Option Nat) : List (St × String) :=
        [({ s with cache := c, stats := s.stats.map (·.onGet r) },
          match r with | none => "-" | some i => toString i)]
      match s.cache with
      | .l kd c => let (c', r) := c.get kd h k; fin (.l kd c') r
      | .r c => let (c', r) := c.get k; fin (.r c') r
  | "k", [k] =>
    match parseInt k with
    | none => []
    | some k =>
      let (e, n) := match s.cache with
        | .l _ c => c.peek h k
        | .r c => c.peek h k
      [(s, s!"{if e then 1 else 0},{n}")]
  | "l", [] => [(s, toString (match s.cache with | .l _ c => c.len | .r c => c.len))]
  | "c", [] => [(s, toString (match s.cache with | .l _ c => c.cap | .r c => c.cap))]
  | "s", [] =>
    match s.stats with
    | some t => [(s, s!"{t.gets},{t.misses},{t.puts},{t.retains},{t.evictions}")]
    | none => []
  | "d", n :: vs =>
    match parseInt n, parseNats vs with
    | some n, some vs =>
      match s.cache with
      | .l kd c => [({ s with cache := .l kd (c.drop n) }, ".")]
      | .r c =>
        if enum && vs.isEmpty then
          (RCache.dropChoices h c.items n).filterMap fun v =>
            (c.drop h n v).map fun c' => ({ s with cache := .r c' }, ".")
        else match c.drop h n vs with
          | some c' => [({ s with cache := .r c' }, ".")]
          | none => [(s, "!")]
    | _, _ => []
  | "r", n :: vs =>
    match parseInt n, parseNats vs with
    | some n, some vs =>
      match s.cache with
      | .l kd c => [({ s with cache := .l kd (c.resize n) }, ".")]
      | .r c =>
        if enum && vs.isEmpty then
          (RCache.dropChoices h c.items (c.items.length - n)).filterMap fun v =>
            (c.resize h n v).map fun c' => ({ s with cache := .r c' }, ".")
        else match c.resize h n vs with
          | some c' => [({ s with cache := .r c' }, ".")]
          | none => [(s, "!")]
    | _, _ => []
  | "f", n :: vs =>
    match parseInt n, parseNats vs with
    | some n, some vs =>
      match s.cache with
      | .l kd c => let (c', ok) := c.free n; [({ s with cache := .l kd c' }, if ok then "t" else "f")]
      | .r c =>
        if enum && vs.isEmpty then
          (RCache.dropChoices h c.items (n - (c.cap - c.len))).filterMap fun v =>
            (c.free h n v).map fun (c', ok) => ({ s with cache := .r c' }, if ok then "t" else "f")
        else match c.free h n vs with
          | some (c', ok) => [({ s with cache := .r c' }, if ok then "t" else "f")]
          | none => [(s, "!")]
    | _, _ => []
  | _, _ => []

def runHist (s : St) (toks : List String) : String :=
  let rec go (s : St) (toks : List String) (acc : List String) : List String :=
    match toks with
    | [] => acc.reverse
    | t :: ts =>
      match stepTok s t none false with
      | (s', r) :: _ => go s' ts (r :: acc)
      | [] => ("?" :: acc).reverse
  " ".intercalate (go s toks [])

structure COp where
  inv : Nat
  res : Nat
  tok : String
  obs : String
deriving DecidableEq

def parseCOp (t : String) : Option COp :=
  match t.splitOn ":" with
  | [_, i, r, rest] =>
    match rest.splitOn "=" with
    | [tok, obs] => do
      let i ← parseNat i
      let r ← parseNat r
      some ⟨i, r, tok, obs⟩
    | _ => none
  | _ => none

/-- Wing–Gong search: pick any pending operation invoked before every pending response, apply it to
the sequential model, require the observed result, recurse. -/
partial def linSearch (s : St) (pending : List COp) : Bool :=
  match pending with
  | [] => true
  | p0 :: _ =>
    let minRes := pending.foldl (fun m o => min m o.res) p0.res
    pending.any fun o =>
      o.inv < minRes &&
        (stepTok s o.tok (some o.obs) true).any fun (s', r) =>
          r == o.obs && linSearch s' (pending.erase o)

def handle (cmd : String) (args : List String) : Option String :=
  match cmd, args with
  | "c14.hist", kind :: cap :: toks => do
    let cap ← parseInt cap
    let s ← mkState kind cap
    some (runHist s toks)
  | "c14.lin", kind :: cap :: rest => do
    let cap ← parseInt cap
    let s ← mkState kind cap
    let pre := rest.takeWhile (· ≠ "|")
    let ops ← (rest.dropWhile (· ≠ "|")).drop 1 |>.mapM parseCOp
    -- the prefix (heap cells, sequential set-up operations) is executed first
    let s' := pre.foldl (fun s t => match stepTok s t none false with | (s', _) :: _ => s' | [] => s) s
    some (if linSearch s' ops then "linearizable" else "NOT-linearizable")
  | _, _ => none

end Hts.Drv.C14
