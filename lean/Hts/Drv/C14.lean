/-
Driver commands of property C14 (core Lean only).  Command names start with "c14.".
-/
import Hts.Drv.Util
namespace Hts.Drv.C14
open Hts.Drv

def handle (cmd : String) (args : List String) : Option String :=
  match cmd, args with
  | _, _ => none

end Hts.Drv.C14
