/-
Driver commands of property C17 (core Lean only).
Chunk list syntax: `f:b-f:b,f:b-f:b` (begin-end, file:block), `-` for the empty list.
-/
import Hts.Drv.Util
import Hts.Model.Merge
namespace Hts.Drv.C17
open Hts.Drv Hts.Model.Merge

def parseOffset (s : String) : Option Offset :=
  match s.splitOn ":" with
  | [f, b] => do some ⟨← parseInt f, ← parseNat b⟩
  | _ => none

/-- split "a-b" at the '-' that separates two offsets; file offsets may be negative ("-3:0--2:5") -/
def parseChunk (s : String) : Option Chunk :=
  -- the separator is the first '-' that follows a digit
  let cs := s.toList
  let rec go (pre : List Char) (rest : List Char) : Option (String × String) :=
    match rest with
    | [] => none
    | c :: rest' =>
      if c == '-' && !pre.isEmpty && pre.head!.isDigit then some (String.ofList pre.reverse, String.ofList rest')
      else go (c :: pre) rest'
  match go [] cs with
  | some (a, b) => do some ⟨← parseOffset a, ← parseOffset b⟩
  | none => none

def parseChunks (s : String) : Option (List Chunk) :=
  if s == "-" then some [] else (s.splitOn ",").mapM parseChunk

def showOffset (o : Offset) : String := s!"{o.file}:{o.block}"
def showChunks (cs : List Chunk) : String :=
  if cs.isEmpty then "-" else ",".intercalate (cs.map fun c => s!"{showOffset c.b}-{showOffset c.e}")

def handle (cmd : String) (args : List String) : Option String :=
  match cmd, args with
  | "c17.identity", [cs] => do some (showChunks (identity (← parseChunks cs)))
  | "c17.adjacent", [cs] => do some (showChunks (adjacent (← parseChunks cs)))
  | "c17.squash", [cs] => do some (showChunks (squash (← parseChunks cs)))
  | "c17.compressor", [near, cs] => do some (showChunks (compressor (← parseInt near) (← parseChunks cs)))
  | _, _ => none

end Hts.Drv.C17
