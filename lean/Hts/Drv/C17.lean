/-
Driver commands of property C17 (core Lean only).  Command names start with "c17.".
-/
import Hts.Drv.Util
namespace Hts.Drv.C17
open Hts.Drv

def handle (cmd : String) (args : List String) : Option String :=
  match cmd, args with
  | _, _ => none

end Hts.Drv.C17
