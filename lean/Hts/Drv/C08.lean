/-
Driver commands of property C08 (core Lean only).  Command names start with "c08.".

Header arguments (5 tokens): <name> <comment> <extra> <mtime> <os>
   name/comment = comma-separated decimal runes of the Go string or "-", extra = hex or "-",
   mtime = ModTime.Unix() if ModTime is after the epoch else 0, os = decimal byte.

  c08.member <hdr x5> <xfl> <payload length> <crc32 of the payload> <DEFLATE stream of the payload, hex>
      -> "ok <member hex>" | "gzip" | "nobc" | "overflow"          (Member.writeBlock, repaired search)
  c08.memberorig ...same...                                          (Member.writeBlockOrig, unrepaired search)
  c08.close <hdr x5> <xfl> <blocks>      blocks = comma-separated <payload length>:<DEFLATE length>, in queue order
      -> "<close result> <output length> <hasEOF> <member sizes>"    (Member.closeOutput / hasEOF)
         close result = ok | gzip | nobc | overflow
  c08.open <hdr x5> <xfl> <blocks>       the same for a writer that was never closed (Member.render only):
      -> "open <output length> <hasEOF> <member sizes>"
  c08.abs <ops>          ops as in c01.write; the abstract script of the writer LTS (Hts.Model.WriterCompose.absScript, Model/WriterAbs.lean), in the
      syntax of the c12.* commands:  w<k> | f0 | f1 | wt | c
      -> "<abstract script>|<flush flags, one digit per Flush>|<seqBlocks of the abstract script>"
  c08.bound <n>  -> compressBound n
-/
import Hts.Drv.Util
import Hts.Drv.C01
import Hts.Model.Member
import Hts.Model.WriterAbs
namespace Hts.Drv.C08
open Hts.Drv Hts.Model Hts.Model.Member

def parseHeader (name comment extra mtime os : String) : Option Header := do
  let nm ← (C01.splitList name).mapM (·.toNat?)
  let cm ← (C01.splitList comment).mapM (·.toNat?)
  let ex ← parseHex extra
  let mt ← mtime.toNat?
  let o ← os.toNat?
  some { name := nm, comment := cm, extra := ex.map UInt8.ofNat, mtime := mt, os := UInt8.ofNat o }

def showErr : WErr → String
  | .gzip => "gzip"
  | .noBC => "nobc"
  | .overflow => "overflow"

def hexBytes (bs : List Byte) : String := hexOfNats (bs.map UInt8.toNat)

/-- a codec that answers with recorded values: `deflate` by payload length and first byte -/
def tableCodec (xfl : Nat) (tbl : List (Nat × Nat × List Byte)) (crc : Nat) : CodecFns :=
  { deflate := fun p =>
      match tbl.find? (fun e => e.1 == p.length && e.2.1 == (p.headD 0).toNat) with
      | some e => e.2.2
      | none => []
    inflate := fun _ => none
    crc32 := fun _ => crc
    xfl := UInt8.ofNat xfl }

def parsePair (t : String) : Option (Nat × Nat) :=
  match t.splitOn ":" with
  | [a, b] => do some ((← a.toNat?), (← b.toNat?))
  | _ => none

/-- sizes of the members in `out`, read from the model's own BSIZE at offset 16 (display only) -/
def memberSizes : Nat → List Byte → List Nat
  | 0, _ => []
  | _, [] => []
  | fuel + 1, s =>
    match s[16]?, s[17]? with
    | some a, some b => let n := u16 a b + 1; n :: memberSizes fuel (s.drop n)
    | _, _ => [s.length]

def handle (cmd : String) (args : List String) : Option String :=
  match cmd, args with
  | "c08.member", [name, comment, extra, mtime, os, xfl, plen, crc, defl] => do
    let h ← parseHeader name comment extra mtime os
    let d ← parseHex defl
    let c := tableCodec (← xfl.toNat?) [((← plen.toNat?), 0, d.map UInt8.ofNat)] (← crc.toNat?)
    match writeBlock c h (List.replicate (← plen.toNat?) 0) with
    | .ok m => some s!"ok {hexBytes m}"
    | .error e => some (showErr e)
  | "c08.memberorig", [name, comment, extra, mtime, os, xfl, plen, crc, defl] => do
    let h ← parseHeader name comment extra mtime os
    let d ← parseHex defl
    let c := tableCodec (← xfl.toNat?) [((← plen.toNat?), 0, d.map UInt8.ofNat)] (← crc.toNat?)
    match writeBlockOrig c h (List.replicate (← plen.toNat?) 0) with
    | .ok m => some s!"ok {hexBytes m}"
    | .error e => some (showErr e)
  | "c08.close", [name, comment, extra, mtime, os, xfl, blocks] => do
    let h ← parseHeader name comment extra mtime os
    let prs ← (C01.splitList blocks).mapM parsePair
    let idx := (List.range prs.length).zip prs
    -- block i has payload `replicate len (i mod 256)`; DEFLATE stream = `replicate dlen 0`
    let tbl := idx.map (fun (i, (l, dl)) => (l, (if l = 0 then 0 else i % 256), List.replicate dl (0 : Byte)))
    let c := tableCodec (← xfl.toNat?) tbl 0
    let payloads := idx.map (fun (i, (l, _)) => List.replicate l (UInt8.ofNat (i % 256)))
    let (out, e) := closeOutput c h payloads
    let res := match e with | none => "ok" | some e => showErr e
    some s!"{res} {out.length} {boolStr (hasEOF out)} {C01.joinOr ((memberSizes (out.length + 1) out).map toString)}"
  | "c08.open", [name, comment, extra, mtime, os, xfl, blocks] => do
    let h ← parseHeader name comment extra mtime os
    let prs ← (C01.splitList blocks).mapM parsePair
    let idx := (List.range prs.length).zip prs
    let tbl := idx.map (fun (i, (l, dl)) => (l, (if l = 0 then 0 else i % 256), List.replicate dl (0 : Byte)))
    let c := tableCodec (← xfl.toNat?) tbl 0
    let payloads := idx.map (fun (i, (l, _)) => List.replicate l (UInt8.ofNat (i % 256)))
    let out := (render c h payloads).1
    some s!"open {out.length} {boolStr (hasEOF out)} {C01.joinOr ((memberSizes (out.length + 1) out).map toString)}"
  | "c08.abs", [ops] => do
    let ops ← (C01.splitList ops).mapM C01.parseWOp
    let abs := WriterCompose.absScript ops
    let showOp : WriterLTS.Op → String
      | .write k => s!"w{k}"
      | .flush b => if b then "f1" else "f0"
      | .wait => "wt"
      | .close => "c"
    let flags := String.join (abs.filterMap fun o => match o with | .flush b => some (if b then "1" else "0") | _ => none)
    some s!"{C01.joinOr (abs.map showOp)}|{if flags.isEmpty then "-" else flags}|{WriterLTS.seqBlocks abs false}"
  | "c08.bound", [n] => do
    some (toString (compressBound (← n.toNat?)))
  | _, _ => none

end Hts.Drv.C08
