/-
Driver commands of property C08 (core Lean only).  Command names start with "c08.".
-/
import Hts.Drv.Util
namespace Hts.Drv.C08
open Hts.Drv

def handle (cmd : String) (args : List String) : Option String :=
  match cmd, args with
  | _, _ => none

end Hts.Drv.C08
