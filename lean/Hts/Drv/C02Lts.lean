/-
Trace inclusion for the read-ahead protocol (core Lean only): is an observed event trace a path of
`Hts.Model.ReadAhead` (with unobservable steps in between)?

  c02.lts <rd> <faults 0|1> <csizes> <script> <events>
     csizes  compressed member sizes joined by ',' (the chain: base_i ↦ base_i + csize_i; nothing elsewhere)
     script  joined by ',':  n (nextBlock) | N (any number of nextBlock calls) | s<off> (Seek to file offset off)
             | c (Close) | m<id> (harness marker)
     events  joined by ',':  M<id> (marker reached) | L<off|x>:<seeked 0|1>:<ok 0|1> (member load by the underlying reader)
     answer  `path states=<k> done=<0|1> stuck=<0|1> panic=<0|1>`  or  `reject <index of the first unmatched event>`
  c02.ltsx <rd> <faults> <csizes> <script>      exhaustive exploration: `states=<n> dead=<n> panic=<n> final=<n>`
-/
import Hts.Drv.Util
import Hts.Model.ReaderLTS
import Hts.Model.ReaderLTSFile
import Std.Data.HashSet
namespace Hts.Drv.C02Lts
open Hts.Drv Hts.Model.ReadAhead

deriving instance Hashable for Blk, Op, Worker, Cons, State

def parseList {α} (f : String → Option α) (s : String) : Option (List α) :=
  if s == "-" then some [] else (s.splitOn ",").mapM f

def parseOp (s : String) : Option Op :=
  if s == "n" then some .next
  else if s == "N" then some .nexts
  else if s == "c" then some .close
  else if s.startsWith "s" then (parseNat (s.drop 1).toString).map .seek
  else if s.startsWith "m" then (parseNat (s.drop 1).toString).map .note
  else none

def parseB (s : String) : Option Bool :=
  if s == "1" then some true else if s == "0" then some false else none

def parseEv (s : String) : Option Ev :=
  if s.startsWith "M" then (parseNat (s.drop 1).toString).map fun id => .call (.note id)
  else if s.startsWith "L" then
    match (s.drop 1).toString.splitOn ":" with
    | [o, k, ok] => do
      let k ← parseB k
      let ok ← parseB ok
      if o == "x" then some (.ld none k ok) else do some (.ld (some (← parseNat o)) k ok)
    | _ => none
  else none

/-- the chain of a file given by its member sizes: `Hts.Model.ReadAhead.chainOf` of the file with these sizes
(payloads do not matter to the protocol) -/
def chainOf (cs : List Nat) : Chain := Hts.Model.ReadAhead.chainOf (cs.map fun c => ⟨[], c⟩)

def mkCfg (rd : Nat) (faults : Bool) (cs : List Nat) (script : List Op) : Cfg :=
  { rd := rd, chain := chainOf cs, script := script, faults := faults }

def observable : Option Ev → Bool
  | some (.call (.note _)) => true
  | some (.ld _ _ _) => true
  | _ => false

/-- with faults the count reader's idea of the offset is unknown after a failure: do not compare `seeked` then -/
def evMatch (faults : Bool) (obs e : Ev) : Bool :=
  match obs, e with
  | .call a, .call b => a == b
  | .ld o k ok, .ld o' k' ok' => o == o' && ok == ok' && (faults || k == k')
  | _, _ => false

partial def tauClosure (cfg : Cfg) (front : List State) (seen : Std.HashSet State) (acc : List State) : List State :=
  match front with
  | [] => acc
  | s :: rest =>
    let ts := (succs cfg s).filterMap fun (_, e, t) => if observable e then none else some t
    let (front', seen', acc') := ts.foldl (fun (f, sn, a) t =>
      if sn.contains t then (f, sn, a) else (t :: f, sn.insert t, t :: a)) (rest, seen, acc)
    tauClosure cfg front' seen' acc'

def closure (cfg : Cfg) (ss : List State) : List State :=
  let seen := ss.foldl (fun sn s => sn.insert s) ({} : Std.HashSet State)
  tauClosure cfg ss seen ss

def dedupe (ss : List State) : List State :=
  (ss.foldl (fun (sn, a) s => if sn.contains s then (sn, a) else (sn.insert s, s :: a))
    (({} : Std.HashSet State), ([] : List State))).2

def stepObs (cfg : Cfg) (ss : List State) (obs : Ev) : List State :=
  dedupe ((closure cfg ss).flatMap fun s =>
    (succs cfg s).filterMap fun (_, e, t) =>
      match e with
      | some e => if observable (some e) && evMatch cfg.faults obs e then some t else none
      | none => none)

def replay (cfg : Cfg) : List State → List Ev → Nat → Except Nat (List State)
  | ss, [], _ => .ok ss
  | ss, ev :: evs, i =>
    match stepObs cfg ss ev with
    | [] => .error i
    | ss' => replay cfg ss' evs (i + 1)

def b01 (b : Bool) : String := if b then "1" else "0"

def isPanic (s : State) : Bool := s.cons == .panicked

/-- final or legitimately parked: the consumer is done (the worker may be parked on a channel for ever) -/
def isDone (s : State) : Bool := decide (ApiDone s)

def traceCmd (cfg : Cfg) (evs : List Ev) : String :=
  match replay cfg [init cfg] evs 0 with
  | .error i => s!"reject {i}"
  | .ok ss =>
    let cl := closure cfg ss
    let done := cl.any isDone
    let stuck := cl.any fun s => !(isDone s) && !(isPanic s) && !(enabled cfg s)
    s!"path states={cl.length} done={b01 done} stuck={b01 stuck} panic={b01 (cl.any isPanic)}"

partial def exploreAux (cfg : Cfg) (front : List State) (seen : Std.HashSet State) (acc : List State) : List State :=
  match front with
  | [] => acc
  | s :: rest =>
    let ts := (succs cfg s).map fun (_, _, t) => t
    let (front', seen', acc') := ts.foldl (fun (f, sn, a) t =>
      if sn.contains t then (f, sn, a) else (t :: f, sn.insert t, t :: a)) (rest, seen, acc)
    exploreAux cfg front' seen' acc'

def exploreCmd (cfg : Cfg) : String :=
  let s0 := init cfg
  let all := exploreAux cfg [s0] (({} : Std.HashSet State).insert s0) [s0]
  let dead := all.filter fun s => !(isDone s) && !(isPanic s) && !(enabled cfg s)
  let pan := all.filter isPanic
  let fin := all.filter isDone
  s!"states={all.length} dead={dead.length} panic={pan.length} final={fin.length}"

def handle (cmd : String) (args : List String) : Option String :=
  match cmd, args with
  | "c02.lts", [rd, faults, cs, script, evs] => do
    let cfg := mkCfg (← parseNat rd) (← parseB faults) (← parseList parseNat cs) (← parseList parseOp script)
    some (traceCmd cfg (← parseList parseEv evs))
  | "c02.ltsx", [rd, faults, cs, script] => do
    let cfg := mkCfg (← parseNat rd) (← parseB faults) (← parseList parseNat cs) (← parseList parseOp script)
    some (exploreCmd cfg)
  | _, _ => none

end Hts.Drv.C02Lts
