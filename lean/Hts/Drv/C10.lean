/-
Driver commands of property C10 (core Lean only).  Command names start with "c10.".

The DEFLATE decoder is supplied by the harness as a finite table (the real compress/flate run on the
byte strings the reader will frame); CRC-32 is computed here.  A byte string the model asks about
that is not in the table is answered with `fail 99`, shown as `missing`, which never equals what the
implementation did — so a framing difference cannot hide behind a shared "error".

  c10.trunc <layer> <streamhex> <table>        verdicts for every cut k = 0 .. len (k = len: intact)
  c10.subst <layer> <streamhex> <pos> <vals> <table>  verdicts for every value v of vals (v.v.v) written at pos

  layer  = bgzf | bam
  table  = "-" or entries "tag:start:len:o:used:payloadhex" / "tag:start:len:f:code:produced" joined by ","
           tag = "*" (any value) or the value the entry belongs to; start/len delimit the byte string
           (of the cut/substituted stream) the entry answers for
  verdict (bgzf) = kind/datalen/datahash/haseof     haseof = t | f | e (error, result false)
  verdict (bam)  = Hkind  (NewReader failed)  |  Rn/kind  (n records, then kind)
-/
import Hts.Drv.Util
import Hts.Model.BgzfBytes
namespace Hts.Drv.C10
open Hts.Drv Hts.Model.BgzfBytes

def crcStep (crc : UInt32) (b : UInt8) : UInt32 :=
  let c := crc ^^^ b.toUInt32
  (List.range 8).foldl (fun c _ => if c &&& 1 == 1 then (c >>> 1) ^^^ 0xEDB88320 else c >>> 1) c

/-- CRC-32 (IEEE), bitwise -/
def crc32 (bs : Bytes) : Nat := ((bs.foldl crcStep 0xFFFFFFFF) ^^^ 0xFFFFFFFF).toNat

structure Entry where
  tag : Option Nat
  start : Nat
  len : Nat
  res : InflateResult

def toBytes (ns : List Nat) : Bytes := ns.map UInt8.ofNat

def parseEntry (s : String) : Option Entry :=
  match s.splitOn ":" with
  | [tag, st, ln, "o", used, pay] => do
    let t ← if tag == "*" then some none else (parseNat tag).map some
    some ⟨t, ← parseNat st, ← parseNat ln, .ok (toBytes (← parseHex pay)) (← parseNat used)⟩
  | [tag, st, ln, "f", code, produced] => do
    let t ← if tag == "*" then some none else (parseNat tag).map some
    some ⟨t, ← parseNat st, ← parseNat ln, .fail (← parseNat code) (← parseNat produced)⟩
  | _ => none

def parseTable (s : String) : Option (List Entry) :=
  if s == "-" then some [] else (s.splitOn ",").mapM parseEntry

/-- the codec for one concrete stream: entries applicable to value `v`, keyed by content -/
def codecFor (tbl : List Entry) (v : Option Nat) (stream : Bytes) : Codec :=
  let es := tbl.filter fun e => e.tag.isNone || e.tag == v
  let keyed := es.filterMap fun e =>
    if e.start + e.len ≤ stream.length then some ((stream.drop e.start).take e.len, e.res) else none
  { inflate := fun bs => match keyed.find? (fun p => p.1 == bs) with
      | some p => p.2
      | none => .fail 99 0
    crc32 := crc32 }

def showErr : Err → String
  | .eof => "eof"
  | .unexpectedEOF => "ueof"
  | .gzHeader => "gzhdr"
  | .gzChecksum => "gzsum"
  | .noBlockSize => "nobs"
  | .corrupt => "corrupt"
  | .shortBuffer => "short"
  | .inflate 1 => "flate"
  | .inflate 2 => "ueof"
  | .inflate 99 => "missing"
  | .inflate n => s!"infl{n}"
  | .bam n => s!"bam{n}"
  | .unreachable => "unreachable"

def dataHash (bs : Bytes) : Nat := bs.foldl (fun h b => (h * 131 + b.toNat + 1) % 4294967291) 0

def sem : BamSem := ⟨fun _ => true, fun _ => true⟩

def verdict (layer : String) (c : Codec) (s : Bytes) : String :=
  if layer == "bam" then
    match bamReadAll .repaired c sem s with
    | .headerErr e => "H" ++ showErr e
    | .records rs e => s!"R{rs.length}/{showErr e}"
  else
    let r := readAll .repaired c s
    let h := hasEOF s
    s!"{showErr r.2}/{r.1.length}/{dataHash r.1}/{if h.2 then "e" else if h.1 then "t" else "f"}"

def handle (cmd : String) (args : List String) : Option String :=
  match cmd, args with
  | "c10.trunc", [layer, sh, tb] => do
    let s := toBytes (← parseHex sh)
    let tbl ← parseTable tb
    let c := codecFor tbl none s
    some (";".intercalate ((List.range (s.length + 1)).map fun k => verdict layer c (s.take k)))
  | "c10.subst", [layer, sh, pos, vals, tb] => do
    let s := toBytes (← parseHex sh)
    let p ← parseNat pos
    let vs ← (vals.splitOn ".").mapM parseNat
    let tbl ← parseTable tb
    if p ≥ s.length then none
    some (";".intercalate (vs.map fun v =>
      let m := s.set p (UInt8.ofNat v)
      verdict layer (codecFor tbl (some v) m) m))
  | "c10.crc32", [sh] => do some (toString (crc32 (toBytes (← parseHex sh))))
  | _, _ => none

end Hts.Drv.C10
