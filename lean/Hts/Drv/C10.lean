/-
Driver commands of property C10 (core Lean only).  Command names start with "c10.".
-/
import Hts.Drv.Util
namespace Hts.Drv.C10
open Hts.Drv

def handle (cmd : String) (args : List String) : Option String :=
  match cmd, args with
  | _, _ => none

end Hts.Drv.C10
