/-
Line-protocol helpers for the model driver (core Lean only).
-/
namespace Hts.Drv

def hexDigit (n : Nat) : Char :=
  if n < 10 then Char.ofNat (48 + n) else Char.ofNat (87 + n)

def hexByte (b : Nat) : String :=
  String.ofList [hexDigit (b / 16 % 16), hexDigit (b % 16)]

/-- bytes as lower-case hex, "-" for the empty string -/
def hexOfNats (bs : List Nat) : String :=
  if bs.isEmpty then "-" else String.join (bs.map hexByte)

def hexVal (c : Char) : Option Nat :=
  if '0' ≤ c ∧ c ≤ '9' then some (c.toNat - 48)
  else if 'a' ≤ c ∧ c ≤ 'f' then some (c.toNat - 87)
  else if 'A' ≤ c ∧ c ≤ 'F' then some (c.toNat - 55)
  else none

partial def parseHexAux : List Char → List Nat → Option (List Nat)
  | [], acc => some acc.reverse
  | [_], _ => none
  | a :: b :: rest, acc =>
    match hexVal a, hexVal b with
    | some x, some y => parseHexAux rest ((x * 16 + y) :: acc)
    | _, _ => none

def parseHex (s : String) : Option (List Nat) :=
  if s == "-" then some [] else parseHexAux s.toList []

def parseInt (s : String) : Option Int := s.toInt?

def parseNat (s : String) : Option Nat := s.toNat?

def boolStr (b : Bool) : String := if b then "true" else "false"

end Hts.Drv
