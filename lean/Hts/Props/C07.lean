/-
C07 — property theorems (stub: no theorem stated yet, so no obligation is counted).
-/
namespace Hts.Props.C07
end Hts.Props.C07
