/-
C07 — Header serialisation round trips and keeps identity invariants under edits.
PROPERTY THEOREMS ONLY (model: Hts.Model.Header, the REPAIRED code, fixes/C07-1 … C07-9).

Part 1: identity invariants under arbitrary edit histories.  A history is any list of `Op` (NewHeader with
text and references, UnmarshalText / DecodeBinary of arbitrary bytes, Add/Remove/SetName/Clone of references,
read groups and programs through any pointer the caller may hold — stale ones included —, Header.Clone,
MergeHeaders, field edits), executed by `step` from the empty world.  `E : Ext` (date and URI parsing) is
arbitrary.
-/
import Hts.Lemmas.HeaderClean3
namespace Hts.Props.C07
open Hts.Model.Header

/-- `HInv w h`: for references, read groups and programs of header `h` — ids equal indices, every listed
item is owned by `h`, and the name table is exactly `{name_i ↦ i}` (see `TabInv`) -/
def HInv (w : World) (h : Nat) : Prop := KindInv w.refs h ∧ KindInv w.rgs h ∧ KindInv w.pgs h

theorem hinv_of_winv {w : World} (hw : WInv w) {h : Nat} (hh : h < w.hdrs.length) : HInv w h :=
  kinds_of_winv hw hh

/-! ### the invariant is established by NewHeader and kept by every operation -/

/-- the empty world satisfies the invariant -/
theorem hinv_empty : WInv {} := winv_empty

/-- `NewHeader(text, refs)` (any text, any references — used, duplicated, … —, successful or not) keeps
the invariant of the world, and the header it builds satisfies `HInv` -/
theorem hinv_init (E : Ext) (w : World) (hw : WInv w) (text : Bytes) (refs : List Nat) :
    WInv (newHeader E w text refs).1 ∧ HInv (newHeader E w text refs).1 w.hdrs.length := by
  have h1 := winv_newHeader E hw text refs
  exact ⟨h1, hinv_of_winv h1 (by rw [newHeader_hdrs_len]; omega)⟩

/-- every operation keeps the invariant -/
theorem hinv_step (E : Ext) (w : World) (hw : WInv w) (op : Op) : WInv (step E w op).w := winv_step E hw op

/-- the invariant holds after ANY history, for every header of the world -/
theorem hinv_reachable (E : Ext) (ops : List Op) :
    WInv (run E {} ops) ∧ ∀ h, h < (run E {} ops).hdrs.length → HInv (run E {} ops) h :=
  ⟨winv_run E ops {} winv_empty, fun _ hh => hinv_of_winv (winv_run E ops {} winv_empty) hh⟩

/-! ### what the invariant says about the lists a header exposes (`Refs()`, `RGs()`, `Progs()`) -/

/-- ids equal indices: the item at index `i` has `ID() = i` -/
theorem ids_eq_index {α : Type} {k : KW α} {h : Nat} (hk : KindInv k h) {i : Nat} {id : Int} {n : Bytes} {d : α}
    (hi : (items k h)[i]? = some (id, n, d)) : id = (i : Int) := by
  obtain ⟨t, ht, T⟩ := hk
  obtain ⟨o, x, hio, hx, e⟩ := (items_get ht T i _).1 hi
  cases e; exact (T.listed hio hx).2

/-- names are unique within a header -/
theorem names_unique {α : Type} {k : KW α} {h : Nat} (hk : KindInv k h) {i j : Nat} {a b : Int} {n : Bytes} {d d' : α}
    (hi : (items k h)[i]? = some (a, n, d)) (hj : (items k h)[j]? = some (b, n, d')) : i = j := by
  obtain ⟨t, ht, T⟩ := hk
  obtain ⟨o, x, hio, hx, e⟩ := (items_get ht T i _).1 hi
  obtain ⟨o', x', hjo, hx', e'⟩ := (items_get ht T j _).1 hj
  simp only [Prod.mk.injEq] at e e'
  exact T.name_inj hio hjo hx hx' (by rw [← e.2.1, ← e'.2.1])

/-- the name table is exactly `{name_i ↦ i}`: a lookup by name finds index `i` iff the item at `i` has that name -/
theorem lookup_by_name {α : Type} {k : KW α} {h : Nat} {t : Tab} (ht : k.tabs[h]? = some t) (T : TabInv k.heap h t)
    (n : Bytes) (i : Nat) :
    lookup t.seen n = some (i : Int) ↔ ∃ (id : Int) (d : α), (items k h)[i]? = some (id, n, d) := by
  constructor
  · intro hl
    obtain ⟨j, o, x, hj, hx, hn, hv⟩ := T.only n _ hl
    have : i = j := by omega
    subst this
    exact ⟨x.id, x.dat, (items_get ht T i _).2 ⟨o, x, hj, hx, by rw [hn]⟩⟩
  · rintro ⟨id, d, hi⟩
    obtain ⟨o, x, hio, hx, e⟩ := (items_get ht T i _).1 hi
    cases e; exact T.known i o x hio hx

/-- a lookup by name never yields an index outside the list -/
theorem lookup_in_range {α : Type} {k : KW α} {h : Nat} {t : Tab} (T : TabInv k.heap h t) {n : Bytes} {v : Int}
    (hl : lookup t.seen n = some v) : 0 ≤ v ∧ v < t.items.length := by
  obtain ⟨i, o, x, hi, _, _, hv⟩ := T.only n v hl
  have := get_lt hi
  omega

/-- every listed item is owned by the header, and an object that names a header as its owner is listed by it -/
theorem listed_iff_owned {α : Type} {k : KW α} (hk : KInv k) {h o : Nat} {x : Obj α} {t : Tab}
    (ht : k.tabs[h]? = some t) (hx : k.heap[o]? = some x) :
    (∃ (i : Nat), t.items[i]? = some o) ↔ x.owner = some h := by
  constructor
  · rintro ⟨i, hi⟩; exact ((hk.tab h t ht).listed hi hx).1
  · intro ho
    obtain ⟨t', i, ht', _, hi⟩ := hk.obj o x h hx ho
    rw [ht] at ht'; cases ht'; exact ⟨i, hi⟩

/-! ### merges -/

/-- `MergeHeaders(src)` (two or more live sources): the link table has one row per source and one entry per
source reference; every entry is a reference that the merged header lists at its id (so it is owned by the
merged header) and that has the name and the length of the source reference; the sources are unchanged. -/
theorem merge_links (w w' : World) (hw : WInv w) (srcs : List Nat) (ls : List (List Nat))
    (hs : ∀ s ∈ srcs, s < w.hdrs.length) (hm : mergeHeaders w srcs = (w', .ok, ls)) :
    LinksOk w'.refs w.hdrs.length srcs ls ∧ ∀ s ∈ srcs, objsOf w'.refs s = objsOf w.refs s :=
  mergeHeaders_links hw hs hm

/-! ### no operation panics on a consistent world (hence none in any history from the empty world) -/

/-- every operation — edits through any pointer, Clone, MergeHeaders, NewHeader, and UnmarshalText / DecodeBinary of
ARBITRARY bytes — returns normally or with an error: no index out of range, no nil map or pointer -/
theorem step_never_panics (E : Ext) (w : World) (hw : WInv w) (op : Op) : (step E w op).res ≠ .panic := by
  cases op with
  | h0 => simp [step]
  | hd text ps =>
    simp only [step]; split
    · exact newHeader_no_panic E hw _ _
    · simp
  | pa text => exact unmarshalText_no_panic E (winv_pushHeader hw _) _ _
  | de b => exact decodeBinary_no_panic E (winv_pushHeader hw _) _ _
  | um h text =>
    simp only [step]; split
    · exact unmarshalText_no_panic E hw _ _
    · simp
  | co h c => simp only [step]; split <;> simp
  | sh h v so go => simp only [step]; split <;> simp
  | hs h t v =>
    simp only [step]; split
    · unfold headerSet; repeat' split
      all_goals simp
    · simp
  | nr name d => simp [step]
  | ng name d => simp [step]
  | np name d => simp [step]
  | ar h p =>
    simp only [step]; split
    · exact addReference_no_panic hw.refs _ _
    · simp
  | rr h p =>
    simp only [step]; split
    · unfold KW.remove; repeat' split
      all_goals simp
    · simp
  | sr p n =>
    simp only [step]; split
    · exact setName_no_panic hw.refs _ _
    · simp
  | gr h i => simp only [step]; split <;> simp
  | cr p => simp only [step]; split <;> simp
  | ag h p =>
    simp only [step]; split
    · unfold KW.addUniq KW.addNew; repeat' split
      all_goals simp
    · simp
  | rg h p =>
    simp only [step]; split
    · unfold KW.remove; repeat' split
      all_goals simp
    · simp
  | sg p n =>
    simp only [step]; split
    · exact setName_no_panic hw.rgs _ _
    · simp
  | gg h i => simp only [step]; split <;> simp
  | cg p => simp only [step]; split <;> simp
  | ap h p =>
    simp only [step]; split
    · unfold KW.addUniq KW.addNew; repeat' split
      all_goals simp
    · simp
  | rp h p =>
    simp only [step]; split
    · unfold KW.remove; repeat' split
      all_goals simp
    · simp
  | sp p n =>
    simp only [step]; split
    · exact setName_no_panic hw.pgs _ _
    · simp
  | gp h i => simp only [step]; split <;> simp
  | cp p => simp only [step]; split <;> simp
  | cl h => simp only [step]; split <;> simp
  | mg hs =>
    simp only [step]; split
    · next hg =>
      simp only [Bool.and_eq_true, List.all_eq_true] at hg
      exact mergeHeaders_no_panic hw (fun s hs' => live_lt (hg.1 s hs'))
    · simp

/-! ## Part 2: serialisation round trips

`E : Ext` are the external parsers: `E.parseDate` = `parseISO8601` then `Format`, `E.parseUri` = `url.Parse`, the
scheme rewriting of the @SQ parser, then `String()`.  A date held by a read group is its canonical text, i.e. a
fixed point of `E.parseDate` (the law assumed of package `time`: `Format ∘ Parse ∘ Format = Format`).

"Built through the API" (`ApiBuilt`): no tab / line feed / carriage return in any name or value (comments may hold
tabs); a version is present whenever any @HD field is set; sort and group order are one of the four constants;
lengths and insert sizes are in range; an MD5 is 16 bytes; extra tags are distinct two-byte tags other than the ones
the library has a field for. -/

/-- THE FULL STATEMENT (not a theorem: it is false, see `text_roundtrip_witness`): for every header built through
the API, parsing its text into a fresh header succeeds and exposes equal values -/
def text_roundtrip_full : Prop :=
  ∀ (E : Ext) (w : World), WInv w → ∀ h, h < w.hdrs.length → ApiBuilt E (view w h) →
    ∃ w', unmarshalText E (pushHeader w {}) w.hdrs.length (marshalText w h) = (w', .ok) ∧
      view w' w.hdrs.length = view w h

/-- text round trip, with the excluding hypothesis explicit: every URI already has the form the parser produces.
Parsing the text of the header into a fresh header succeeds; the new header exposes equal values (version, orders,
extra tags, comments, every reference / read group / program with its id, name and fields), hence serialises to
identical text and binary. -/
theorem text_roundtrip_partial (E : Ext) (w : World) (hw : WInv w) (h : Nat) (hh : h < w.hdrs.length)
    (api : ApiBuilt E (view w h)) (uc : UriCanon E (view w h)) :
    ∃ w', unmarshalText E (pushHeader w {}) w.hdrs.length (marshalText w h) = (w', .ok) ∧ WInv w' ∧
      view w' w.hdrs.length = view w h ∧
      marshalText w' w.hdrs.length = marshalText w h ∧ marshalBinary w' w.hdrs.length = marshalBinary w h := by
  obtain ⟨w', h1, h2, h3, _⟩ := text_roundtrip_view E w hw (view w h) (wfview_of E hw hh api uc)
  exact ⟨w', h1, h2, h3, by simp only [marshalText, h3], by simp only [marshalBinary, h3]⟩

/-- binary round trip (DecodeBinary ∘ EncodeBinary), same excluding hypothesis, sizes within the int32 fields of the
format: the decoded header exposes equal values, hence serialises to identical text and binary -/
theorem binary_roundtrip_partial (E : Ext) (w : World) (hw : WInv w) (h : Nat) (hh : h < w.hdrs.length)
    (api : ApiBuilt E (view w h)) (uc : UriCanon E (view w h))
    (hs1 : ((marshalText w h).length : Int) < 2147483648) (hs2 : ((view w h).refs.length : Int) < 2147483648)
    (hs3 : ∀ r ∈ (view w h).refs, (r.2.1.length : Int) + 1 < 2147483648) :
    ∃ w', decodeBinary E (pushHeader w {}) w.hdrs.length (marshalBinary w h) = (w', .ok) ∧ WInv w' ∧
      view w' w.hdrs.length = view w h ∧
      marshalText w' w.hdrs.length = marshalText w h ∧ marshalBinary w' w.hdrs.length = marshalBinary w h := by
  obtain ⟨w', h1, h2, h3⟩ := binary_roundtrip_view E w hw (view w h) (wfview_of E hw hh api uc) hs1 hs2 hs3
  exact ⟨w', h1, h2, h3, by simp only [marshalText, h3], by simp only [marshalBinary, h3]⟩

/-- framing (used by C05): DecodeBinary reads exactly the header block from the front of a longer stream — on
`MarshalBinary(h) ++ rest` it yields a header exposing the same values and leaves `rest`; and `decodeBinaryR` is
`decodeBinary` plus the unread bytes -/
theorem binary_frame_partial (E : Ext) (w : World) (hw : WInv w) (h : Nat) (hh : h < w.hdrs.length)
    (api : ApiBuilt E (view w h)) (uc : UriCanon E (view w h))
    (hs1 : ((marshalText w h).length : Int) < 2147483648) (hs2 : ((view w h).refs.length : Int) < 2147483648)
    (hs3 : ∀ r ∈ (view w h).refs, (r.2.1.length : Int) + 1 < 2147483648) (rest : Bytes) :
    (∃ w', decodeBinaryR E (pushHeader w {}) w.hdrs.length (marshalBinary w h ++ rest) = (w', .ok, rest) ∧ WInv w' ∧
      view w' w.hdrs.length = view w h) ∧
    ∀ b, ((decodeBinaryR E (pushHeader w {}) w.hdrs.length b).1, (decodeBinaryR E (pushHeader w {}) w.hdrs.length b).2.1) =
      decodeBinary E (pushHeader w {}) w.hdrs.length b :=
  ⟨decodeBinaryR_frame E w hw h hh api uc hs1 hs2 hs3 rest, fun b => decodeBinaryR_eq E _ _ b⟩

def binary_roundtrip_full : Prop :=
  ∀ (E : Ext) (w : World), WInv w → ∀ h, h < w.hdrs.length → ApiBuilt E (view w h) →
    ((marshalText w h).length : Int) < 2147483648 → ((view w h).refs.length : Int) < 2147483648 →
    (∀ r ∈ (view w h).refs, (r.2.1.length : Int) + 1 < 2147483648) →
    ∃ w', decodeBinary E (pushHeader w {}) w.hdrs.length (marshalBinary w h) = (w', .ok) ∧
      view w' w.hdrs.length = view w h

/-! ### the counterexample to the full statements (defect #26, recorded as a known finding): a reference built
through the API with the URI "/data/a.fa" — its text `UR:/data/a.fa` parses back as `UR:file:///data/a.fa` -/

theorem text_roundtrip_witness : ¬ text_roundtrip_full := by
  intro hfull
  obtain ⟨w', hu, hv⟩ := hfull goExt wW wW_inv 0 (by decide) wW_api
  have h1 := wW_parse
  rw [hu, hv, wW_view] at h1
  revert h1; decide

theorem binary_roundtrip_witness : ¬ binary_roundtrip_full := by
  intro hfull
  obtain ⟨w', hu, hv⟩ := hfull goExt wW wW_inv 0 (by decide) wW_api (by decide) (by decide)
    (by rw [wW_view]; intro r hr; simp only [List.mem_singleton] at hr; subst hr; decide)
  have h1 := wW_decode
  rw [hu, hv, wW_view] at h1
  revert h1; decide

/-! ### the guard "no TAB / LF / CR" of `ApiBuilt` is needed (recorded finding `c07.rt.text.unrepresentable`): a value
ending in CR (read from a line ending `\\r\\r\\n`) is written back as `…\\r\\n` and read as the value without it; a name
holding a TAB (SetName / NewReference accept it) makes the header's own text unparsable -/

set_option maxRecDepth 100000 in
theorem unclean_cr_witness :
    marshalText (unmarshalText goExt (pushHeader (run goExt {} [.pa (str "@SQ\tSN:a\tLN:10\tAS:x\r\r\n")]) {}) 1
        (marshalText (run goExt {} [.pa (str "@SQ\tSN:a\tLN:10\tAS:x\r\r\n")]) 0)).1 1 ≠
      marshalText (run goExt {} [.pa (str "@SQ\tSN:a\tLN:10\tAS:x\r\r\n")]) 0 := by decide

set_option maxRecDepth 100000 in
theorem unclean_tab_witness :
    (unmarshalText goExt (pushHeader (run goExt {} [.h0, .nr (str "a\tb") { len := 10 }, .ar 0 0]) {}) 1
        (marshalText (run goExt {} [.h0, .nr (str "a\tb") { len := 10 }, .ar 0 0]) 0)).2 = .err := by decide

/-! ### non-vacuity of the round-trip theorems (tests): a header with a version, sort order, a reference with MD5,
URI and an extra tag, a read group with a date in a non-UTC zone and an insert size, a program, a comment with a tab -/

set_option maxRecDepth 100000 in
/-- the hypotheses of `text_roundtrip_partial` / `binary_roundtrip_partial` are satisfiable by a non-trivial header,
and the conclusion can be observed on it -/
example : ∃ w', unmarshalText goExt (pushHeader wE {}) wE.hdrs.length (marshalText wE 0) = (w', .ok) ∧ WInv w' ∧
    view w' wE.hdrs.length = view wE 0 ∧ marshalText w' wE.hdrs.length = marshalText wE 0 ∧
    marshalBinary w' wE.hdrs.length = marshalBinary wE 0 :=
  text_roundtrip_partial goExt wE wE_inv 0 (by decide) wE_api.1 wE_api.2
set_option maxRecDepth 1000000 in
example : marshalText wE 0 = exText := by decide

/-- a header built through the API only, with three items of each kind after removals and a rename: ids are 0, 1, 2,
the hypotheses of the round-trip theorems hold, and so does their conclusion -/
example : (view wM 0).refs.map (fun x => (x.1, x.2.1)) = [(0, str "a"), (1, str "c"), (2, str "d")] ∧
    (view wM 0).rgs.map (fun x => (x.1, x.2.1)) = [(0, str "g2"), (1, str "x"), (2, str "g4")] ∧
    (view wM 0).pgs.map (fun x => x.1) = [0, 1, 2] := by rw [wM_view]; decide
set_option maxRecDepth 100000 in
example : ∃ w', decodeBinary goExt (pushHeader wM {}) wM.hdrs.length (marshalBinary wM 0) = (w', .ok) ∧ WInv w' ∧
    view w' wM.hdrs.length = view wM 0 ∧ marshalText w' wM.hdrs.length = marshalText wM 0 ∧
    marshalBinary w' wM.hdrs.length = marshalBinary wM 0 :=
  binary_roundtrip_partial goExt wM wM_inv 0 (by decide) wM_api.1 wM_api.2 (by decide) (by rw [wM_view]; decide)
    (by rw [wM_view]; intro r hr; simp only [List.mem_cons, List.not_mem_nil, or_false] at hr
        rcases hr with rfl | rfl | rfl <;> decide)

/-! ## Part 3: headers reachable through clean API operations are API-built — no hypothesis on the header

`CleanOp E op`: NewHeader(nil, refs), the Version/SortOrder/GroupOrder fields with a non-empty clean version and orders
0..3, comments without LF/CR, NewReference/NewReadGroup/NewProgram with well-formed arguments (`WFRef`/`WFRg`/`WFPg`: clean
strings, valid length, 16-byte MD5, canonical date and URI, distinct unknown extra tags), Add*/Remove*/SetName with a
clean name/Clone of items, taking pointers out of a header, Header.Clone, MergeHeaders, and UnmarshalText / NewHeader(text, refs)
of a `CleanText` (@SQ/@RG/@PG lines as the serialisers write them from well-formed items, @CO lines without LF/CR, each
ended by LF).  Not in the sub-language: DecodeBinary (`de`), @HD lines and lines in any other form, Header.Set (`hs`). -/

/-- every live header of a world reached from the empty world through clean operations is API-built, with canonical URIs -/
theorem apiBuilt_reachable (E : Ext) (ops : List Op) (hc : ∀ op ∈ ops, CleanOp E op) (h : Nat)
    (hl : live (run E {} ops) h = true) :
    ApiBuilt E (view (run E {} ops) h) ∧ UriCanon E (view (run E {} ops) h) :=
  apiBuilt_of_dinv (dinv_run E ops {} (dinv_empty E) hc) hl

/-- text round trip for EVERY header reachable through clean operations: parsing its text into a fresh header
succeeds and exposes equal values, hence identical text and binary -/
theorem text_roundtrip_reachable (E : Ext) (ops : List Op) (hc : ∀ op ∈ ops, CleanOp E op) (h : Nat)
    (hl : live (run E {} ops) h = true) :
    ∃ w', unmarshalText E (pushHeader (run E {} ops) {}) (run E {} ops).hdrs.length (marshalText (run E {} ops) h) = (w', .ok) ∧
      WInv w' ∧ view w' (run E {} ops).hdrs.length = view (run E {} ops) h ∧
      marshalText w' (run E {} ops).hdrs.length = marshalText (run E {} ops) h ∧
      marshalBinary w' (run E {} ops).hdrs.length = marshalBinary (run E {} ops) h :=
  text_roundtrip_partial E _ (hinv_reachable E ops).1 h (live_lt hl) (apiBuilt_reachable E ops hc h hl).1
    (apiBuilt_reachable E ops hc h hl).2

/-- binary round trip for every header reachable through clean operations (sizes within the int32 fields) -/
theorem binary_roundtrip_reachable (E : Ext) (ops : List Op) (hc : ∀ op ∈ ops, CleanOp E op) (h : Nat)
    (hl : live (run E {} ops) h = true)
    (hs1 : ((marshalText (run E {} ops) h).length : Int) < 2147483648)
    (hs2 : ((view (run E {} ops) h).refs.length : Int) < 2147483648)
    (hs3 : ∀ r ∈ (view (run E {} ops) h).refs, (r.2.1.length : Int) + 1 < 2147483648) :
    ∃ w', decodeBinary E (pushHeader (run E {} ops) {}) (run E {} ops).hdrs.length (marshalBinary (run E {} ops) h) = (w', .ok) ∧
      WInv w' ∧ view w' (run E {} ops).hdrs.length = view (run E {} ops) h ∧
      marshalText w' (run E {} ops).hdrs.length = marshalText (run E {} ops) h ∧
      marshalBinary w' (run E {} ops).hdrs.length = marshalBinary (run E {} ops) h :=
  binary_roundtrip_partial E _ (hinv_reachable E ops).1 h (live_lt hl) (apiBuilt_reachable E ops hc h hl).1
    (apiBuilt_reachable E ops hc h hl).2 hs1 hs2 hs3

/-- non-vacuity: a clean history of 22 operations (incl. UnmarshalText of three clean lines); its last header (a merge)
is live and has three references, three read groups and two programs; the theorems above apply to it without any
further hypothesis -/
example : live (run goExt {} exClean) 2 = true ∧
    (view (run goExt {} exClean) 2).refs.map (fun x => (x.1, x.2.1)) = [(0, str "a"), (1, str "c"), (2, str "d")] ∧
    (view (run goExt {} exClean) 2).rgs.map (fun x => (x.1, x.2.1)) = [(0, str "g3"), (1, str "x"), (2, str "g2")] ∧
    (view (run goExt {} exClean) 2).pgs.map (fun x => (x.1, x.2.1)) = [(0, str "p1"), (1, str "p2")] ∧
    (view (run goExt {} exClean) 2).f.comments = [str "x\ty", str "a\tb"] := by decide
example : ApiBuilt goExt (view (run goExt {} exClean) 2) ∧ UriCanon goExt (view (run goExt {} exClean) 2) :=
  apiBuilt_reachable goExt exClean exClean_clean 2 (by decide)

/-! ### non-vacuity (tests): a history with remove-then-add of the same name, a rename through a stale
pointer, a clone, parsed text, and a merge of three overlapping headers in which a reference is replaced -/
def exOps : List Op :=
  [.h0, .nr [97] { len := 10 }, .nr [98] { len := 20 }, .ar 0 0, .ar 0 1, .rr 0 0, .nr [98] { len := 20, asm := [120] },
   .ar 0 2, .sr 1 [99], .cl 0, .pa (str "@SQ\tSN:b\tLN:20\tUR:http://x/y\n@SQ\tSN:c\tLN:20\tXX:1\n"), .mg [2, 1, 0]]
set_option maxRecDepth 100000 in
example : (run goExt {} exOps).hdrs.length = 4 := by decide
set_option maxRecDepth 100000 in
example : (view (run goExt {} exOps) 3).refs.map (fun x => (x.1, x.2.1)) = [(0, [98]), (1, [99])] := by decide
set_option maxRecDepth 100000 in
example : (step goExt (run goExt {} exOps.dropLast) (.mg [2, 1, 0])).links = some (3, [[6, 9], [9], [9]]) := by decide

end Hts.Props.C07
