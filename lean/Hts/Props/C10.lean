/-
C10 — property theorems (stub: no theorem stated yet, so no obligation is counted).
-/
namespace Hts.Props.C10
end Hts.Props.C10
