/-
C10 — truncated or corrupted streams are never read as different valid data.

All theorems are about the byte-level reader `Hts.Model.BgzfBytes` (readHeader / readMember /
gzBody / readAll / hasEOF / bamHeader / bamNext / bamRecords), which runs over ARBITRARY byte strings
and is tied to bgzf.Reader / bam.Reader by the exhaustive truncation + substitution enumeration of
`go/cmd/harness/c10.go`.  `Quirks.repaired` is the reader with fixes C10-1, C10-2, C10-3 applied;
the `unrepaired_*` theorems exhibit, on the same model with `Quirks.unrepaired`, the three defects
of the unchanged tree.

Streams: `stream ms` for a list `ms` of members, each `Member.WellFramed c` — the 18-byte BGZF header
with BSIZE = size − 1, deflate data the codec decodes to the payload using exactly those bytes, and
the trailer carrying `c.crc32 payload` and the length.  `c : Codec` (compress/flate's decoder and
hash/crc32) is an arbitrary parameter; NO law about it is assumed anywhere in this file.

What is NOT proved here (and cannot be): that changing a byte of a member cannot yield another byte
string that inflates to a *different* payload with the *same* CRC-32 and length.  That is a property
of CRC-32/DEFLATE.  `data_only_after_verification` / `all_data_verified` prove that the checks are
performed on every path, for every input; the enumeration looks for escapes.
-/
import Hts.Lemmas.BgzfBytes
import Hts.Lemmas.BgzfBytesVerify
import Hts.Lemmas.BgzfBytesBam
import Hts.Lemmas.BgzfBytesSubst
namespace Hts.Props.C10
open Hts.Model.BgzfBytes Hts.Lemmas.BgzfBytes

/-! ## Truncation: BGZF -/

/-- **prefix_reads_prefix.**  For every stream of well-framed members and EVERY cut `k` (no bound on
the number or size of members), reading the first `k` bytes returns exactly the payloads of the `j`
members that lie completely before the cut, and then: the clean end `eof` if `k` is the boundary
after those `j` members, `io.ErrUnexpectedEOF` if the cut is anywhere inside the next member. -/
theorem prefix_reads_prefix (c : Codec) (ms : List Member) (hwf : ∀ m ∈ ms, m.WellFramed c) (k : Nat)
    (hk : k ≤ (stream ms).length) :
    ∃ j, j ≤ ms.length ∧ offset ms j ≤ k ∧ (j < ms.length → k < offset ms (j + 1)) ∧
      readAll .repaired c ((stream ms).take k) =
        (data (ms.take j), if k = offset ms j then .eof else .unexpectedEOF) :=
  readAll_take c hwf k hk

/-- The intact stream reads back completely and ends cleanly — for every variant of the reader. -/
theorem intact_stream_reads_back (q : Quirks) (c : Codec) (ms : List Member) (hwf : ∀ m ∈ ms, m.WellFramed c) :
    readAll q c (stream ms) = (data ms, .eof) :=
  readAll_stream q c hwf

/-- What a cut stream delivers is a prefix of what the intact stream delivers. -/
theorem prefix_data_is_prefix (c : Codec) (ms : List Member) (hwf : ∀ m ∈ ms, m.WellFramed c) (k : Nat)
    (hk : k ≤ (stream ms).length) :
    (readAll .repaired c ((stream ms).take k)).1 <+: (readAll .repaired c (stream ms)).1 := by
  obtain ⟨j, _, _, _, hr⟩ := readAll_take c hwf k hk
  rw [hr, readAll_stream .repaired c hwf]
  exact ⟨data (ms.drop j), (data_take_append_drop ms j).symm⟩

/-- **Clean end iff member boundary.** -/
theorem clean_eof_iff_member_boundary (c : Codec) (ms : List Member) (hwf : ∀ m ∈ ms, m.WellFramed c) (k : Nat)
    (hk : k ≤ (stream ms).length) :
    (readAll .repaired c ((stream ms).take k)).2 = .eof ↔ ∃ j, j ≤ ms.length ∧ k = offset ms j := by
  obtain ⟨j, hj, hlo, hhi, hr⟩ := readAll_take c hwf k hk
  rw [hr]
  constructor
  · intro h
    refine ⟨j, hj, ?_⟩
    apply Classical.byContradiction
    intro hne
    simp [hne] at h
  · rintro ⟨j', hj', hk'⟩
    have : j' = j := by
      apply Classical.byContradiction
      intro hne
      rcases Nat.lt_or_gt_of_ne hne with hlt | hgt
      · have := offset_strict ms hlt hj
        omega
      · have h1 := hhi (by omega)
        have h2 := offset_mono ms (show j + 1 ≤ j' by omega)
        omega
    subst this
    simp [hk']

/-- A cut strictly inside a member is reported as `io.ErrUnexpectedEOF`. -/
theorem cut_inside_member_is_error (c : Codec) (ms : List Member) (hwf : ∀ m ∈ ms, m.WellFramed c) (k : Nat)
    (hk : k ≤ (stream ms).length) (hin : ¬ ∃ j, j ≤ ms.length ∧ k = offset ms j) :
    (readAll .repaired c ((stream ms).take k)).2 = .unexpectedEOF := by
  obtain ⟨j, hj, _, _, hr⟩ := readAll_take c hwf k hk
  rw [hr]
  have : ¬ k = offset ms j := fun h => hin ⟨j, hj, h⟩
  simp [this]

/-- **HasEOF is false whenever a proper prefix ends cleanly.**  Hypothesis (the "no data block equals
the marker" law, in the form the statement needs): no member other than the last ends with the 28
marker bytes (each has at least 28 bytes). -/
theorem truncated_clean_end_hasEOF_false (c : Codec) (ms : List Member) (hwf : ∀ m ∈ ms, m.WellFramed c)
    (hnm : ∀ m ∈ ms.dropLast, 28 ≤ m.bytes.length ∧ ¬ magicBlock <:+ m.bytes)
    (k : Nat) (hk : k < (stream ms).length)
    (hclean : (readAll .repaired c ((stream ms).take k)).2 = .eof) :
    (hasEOF ((stream ms).take k)).1 = false := by
  obtain ⟨j, hj, rfl⟩ := (clean_eof_iff_member_boundary c ms hwf k (Nat.le_of_lt hk)).1 hclean
  have hjlt : j < ms.length := by
    rw [stream_length hwf] at hk
    apply Classical.byContradiction
    intro h
    have : j = ms.length := by omega
    subst this
    omega
  rw [take_offset hwf j]
  have hsub : ∀ m ∈ ms.take j, 28 ≤ m.bytes.length ∧ ¬ magicBlock <:+ m.bytes := by
    intro m hm
    apply hnm
    rw [List.dropLast_eq_take]
    have : ms.take j = (ms.take (ms.length - 1)).take j := by
      rw [List.take_take]; congr 1; omega
    rw [this] at hm
    exact List.mem_of_mem_take hm
  have := stream_no_marker_suffix (ms.take j) hsub
  cases h : (hasEOF (stream (ms.take j))).1 with
  | false => rfl
  | true => exact absurd ((hasEOF_true_iff _).1 h) this

/-! ## Corruption: data only after verification (EVERY byte string, every reader variant) -/

/-- **data_only_after_verification.**  For an arbitrary byte string `s`: if reading a block at `s`
succeeds, then `readMember` framed a member there and the gzip reader reached the *verified* end of
its body: the payload is what the deflate decoder produced, and the eight bytes after the deflate
data are its CRC-32 and its length (for every gzip member inside the block, as compress/gzip's
multistream mode allows several).  There is no other path on which a block yields data. -/
theorem data_only_after_verification (q : Quirks) (hq : q.dummyReadCountIgnored = false) (c : Codec)
    (s payload rest : Bytes) (h : readBlock q c s = .ok (payload, rest)) :
    ∃ f, readMember q c s = .ok f ∧ f.rest = rest ∧ Verified c f.body payload ∧ payload.length ≤ MaxBlockSize :=
  readBlock_ok_verified q hq c s payload rest h

/-- A single-member body that was accepted: CRC-32 and ISIZE of the decoded data match the trailer. -/
theorem verified_trailer_matches (c : Codec) (buf data : Bytes) (ne : Bool) (h : gzBody c buf = .ok (data, ne)) :
    ∃ payload used, c.inflate buf = .ok payload used ∧ 8 ≤ (buf.drop used).length ∧
      leNat ((buf.drop used).take 4) = c.crc32 payload ∧
      leNat (((buf.drop used).drop 4).take 4) = payload.length % 4294967296 ∧
      payload <+: data := by
  cases gzBody_ok_verified c buf data ne h with
  | single tr _ => exact ⟨_, _, tr.inflated, tr.present, tr.crc, tr.isize, List.prefix_refl _⟩
  | multi tr _ _ => exact ⟨_, _, tr.inflated, tr.present, tr.crc, tr.isize, List.prefix_append _ _⟩

/-- The member `readMember` frames is exactly the BSIZE+1 bytes its header announces: header,
then a non-empty body, then the rest of the input. -/
theorem framed_member_is_bsize_bytes (q : Quirks) (c : Codec) (s : Bytes) (f : Framed)
    (h : readMember q c s = .ok f) :
    ∃ hl, readHeader c.crc32 s = .ok (f.hdr, hl) ∧
      expectedMemberSize f.hdr.extra = some (hl + f.body.length) ∧
      0 < f.body.length ∧ s = s.take hl ++ (f.body ++ f.rest) :=
  readMember_ok_split q c s f h

/-- **all_data_verified.**  For EVERY byte string: everything `readAll` returns is the concatenation
of the payloads of members that were framed back to back from the start of the input and each passed
verification; the reader stopped with the error of the first block that did not. -/
theorem all_data_verified (q : Quirks) (hq : q.dummyReadCountIgnored = false) (c : Codec) (s : Bytes) :
    ∃ blocks, Delivered q c s blocks (readAll q c s).2 ∧ (readAll q c s).1 = (blocks.map (·.2)).flatten :=
  readAll_delivered q hq c s

/-- The repaired reader reports the clean end of a block read only on EMPTY input: no header field,
BSIZE value or body content of any byte string makes `readBlock` return `io.EOF` (on the unchanged
tree two paths did: `unrepaired_clean_eof_inside_member`, `unrepaired_zero_need_is_clean_eof`). -/
theorem clean_eof_only_on_empty_input (c : Codec) (s : Bytes) (h : readBlock .repaired c s = .error .eof) :
    s = [] :=
  readBlock_repaired_eof c s h

/-- **The corruption clause, as far as it is provable.**  For EVERY byte string (so for every stream
with any number of altered bytes): if the repaired reader ends cleanly, then the entire input, to its
last byte, was consumed as back-to-back members, each framed by its own BSIZE and each passing the
CRC-32/ISIZE verification of what was inflated from it, and the data returned is exactly theirs.
Hence an altered stream that does not fail consists solely of members whose checksums match their
decoded content; whether such an altered member can decode to *different* content is CRC-32's
business, not the reader's. -/
theorem clean_end_only_after_whole_input_verified (c : Codec) (s : Bytes)
    (h : (readAll .repaired c s).2 = .eof) : FullyFramed c s (readAll .repaired c s).1 :=
  clean_end_fully_framed c s h

/-- The recursion of `readAll` always makes progress (its guard branch is dead). -/
theorem readAll_unfolds (q : Quirks) (c : Codec) (s : Bytes) :
    readAll q c s =
      match readBlock q c s with
      | .error e => ([], e)
      | .ok (payload, rest) => (payload ++ (readAll q c rest).1, (readAll q c rest).2) :=
  readAll_eq q c s

/-! ## Corruption: one altered byte of a member's header or trailer (second sentence of the property)

The altered member `m` has the default 18-byte header (`Canon`), stands after any well-framed members
`pre` and before ANY bytes `t` (the rest of the stream, intact or not).  `stream_position_splits` says
that every position of a stream is such a place.  For each byte role the outcome is the one stated —
an error that is not the clean end after exactly the data of `pre`, or the very result of the intact
stream.  Where the outcome depends on what DEFLATE or CRC-32 make of shifted/altered bytes there is no
theorem (FLG with FNAME/FCOMMENT/FHCRC set, XLEN ≥ 6, BSIZE enlarged, every byte of the deflate
data): those positions are covered by the exhaustive enumeration only. -/

/-- every byte of a stream lies in exactly one member, and altering it alters only that member's bytes -/
theorem stream_position_splits (c : Codec) (ms : List Member) (hwf : ∀ m ∈ ms, m.WellFramed c) (p : Nat)
    (hp : p < (stream ms).length) (v : UInt8) :
    ∃ pre m post o, ms = pre ++ m :: post ∧ o < m.bytes.length ∧ p = (stream pre).length + o ∧
      (stream ms).set p v = stream pre ++ (m.bytes.set o v ++ stream post) :=
  stream_set_split hwf p hp v

/-- ID1, ID2, CM (offsets 0–2) altered: the data before, then `gzip.ErrHeader`. -/
theorem subst_magic_is_error (c : Codec) (pre : List Member) (hpre : ∀ m ∈ pre, m.WellFramed c) (m : Member)
    (m0 m1 m2 m3 xfl os : UInt8) (hc : Canon m m0 m1 m2 m3 xfl os) (o : Nat) (ho : o < 3) (v : UInt8)
    (hv : m.bytes[o]? ≠ some v) (t : Bytes) :
    readAll .repaired c (stream pre ++ (m.bytes.set o v ++ t)) = (data pre, .gzHeader) :=
  readAll_after_prefix_error .repaired c hpre (subst_magic .repaired c hc o ho v hv t)

/-- MTIME, XFL, OS (offsets 4–9) altered to anything: exactly the result of the unaltered stream. -/
theorem subst_mtime_xfl_os_is_identical (c : Codec) (pre : List Member) (hpre : ∀ m ∈ pre, m.WellFramed c)
    (m : Member) (hm : m.FramedOk c) (m0 m1 m2 m3 xfl os : UInt8) (hc : Canon m m0 m1 m2 m3 xfl os)
    (o : Nat) (h4 : 4 ≤ o) (h9 : o ≤ 9) (v : UInt8) (t : Bytes) :
    readAll .repaired c (stream pre ++ (m.bytes.set o v ++ t)) = readAll .repaired c (stream pre ++ (m.bytes ++ t)) :=
  readAll_after_prefix_same .repaired c hpre (subst_mtime_xfl_os .repaired c hm hc o h4 h9 v t)

/-- FLG (offset 3) altered in FTEXT or a reserved bit only: exactly the result of the unaltered stream. -/
theorem subst_flg_plain_is_identical (c : Codec) (pre : List Member) (hpre : ∀ m ∈ pre, m.WellFramed c)
    (m : Member) (hm : m.FramedOk c) (m0 m1 m2 m3 xfl os : UInt8) (hc : Canon m m0 m1 m2 m3 xfl os)
    (v : UInt8) (hf : FlgPlain v) (t : Bytes) :
    readAll .repaired c (stream pre ++ (m.bytes.set 3 v ++ t)) = readAll .repaired c (stream pre ++ (m.bytes ++ t)) :=
  readAll_after_prefix_same .repaired c hpre (subst_flg_plain .repaired c hm hc v hf t)

/-- FLG altered so that FEXTRA is clear (FNAME, FCOMMENT, FHCRC clear): the data before, then `ErrNoBlockSize`. -/
theorem subst_flg_no_extra_is_error (c : Codec) (pre : List Member) (hpre : ∀ m ∈ pre, m.WellFramed c)
    (m : Member) (m0 m1 m2 m3 xfl os : UInt8) (hc : Canon m m0 m1 m2 m3 xfl os) (v : UInt8)
    (h4 : flagSet v 4 = false) (h8 : flagSet v 8 = false) (h16 : flagSet v 16 = false) (h2 : flagSet v 2 = false)
    (t : Bytes) :
    readAll .repaired c (stream pre ++ (m.bytes.set 3 v ++ t)) = (data pre, .noBlockSize) :=
  readAll_after_prefix_error .repaired c hpre (subst_flg_no_extra .repaired c hc v h4 h8 h16 h2 t)

/-- XLEN low byte (offset 10) set below 6: the data before, then `ErrNoBlockSize`. -/
theorem subst_xlen_small_is_error (c : Codec) (pre : List Member) (hpre : ∀ m ∈ pre, m.WellFramed c)
    (m : Member) (m0 m1 m2 m3 xfl os : UInt8) (hc : Canon m m0 m1 m2 m3 xfl os) (n : Nat) (hn : n < 6) (t : Bytes) :
    readAll .repaired c (stream pre ++ (m.bytes.set 10 (UInt8.ofNat n) ++ t)) = (data pre, .noBlockSize) :=
  readAll_after_prefix_error .repaired c hpre (subst_xlen_small .repaired c hc n hn t)

/-- SI1, SI2, SLEN (offsets 12–15) altered: the data before, then `ErrNoBlockSize`. -/
theorem subst_subfield_is_error (c : Codec) (pre : List Member) (hpre : ∀ m ∈ pre, m.WellFramed c)
    (m : Member) (m0 m1 m2 m3 xfl os : UInt8) (hc : Canon m m0 m1 m2 m3 xfl os) (o : Nat) (h12 : 12 ≤ o)
    (h15 : o ≤ 15) (v : UInt8) (hv : m.bytes[o]? ≠ some v) (t : Bytes) :
    readAll .repaired c (stream pre ++ (m.bytes.set o v ++ t)) = (data pre, .noBlockSize) :=
  readAll_after_prefix_error .repaired c hpre (subst_subfield .repaired c hc o h12 h15 v hv t)

/-- BSIZE (offsets 16, 17) replaced by bytes announcing FEWER bytes than the member has: the data before,
then an error that is not the clean end.  Codec assumption: `PrefixDetermined`. -/
theorem subst_bsize_smaller_is_error (c : Codec) (hpd : PrefixDetermined c) (pre : List Member)
    (hpre : ∀ m ∈ pre, m.WellFramed c) (m : Member) (hm : m.FramedOk c) (m0 m1 m2 m3 xfl os : UInt8)
    (hc : Canon m m0 m1 m2 m3 xfl os) (b0 b1 : UInt8) (hlt : b0.toNat + 256 * b1.toNat + 1 < m.size) (t : Bytes) :
    ∃ e, e ≠ .eof ∧
      readAll .repaired c (stream pre ++ (hdr18 4 m0 m1 m2 m3 xfl os b0 b1 ++ (m.body ++ t))) = (data pre, e) := by
  obtain ⟨e, he, hr⟩ := subst_bsize_smaller c hpd hm hc b0 b1 hlt t
  exact ⟨e, he, readAll_after_prefix_error .repaired c hpre hr⟩

/-- Any byte of CRC-32 or ISIZE altered (any header layout): the data before, then an error that is not
the clean end (`gzip.ErrChecksum`, or `io.ErrShortBuffer` if the payload is oversize).  Codec assumption:
`PrefixDetermined`. -/
theorem subst_trailer_is_error (c : Codec) (hpd : PrefixDetermined c) (pre : List Member)
    (hpre : ∀ m ∈ pre, m.WellFramed c) (m : Member) (hm : m.FramedOk c) (j : Nat) (hj : j < 8) (v : UInt8)
    (hv : (m.crc ++ m.isize)[j]? ≠ some v) (t : Bytes) :
    ∃ e, e ≠ .eof ∧
      readAll .repaired c (stream pre ++ (m.header ++ ((m.cdata ++ (m.crc ++ m.isize).set j v) ++ t))) = (data pre, e) := by
  obtain ⟨e, he, hr⟩ := subst_trailer_byte .repaired c hpd hm j hj v hv t
  exact ⟨e, he, readAll_after_prefix_error .repaired c hpre hr⟩

/-! ## Truncation: BAM -/

/-- **bam_prefix_reads_prefix.**  A BGZF stream whose data is a BAM header `h` (any byte string
`DecodeBinary` accepts and rejects when cut, `HdrOk`) followed by well-formed records `rs`, cut at any
`k`: with `j` the number of complete members before the cut and `n` the number of data bytes they hold,
* if `n` ends inside the header, `bam.NewReader` fails;
* otherwise `Read` returns exactly the `i` records that are complete within those `n` bytes, and then
  the clean end `eof` **iff** `k` is a member boundary **and** `n` is a record boundary; in every other
  case `io.ErrUnexpectedEOF`. -/
theorem bam_prefix_reads_prefix (c : Codec) (sem : BamSem) (ms : List Member) (hwf : ∀ m ∈ ms, m.WellFramed c)
    (h : Bytes) (hh : HdrOk sem h) (rs : List Rec) (hrs : ∀ r ∈ rs, r.WellFormed)
    (hok : ∀ r ∈ rs, sem.recOk r.body = true) (hdata : data ms = h ++ recBytes rs)
    (k : Nat) (hk : k ≤ (stream ms).length) :
    ∃ j, j ≤ ms.length ∧ offset ms j ≤ k ∧ (j < ms.length → k < offset ms (j + 1)) ∧
      (((data (ms.take j)).length < h.length →
          ∃ e, bamReadAll .repaired c sem ((stream ms).take k) = .headerErr e) ∧
       (h.length ≤ (data (ms.take j)).length →
          ∃ i, i ≤ rs.length ∧ roff rs i ≤ (data (ms.take j)).length - h.length ∧
            (i < rs.length → (data (ms.take j)).length - h.length < roff rs (i + 1)) ∧
            bamReadAll .repaired c sem ((stream ms).take k) =
              .records ((rs.take i).map Rec.body)
                (if k = offset ms j ∧ (data (ms.take j)).length - h.length = roff rs i then .eof
                 else .unexpectedEOF))) := by
  obtain ⟨j, hj, hlo, hhi, hr⟩ := readAll_take c hwf k hk
  refine ⟨j, hj, hlo, hhi, ?_⟩
  -- the delivered data is the first n bytes of header ++ records
  have hpre : data (ms.take j) = (h ++ recBytes rs).take (data (ms.take j)).length := by
    rw [← hdata, data_take_append_drop ms j, List.take_left]
  have hn : (data (ms.take j)).length ≤ (h ++ recBytes rs).length := by
    rw [← hdata]
    rw [data_take_append_drop ms j, List.length_append]; omega
  obtain ⟨hA, hB⟩ := bam_flat_take sem hh hrs hok (data (ms.take j)).length hn
    (if k = offset ms j then .eof else .unexpectedEOF)
  rw [← hpre] at hA hB
  constructor
  · intro hlt
    obtain ⟨e', he'⟩ := hA hlt
    refine ⟨e', ?_⟩
    simp only [bamReadAll, hr]
    rw [he']
  · intro hge
    obtain ⟨i, hi, hilo, hihi, f, hf, hrec⟩ := hB hge
    refine ⟨i, hi, hilo, hihi, ?_⟩
    simp only [bamReadAll, hr]
    rw [hf]
    simp only [hrec]
    congr 1
    by_cases hkb : k = offset ms j <;> by_cases hrb : (data (ms.take j)).length - h.length = roff rs i <;>
      simp [hkb, hrb, shortErr]

/-- Every binary BAM header laid out as the SAM specification says (magic, l_text, text the text parser
accepts, n_ref, n_ref entries of l_name / NUL-terminated name / l_ref) satisfies the header hypothesis
`HdrOk` of `bam_prefix_reads_prefix`: it is accepted whatever follows, and every proper prefix of it
is rejected. -/
theorem bam_header_wellformed_is_hdrOk (sem : BamSem) (h : Hdr) (hw : h.WellFormed sem) : HdrOk sem h.bytes :=
  hdrOk_of_wellFormed sem h hw

/-! ## The three defects of the unchanged tree, on the same model (`Quirks.unrepaired`) -/

/-- Defect C10-1 (DESIGN §6 #31): on the unchanged tree a cut right after the gzip header of ANY
member (18 bytes into it for the default header) is a clean end. -/
theorem unrepaired_clean_eof_inside_member (c : Codec) (m : Member) (hm : m.WellFramed c) :
    readAll .unrepaired c (m.bytes.take m.header.length) = ([], .eof) := by
  have hb := Member.body_length hm.toFramedOk
  obtain ⟨hd, hr, hs⟩ := hm.hdrOk.reads []
  have e : m.bytes.take m.header.length = m.header ++ [] := by
    rw [Member.bytes, List.take_left]; simp
  have h1 : ¬ m.size = m.header.length := by simp [Member.size]; omega
  have h2 : ¬ m.size < m.header.length := by simp [Member.size]; omega
  have hdrop : (m.header ++ ([] : Bytes)).drop m.header.length = [] := List.drop_left
  have hl : ¬ (([] : Bytes).length ≥ m.size - m.header.length) := by simp [Member.size]; omega
  apply readAll_of_error
  rw [readBlock, readMember, e, hr]
  simp only [hs, h1, h2, if_false, hdrop, hl]
  simp [Quirks.unrepaired]

/-- Defect C10-2 (§6 #32): on the unchanged tree a member header whose BSIZE field is 17 (member size
18 = the header alone) is a clean end, whatever follows: a single-byte substitution in a later member
silently drops the rest of the file.  The repaired reader reports `ErrCorrupt`. -/
theorem unrepaired_zero_need_is_clean_eof (c : Codec) (m0 m1 m2 m3 xfl os : UInt8) (t : Bytes) :
    readMember .unrepaired c
        ([0x1f, 0x8b, 0x08, 0x04, m0, m1, m2, m3, xfl, os, 0x06, 0x00, 0x42, 0x43, 0x02, 0x00, 17, 0] ++ t)
      = .error .eof ∧
    readMember .repaired c
        ([0x1f, 0x8b, 0x08, 0x04, m0, m1, m2, m3, xfl, os, 0x06, 0x00, 0x42, 0x43, 0x02, 0x00, 17, 0] ++ t)
      = .error .corrupt := by
  have f8 : ((4 : UInt8) &&& 8 != 0) = false := by decide
  have f16 : ((4 : UInt8) &&& 16 != 0) = false := by decide
  have f2 : ((4 : UInt8) &&& 2 != 0) = false := by decide
  have hl : ¬ (t.length + 1 + 1 + 1 + 1 + 1 + 1 < 6) := by omega
  constructor <;>
    simp [readMember, readHeader, readExtra, readHdrCrc, flagSet, readOptString, f8, f16, f2, hl,
      expectedMemberSize, findSub, bgzfExtraPrefix, List.isPrefixOf, Quirks.unrepaired, Quirks.repaired]

/-- …and so, on the unchanged tree, the first block's data followed by a clean end. -/
theorem unrepaired_substituted_bsize_drops_data (c : Codec) (m : Member) (hm : m.WellFramed c)
    (m0 m1 m2 m3 xfl os : UInt8) (t : Bytes) :
    readAll .unrepaired c
        (m.bytes ++ ([0x1f, 0x8b, 0x08, 0x04, m0, m1, m2, m3, xfl, os, 0x06, 0x00, 0x42, 0x43, 0x02, 0x00, 17, 0] ++ t))
      = (m.payload, .eof) := by
  rw [readAll_member_append .unrepaired c hm, readAll_of_error (e := .eof)]
  · simp
  · rw [readBlock, (unrepaired_zero_need_is_clean_eof c m0 m1 m2 m3 xfl os t).1]

/-- Defect C10-3: on the unchanged tree a BAM stream that ends (cleanly, i.e. at a block boundary)
right after the 4-byte length prefix of a record is a clean end inside that record. -/
theorem unrepaired_bam_clean_eof_inside_record (r : Rec) (hr : r.WellFormed) :
    bamNext .unrepaired ⟨r.pre, .eof⟩ = .error .eof ∧ bamNext .repaired ⟨r.pre, .eof⟩ = .error .unexpectedEOF := by
  have h4 : (4 : Nat) ≠ 0 := by decide
  have hp := hr.pos
  have hs := hr.small
  have n0 : r.body.length ≠ 0 := by omega
  have l1 : r.pre.length ≥ 4 := by rw [hr.preLen]; exact Nat.le_refl 4
  have t1 : r.pre.take 4 = r.pre := List.take_of_length_le (by rw [hr.preLen]; exact Nat.le_refl 4)
  have d1 : r.pre.drop 4 = [] := List.drop_eq_nil_of_le (by rw [hr.preLen]; exact Nat.le_refl 4)
  constructor <;>
    simp [bamNext, Flat.readFull, h4, l1, t1, d1, hr.preVal, n0, Nat.not_le.mpr hs,
      Quirks.unrepaired, Quirks.repaired]

/-- Defect C10-4 (audit H-1): a member that is framed and whose trailer verifies but whose payload is
65537 bytes — one more than a block holds.  The unchanged tree accepts the block with the first 65536
bytes and NO error (the 65537th byte arrives together with io.EOF in the one-byte probe of
`readToEOF`, whose count was ignored): data that is not what was verified.  The repaired reader
reports io.ErrShortBuffer. -/
theorem unrepaired_probe_byte_dropped (c : Codec) (m : Member) (hm : m.FramedOk c)
    (hlen : m.payload.length = MaxBlockSize + 1) (t : Bytes) :
    readBlock .unrepaired c (m.bytes ++ t) = .ok (m.payload.take MaxBlockSize, t) ∧
    readBlock .repaired c (m.bytes ++ t) = .error .shortBuffer := by
  have hne : m.payload.isEmpty = false := by
    cases hp : m.payload with
    | nil => rw [hp] at hlen; simp [MaxBlockSize] at hlen
    | cons _ _ => rfl
  have hgt : ¬ m.payload.length ≤ MaxBlockSize := by omega
  obtain ⟨hd, hr⟩ := readMember_member .unrepaired c hm t
  obtain ⟨hd', hr'⟩ := readMember_member .repaired c hm t
  constructor
  · rw [readBlock, hr]
    have : ¬ MaxBlockSize + 1 ≤ MaxBlockSize := by omega
    simp [readToEOF, gzBody_member c hm, hlen, hne, Quirks.unrepaired, this]
  · rw [readBlock, hr']
    simp [readToEOF, gzBody_member c hm, hgt, Quirks.repaired]

/-- …so `data_only_after_verification` is false of the unchanged tree: it returns a block whose content
is not what the gzip reader verified (it is one byte short of it). -/
theorem unrepaired_returns_unverified_data (c : Codec) (m : Member) (hm : m.FramedOk c)
    (hlen : m.payload.length = MaxBlockSize + 1) :
    (readAll .unrepaired c m.bytes).1 = m.payload.take MaxBlockSize ∧
    (readAll .unrepaired c m.bytes).2 = .eof ∧ (readAll .unrepaired c m.bytes).1 ≠ m.payload := by
  have h1 := (unrepaired_probe_byte_dropped c m hm hlen []).1
  simp only [List.append_nil] at h1
  have hr : readAll .unrepaired c m.bytes = (m.payload.take MaxBlockSize ++ [], .eof) := by
    rw [readAll_eq, h1]
    simp only
    rw [readAll_nil]
  rw [hr]
  refine ⟨by simp, rfl, ?_⟩
  intro hc
  have := congrArg List.length hc
  simp [List.length_take, hlen] at this

/-! ## Non-vacuity: the hypotheses are satisfiable by non-trivial values -/

/-- a toy codec: `03 00` is the empty deflate stream (as in the real EOF marker), `01 00 00 ff ff` the
empty stored block compress/flate writes for an empty payload; otherwise a length
byte followed by that many literal bytes; the checksum is the byte sum -/
def toyCodec : Codec where
  inflate := fun buf =>
    match buf with
    | 3 :: 0 :: _ => .ok [] 2
    | 1 :: 0 :: 0 :: 0xff :: 0xff :: _ => .ok [] 5
    | n :: t => if t.length ≥ n.toNat then .ok (t.take n.toNat) (n.toNat + 1) else .fail 2 0
    | [] => .fail 2 0
  crc32 := fun p => p.foldl (fun a b => (a + b.toNat) % 4294967296) 0

def toyData : Member := ⟨canonHeader 0 0 0 0 0 0xff 30, [3, 7, 8, 9], [24, 0, 0, 0], [3, 0, 0, 0], [7, 8, 9]⟩
def toyEmpty : Member := ⟨canonHeader 0 0 0 0 0 0xff 31, [1, 0, 0, 0xff, 0xff], [0, 0, 0, 0], [0, 0, 0, 0], []⟩
def toyMarker : Member := ⟨canonHeader 0 0 0 0 0 0xff 28, [3, 0], [0, 0, 0, 0], [0, 0, 0, 0], []⟩

def toyData_wf : toyData.WellFramed toyCodec :=
  ⟨⟨canonHeader_ok _ _ _ _ _ _ _ (by decide) (by decide), by decide, by decide, by decide, by decide, by decide⟩, by decide⟩
def toyEmpty_wf : toyEmpty.WellFramed toyCodec :=
  ⟨⟨canonHeader_ok _ _ _ _ _ _ _ (by decide) (by decide), by decide, by decide, by decide, by decide, by decide⟩, by decide⟩
def toyMarker_wf : toyMarker.WellFramed toyCodec :=
  ⟨⟨canonHeader_ok _ _ _ _ _ _ _ (by decide) (by decide), by decide, by decide, by decide, by decide, by decide⟩, by decide⟩
/-- the marker member is byte for byte the BGZF EOF marker -/
example : toyMarker.bytes = magicBlock := by decide

/-- a closed three-member stream (data, empty block, marker) satisfying every hypothesis of the
truncation theorems, including the marker hypothesis -/
example : (∀ m ∈ [toyData, toyEmpty, toyMarker], m.WellFramed toyCodec) ∧
    (∀ m ∈ [toyData, toyEmpty, toyMarker].dropLast, 28 ≤ m.bytes.length ∧ ¬ magicBlock <:+ m.bytes) ∧
    (hasEOF (stream [toyData, toyEmpty, toyMarker])).1 = true := by
  refine ⟨?_, ?_, by decide⟩
  · intro m hm
    simp only [List.mem_cons, List.not_mem_nil, or_false] at hm
    rcases hm with rfl | rfl | rfl
    · exact toyData_wf
    · exact toyEmpty_wf
    · exact toyMarker_wf
  · intro m hm
    simp only [List.dropLast, List.mem_cons, List.not_mem_nil, or_false] at hm
    rcases hm with rfl | rfl <;> decide

/-- a well-formed BAM record and a header satisfying `HdrOk` (magic, l_text = 3, "@CO", n_ref = 0) -/
example : (⟨[2, 0, 0, 0], [0xaa, 0xbb]⟩ : Rec).WellFormed := by constructor <;> decide

example : HdrOk ⟨fun _ => true, fun _ => true⟩ (bamMagic ++ [3, 0, 0, 0] ++ [0x40, 0x43, 0x4f] ++ [0, 0, 0, 0]) := by
  constructor
  · intro t e
    simp [bamHeader, bamRefs, Flat.readFull, Flat.read, bamMagic, leNat]
  · intro n hn e
    have hn' : n < 15 := by simpa [bamMagic] using hn
    have : n = 0 ∨ n = 1 ∨ n = 2 ∨ n = 3 ∨ n = 4 ∨ n = 5 ∨ n = 6 ∨ n = 7 ∨ n = 8 ∨ n = 9 ∨ n = 10 ∨ n = 11
        ∨ n = 12 ∨ n = 13 ∨ n = 14 := by omega
    rcases this with rfl | rfl | rfl | rfl | rfl | rfl | rfl | rfl | rfl | rfl | rfl | rfl | rfl | rfl | rfl <;>
      simp [bamHeader, Flat.readFull, Flat.read, bamMagic, leNat]

/-- a codec that satisfies `PrefixDetermined` (a length byte, then that many literal bytes) and under
which the toy data member is framed: the hypotheses of the BSIZE/trailer theorems are satisfiable -/
def lenCodec : Codec where
  inflate := fun buf =>
    match buf with
    | n :: t => if t.length ≥ n.toNat then .ok (t.take n.toNat) (n.toNat + 1) else .fail 2 0
    | [] => .fail 2 0
  crc32 := toyCodec.crc32

example : PrefixDetermined lenCodec := by
  intro a b p u ha hua hub htk
  cases a with
  | nil => simp [lenCodec] at ha
  | cons n t =>
    simp only [lenCodec] at ha ⊢
    split at ha
    · rename_i hlen
      injection ha with hp hu
      subst hu
      cases b with
      | nil => simp at hub
      | cons n' t' =>
        simp only [List.take_succ_cons, List.cons.injEq] at htk
        obtain ⟨hn, ht⟩ := htk
        subst hn
        have hl' : t'.length ≥ n.toNat := by simpa using hub
        simp only [hl', if_true, ← hp, ht]
    · simp at ha

example : toyData.FramedOk lenCodec :=
  ⟨canonHeader_ok _ _ _ _ _ _ _ (by decide) (by decide), by decide, by decide, by decide, by decide, by decide⟩

/-- the toy data member has the default header -/
example : Canon toyData 0 0 0 0 0 0xff := ⟨rfl, by decide⟩

/-- a header with a text and one reference entry ("c1\0", length 1000) is well-formed -/
example : (⟨[3, 0, 0, 0], [0x40, 0x43, 0x4f], [1, 0, 0, 0], [⟨[3, 0, 0, 0], [0x63, 0x31, 0], [0xe8, 3, 0, 0]⟩]⟩ : Hdr).WellFormed
    ⟨fun _ => true, fun _ => true⟩ := by
  constructor <;> try decide
  intro r hr
  simp only [List.mem_cons, List.not_mem_nil, or_false] at hr
  subst hr
  constructor <;> decide

end Hts.Props.C10
