/-
C01 — BGZF write → read round trip is lossless for every write pattern and setting.
PROPERTY THEOREMS ONLY (helper lemmas live in Hts.Lemmas.Bgzf*).  Every statement quantifies over all
scripts, payloads, block contents and read sizes; nothing here is bounded or sampled.

Models: Hts.Model.BgzfWriter (block splitting of Write/Flush/Wait/Close), Hts.Model.Member (member
framing, `Codec` = DEFLATE/CRC-32 with the laws assumed), Hts.Model.BgzfSeqRead (Read/ReadByte over
decoded blocks).  Compression level is inside `Codec`; writer/reader concurrency (wc, rd) does not
occur in these sequential models; `roundtrip_every_wc` composes the round trip with the writer LTS of C12/C09
(every wc, every interleaving) through `Hts.Model.WriterCompose`; the reader's rd is owned by C02
(`readahead_refines_sequential`, not composed here) and is checked here by correspondence.
-/
import Hts.Lemmas.BgzfBytesMember
import Hts.Lemmas.BgzfWriter
import Hts.Lemmas.BgzfSeqRead
import Hts.Lemmas.BgzfStream
import Hts.Lemmas.BgzfToyCodec
import Hts.Lemmas.WriterCompose
namespace Hts.Props.C01
open Hts.Model Hts.Model.BgzfWriter

/-! ### writer invariant -/

/-- Whatever the script, the queued blocks followed by the active block are exactly the accepted
payloads, concatenated in call order (nothing lost, duplicated or reordered). -/
theorem writer_flatten {α : Type} (ops : List (Op α)) :
    (after ops).emitted.flatten ++ (after ops).active = accepted ops :=
  after_held ops

/-- Whatever the script: the active block is never full; until Close every queued block has between 1
and BlockSize bytes; after Close the queue is such data blocks followed by the one block Close queued
(shorter than BlockSize, possibly empty) and the active block is empty. -/
theorem writer_blocks {α : Type} (ops : List (Op α)) :
    (after ops).active.length < BlockSize ∧
    ((after ops).closed = false → ∀ blk ∈ (after ops).emitted, 1 ≤ blk.length ∧ blk.length ≤ BlockSize) ∧
    ((after ops).closed = true → (after ops).active = [] ∧ ∃ pre last, (after ops).emitted = pre ++ [last] ∧
        (∀ blk ∈ pre, 1 ≤ blk.length ∧ blk.length ≤ BlockSize) ∧ last.length < BlockSize) := by
  have h := after_inv ops
  exact ⟨h.active_lt, h.open_blocks, h.closed_blocks⟩

/-- The writer is closed exactly when the script contains a Close. -/
theorem writer_closed_iff {α : Type} (ops : List (Op α)) : (after ops).closed = hasClose ops :=
  after_closed ops

/-- A Write on an open writer accepts every byte. -/
theorem write_accepts_all {α : Type} (s : State α) (b : List α) (h : s.closed = false) :
    (write BlockSize blockSize_pos s b).2 = .ok b.length := by
  simp [write, h]

/-- A payload that fits into the room left in the active block is appended to it (and the block is
queued exactly when that fills it): it is not split. -/
theorem write_fits_not_split {α : Type} (s : State α) (b : List α) (hc : s.closed = false) (hb : b ≠ [])
    (hfit : s.active.length + b.length ≤ BlockSize) :
    (write BlockSize blockSize_pos s b).1 =
      if s.active.length + b.length = BlockSize then { s with active := [], emitted := s.emitted ++ [s.active ++ b] }
      else { s with active := s.active ++ b } := by
  simp only [write, hc, Bool.false_eq_true, if_false, writeLoop_fits BlockSize blockSize_pos b s.active s.emitted hb hfit]
  split <;> rfl

/-- A payload of at most one block that does not fit into the room left makes the writer queue the
active block and start a new one with the payload: it is not split either. -/
theorem write_nofit_own_block {α : Type} (s : State α) (b : List α) (hc : s.closed = false)
    (ha : s.active ≠ []) (hal : s.active.length ≤ BlockSize)
    (hnofit : BlockSize < s.active.length + b.length) (hb : b.length ≤ BlockSize) :
    (write BlockSize blockSize_pos s b).1 =
      if b.length = BlockSize then { s with active := [], emitted := s.emitted ++ [s.active] ++ [b] }
      else { s with active := b, emitted := s.emitted ++ [s.active] } := by
  simp only [write, hc, Bool.false_eq_true, if_false,
    writeLoop_nofit BlockSize blockSize_pos b s.active s.emitted ha hal hnofit hb]
  split <;> rfl

/-- Hence in every reachable open state a non-empty payload of at most BlockSize bytes lands inside a
single block (queued or active). -/
theorem write_lands_in_one_block {α : Type} (ops : List (Op α)) (b : List α) (hc : (after ops).closed = false)
    (hb : b ≠ []) (hlen : b.length ≤ BlockSize) :
    let s' := (write BlockSize blockSize_pos (after ops) b).1
    ∃ blk ∈ s'.emitted ++ [s'.active], b <:+: blk := by
  have hlt := (writer_blocks ops).1
  by_cases hfit : (after ops).active.length + b.length ≤ BlockSize
  · simp only [write_fits_not_split _ b hc hb hfit]
    split
    · exact ⟨(after ops).active ++ b, by simp, ⟨(after ops).active, [], by simp⟩⟩
    · exact ⟨(after ops).active ++ b, by simp, ⟨(after ops).active, [], by simp⟩⟩
  · have ha : (after ops).active ≠ [] := by
      intro h; rw [h] at hfit; simp at hfit; omega
    simp only [write_nofit_own_block _ b hc ha (Nat.le_of_lt hlt) (by omega) hlen]
    split
    · exact ⟨b, by simp, List.infix_refl b⟩
    · exact ⟨b, by simp, List.infix_refl b⟩

/-! ### sequential reader -/

open BgzfSeqRead in
/-- In every history of Read/ReadByte calls on a file with decoded blocks `blocks` (any sizes, empty
blocks anywhere), the next call returns exactly the next `min want remaining` bytes of the flat data, and
reports io.EOF exactly when fewer bytes than asked for were left or nothing was left. -/
theorem reader_flat {α : Type} (blocks : List (List α)) (s0 : BgzfSeqRead.State α) (hinit : init blocks = some s0)
    (pre : List BgzfSeqRead.Op) (op : BgzfSeqRead.Op) :
    let pos := (pre.map Op.want).sum
    let r := step (BgzfSeqRead.run s0 pre).1 op
    r.2.1 = (blocks.flatten.drop pos).take op.want ∧
    (r.2.2 = true ↔ ((blocks.flatten.drop pos).length < op.want ∨ blocks.flatten.drop pos = [])) := by
  obtain ⟨hinv, hrem⟩ := init_inv blocks s0 hinit
  obtain ⟨_, h2, h3⟩ := run_spec s0 pre hinv
  obtain ⟨s1, s2, s3, _⟩ := step_spec (BgzfSeqRead.run s0 pre).1 op h3
  rw [h2, hrem] at s1 s3
  exact ⟨s1, s3⟩

open BgzfSeqRead in
/-- The bytes returned by any history are, concatenated, a prefix of the flat data: its first
`Σ want` bytes. -/
theorem reader_prefix {α : Type} (blocks : List (List α)) (s0 : BgzfSeqRead.State α) (hinit : init blocks = some s0)
    (ops : List BgzfSeqRead.Op) :
    delivered (BgzfSeqRead.run s0 ops).2 = blocks.flatten.take (ops.map Op.want).sum := by
  obtain ⟨hinv, hrem⟩ := init_inv blocks s0 hinit
  rw [(run_spec s0 ops hinv).1, hrem]

open BgzfSeqRead in
/-- A short or empty result only happens together with io.EOF, and once a call has returned io.EOF
everything returned so far is the whole flat data. -/
theorem reader_eof_complete {α : Type} (blocks : List (List α)) (s0 : BgzfSeqRead.State α) (hinit : init blocks = some s0)
    (pre : List BgzfSeqRead.Op) (op : BgzfSeqRead.Op) :
    let r := step (BgzfSeqRead.run s0 pre).1 op
    (r.2.1.length < op.want → r.2.2 = true) ∧
    (r.2.2 = true → delivered (BgzfSeqRead.run s0 pre).2 ++ r.2.1 = blocks.flatten) := by
  obtain ⟨h1, h2⟩ := reader_flat blocks s0 hinit pre op
  have hp := reader_prefix blocks s0 hinit pre
  simp only at h1 h2 ⊢
  refine ⟨fun hshort => ?_, fun heof => ?_⟩
  · rw [h2]; rw [h1, List.length_take] at hshort; left; omega
  · rw [hp, h1]
    have hle : (blocks.flatten.drop (pre.map Op.want).sum).length ≤ op.want := by
      rcases h2.mp heof with h | h
      · omega
      · simp [h]
    rw [List.take_of_length_le hle, List.take_append_drop]

/-! ### round trip -/

open Member in
/-- For every codec satisfying the laws, every header setting the gzip reader can take, every write
script that closes the writer and whose Close returned nil: the reader meets blocks whose concatenation
is exactly the accepted payloads, so (by `reader_flat`/`reader_eof_complete`) every mix of Read sizes and
ReadByte returns those bytes in order and then io.EOF. -/
theorem roundtrip (c : Codec) (h : Header) (hr : ReaderOK h) (wops : List (Op Byte)) (hclose : hasClose wops = true)
    (hok : (closeOutput c.toCodecFns h (after wops).emitted).2 = none) :
    ∃ blocks r0, readStream c.toCodecFns (closeOutput c.toCodecFns h (after wops).emitted).1 = some blocks ∧
      BgzfSeqRead.init blocks = some r0 ∧ blocks.flatten = accepted wops ∧
      ∀ rops : List BgzfSeqRead.Op,
        BgzfSeqRead.delivered (BgzfSeqRead.run r0 rops).2 = (accepted wops).take (rops.map BgzfSeqRead.Op.want).sum := by
  have hcl : (after wops).closed = true := by rw [writer_closed_iff, hclose]
  obtain ⟨_, _, hcb⟩ := writer_blocks wops
  obtain ⟨hact, pre, last, hem, hpre, hlast⟩ := hcb hcl
  -- Close returned nil: every queued block was written
  have hrn : (render c.toCodecFns h (after wops).emitted).2 = none := by
    simpa only [closeOutput_eq] using hok
  have hw := (render_snd_none _ _ _).mp hrn
  have hout : (closeOutput c.toCodecFns h (after wops).emitted).1 =
      (((after wops).emitted.map (mb c.toCodecFns h)).flatten ++ magicBlock) := by
    simp only [closeOutput_eq, render_fst, hrn, hw, if_true]
  have hfits : ∀ p ∈ (after wops).emitted, Fits c.toCodecFns h p ∧ p.length ≤ BgzfWriter.MaxBlockSize := by
    intro p hp
    refine ⟨by have := written_fits c.toCodecFns h (after wops).emitted p; rw [hw] at this; exact this hp, ?_⟩
    rw [hem] at hp
    rcases List.mem_append.mp hp with h' | h'
    · have := (hpre p h').2; simp [BlockSize, MaxBlockSize] at this ⊢; omega
    · simp at h'; subst h'; simp [BlockSize, MaxBlockSize] at hlast ⊢; omega
  have hrs := readStream_closed c h hr (after wops).emitted hfits
  have hflat : ((after wops).emitted ++ [[]]).flatten = accepted wops := by
    have := writer_flatten wops
    rw [hact] at this; simpa using this
  cases hem' : (after wops).emitted ++ [[]] with
  | nil => simp at hem'
  | cons b bs =>
    refine ⟨b :: bs, ⟨b, bs, false⟩, by rw [hout, hrs, hem'], rfl, by rw [← hem', hflat], fun rops => ?_⟩
    have := reader_prefix (b :: bs) ⟨b, bs, false⟩ rfl rops
    rw [this, ← hem', hflat]

/-! ### the round trip through C10's byte-level reader model, and the io.EOF clause -/

open Member in
/-- The reader half on the byte-level reader model of C10 (`Hts.Model.BgzfBytes`, which is driven against
bgzf.Reader on arbitrary byte strings): for every lawful codec, every header gzip.Reader accepts, every script
with a Close that returned nil, `NewReader` + `Read`… over the produced BYTES deliver exactly the accepted
payloads and then the clean io.EOF (no other terminal error), for the repaired and the unrepaired reader alike. -/
theorem roundtrip_bytes (q : BgzfBytes.Quirks) (c : Codec) (h : Header) (hr : ReaderOK h) (wops : List (Op Byte))
    (hclose : hasClose wops = true) (hok : (closeOutput c.toCodecFns h (after wops).emitted).2 = none) :
    BgzfBytes.readAll q (toBytesCodec c.toCodecFns) (closeOutput c.toCodecFns h (after wops).emitted).1 =
      (accepted wops, .eof) := by
  have hcl : (after wops).closed = true := by rw [writer_closed_iff, hclose]
  obtain ⟨_, _, hcb⟩ := writer_blocks wops
  obtain ⟨hact, pre, last, hem, hpre, hlast⟩ := hcb hcl
  have hrn : (render c.toCodecFns h (after wops).emitted).2 = none := by
    simpa only [closeOutput_eq] using hok
  have hw := (render_snd_none _ _ _).mp hrn
  have hout : (closeOutput c.toCodecFns h (after wops).emitted).1 =
      (((after wops).emitted.map (mb c.toCodecFns h)).flatten ++ magicBlock) := by
    simp only [closeOutput_eq, render_fst, hrn, hw, if_true]
  have hfits : ∀ p ∈ (after wops).emitted, Fits c.toCodecFns h p ∧ p.length ≤ BgzfWriter.MaxBlockSize := by
    intro p hp
    refine ⟨by have := written_fits c.toCodecFns h (after wops).emitted p; rw [hw] at this; exact this hp, ?_⟩
    rw [hem] at hp
    rcases List.mem_append.mp hp with h' | h'
    · have := (hpre p h').2; simp [BlockSize, MaxBlockSize] at this ⊢; omega
    · simp at h'; subst h'; simp [BlockSize, MaxBlockSize] at hlast ⊢; omega
  rw [hout, readAll_closed q c h hr _ hfits]
  have := writer_flatten wops
  rw [hact] at this
  simp only [List.append_nil] at this
  rw [this]

open Member in
/-- The stream the writer produces — under ANY header setting gzip.Writer and gzip.Reader accept (Name, Comment,
user Extra, ModTime, OS), for any script with a Close that returned nil — is a stream of well-framed members in the
sense of C10's lemma library (`Hts.Lemmas.BgzfBytes`: each header is `HeaderOk`, i.e. read completely by
`readHeader`, announcing the member size, every proper prefix a short read), whose payloads concatenate to the
accepted bytes.  Hence C10's theorems about such streams (truncation at every cut: `Hts.Props.C10.prefix_reads_prefix`,
…) apply to the writer's output for every header, not only the default 18-byte one. -/
theorem produced_stream_wellframed (c : Codec) (h : Header) (hr : ReaderOK h) (wops : List (Op Byte))
    (hclose : hasClose wops = true) (hok : (closeOutput c.toCodecFns h (after wops).emitted).2 = none) :
    ∃ ms : List Hts.Lemmas.BgzfBytes.Member,
      (closeOutput c.toCodecFns h (after wops).emitted).1 = Hts.Lemmas.BgzfBytes.stream ms ∧
      (∀ m ∈ ms, m.WellFramed (toBytesCodec c.toCodecFns)) ∧
      Hts.Lemmas.BgzfBytes.data ms = accepted wops := by
  have hcl : (after wops).closed = true := by rw [writer_closed_iff, hclose]
  obtain ⟨_, _, hcb⟩ := writer_blocks wops
  obtain ⟨hact, pre, last, hem, hpre, hlast⟩ := hcb hcl
  have hrn : (render c.toCodecFns h (after wops).emitted).2 = none := by
    simpa only [closeOutput_eq] using hok
  have hw := (render_snd_none _ _ _).mp hrn
  have hout : (closeOutput c.toCodecFns h (after wops).emitted).1 =
      (((after wops).emitted.map (mb c.toCodecFns h)).flatten ++ magicBlock) := by
    simp only [closeOutput_eq, render_fst, hrn, hw, if_true]
  have hfits : ∀ p ∈ (after wops).emitted, Fits c.toCodecFns h p ∧ p.length ≤ BgzfWriter.MaxBlockSize := by
    intro p hp
    refine ⟨by have := written_fits c.toCodecFns h (after wops).emitted p; rw [hw] at this; exact this hp, ?_⟩
    rw [hem] at hp
    rcases List.mem_append.mp hp with h' | h'
    · have := (hpre p h').2; simp [BlockSize, MaxBlockSize] at this ⊢; omega
    · simp at h'; subst h'; simp [BlockSize, MaxBlockSize] at hlast ⊢; omega
  refine ⟨(after wops).emitted.map (blockM c.toCodecFns h) ++ [markerM], ?_, ?_, ?_⟩
  · rw [hout]
    simp [Hts.Lemmas.BgzfBytes.stream, blockM_bytes, markerM_bytes, Function.comp_def]
  · intro m hm
    rcases List.mem_append.mp hm with h' | h'
    · obtain ⟨p, hp, rfl⟩ := List.mem_map.mp h'
      have := hfits p hp
      exact blockM_wf c h p this.1.1 hr this.1.2 this.2
    · simp at h'; subst h'; exact markerM_wf c
  · have := writer_flatten wops
    rw [hact] at this
    simp only [List.append_nil] at this
    simp [Hts.Lemmas.BgzfBytes.data, blockM, markerM, Function.comp_def, this]

open Member in
/-- default header, codec within the bound: every script with a Close, read by C10's byte-level model -/
theorem roundtrip_bytes_default (q : BgzfBytes.Quirks) (c : Codec) (hb : Bounded c.toCodecFns) (wops : List (Op Byte))
    (hclose : hasClose wops = true) :
    BgzfBytes.readAll q (toBytesCodec c.toCodecFns) (closeOutput c.toCodecFns {} (after wops).emitted).1 =
      (accepted wops, .eof) :=
  roundtrip_bytes q c {} ⟨by simp, by simp⟩ wops hclose (default_output_ok c.toCodecFns hb wops hclose)

open Member BgzfSeqRead in
/-- The io.EOF clause of the round trip, for every read history: on the blocks the reader meets in the produced
stream, a short or empty result comes only with io.EOF; a call that returns io.EOF has completed the accepted
payloads; and once everything has been asked for, the next call returns no byte and io.EOF. -/
theorem roundtrip_eof (c : Codec) (h : Header) (hr : ReaderOK h) (wops : List (Op Byte)) (hclose : hasClose wops = true)
    (hok : (closeOutput c.toCodecFns h (after wops).emitted).2 = none)
    (blocks : List (List Byte)) (r0 : BgzfSeqRead.State Byte)
    (hrs : readStream c.toCodecFns (closeOutput c.toCodecFns h (after wops).emitted).1 = some blocks)
    (hinit : BgzfSeqRead.init blocks = some r0) (pre : List BgzfSeqRead.Op) (op : BgzfSeqRead.Op) :
    let r := BgzfSeqRead.step (BgzfSeqRead.run r0 pre).1 op
    (r.2.1.length < op.want → r.2.2 = true) ∧
    (r.2.2 = true → delivered (BgzfSeqRead.run r0 pre).2 ++ r.2.1 = accepted wops) ∧
    ((accepted wops).length ≤ (pre.map Op.want).sum → r.2 = ([], true)) := by
  obtain ⟨blocks', _, hrs', _, hflat, _⟩ := roundtrip c h hr wops hclose hok
  rw [hrs] at hrs'
  cases hrs'
  obtain ⟨e1, e2⟩ := reader_eof_complete blocks r0 hinit pre op
  obtain ⟨f1, f2⟩ := reader_flat blocks r0 hinit pre op
  simp only at e1 e2 f1 f2 ⊢
  rw [hflat] at e2 f1 f2
  refine ⟨e1, e2, fun hle => ?_⟩
  have hnil : (accepted wops).drop (pre.map Op.want).sum = [] := List.drop_eq_nil_of_le hle
  rw [hnil] at f1 f2
  have h2 : (step (BgzfSeqRead.run r0 pre).1 op).2.2 = true := f2.mpr (Or.inr rfl)
  have h1 : (step (BgzfSeqRead.run r0 pre).1 op).2.1 = [] := by rw [f1]; simp
  exact Prod.ext h1 h2

open Member in
/-- With the writer's default header and a codec within zlib's deflateBound (what `compressBound`
relies on), no block of at most BlockSize bytes is ever refused. -/
theorem default_header_fits (c : CodecFns) (hb : Bounded c) (p : List Byte) (hp : p.length ≤ BlockSize) :
    Fits c {} p :=
  default_fits c hb p hp

open Member in
/-- Hence, with the default header (what C01 quantifies over: levels, wc, rd, scripts) and a lawful codec
within the bound, EVERY script that closes the writer round-trips: Close returns nil and the reader
delivers exactly the accepted payloads for every read script. -/
theorem roundtrip_default (c : Codec) (hb : Bounded c.toCodecFns) (wops : List (Op Byte)) (hclose : hasClose wops = true) :
    (closeOutput c.toCodecFns {} (after wops).emitted).2 = none ∧
    ∃ blocks r0, readStream c.toCodecFns (closeOutput c.toCodecFns {} (after wops).emitted).1 = some blocks ∧
      BgzfSeqRead.init blocks = some r0 ∧ blocks.flatten = accepted wops ∧
      ∀ rops : List BgzfSeqRead.Op,
        BgzfSeqRead.delivered (BgzfSeqRead.run r0 rops).2 = (accepted wops).take (rops.map BgzfSeqRead.Op.want).sum := by
  have hok := default_output_ok c.toCodecFns hb wops hclose
  exact ⟨hok, roundtrip c {} ⟨by simp, by simp⟩ wops hclose hok⟩

/-! ### round trip for every writer concurrency and every schedule -/

open Member Hts.Model.WriterCompose in
/-- The bytes produced under ANY writer concurrency `wc ≥ 0` and ANY interleaving of the writer's goroutines
(writer LTS, no I/O faults), for any script that closes the writer and whose blocks are all accepted
(`Close` = nil in the sequential model), read back by the sequential reader give exactly the accepted payloads,
for every mix of read sizes, then io.EOF (`reader_eof_complete`). -/
theorem roundtrip_every_wc (wc : Nat) (c : Codec) (h : Header) (hr : ReaderOK h) (wops : List (Op Byte))
    (hclose : hasClose wops = true) (hok : (closeOutput c.toCodecFns h (after wops).emitted).2 = none)
    (s : WriterLTS.State) (hreach : WriterLTS.Reachable (cfgOf wc c.toCodecFns h wops) s) (hidle : WriterLTS.AllIdle s) :
    ∃ blocks r0, readStream c.toCodecFns (deliveredBytes c.toCodecFns h (after wops).emitted s) = some blocks ∧
      BgzfSeqRead.init blocks = some r0 ∧ blocks.flatten = accepted wops ∧
      ∀ rops : List BgzfSeqRead.Op,
        BgzfSeqRead.delivered (BgzfSeqRead.run r0 rops).2 = (accepted wops).take (rops.map BgzfSeqRead.Op.want).sum := by
  have hb : deliveredBytes c.toCodecFns h (after wops).emitted s = (closeOutput c.toCodecFns h (after wops).emitted).1 := by
    rw [compose_output wc c.toCodecFns h wops s hreach hidle]
    simp only [closeOutput_eq, hclose, true_and]
  rw [hb]
  exact roundtrip c h hr wops hclose hok

open Member Hts.Model.WriterCompose in
/-- With the default header and a lawful codec within zlib's bound: EVERY script that closes the writer
round-trips under every `wc` and every schedule. -/
theorem roundtrip_every_wc_default (wc : Nat) (c : Codec) (hb : Bounded c.toCodecFns) (wops : List (Op Byte))
    (hclose : hasClose wops = true) (s : WriterLTS.State)
    (hreach : WriterLTS.Reachable (cfgOf wc c.toCodecFns {} wops) s) (hidle : WriterLTS.AllIdle s) :
    ∃ blocks r0, readStream c.toCodecFns (deliveredBytes c.toCodecFns {} (after wops).emitted s) = some blocks ∧
      BgzfSeqRead.init blocks = some r0 ∧ blocks.flatten = accepted wops ∧
      ∀ rops : List BgzfSeqRead.Op,
        BgzfSeqRead.delivered (BgzfSeqRead.run r0 rops).2 = (accepted wops).take (rops.map BgzfSeqRead.Op.want).sum :=
  roundtrip_every_wc wc c {} ⟨by simp, by simp⟩ wops hclose (default_output_ok c.toCodecFns hb wops hclose) s hreach hidle

/-- such states exist for every script and every `wc`: every execution of the writer LTS can be continued to rest
(`Hts.Props.C09.writer_calls_return`), so the statement above is about something. -/
theorem every_wc_run_comes_to_rest (wc : Nat) (c : Member.CodecFns) (h : Member.Header) (wops : List (Op Member.Byte)) :
    ∃ s, WriterLTS.Reachable (WriterCompose.cfgOf wc c h wops) s ∧ WriterLTS.AllIdle s := by
  have hinit : WriterLTS.Reachable (WriterCompose.cfgOf wc c h wops) (WriterLTS.init _) := .init
  -- strong induction on the measure, as in C09.writer_calls_return
  have key : ∀ m (s : WriterLTS.State), WriterLTS.measure s = m → WriterLTS.Reachable (WriterCompose.cfgOf wc c h wops) s →
      ∃ u, WriterLTS.Reachable (WriterCompose.cfgOf wc c h wops) u ∧ WriterLTS.AllIdle u := by
    intro m
    induction m using Nat.strongRecOn with
    | _ m ih =>
      intro s hm hs
      rcases WriterLTS.writer_deadlock_free_inv (cfg := WriterCompose.cfgOf wc c h wops) rfl
        (WriterLTS.reachable_inv rfl hs) with hidle | hstep
      · exact ⟨s, hs, hidle⟩
      · obtain ⟨t, l, e, hn⟩ := hstep.step
        have hlt := WriterLTS.next_measure hn
        exact ih (WriterLTS.measure t) (hm ▸ hlt) t rfl (.step hs ⟨l, e, hn⟩)
  exact key _ _ rfl hinit

/-! ### non-vacuity (tests, not the claim) -/

/-- a 3-op script with a payload of BlockSize + 1 bytes: one full block, then one byte, then Close's block -/
example : ((run BlockSize blockSize_pos State.init
      [Op.write (List.replicate (BlockSize + 1) ()), Op.flush, Op.close]).1.emitted.map List.length)
    = [BlockSize, 1, 0] := demo_split BlockSize (by decide)
example : hasClose [Op.write [1, 2, 3], Op.flush, (Op.close : Op Nat)] = true := rfl
example : BgzfSeqRead.init [[1, 2], [], [3]] = some ⟨[1, 2], [[], [3]], false⟩ := rfl
/-- reading across an empty block, then past the end -/
example : (BgzfSeqRead.run ⟨[1, 2], [[], [3]], false⟩ [.read 1, .readByte, .read 5, .read 1]).2
    = [([1], false), ([2], false), ([3], true), ([], true)] := by
  simp [BgzfSeqRead.run, BgzfSeqRead.step, BgzfSeqRead.read, BgzfSeqRead.readByte, BgzfSeqRead.skipEmpty,
    BgzfSeqRead.readLoop]

/-- the codec laws (with the size bound) are satisfiable, and so are the header hypotheses -/
example : ∃ c : Member.Codec, Member.Bounded c.toCodecFns := ⟨Member.Toy.codec, Member.Toy.bounded⟩
example : Member.ReaderOK { name := [0x66, 0xe9], comment := [1] } := ⟨by decide, by decide⟩
/-- an instance of the round trip for a concrete script and the toy codec -/
example := roundtrip_default Member.Toy.codec Member.Toy.bounded
  [Op.write [1, 2, 3], Op.flush, Op.write [], Op.write [4], Op.wait, Op.close] rfl

/-- an instance of the byte-level round trip -/
example := roundtrip_bytes_default .repaired Member.Toy.codec Member.Toy.bounded
  [Op.write [1, 2, 3], Op.flush, Op.write [4], Op.close] rfl

/-- an instance of `produced_stream_wellframed` with a header that has a Name, a Comment and a user Extra sub-field -/
example : ∃ ms : List Hts.Lemmas.BgzfBytes.Member,
    (Member.closeOutput Member.Toy.codec.toCodecFns
        { name := [0x66, 0xe9], comment := [0x63], extra := [88, 89, 1, 0, 7], mtime := 0x00024342, os := 3 }
        (after [Op.write [1, 2, 3], Op.flush, Op.write [4], Op.close]).emitted).1 = Hts.Lemmas.BgzfBytes.stream ms ∧
    (∀ m ∈ ms, m.WellFramed (Member.toBytesCodec Member.Toy.codec.toCodecFns)) ∧
    Hts.Lemmas.BgzfBytes.data ms = accepted [Op.write [1, 2, 3], Op.flush, Op.write [4], Op.close] := by
  have hk : Member.HdrOK { name := [0x66, 0xe9], comment := [0x63], extra := [88, 89, 1, 0, 7], mtime := 0x00024342, os := 3 } := by
    decide
  have hfit : ∀ p : List Member.Byte, p.length ≤ BlockSize → Member.Fits Member.Toy.codec.toCodecFns
      { name := [0x66, 0xe9], comment := [0x63], extra := [88, 89, 1, 0, 7], mtime := 0x00024342, os := 3 } p := by
    intro p hp
    refine ⟨hk, ?_⟩
    simp [Member.memberLen, Member.zbytes, Member.Toy.codec, Member.Toy.deflate, MaxBlockSize, BlockSize] at *
    omega
  have hall := Member.written_all _ _ (after [Op.write [1, 2, 3], Op.flush, Op.write [4], Op.close]).emitted
    (fun p hp => hfit p (after_blocks_le _ rfl p hp))
  have hrn := (Member.render_snd_none _ _ _).mpr hall
  exact produced_stream_wellframed Member.Toy.codec _ ⟨by decide, by decide⟩ _ rfl
    (by simpa only [Member.closeOutput_eq] using hrn)

end Hts.Props.C01
