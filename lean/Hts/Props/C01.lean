/-
C01 — property theorems (stub: no theorem stated yet, so no obligation is counted).
-/
namespace Hts.Props.C01
end Hts.Props.C01
