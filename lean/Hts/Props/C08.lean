/-
C08 — property theorems (stub: no theorem stated yet, so no obligation is counted).
-/
namespace Hts.Props.C08
end Hts.Props.C08
