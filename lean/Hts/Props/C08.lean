/-
C08 — BGZF output is spec-conformant, gzip-compatible, deterministic and EOF-marked.
PROPERTY THEOREMS ONLY (helper lemmas live in Hts.Lemmas.Bgzf*).  Every statement quantifies over all
codecs satisfying the laws, all header settings, all payloads and all write scripts.

`Member.writeBlock` mirrors compressor.writeBlock WITH the repair fixes/C08-1-bsize-search.diff
(search for "BC\2\0" from the extra field on); on the unrepaired tree the conformance theorem is false
(`orig_search_witness` pins the counterexample the check also finds on the implementation).
Determinism across wc: the sequential model has no wc; `output_independent_of_wc_and_schedule` composes it
with the writer LTS of C12/C09 (every wc, every interleaving) through the script abstraction
`Hts.Model.WriterCompose.absScript`; the correspondence check still compares byte-identical outputs.
-/
import Hts.Lemmas.BgzfWriter
import Hts.Lemmas.BgzfStream
import Hts.Props.C01
import Hts.Lemmas.WriterCompose
namespace Hts.Props.C08
open Hts.Model Hts.Model.Member Hts.Spec
open Hts.Model.BgzfWriter (BlockSize MaxBlockSize Op hasClose accepted)
open Hts.Model.BgzfWriter (after)

/-! ### one member -/

/-- For every header setting and payload for which `writeBlock` succeeds (payload at most BlockSize,
user Extra a well-formed sub-field sequence): the bytes, followed by anything, parse under the RFC 1952
grammar as one member that carries the payload, occupies exactly those bytes and satisfies the BGZF
constraints (BC sub-field = size - 1, size ≤ 64 KiB, payload ≤ 65280).  No hypothesis on ModTime/OS. -/
theorem member_conformant (c : Codec) (h : Header) (p m rest : List Byte)
    (hw : writeBlock c.toCodecFns h p = .ok m) (hx : WFExtra h) (hp : p.length ≤ BlockSize) :
    ∃ M, Rfc1952.parseMember (ext c.toCodecFns) (m ++ rest) = some (M, rest) ∧ Rfc1952.IsBgzf M ∧
      M.data = p ∧ M.size = m.length ∧ M.mtime = h.mtime % 2 ^ 32 ∧ M.os = h.os.toNat := by
  have hf := (writeBlock_ok_iff c.toCodecFns h p).mp ⟨m, hw⟩
  rw [writeBlock_of_fits _ _ _ hf] at hw
  cases hw
  refine ⟨specMember c.toCodecFns h p (memberLen c.toCodecFns h p - 1), ?_, ?_, rfl, ?_, rfl, rfl⟩
  · exact parseMember_member c h p _ rest hf.1
  · exact isBgzf_specMember c.toCodecFns h p hx hf.2 hp
  · simp [specMember, mb, memberBytes_length]

/-- Without Name and Comment the member has exactly the header the SAM specification tabulates (FLG = 4). -/
theorem member_strict (c : Codec) (h : Header) (p m rest : List Byte)
    (hw : writeBlock c.toCodecFns h p = .ok m) (hx : WFExtra h) (hp : p.length ≤ BlockSize)
    (hn : h.name = []) (hc : h.comment = []) :
    ∃ M, Rfc1952.parseMember (ext c.toCodecFns) (m ++ rest) = some (M, rest) ∧ Rfc1952.IsStrictBgzf M := by
  have hf := (writeBlock_ok_iff c.toCodecFns h p).mp ⟨m, hw⟩
  rw [writeBlock_of_fits _ _ _ hf] at hw
  cases hw
  exact ⟨_, parseMember_member c h p _ rest hf.1,
    isBgzf_specMember c.toCodecFns h p hx hf.2 hp, specMember_strict _ _ _ _ hn hc⟩

/-- `writeBlock` succeeds exactly when gzip accepts the header and the member is at most 64 KiB; it
reports ErrBlockOverflow exactly when gzip accepts the header and the member would be longer, a gzip
error exactly when gzip refuses the header, and never "no BC sub-field". -/
theorem overflow_refused (c : CodecFns) (h : Header) (p : List Byte) :
    ((∃ m, writeBlock c h p = .ok m) ↔ (HdrOK h ∧ memberLen c h p ≤ MaxBlockSize)) ∧
    (writeBlock c h p = .error .overflow ↔ (HdrOK h ∧ MaxBlockSize < memberLen c h p)) ∧
    (writeBlock c h p = .error .gzip ↔ ¬ HdrOK h) ∧
    writeBlock c h p ≠ .error .noBC := by
  rcases writeBlock_cases c h p with ⟨hk, hl, hw⟩ | ⟨hk, hl, hw⟩ | ⟨hk, hw⟩
  · refine ⟨⟨fun _ => ⟨hk, hl⟩, fun _ => ⟨_, hw⟩⟩, ⟨fun e => ?_, fun e => ?_⟩, ⟨fun e => ?_, fun e => absurd hk e⟩, ?_⟩
    · rw [hw] at e; cases e
    · have := e.2; omega
    · rw [hw] at e; cases e
    · rw [hw]; intro e; cases e
  · refine ⟨⟨fun ⟨m, e⟩ => ?_, fun e => ?_⟩, ⟨fun _ => ⟨hk, hl⟩, fun _ => hw⟩, ⟨fun e => ?_, fun e => absurd hk e⟩, ?_⟩
    · rw [hw] at e; cases e
    · have := e.2; omega
    · rw [hw] at e; cases e
    · rw [hw]; intro e; cases e
  · refine ⟨⟨fun ⟨m, e⟩ => ?_, fun e => absurd e.1 hk⟩, ⟨fun e => ?_, fun e => absurd e.1 hk⟩, ⟨fun _ => hk, fun _ => hw⟩, ?_⟩
    · rw [hw] at e; cases e
    · rw [hw] at e; cases e
    · rw [hw]; intro e; cases e

/-- The written member is exactly as long as `memberLen` says, so the 64 KiB test of `writeBlock` is a test
on header length + DEFLATE length + 8. -/
theorem member_length (c : CodecFns) (h : Header) (p m : List Byte) (hw : writeBlock c h p = .ok m) :
    m.length = 18 + h.extra.length + (zbytes h.name).length + (zbytes h.comment).length + (c.deflate p).length + 8 ∧
    m.length ≤ MaxBlockSize := by
  have hf := (writeBlock_ok_iff c h p).mp ⟨m, hw⟩
  rw [writeBlock_of_fits _ _ _ hf] at hw
  cases hw
  exact ⟨by simp [mb, memberBytes_length, memberLen], by simpa [mb, memberBytes_length] using hf.2⟩

/-! ### whole streams, for every write script -/

/-- Every byte stream the writer produces for a script that closes it — whether Close returned nil or
not — is a series of gzip members under the RFC 1952 grammar, each satisfying the BGZF constraints
(the EOF marker included), and their payloads are the written blocks in order. -/
theorem stream_conformant (c : Codec) (h : Header) (hx : WFExtra h) (wops : List (Op Byte)) (hclose : hasClose wops = true) :
    ∃ Ms, Rfc1952.parseMembers (ext c.toCodecFns) (output c.toCodecFns h wops).1 = some Ms ∧
      (∀ M ∈ Ms, Rfc1952.IsBgzf M) ∧
      Ms.map (·.data) = writtenBlocks c.toCodecFns h wops ++ (if (output c.toCodecFns h wops).2 = none then [[]] else []) := by
  have hfits := written_fits c.toCodecFns h (after wops).emitted
  have hpm := parseMembers_rendered c h (writtenBlocks c.toCodecFns h wops) hfits
    (decide ((output c.toCodecFns h wops).2 = none))
  rw [output_eq]
  refine ⟨_, by simpa using hpm, ?_, ?_⟩
  · intro M hM
    rcases List.mem_append.mp hM with h' | h'
    · obtain ⟨p, hp, rfl⟩ := List.mem_map.mp h'
      exact isBgzf_specMember c.toCodecFns h p hx (hfits p hp).2
        (BgzfWriter.after_blocks_le wops hclose p (writtenBlocks_sub c.toCodecFns h wops p hp))
    · by_cases hn : (output c.toCodecFns h wops).2 = none
      · simp [hn] at h'; subst h'; exact isBgzf_marker.1
      · simp [hn] at h'
  · by_cases hn : (output c.toCodecFns h wops).2 = none <;> simp [hn, specMember, markerMember, Function.comp_def]

/-- A standard multi-member gzip decoder expands the output to the written blocks; when Close returned
nil that is exactly the concatenation of the accepted payloads. -/
theorem stream_gunzips (c : Codec) (h : Header) (wops : List (Op Byte)) (hclose : hasClose wops = true) :
    Rfc1952.gunzip (ext c.toCodecFns) (output c.toCodecFns h wops).1 = some (writtenBlocks c.toCodecFns h wops).flatten ∧
    ((output c.toCodecFns h wops).2 = none →
      Rfc1952.gunzip (ext c.toCodecFns) (output c.toCodecFns h wops).1 = some (accepted wops)) := by
  have hfits := written_fits c.toCodecFns h (after wops).emitted
  have hpm := parseMembers_rendered c h (writtenBlocks c.toCodecFns h wops) hfits
    (decide ((output c.toCodecFns h wops).2 = none))
  have hg : Rfc1952.gunzip (ext c.toCodecFns) (output c.toCodecFns h wops).1 = some (writtenBlocks c.toCodecFns h wops).flatten := by
    rw [output_eq, Rfc1952.gunzip]
    simp only [decide_eq_true_eq] at hpm
    rw [hpm]
    by_cases hn : (output c.toCodecFns h wops).2 = none <;> simp [hn, specMember, markerMember, Function.comp_def]
  refine ⟨hg, fun hok => ?_⟩
  rw [hg]
  have hrn : (render c.toCodecFns h (after wops).emitted).2 = none := by
    simpa only [output, closeOutput_eq] using hok
  have hw := (render_snd_none _ _ _).mp hrn
  have hcl : (after wops).closed = true := by rw [BgzfWriter.after_closed, hclose]
  have hact := ((C01.writer_blocks wops).2.2 hcl).1
  have := C01.writer_flatten wops
  rw [hact] at this
  simp only [writtenBlocks, hw]
  simpa using congrArg some this

/-- The output ends with the 28-byte EOF marker if and only if Close returned nil, and `HasEOF` reports
exactly that.  (No codec law is needed: a stream cut short by an error ends with the ISIZE field of a
non-empty block, or is empty, because the only possibly empty block is the last one Close queues.) -/
theorem eof_iff_clean_close (c : CodecFns) (h : Header) (wops : List (Op Byte)) (hclose : hasClose wops = true) :
    ((output c h wops).2 = none ↔ hasEOF (output c h wops).1 = true) ∧
    ((output c h wops).2 = none ↔ ∃ front, (output c h wops).1 = front ++ magicBlock) := by
  have key : (output c h wops).2 ≠ none → hasEOF (output c h wops).1 = false := by
    intro hne
    rw [output_eq, if_neg hne, List.append_nil]
    apply hasEOF_members
    -- the written blocks are a strict prefix of the queue, hence all data blocks of 1..BlockSize bytes
    have hcl : (after wops).closed = true := by rw [BgzfWriter.after_closed, hclose]
    obtain ⟨_, pre, last, hem, hpre, hlast⟩ := (C01.writer_blocks wops).2.2 hcl
    obtain ⟨e, he⟩ := Option.ne_none_iff_exists'.mp hne
    have hre : (render c h (after wops).emitted).2 = some e := by
      simpa only [output, closeOutput_eq] using he
    obtain ⟨q, rest, hsplit, _⟩ := render_snd_some c h _ e hre
    intro p hp
    have hmem : p ∈ pre := by
      have hpre' : writtenBlocks c h wops ++ q :: rest = pre ++ [last] := by
        show written c h (after wops).emitted ++ q :: rest = _
        rw [← hsplit, hem]
      simp only [writtenBlocks] at hp
      -- written ++ q :: rest = pre ++ [last]  ⇒  written is a prefix of pre
      have hlen : (written c h (after wops).emitted).length ≤ pre.length := by
        have := congrArg List.length hpre'
        simp [writtenBlocks] at this; omega
      have : written c h (after wops).emitted = pre.take (written c h (after wops).emitted).length := by
        have h1 := congrArg (List.take (written c h (after wops).emitted).length) hpre'
        simp only [writtenBlocks, List.take_left'] at h1
        rw [List.take_append_of_le_length hlen] at h1
        simpa using h1
      rw [this] at hp
      exact List.mem_of_mem_take hp
    have := hpre p hmem
    simp [BlockSize] at this
    omega
  constructor
  · constructor
    · intro hn; rw [output_eq, if_pos hn]; exact hasEOF_append_marker _
    · intro ht
      cases hn : (output c h wops).2 with
      | none => rfl
      | some e => rw [key (by simp [hn])] at ht; cases ht
  · constructor
    · intro hn; exact ⟨_, by rw [output_eq, if_pos hn]⟩
    · rintro ⟨front, hf⟩
      cases hn : (output c h wops).2 with
      | none => rfl
      | some e =>
        have := key (by simp [hn])
        rw [hf, hasEOF_append_marker] at this
        cases this

/-! ### a writer that is never closed -/

/-- what the emitter has handed to the underlying writer once it is at rest, for a script without Close: the
members of the queued blocks up to the first refused one (the active block is still held by the writer) -/
def openOutput (c : CodecFns) (h : Header) (wops : List (Op Byte)) : List Byte :=
  (render c h (after wops).emitted).1

/-- A writer that is never closed: for every script without a Close, what has reached the underlying writer
is a series of RFC 1952 members, each satisfying the BGZF constraints, whose payloads are the written blocks
(each of 1..BlockSize bytes, a prefix of the accepted data); there is NO EOF marker: `HasEOF` is false and the
stream does not end with the 28 marker bytes. -/
theorem open_stream (c : Codec) (h : Header) (hx : WFExtra h) (wops : List (Op Byte)) (hopen : hasClose wops = false) :
    (∃ Ms, Rfc1952.parseMembers (ext c.toCodecFns) (openOutput c.toCodecFns h wops) = some Ms ∧
      (∀ M ∈ Ms, Rfc1952.IsBgzf M) ∧ Ms.map (·.data) = writtenBlocks c.toCodecFns h wops ∧
      (∀ p ∈ writtenBlocks c.toCodecFns h wops, 1 ≤ p.length ∧ p.length ≤ BlockSize) ∧
      ∃ rest, (writtenBlocks c.toCodecFns h wops).flatten ++ rest = accepted wops) ∧
    hasEOF (openOutput c.toCodecFns h wops) = false ∧
    ¬ ∃ front, openOutput c.toCodecFns h wops = front ++ magicBlock := by
  have hcl : (after wops).closed = false := by rw [BgzfWriter.after_closed, hopen]
  have hblocks := (BgzfWriter.after_inv wops).open_blocks hcl
  have hfits := written_fits c.toCodecFns h (after wops).emitted
  have hsub := writtenBlocks_sub c.toCodecFns h wops
  have hwb : ∀ p ∈ writtenBlocks c.toCodecFns h wops, 1 ≤ p.length ∧ p.length ≤ BlockSize :=
    fun p hp => hblocks p (hsub p hp)
  have hout : openOutput c.toCodecFns h wops = ((writtenBlocks c.toCodecFns h wops).map (mb c.toCodecFns h)).flatten := by
    simp only [openOutput, render_fst, writtenBlocks]
  have hno : hasEOF (openOutput c.toCodecFns h wops) = false := by
    rw [hout]
    apply hasEOF_members
    intro p hp
    have := hwb p hp
    simp [BlockSize] at this
    omega
  refine ⟨?_, hno, ?_⟩
  · have hpm := parseMembers_rendered c h (writtenBlocks c.toCodecFns h wops) hfits false
    simp only [Bool.false_eq_true, if_false, List.append_nil] at hpm
    rw [hout]
    refine ⟨_, hpm, ?_, ?_, hwb, ?_⟩
    · intro M hM
      obtain ⟨p, hp, rfl⟩ := List.mem_map.mp hM
      exact isBgzf_specMember c.toCodecFns h p hx (hfits p hp).2 (hwb p hp).2
    · simp [specMember, Function.comp_def]
    · obtain ⟨r, hr⟩ := written_prefix c.toCodecFns h (after wops).emitted
      have hheld := BgzfWriter.after_held wops
      refine ⟨r.flatten ++ (after wops).active, ?_⟩
      rw [← hheld]
      conv => rhs; rw [hr]
      simp [writtenBlocks]
  · rintro ⟨front, hf⟩
    rw [hf, hasEOF_append_marker] at hno
    cases hno

/-- With the writer's default header and a codec within zlib's deflateBound, Close returns nil for every
script: no block is ever refused (the role of `compressBound(BlockSize) ≤ MaxBlockSize`, bgzf.go:36-44). -/
theorem default_header_clean_close (c : CodecFns) (hb : Bounded c) (wops : List (Op Byte)) (hclose : hasClose wops = true) :
    (output c {} wops).2 = none :=
  default_output_ok c hb wops hclose

/-! ### the bytes do not depend on the writer's concurrency or on the schedule -/

open Hts.Model.WriterCompose in
/-- For every concrete write script that closes the writer, every header and codec, EVERY writer concurrency
`wc ≥ 0` and EVERY interleaving of the API goroutine, the emitter and the compressor goroutines (the writer LTS
of C12/C09, repaired protocol, no I/O faults, compression of a block failing exactly when `writeBlock` refuses
it): once everything has come to rest, the bytes the underlying writer has received — the delivered blocks in
delivery order, then the EOF marker if written — are exactly the sequential model's `output` (`closeOutput` of
the queued blocks: the members of the blocks before the first refused one, and the marker iff none was refused).
The abstract script handed to the LTS is `absScript wops`: each `Write` completes as many blocks as it does in the
sequential writer, each `Flush` finds the active block non-empty iff it is so there
(`WriterCompose.absScript_blocks`). -/
theorem output_independent_of_wc_and_schedule (wc : Nat) (c : CodecFns) (h : Header) (wops : List (Op Byte))
    (hclose : hasClose wops = true) (s : WriterLTS.State)
    (hreach : WriterLTS.Reachable (cfgOf wc c h wops) s) (hidle : WriterLTS.AllIdle s) :
    deliveredBytes c h (after wops).emitted s = (output c h wops).1 := by
  rw [compose_output wc c h wops s hreach hidle]
  simp only [output, closeOutput_eq, hclose, true_and]

open Hts.Model.WriterCompose in
/-- Hence any two runs of the same script — different `wc`, different schedules — deliver byte-identical output. -/
theorem output_same_for_any_two_runs (wc₁ wc₂ : Nat) (c : CodecFns) (h : Header) (wops : List (Op Byte))
    (hclose : hasClose wops = true) (s₁ s₂ : WriterLTS.State)
    (h₁ : WriterLTS.Reachable (cfgOf wc₁ c h wops) s₁) (i₁ : WriterLTS.AllIdle s₁)
    (h₂ : WriterLTS.Reachable (cfgOf wc₂ c h wops) s₂) (i₂ : WriterLTS.AllIdle s₂) :
    deliveredBytes c h (after wops).emitted s₁ = deliveredBytes c h (after wops).emitted s₂ := by
  rw [output_independent_of_wc_and_schedule wc₁ c h wops hclose s₁ h₁ i₁,
    output_independent_of_wc_and_schedule wc₂ c h wops hclose s₂ h₂ i₂]

open Hts.Model.WriterCompose in
/-- A writer that is never closed: at rest, the bytes delivered are the members of the queued blocks (up to the
first refused one), in order, without marker — for every `wc` and schedule. -/
theorem unclosed_output_independent_of_wc_and_schedule (wc : Nat) (c : CodecFns) (h : Header) (wops : List (Op Byte))
    (hclose : hasClose wops = false) (s : WriterLTS.State)
    (hreach : WriterLTS.Reachable (cfgOf wc c h wops) s) (hidle : WriterLTS.AllIdle s) :
    deliveredBytes c h (after wops).emitted s = (render c h (after wops).emitted).1 := by
  rw [compose_output wc c h wops s hreach hidle]
  simp [hclose]

/-! ### the defect of the unrepaired search, pinned -/

/-- a toy codec for witnesses: every payload "compresses" to the two bytes 03 00 -/
def toyCodec : CodecFns :=
  { deflate := fun _ => [3, 0], inflate := fun s => match s with | 3 :: 0 :: _ => some ([], 2) | _ => none,
    crc32 := fun _ => 0, xfl := 0 }

/-- On the unrepaired tree (`bytes.Index` over the whole member) the header setting
ModTime = Unix(0x00024342) makes `writeBlock` succeed with a member whose BC sub-field still holds
BSIZE = 0: the back-patch went into XFL/OS.  The reader model rejects it, and the same input through the
repaired `writeBlock` is read back. -/
theorem orig_search_witness :
    ∃ m, writeBlockOrig toyCodec { mtime := 0x00024342 } [] = .ok m ∧
      m.take 18 = [0x1f, 0x8b, 8, 4, 0x42, 0x43, 2, 0, 27, 0, 6, 0, 0x42, 0x43, 2, 0, 0, 0] ∧
      readMember toyCodec m = none ∧
      ∃ m', writeBlock toyCodec { mtime := 0x00024342 } [] = .ok m' ∧ readMember toyCodec m' = some ([], []) := by
  refine ⟨_, rfl, by decide, by decide, _, rfl, by decide⟩

/-! ### non-vacuity (tests, not the claim) -/

example : writeBlock toyCodec {} [] = .ok magicBlock := by rfl
example : HdrOK { name := [0x66, 0xe9], extra := [88, 89, 1, 0, 7], mtime := 0x00024342, os := 3 } := by decide
example : WFExtra { extra := [88, 89, 1, 0, 7, 66, 67, 2, 0, 1, 2] } := by
  simp only [WFExtra]; rw [Rfc1952.subfields]; simp [Rfc1952.le16]; rw [Rfc1952.subfields]; simp [Rfc1952.le16, Rfc1952.subfields]
example : hasEOF magicBlock = true := by decide
example : (closeOutput toyCodec {} [[1], []]).2 = none := by rfl

/-- the codec laws (with the size bound) are satisfiable -/
example : ∃ c : Codec, Bounded c.toCodecFns := ⟨Toy.codec, Toy.bounded⟩
/-- an instance of the stream theorems for a concrete script, header and the toy codec -/
example := stream_conformant Toy.codec { name := [0x66], extra := [88, 89, 1, 0, 7], mtime := 0x00024342 }
  (by simp only [WFExtra]; rw [Rfc1952.subfields]; simp [Rfc1952.le16, Rfc1952.subfields])
  [Op.write [1, 2, 3], Op.flush, Op.write [4], Op.close] rfl

/-- an instance of `open_stream`: a script with Flush but no Close -/
example := open_stream Toy.codec {} (by simp only [WFExtra]; rw [Rfc1952.subfields]; rfl)
  [Op.write [1, 2, 3], Op.flush, Op.write [4]] rfl

end Hts.Props.C08
