/-
C18 — bam.Merger output is a loss-free, ordered merge re-linked to the merged header.
PROPERTY THEOREMS ONLY.  The model (Hts.Model.Merger) is the Merger as repaired by fixes/C18-1 … C18-5.

Every statement is for any number of inputs of any lengths, any records, any failure points, any link
table, and any implementation `H` of the heap that satisfies the laws of `Heap`.
Reading of the hypotheses: `hm` — NewMerger succeeded and returned `m`; `hr` — calling Read until it
returns an error gave the records `out` (each with the id of the input it came from) and the error `fin`.

  linksOf linkFn inputs   m.refLinks (none for a single input: the merged header is that input's header)
  srcsOf inputs           the inputs' record streams with their ids 0, 1, …
  lessOf custom inputs    m.less as NewMerger chooses it from the sort order (none = concatenation)
  deliveredBy …           all records the inputs deliver (up to their failure points), in input order,
                          each tagged with its input id and re-linked to the merged header
-/
import Hts.Lemmas.MergerTop
import Hts.Lemmas.MergerUnique
import Hts.Lemmas.MergerHeaderBridge
namespace Hts.Props.C18
open Hts.Model.Merger

variable (H : Heap) {custom : Option Less} {linkFn : LinkFn} {inputs : List Input} {m : Merger}
  {out : List (Nat × Rec)} {fin : Option Term}

/-! ### the merged stream ends: size + 1 calls of Read reach the final error -/
theorem merge_terminates (hm : newMerger custom (some linkFn) inputs = .ok m) :
    ∃ out t, m.readAll H = (out, some t) := by
  cases hl : lessOf custom inputs with
  | none => exact ⟨_, _, readAll_cat H hm hl⟩
  | some less =>
    obtain ⟨n, hn, hr⟩ := readAll_sorted H hm hl
    obtain ⟨t, ht⟩ := (drainS_perm H (linksOf linkFn inputs) less n (initHeap linkFn inputs) (initErr linkFn inputs) hn).2
    exact ⟨_, t, by rw [hr, ← ht]⟩

/-! ### loss-free: every record of every input exactly once, and nothing else -/

/-- when merging by a sort order (whatever the inputs do), or when concatenating inputs that all end
cleanly: the output is a permutation of the records the inputs deliver -/
theorem merge_perm (hm : newMerger custom (some linkFn) inputs = .ok m) (hr : m.readAll H = (out, fin))
    (h : (lessOf custom inputs).isSome ∨ ∀ inp, inp ∈ inputs → inp.src.term = .eof) :
    out.Perm (deliveredBy linkFn inputs) := by
  cases hl : lessOf custom inputs with
  | some less =>
    obtain ⟨n, hn, hr'⟩ := readAll_sorted H hm hl
    rw [hr'] at hr
    have := (drainS_perm H (linksOf linkFn inputs) less n (initHeap linkFn inputs) (initErr linkFn inputs) hn).1
    rw [hr, initHeads_pending] at this
    exact this
  | none =>
    rw [hl] at h
    have hc : ∀ p, p ∈ srcsOf inputs → p.2.term = .eof := by
      intro p hp
      obtain ⟨inp, hi, hs⟩ := srcsOf_term inputs p hp
      rw [← hs]
      exact h.resolve_left (by simp) inp hi
    have := readAll_cat H hm hl
    rw [hr, catSpec_clean _ _ hc] at this
    simp only [Prod.mk.injEq] at this
    rw [this.1]
    exact List.Perm.refl _

/-- in every mode, also with failing inputs: nothing is returned that no input delivered -/
theorem merge_nothing_else (hm : newMerger custom (some linkFn) inputs = .ok m) (hr : m.readAll H = (out, fin)) :
    ∀ p, p ∈ out → p ∈ deliveredBy linkFn inputs := by
  cases hl : lessOf custom inputs with
  | some less =>
    intro p hp
    exact (merge_perm H hm hr (by simp [hl])).mem_iff.1 hp
  | none =>
    have := readAll_cat H hm hl
    rw [hr] at this
    simp only [Prod.mk.injEq] at this
    intro p hp
    rw [this.1] at hp
    exact (catSpec_prefix _ _).subset hp

/-- spelled out: a returned record is a record its input delivers IN FRONT OF that input's first error
(`Src.rest`), re-linked; what a reader would deliver after a record-level error (`Src.later`) is never
returned, in any mode -/
theorem merge_returns_only_records_in_front_of_errors (hm : newMerger custom (some linkFn) inputs = .ok m)
    (hr : m.readAll H = (out, fin)) :
    ∀ p, p ∈ out → ∃ inp r, inputs[p.1]? = some inp ∧ r ∈ inp.src.rest ∧
      p.2 = relink (linksOf linkFn inputs) p.1 r := by
  intro p hp
  obtain ⟨i, s, r, hmem, hrm, rfl⟩ := (mem_delivered _ _ p).1 (merge_nothing_else H hm hr p hp)
  obtain ⟨inp, hget, rfl⟩ := (mem_srcsOf inputs i s).1 hmem
  exact ⟨inp, r, hget, hrm, rfl⟩

/-! ### concatenation mode (sort order unsorted, or unknown with a nil less) -/

/-- the output is the inputs one after the other -/
theorem merge_concatenates (hm : newMerger custom (some linkFn) inputs = .ok m) (hr : m.readAll H = (out, fin))
    (hl : lessOf custom inputs = none) (hc : ∀ inp, inp ∈ inputs → inp.src.term = .eof) :
    out = deliveredBy linkFn inputs ∧ fin = some .eof := by
  have hc' : ∀ p, p ∈ srcsOf inputs → p.2.term = .eof := by
    intro p hp
    obtain ⟨inp, hi, hs⟩ := srcsOf_term inputs p hp
    rw [← hs]; exact hc inp hi
  have := readAll_cat H hm hl
  rw [hr, catSpec_clean _ _ hc'] at this
  simp only [Prod.mk.injEq] at this
  exact ⟨this.1, this.2⟩

/-- with a failing input the output is an initial part of that concatenation -/
theorem merge_concatenation_prefix (hm : newMerger custom (some linkFn) inputs = .ok m) (hr : m.readAll H = (out, fin))
    (hl : lessOf custom inputs = none) : out <+: deliveredBy linkFn inputs := by
  have := readAll_cat H hm hl
  rw [hr] at this
  simp only [Prod.mk.injEq] at this
  rw [this.1]
  exact catSpec_prefix _ _

/-- precisely: concatenation stops at the first failing input — the output is everything of the inputs in
front of it followed by what it delivers, and the error returned is its error -/
theorem merge_concatenation_stops_at_first_error (hm : newMerger custom (some linkFn) inputs = .ok m)
    (hr : m.readAll H = (out, fin)) (hl : lessOf custom inputs = none) (e : Nat) (hf : fin = some (.err e)) :
    ∃ pre p post, srcsOf inputs = pre ++ p :: post ∧ (∀ q, q ∈ pre → q.2.term = .eof) ∧ p.2.term = .err e ∧
      out = delivered (linksOf linkFn inputs) (pre ++ [p]) := by
  have hc := readAll_cat H hm hl
  rw [hr, hf] at hc
  simp only [Prod.mk.injEq] at hc
  obtain ⟨pre, p, post, h1, h2, h3, h4⟩ := catSpec_split _ _ e (Option.some.inj hc.2).symm
  exact ⟨pre, p, post, h1, h2, h3, by rw [hc.1, h4]⟩

/-! ### order -/

/-- if `less` is a strict weak order and every input (re-linked) is sorted by it, the output is sorted by
`less` with ties between inputs resolved by input id — the order of the heap -/
theorem merge_sorted_ties {less : Less} (hm : newMerger custom (some linkFn) inputs = .ok m) (hr : m.readAll H = (out, fin))
    (hl : lessOf custom inputs = some less) (sw : StrictWeak less)
    (hs : ∀ i s, (i, s) ∈ srcsOf inputs → SortedBy less (s.rest.map (relink (linksOf linkFn inputs) i))) :
    SortedBy (pairLess less) out := by
  obtain ⟨n, hn, hr'⟩ := readAll_sorted H hm hl
  rw [hr'] at hr
  have := drainS_sorted H (linksOf linkFn inputs) less sw n (initHeap linkFn inputs) (initErr linkFn inputs) hn ?_
  · rw [hr] at this; exact this
  · intro y hy
    obtain ⟨s, hmem, hp, _, _⟩ := initHeads_mem _ _ y hy
    rw [hp]
    have := hs y.id s hmem
    unfold SortedBy tagged at *
    rw [List.pairwise_map] at this ⊢
    exact this.imp fun h => by rw [pairLess_same_id]; exact h

theorem merge_sorted {less : Less} (hm : newMerger custom (some linkFn) inputs = .ok m) (hr : m.readAll H = (out, fin))
    (hl : lessOf custom inputs = some less) (sw : StrictWeak less)
    (hs : ∀ i s, (i, s) ∈ srcsOf inputs → SortedBy less (s.rest.map (relink (linksOf linkFn inputs) i))) :
    SortedBy less (out.map (·.2)) := by
  have := merge_sorted_ties H hm hr hl sw hs
  unfold SortedBy at *
  rw [List.pairwise_map]
  exact this.imp fun h => pairLess_false_imp less _ _ h

/-- the relative order of the records of one input is preserved: the records of input `i` in the
output are an initial part of what input `i` delivers, and all of it when merging by a sort order or
when the merged stream ended with io.EOF -/
theorem merge_stable_per_input (hm : newMerger custom (some linkFn) inputs = .ok m) (hr : m.readAll H = (out, fin))
    (i : Nat) (s : Src) (hi : (i, s) ∈ srcsOf inputs) :
    out.filter (fun p => p.1 == i) <+: tagged (linksOf linkFn inputs) i s.rest ∧
    ((lessOf custom inputs).isSome ∨ fin = some .eof →
      out.filter (fun p => p.1 == i) = tagged (linksOf linkFn inputs) i s.rest) := by
  have hfd := filter_delivered (linksOf linkFn inputs) (srcsOf inputs) (srcsOf_nodup inputs) i s hi
  cases hl : lessOf custom inputs with
  | some less =>
    suffices h : out.filter (fun p => p.1 == i) = tagged (linksOf linkFn inputs) i s.rest from
      ⟨h ▸ List.prefix_refl _, fun _ => h⟩
    obtain ⟨n, hn, hr'⟩ := readAll_sorted H hm hl
    by_cases hne : s.rest = []
    · have hp := (merge_perm H hm hr (by simp [hl])).filter (fun p => p.1 == i)
      unfold deliveredBy at hp
      rw [hfd] at hp
      rw [hne] at hp ⊢
      exact hp.eq_nil
    · obtain ⟨y, hy, hid, hpend, _⟩ := initHeads_has (linksOf linkFn inputs) _ i s hi hne
      have hnd := (initHeads_ids (linksOf linkFn inputs) (srcsOf inputs)).nodup (srcsOf_nodup inputs)
      have := drainS_stable H (linksOf linkFn inputs) less n (initHeap linkFn inputs) (initErr linkFn inputs) hn hnd y hy
      rw [← hr', hr, hid, hpend] at this
      exact this
  | none =>
    have hc := readAll_cat H hm hl
    rw [hr] at hc
    simp only [Prod.mk.injEq] at hc
    refine ⟨?_, ?_⟩
    · rw [← hfd, hc.1]
      exact (catSpec_prefix _ _).filter _
    · intro h
      have hf : fin = some .eof := h.resolve_left (by simp)
      rw [hf] at hc
      have hclean := catSpec_eof _ _ (Option.some.inj hc.2).symm
      rw [hc.1, catSpec_clean _ _ hclean]
      exact hfd

/-! ### how the merged stream ends -/

/-- the error that ends the merged stream, when it is not io.EOF, is the read error of an input -/
theorem merge_error_is_an_inputs (hm : newMerger custom (some linkFn) inputs = .ok m) (hr : m.readAll H = (out, fin))
    (e : Nat) (hf : fin = some (.err e)) : ∃ inp, inp ∈ inputs ∧ inp.src.term = .err e := by
  cases hl : lessOf custom inputs with
  | some less =>
    obtain ⟨n, hn, hr'⟩ := readAll_sorted H hm hl
    rw [hr'] at hr
    have h2 : (drainS H (linksOf linkFn inputs) less n (initHeap linkFn inputs) (initErr linkFn inputs)).2 = some (.err e) := by rw [hr]; exact hf
    rcases drainS_fin_err H (linksOf linkFn inputs) less n (initHeap linkFn inputs) (initErr linkFn inputs) e hn h2 with he | ⟨y, hy, hyt⟩
    · obtain ⟨p, hp, hpt⟩ := initHeads_err_some _ _ e he
      obtain ⟨inp, hi, hs⟩ := srcsOf_term inputs p hp
      exact ⟨inp, hi, by rw [hs]; exact hpt⟩
    · obtain ⟨s, hmem, _, hterm, _⟩ := initHeads_mem _ _ y hy
      obtain ⟨inp, hi, hs⟩ := srcsOf_term inputs _ hmem
      exact ⟨inp, hi, by rw [hs]; simp only; rw [← hterm]; exact hyt⟩
  | none =>
    have hc := readAll_cat H hm hl
    rw [hr, hf] at hc
    simp only [Prod.mk.injEq] at hc
    obtain ⟨p, hp, hpt⟩ := catSpec_err _ _ e (Option.some.inj hc.2).symm
    obtain ⟨inp, hi, hs⟩ := srcsOf_term inputs p hp
    exact ⟨inp, hi, by rw [hs]; exact hpt⟩

/-- io.EOF only after all inputs ended cleanly — and then every record of every input has been returned -/
theorem merge_eof_only_after_all (hm : newMerger custom (some linkFn) inputs = .ok m) (hr : m.readAll H = (out, fin))
    (hf : fin = some .eof) :
    (∀ inp, inp ∈ inputs → inp.src.term = .eof) ∧ out.Perm (deliveredBy linkFn inputs) := by
  have hall : ∀ inp, inp ∈ inputs → inp.src.term = .eof := by
    cases hl : lessOf custom inputs with
    | some less =>
      obtain ⟨n, hn, hr'⟩ := readAll_sorted H hm hl
      rw [hr'] at hr
      have h2 : (drainS H (linksOf linkFn inputs) less n (initHeap linkFn inputs) (initErr linkFn inputs)).2 = some .eof := by rw [hr]; exact hf
      obtain ⟨he, hlive⟩ := drainS_fin_eof H (linksOf linkFn inputs) less n (initHeap linkFn inputs) (initErr linkFn inputs) hn h2
      intro inp hinp
      obtain ⟨i, hi⟩ := srcsOf_of_mem inputs inp hinp
      by_cases hne : inp.src.rest = []
      · exact initHeads_err_none _ _ he (i, inp.src) hi hne
      · obtain ⟨y, hy, _, _, hterm⟩ := initHeads_has (linksOf linkFn inputs) _ i inp.src hi hne
        rw [← hterm]; exact hlive y hy
    | none =>
      have hc := readAll_cat H hm hl
      rw [hr, hf] at hc
      simp only [Prod.mk.injEq] at hc
      have hclean := catSpec_eof _ _ (Option.some.inj hc.2).symm
      intro inp hinp
      obtain ⟨i, hi⟩ := srcsOf_of_mem inputs inp hinp
      exact hclean (i, inp.src) hi
  exact ⟨hall, merge_perm H hm hr (Or.inr hall)⟩

/-- an input's read error is reported, not dropped: if some input fails, the merged stream ends with the
read error of a failing input -/
theorem merge_reports_error (hm : newMerger custom (some linkFn) inputs = .ok m) (hr : m.readAll H = (out, fin))
    (he : ∃ inp, inp ∈ inputs ∧ inp.src.term ≠ .eof) :
    ∃ e, fin = some (.err e) ∧ ∃ inp, inp ∈ inputs ∧ inp.src.term = .err e := by
  obtain ⟨out', t, ht⟩ := merge_terminates H hm
  rw [hr] at ht
  simp only [Prod.mk.injEq] at ht
  cases t with
  | eof =>
    obtain ⟨inp, hi, hne⟩ := he
    exact absurd ((merge_eof_only_after_all H hm hr ht.2).1 inp hi) hne
  | err e => exact ⟨e, ht.2, merge_error_is_an_inputs H hm hr e ht.2⟩

/-- when merging by a sort order, a failing input does not cost the records that could be read: they
are all returned before the error -/
theorem merge_sorted_returns_all_readable (hm : newMerger custom (some linkFn) inputs = .ok m)
    (hr : m.readAll H = (out, fin)) (hl : (lessOf custom inputs).isSome) :
    out.Perm (deliveredBy linkFn inputs) := merge_perm H hm hr (Or.inl hl)

/-! ### references: every returned record's Ref and MateRef belong to the merged header, under the name
they had in the source -/

-- `LinksOK` (the laws assumed of the link table) is defined in Hts.Lemmas.MergerTop; `links_law_from_C07` below
-- derives it from the theorem C07 proves about sam.MergeHeaders.

/-- what bam.Reader.Read guarantees: Ref and MateRef of a record are references of its own header -/
def RefsInRange (srcRefs : List (List Name)) (inputs : List Input) : Prop :=
  ∀ (i : Nat) (inp : Input), inputs[i]? = some inp → ∃ names : List Name, srcRefs[i]? = some names ∧
    ∀ r : Rec, r ∈ inp.src.rest →
      (∀ x, r.ref = some x → x < names.length) ∧ (∀ x, r.mate = some x → x < names.length)

/-- reference `o` of an output record is nil if the source record's was, and otherwise a reference of
the merged header whose name is the name of the source record's reference in the source header -/
def OwnedAs (names merged : List Name) (src o : Option Nat) : Prop :=
  match src with
  | none => o = none
  | some x => ∃ y, o = some y ∧ y < merged.length ∧ merged[y]? = names[x]?

theorem merge_refs_owned (srcRefs : List (List Name)) (merged : List Name)
    (hm : newMerger custom (some linkFn) inputs = .ok m) (hr : m.readAll H = (out, fin))
    (hl : LinksOK srcRefs merged (linksOf linkFn inputs)) (hw : RefsInRange srcRefs inputs) :
    ∀ p, p ∈ out → ∃ inp names r, inputs[p.1]? = some inp ∧ srcRefs[p.1]? = some names ∧ r ∈ inp.src.rest ∧
      p.2.name = r.name ∧ p.2.pos = r.pos ∧ p.2.matePos = r.matePos ∧ p.2.uid = r.uid ∧
      OwnedAs names merged r.ref p.2.ref ∧ OwnedAs names merged r.mate p.2.mate := by
  intro p hp
  have hd := merge_nothing_else H hm hr p hp
  obtain ⟨i, s, r, hmem, hrm, rfl⟩ := (mem_delivered _ _ p).1 hd
  obtain ⟨inp, hget, rfl⟩ := (mem_srcsOf inputs i s).1 hmem
  obtain ⟨names, hnames, hrange⟩ := hw i inp hget
  obtain ⟨hrr, hrmate⟩ := hrange r hrm
  have hlk := hl i names hnames
  refine ⟨inp, names, r, hget, hnames, hrm, ?_⟩
  cases hlinks : linksOf linkFn inputs with
  | none =>
    rw [hlinks] at hlk
    simp only [relink, true_and]
    constructor
    · cases hx : r.ref with
      | none => rfl
      | some x => exact ⟨x, rfl, hlk x (hrr x hx)⟩
    · cases hx : r.mate with
      | none => rfl
      | some x => exact ⟨x, rfl, hlk x (hrmate x hx)⟩
  | some l =>
    rw [hlinks] at hlk
    simp only [relink, true_and]
    constructor
    · cases hx : r.ref with
      | none => rfl
      | some x => exact ⟨l i x, rfl, hlk x (hrr x hx)⟩
    · cases hx : r.mate with
      | none => rfl
      | some x => exact ⟨l i x, rfl, hlk x (hrmate x hx)⟩

/-- the law `LinksOK` is not a free assumption: for two or more sources it follows from what property C07
proves about its model of sam.MergeHeaders (`Hts.Model.Header.mergeHeaders_links`, C07's `LinksOk` over a heap
of reference objects), with `linkFnOf` = the ID of the reference object a link points to and the reference
names read off the same world; the sources' name lists are unchanged by the merge -/
theorem links_law_from_C07 {w w' : Hts.Model.Header.World} (hw : Hts.Model.Header.WInv w) {srcs : List Nat}
    {ls : List (List Nat)} (hs : ∀ s ∈ srcs, s < w.hdrs.length)
    (hmh : Hts.Model.Header.mergeHeaders w srcs = (w', .ok, ls)) :
    LinksOK (srcs.map (refNames w'.refs)) (refNames w'.refs w.hdrs.length) (some (linkFnOf w'.refs ls)) ∧
    ∀ s ∈ srcs, refNames w'.refs s = refNames w.refs s := by
  have hw' : Hts.Model.Header.WInv w' := by
    have := Hts.Model.Header.winv_mergeHeaders hw srcs
    rw [hmh] at this; exact this
  obtain ⟨hl, hsame⟩ := Hts.Model.Header.mergeHeaders_links hw hs hmh
  exact ⟨linksOK_of_header_LinksOk hw'.refs hl, fun s hs' => by unfold refNames; rw [hsame s hs']⟩

/-! ### the orders of the declared sort orders -/

/-- sort order queryname merges by record name, bytewise -/
theorem queryname_uses_name_order (i0 : Input) (tl : List Input) (h : i0.so = .queryname) :
    lessOf custom (i0 :: tl) = some lessByName := by simp [lessOf, chooseLess, h]

/-- sort order coordinate merges by `lessByCoordinate` on the re-linked records … -/
theorem coordinate_uses_coordinate_order (i0 : Input) (tl : List Input) (h : i0.so = .coordinate) :
    lessOf custom (i0 :: tl) = some lessByCoordinate := by simp [lessOf, chooseLess, h]

/-- … which is: unplaced records last, then by the index of the reference in the header the records are
linked to — for the heads of the heap and for the output that is the merged header — then by position -/
theorem coordinate_order_spec (a b : Rec) :
    lessByCoordinate a b = true ↔ keyLt (coordKey a) (coordKey b) := lessByCoordinate_iff_key a b

/-- unsorted, and unknown without a less function, concatenate; unknown with a less function uses it -/
theorem unsorted_concatenates (i0 : Input) (tl : List Input) (h : i0.so = .unsorted) :
    lessOf custom (i0 :: tl) = none := by simp [lessOf, chooseLess, h]

theorem unknown_uses_custom (i0 : Input) (tl : List Input) (h : i0.so = .unknown) :
    lessOf custom (i0 :: tl) = custom := by simp [lessOf, chooseLess, h]

theorem name_order_strict_weak : StrictWeak lessByName := lessByName_strictWeak

theorem coordinate_order_strict_weak : StrictWeak lessByCoordinate := lessByCoordinate_strictWeak

/-- the order of the heap (less, then input id) is a strict weak order whenever less is: the
hypothesis under which container/heap returns a minimal element -/
theorem heap_order_strict_weak (less : Less) (sw : StrictWeak less) : StrictWeak (heapLess less) :=
  heapLess_strictWeak less sw

/-- not below by the coordinate key -/
def KeySorted (l : List Rec) : Prop := l.Pairwise fun a b => ¬ keyLt (coordKey b) (coordKey a)

/-- coordinate order: if every input, re-linked to the merged header, is sorted by (merged reference
index, position) with unplaced records last, so is the output -/
theorem merge_sorted_coordinate (i0 : Input) (tl : List Input) (hso : i0.so = .coordinate)
    (hm : newMerger custom (some linkFn) (i0 :: tl) = .ok m) (hr : m.readAll H = (out, fin))
    (hs : ∀ i s, (i, s) ∈ srcsOf (i0 :: tl) → KeySorted (s.rest.map (relink (linksOf linkFn (i0 :: tl)) i))) :
    KeySorted (out.map (·.2)) := by
  have := merge_sorted H hm hr (coordinate_uses_coordinate_order i0 tl hso) lessByCoordinate_strictWeak ?_
  · exact this.imp fun {a b} h hk => by
      rw [(lessByCoordinate_iff_key b a).2 hk] at h; cases h
  · intro i s hi
    exact (hs i s hi).imp fun {a b} h => by
      cases hc : lessByCoordinate b a with
      | false => rfl
      | true => exact absurd ((lessByCoordinate_iff_key b a).1 hc) h

/-- an input sorted by its own header's coordinate order is sorted with respect to the merged header
if its references keep their relative order in the merged header -/
theorem relinked_sorted_of_monotone (l : LinkFn) (i : Nat) (rs : List Rec)
    (hmono : ∀ x y, x < y → l i x < l i y) (hs : KeySorted rs) :
    KeySorted (rs.map (relink (some l) i)) := by
  unfold KeySorted at *
  rw [List.pairwise_map]
  refine hs.imp fun {a b} h hk => h ?_
  have hinj : ∀ x y, l i x = l i y → x = y := by
    intro x y hxy
    rcases Nat.lt_trichotomy x y with hlt | heq | hgt
    · have := hmono x y hlt; omega
    · exact heq
    · have := hmono y x hgt; omega
  have hrev : ∀ x y, l i x < l i y → x < y := by
    intro x y hxy
    rcases Nat.lt_trichotomy x y with hlt | heq | hgt
    · exact hlt
    · subst heq; omega
    · have := hmono y x hgt; omega
  unfold keyLt coordKey relink at *
  cases hb : b.ref <;> cases ha : a.ref <;> simp_all
  rcases hk with hk | ⟨hk, hp⟩
  · exact Or.inl (hrev _ _ hk)
  · exact Or.inr ⟨hinj _ _ hk, hp⟩

/-! ### further facts about the code -/

/-- when merging by a strict weak order the output does not depend on the heap implementation: any two
heaps satisfying the `Heap` laws give the same records in the same order and the same final error
(the heap order is total on the heads of distinct inputs, so the minimal head is unique) -/
theorem merge_heap_independent (H1 H2 : Heap) {less : Less} (hm : newMerger custom (some linkFn) inputs = .ok m)
    (hl : lessOf custom inputs = some less) (sw : StrictWeak less) : m.readAll H1 = m.readAll H2 := by
  obtain ⟨n1, hn1, hr1⟩ := readAll_sorted H1 hm hl
  obtain ⟨n2, hn2, hr2⟩ := readAll_sorted H2 hm hl
  have hnd := (initHeads_ids (linksOf linkFn inputs) (srcsOf inputs)).nodup (srcsOf_nodup inputs)
  rw [hr1, hr2, drainS_heap_independent H1 H2 _ less sw n1 _ _ _ (List.Perm.refl _) hnd]
  rcases Nat.le_total n1 n2 with h | h
  · exact (drainS_mono H2 _ less n1 n2 _ _ hn1 h).symm
  · exact drainS_mono H2 _ less n2 n1 _ _ hn2 h

/-- complete characterisation of the sorted modes: a list that is sorted by (less, input id), contains
for every input exactly that input's records in that input's order, and nothing of any other id, IS the
output — `merge_sorted_ties` and `merge_stable_per_input` leave no freedom -/
theorem merge_is_the_stable_merge {less : Less} (hm : newMerger custom (some linkFn) inputs = .ok m)
    (hr : m.readAll H = (out, fin)) (hl : lessOf custom inputs = some less) (sw : StrictWeak less)
    (hs : ∀ i s, (i, s) ∈ srcsOf inputs → SortedBy less (s.rest.map (relink (linksOf linkFn inputs) i)))
    (spec : List (Nat × Rec)) (h1 : SortedBy (pairLess less) spec)
    (h2 : ∀ i s, (i, s) ∈ srcsOf inputs →
      spec.filter (fun p => p.1 == i) = tagged (linksOf linkFn inputs) i s.rest)
    (h3 : ∀ p, p ∈ spec → ∃ s, (p.1, s) ∈ srcsOf inputs) : spec = out := by
  refine sorted_stable_unique less spec out h1 (merge_sorted_ties H hm hr hl sw hs) ?_
  intro i
  by_cases hi : ∃ s, (i, s) ∈ srcsOf inputs
  · obtain ⟨s, hs'⟩ := hi
    rw [h2 i s hs', (merge_stable_per_input H hm hr i s hs').2 (Or.inl (by simp [hl]))]
  · have e1 : spec.filter (fun p => p.1 == i) = [] := by
      rw [List.filter_eq_nil_iff]
      intro p hp hpi
      obtain ⟨s, hs'⟩ := h3 p hp
      exact hi ⟨s, by rw [← (beq_iff_eq.1 hpi)]; exact hs'⟩
    have e2 : out.filter (fun p => p.1 == i) = [] := by
      rw [List.filter_eq_nil_iff]
      intro p hp hpi
      obtain ⟨j, s, r, hmem, _, rfl⟩ := (mem_delivered _ _ p).1 (merge_nothing_else H hm hr p hp)
      exact hi ⟨s, by rw [← (beq_iff_eq.1 hpi)]; exact hmem⟩
    rw [e1, e2]

/-- once Read has returned an error it returns the same error, and no record, on every later call -/
theorem read_after_final (m m' : Merger) (t : Term) (h : m.read H = (.fin t, m')) :
    m'.read H = (.fin t, m') := read_fin_again H m m' t h

/-- NewMerger fails with io.EOF exactly when there is no input … -/
theorem newMerger_fails_without_input (merged : Option LinkFn) :
    newMerger custom merged inputs = .error .noSource ↔ inputs = [] := newMerger_noSource custom merged inputs

/-- … with "sort order mismatch" exactly when some input declares another sort order than the first … -/
theorem newMerger_fails_on_mismatch (merged : Option LinkFn) :
    newMerger custom merged inputs = .error .sortOrderMismatch ↔
      ∃ i0 tl, inputs = i0 :: tl ∧ ∃ inp, inp ∈ inputs ∧ inp.so ≠ i0.so := newMerger_mismatch custom merged inputs

/-- … and with the error of sam.MergeHeaders exactly when that failed (`merged = none`) for two or more
inputs of one sort order; there is no other failure -/
theorem newMerger_fails_on_header_merge (merged : Option LinkFn) :
    newMerger custom merged inputs = .error .headerMerge ↔
      merged = none ∧ 2 ≤ inputs.length ∧ ∃ i0 tl, inputs = i0 :: tl ∧ ∀ inp, inp ∈ inputs → inp.so = i0.so :=
  newMerger_headerMerge custom merged inputs

/-- for a single input the header merge is not consulted (sam.MergeHeaders returns that header and nil links) -/
theorem newMerger_single_ignores_header (merged merged' : Option LinkFn) (i0 : Input) :
    newMerger custom merged [i0] = newMerger custom merged' [i0] := newMerger_single custom merged merged' i0

/-- for a strict weak order, sortedness is the same as "no record is below its predecessor" (which is
what the oracle of the check evaluates on the implementation's output) -/
theorem sorted_iff_neighbours_sorted {α : Type} (lt : α → α → Bool) (sw : StrictWeak lt) (l : List α) :
    AdjSorted lt l ↔ SortedBy lt l := adjSorted_iff lt sw l

/-! ### non-vacuity -/

/-- the heap laws are satisfiable: the executable heap -/
example : Heap := scanHeap

def rA (n : Nat) (ref : Option Nat) (pos : Int) (mate : Option Nat) (uid : Nat) : Rec :=
  { name := [n], ref := ref, pos := pos, mate := mate, matePos := 0, uid := uid }

/-- two coordinate sorted inputs with headers [z, a] and [a, c] (merged [z, a, c]), the second failing
after its second record; mates on other references, an unplaced record -/
def exInputs : List Input :=
  [ { so := .coordinate, src := { rest := [rA 1 (some 0) 5 (some 1) 0, rA 2 (some 1) 5 none 1, rA 3 none (-1) none 2], term := .eof } },
    { so := .coordinate, src := { rest := [rA 4 (some 0) 4 (some 1) 0, rA 5 (some 1) 1 (some 0) 1], term := .err 7 } } ]

def exLink : LinkFn := fun i x => if i = 0 then x else x + 1

example : (match newMerger none (some exLink) exInputs with
    | .ok m => (m.readAll scanHeap).1.map (fun p => (p.1, p.2.uid, p.2.ref, p.2.mate))
    | .error _ => []) =
    [(0, 0, some 0, some 1), (1, 0, some 1, some 2), (0, 1, some 1, none), (1, 1, some 2, some 1), (0, 2, none, none)] := by
  decide

example : (match newMerger none (some exLink) exInputs with
    | .ok m => (m.readAll scanHeap).2
    | .error _ => none) = some (.err 7) := by decide

example : LinksOK [[[122], [97]], [[97], [99]]] [[122], [97], [99]] (linksOf exLink exInputs) := by
  intro i names hn x hx
  match i, hn with
  | 0, hn => simp at hn; subst hn; match x, hx with
    | 0, _ => decide
    | 1, _ => decide
  | 1, hn => simp at hn; subst hn; match x, hx with
    | 0, _ => decide
    | 1, _ => decide
  | i + 2, hn => simp at hn

example : ∀ i s, (i, s) ∈ srcsOf exInputs → KeySorted (s.rest.map (relink (linksOf exLink exInputs) i)) := by
  intro i s h
  simp [srcsOf, enumFrom, exInputs] at h
  rcases h with ⟨rfl, rfl⟩ | ⟨rfl, rfl⟩ <;>
    simp [KeySorted, relink, linksOf, exInputs, exLink, rA, keyLt, coordKey]

example : StrictWeak (fun a b : Rec => decide (a.pos < b.pos)) :=
  ⟨fun a => by simp, fun a b c => by simp; omega, fun a b c => by simp; omega⟩


/-! ### non-vacuity with three inputs: every hypothesis-carrying theorem instantiated

Scenario A — three coordinate-sorted inputs with headers [z, a], [a, c], [z, c] (merged [z, a, c]) and
interleaved keys, a tie between inputs 0 and 2 on (z, 5), an unplaced record, mates on other references;
input 1 returns a record-level error (not sticky: one more record follows it) after three records. -/

def aSrc1 : Src :=
  { rest := [rA 4 (some 0) 1 (some 1) 0, rA 5 (some 0) 7 none 1, rA 6 (some 1) 0 (some 0) 2], term := .err 7,
    later := [([rA 7 (some 1) 9 none 4], .eof)] }

def aInputs : List Input :=
  [ { so := .coordinate, src := { rest := [rA 1 (some 0) 5 (some 1) 0, rA 2 (some 1) 2 none 1, rA 3 none (-1) (some 0) 2], term := .eof } },
    { so := .coordinate, src := aSrc1 },
    { so := .coordinate, src := { rest := [rA 8 (some 0) 1 none 0, rA 9 (some 0) 5 (some 1) 1, rA 10 (some 1) 3 (some 1) 2], term := .eof } } ]

def aLink : LinkFn := fun i x => if i = 0 then x else if i = 1 then x + 1 else 2 * x

def aM : Merger :=
  match newMerger none (some aLink) aInputs with
  | .ok m => m
  | .error _ => { links := none, mode := .cat [] none }

def aOut : List (Nat × Rec) := (aM.readAll scanHeap).1
def aFin : Option Term := (aM.readAll scanHeap).2

def a_hm : newMerger none (some aLink) aInputs = .ok aM := rfl
def a_hr : aM.readAll scanHeap = (aOut, aFin) := rfl
def a_hl : lessOf none aInputs = some lessByCoordinate := rfl

/-- what comes out: (input, uid, merged Ref, merged MateRef); the record behind the error (uid 4) does not -/
example : aOut.map (fun p => (p.1, p.2.uid, p.2.ref, p.2.mate)) =
    [(2, 0, some 0, none), (0, 0, some 0, some 1), (2, 1, some 0, some 2), (1, 0, some 1, some 2), (0, 1, some 1, none),
     (1, 1, some 1, none), (1, 2, some 2, some 1), (2, 2, some 2, some 2), (0, 2, none, some 0)] := by decide
example : aFin = some (.err 7) := by decide

def a_hs : ∀ i s, (i, s) ∈ srcsOf aInputs →
    SortedBy lessByCoordinate (s.rest.map (relink (linksOf aLink aInputs) i)) := by
  intro i s h
  simp [srcsOf, enumFrom, aInputs] at h
  rcases h with ⟨rfl, rfl⟩ | ⟨rfl, rfl⟩ | ⟨rfl, rfl⟩ <;>
    simp [SortedBy, relink, linksOf, aInputs, aSrc1, aLink, rA, lessByCoordinate]

def a_hkey : ∀ i s, (i, s) ∈ srcsOf aInputs → KeySorted (s.rest.map (relink (linksOf aLink aInputs) i)) := by
  intro i s h
  simp [srcsOf, enumFrom, aInputs] at h
  rcases h with ⟨rfl, rfl⟩ | ⟨rfl, rfl⟩ | ⟨rfl, rfl⟩ <;>
    simp [KeySorted, relink, linksOf, aInputs, aSrc1, aLink, rA, keyLt, coordKey]

def aSrcRefs : List (List Name) := [[[122], [97]], [[97], [99]], [[122], [99]]]
def aMerged : List Name := [[122], [97], [99]]

def a_links : LinksOK aSrcRefs aMerged (linksOf aLink aInputs) := by
  intro i names hn x hx
  match i, hn with
  | 0, hn => simp [aSrcRefs] at hn; subst hn; match x, hx with
    | 0, _ => decide
    | 1, _ => decide
  | 1, hn => simp [aSrcRefs] at hn; subst hn; match x, hx with
    | 0, _ => decide
    | 1, _ => decide
  | 2, hn => simp [aSrcRefs] at hn; subst hn; match x, hx with
    | 0, _ => decide
    | 1, _ => decide
  | i + 3, hn => simp [aSrcRefs] at hn

def a_range : RefsInRange aSrcRefs aInputs := by
  intro i inp hi
  match i, hi with
  | 0, hi => simp [aInputs] at hi; subst hi; exact ⟨_, rfl, by simp [rA]⟩
  | 1, hi => simp [aInputs] at hi; subst hi; exact ⟨_, rfl, by simp [rA, aSrc1]⟩
  | 2, hi => simp [aInputs] at hi; subst hi; exact ⟨_, rfl, by simp [rA]⟩
  | i + 3, hi => simp [aInputs] at hi

/-- the theorems applied to scenario A: all their hypotheses hold together -/
example : aOut.Perm (deliveredBy aLink aInputs) := merge_perm scanHeap a_hm a_hr (Or.inl (by simp [a_hl]))
example : SortedBy (pairLess lessByCoordinate) aOut :=
  merge_sorted_ties scanHeap a_hm a_hr a_hl lessByCoordinate_strictWeak a_hs
example : SortedBy lessByCoordinate (aOut.map (·.2)) :=
  merge_sorted scanHeap a_hm a_hr a_hl lessByCoordinate_strictWeak a_hs
example : KeySorted (aOut.map (·.2)) := merge_sorted_coordinate scanHeap _ _ rfl a_hm a_hr a_hkey
example : aOut.filter (fun p => p.1 == 1) = tagged (linksOf aLink aInputs) 1 aSrc1.rest :=
  (merge_stable_per_input scanHeap a_hm a_hr 1 aSrc1 (by simp [srcsOf, enumFrom, aInputs])).2 (Or.inl (by simp [a_hl]))
example : ∃ inp, inp ∈ aInputs ∧ inp.src.term = .err 7 :=
  merge_error_is_an_inputs scanHeap a_hm a_hr 7 (by decide)
example : ∃ e, aFin = some (.err e) ∧ ∃ inp, inp ∈ aInputs ∧ inp.src.term = .err e :=
  merge_reports_error scanHeap a_hm a_hr ⟨_, List.mem_cons_of_mem _ List.mem_cons_self, by simp [aSrc1]⟩
example : ∀ p, p ∈ aOut → ∃ inp names r, aInputs[p.1]? = some inp ∧ aSrcRefs[p.1]? = some names ∧ r ∈ inp.src.rest ∧
      p.2.name = r.name ∧ p.2.pos = r.pos ∧ p.2.matePos = r.matePos ∧ p.2.uid = r.uid ∧
      OwnedAs names aMerged r.ref p.2.ref ∧ OwnedAs names aMerged r.mate p.2.mate :=
  merge_refs_owned scanHeap aSrcRefs aMerged a_hm a_hr a_links a_range
example : aM.readAll scanHeap = aM.readAll scanHeapR :=
  merge_heap_independent scanHeap scanHeapR a_hm a_hl lessByCoordinate_strictWeak
example (spec : List (Nat × Rec)) (h1 : SortedBy (pairLess lessByCoordinate) spec)
    (h2 : ∀ i s, (i, s) ∈ srcsOf aInputs → spec.filter (fun p => p.1 == i) = tagged (linksOf aLink aInputs) i s.rest)
    (h3 : ∀ p, p ∈ spec → ∃ s, (p.1, s) ∈ srcsOf aInputs) : spec = aOut :=
  merge_is_the_stable_merge scanHeap a_hm a_hr a_hl lessByCoordinate_strictWeak a_hs spec h1 h2 h3
/-- … and the hypotheses of `merge_is_the_stable_merge` about `spec` are satisfiable: by the output itself -/
example : SortedBy (pairLess lessByCoordinate) aOut ∧
    (∀ i s, (i, s) ∈ srcsOf aInputs → aOut.filter (fun p => p.1 == i) = tagged (linksOf aLink aInputs) i s.rest) ∧
    (∀ p, p ∈ aOut → ∃ s, (p.1, s) ∈ srcsOf aInputs) :=
  ⟨merge_sorted_ties scanHeap a_hm a_hr a_hl lessByCoordinate_strictWeak a_hs,
   fun i s hi => (merge_stable_per_input scanHeap a_hm a_hr i s hi).2 (Or.inl (by simp [a_hl])),
   fun p hp => by
     obtain ⟨j, s, r, hmem, _, rfl⟩ := (mem_delivered _ _ p).1 (merge_nothing_else scanHeap a_hm a_hr p hp)
     exact ⟨s, hmem⟩⟩
/-- `relinked_sorted_of_monotone`: input 1 (header [a, c]) sorted by its own header, links 0 ↦ 1, 1 ↦ 2 monotone -/
example : KeySorted ([rA 4 (some 0) 1 (some 1) 0, rA 5 (some 0) 7 none 1, rA 6 (some 1) 0 (some 0) 2].map (relink (some aLink) 1)) :=
  relinked_sorted_of_monotone aLink 1 _ (by intro x y h; simp [aLink]; omega) (by simp [KeySorted, rA, keyLt, coordKey])

/-- positions are integers: a placed record without a position (Pos = -1, SAM POS 0) sorts before every other
position of its reference, in front of the next reference, and an unplaced record (also Pos = -1) after all -/
example : lessByCoordinate (rA 1 (some 0) (-1) none 0) (rA 2 (some 0) 0 none 1) = true ∧
    lessByCoordinate (rA 2 (some 0) 0 none 1) (rA 1 (some 0) (-1) none 0) = false ∧
    lessByCoordinate (rA 2 (some 0) 2147483647 none 1) (rA 1 (some 1) (-1) none 0) = true ∧
    lessByCoordinate (rA 1 (some 1) (-1) none 0) (rA 3 none (-1) none 2) = true ∧
    lessByCoordinate (rA 3 none (-1) none 2) (rA 1 (some 0) (-1) none 0) = false := by decide
example : keyLt (coordKey (rA 1 (some 0) (-1) none 0)) (coordKey (rA 2 (some 0) 0 none 1)) :=
  (coordinate_order_spec _ _).1 (by decide)

/-! Scenario B — three unsorted inputs, concatenated; all end cleanly.
Scenario C — the same with the second input returning a record-level error (not sticky) after its first record. -/

def bInputs : List Input :=
  [ { so := .unsorted, src := { rest := [rA 3 (some 1) 9 none 0, rA 1 (some 0) 2 (some 1) 1], term := .eof } },
    { so := .unsorted, src := { rest := [rA 2 (some 0) 5 none 0, rA 2 none (-1) none 1], term := .eof } },
    { so := .unsorted, src := { rest := [rA 1 (some 1) 1 (some 0) 0], term := .eof } } ]

def cInputs : List Input :=
  [ { so := .unsorted, src := { rest := [rA 3 (some 1) 9 none 0, rA 1 (some 0) 2 (some 1) 1], term := .eof } },
    { so := .unsorted, src := { rest := [rA 2 (some 0) 5 none 0], term := .err 4, later := [([rA 2 none (-1) none 2], .eof)] } },
    { so := .unsorted, src := { rest := [rA 1 (some 1) 1 (some 0) 0], term := .err 9 } } ]

def bM : Merger := match newMerger none (some aLink) bInputs with | .ok m => m | .error _ => { links := none, mode := .cat [] none }
def cM : Merger := match newMerger none (some aLink) cInputs with | .ok m => m | .error _ => { links := none, mode := .cat [] none }
def b_hm : newMerger none (some aLink) bInputs = .ok bM := rfl
def c_hm : newMerger none (some aLink) cInputs = .ok cM := rfl
def b_hr : bM.readAll scanHeap = ((bM.readAll scanHeap).1, (bM.readAll scanHeap).2) := rfl
def c_hr : cM.readAll scanHeap = ((cM.readAll scanHeap).1, (cM.readAll scanHeap).2) := rfl

example : (bM.readAll scanHeap).1.map (fun p => (p.1, p.2.uid)) = [(0, 0), (0, 1), (1, 0), (1, 1), (2, 0)] := by decide
example : (cM.readAll scanHeap).1.map (fun p => (p.1, p.2.uid)) = [(0, 0), (0, 1), (1, 0)] := by decide
example : (cM.readAll scanHeap).2 = some (.err 4) := by decide

example : (bM.readAll scanHeap).1 = deliveredBy aLink bInputs ∧ (bM.readAll scanHeap).2 = some .eof :=
  merge_concatenates scanHeap b_hm b_hr rfl (by simp [bInputs])
example : (∀ inp, inp ∈ bInputs → inp.src.term = .eof) ∧ (bM.readAll scanHeap).1.Perm (deliveredBy aLink bInputs) :=
  merge_eof_only_after_all scanHeap b_hm b_hr (by decide)
example : (cM.readAll scanHeap).1 <+: deliveredBy aLink cInputs :=
  merge_concatenation_prefix scanHeap c_hm c_hr rfl
example : ∃ pre p post, srcsOf cInputs = pre ++ p :: post ∧ (∀ q, q ∈ pre → q.2.term = .eof) ∧ p.2.term = .err 4 ∧
      (cM.readAll scanHeap).1 = delivered (linksOf aLink cInputs) (pre ++ [p]) :=
  merge_concatenation_stops_at_first_error scanHeap c_hm c_hr rfl 4 (by decide)
/-- `read_after_final` on scenario C: after the record-level error of input 1 the merger is asked again -/
example : ∀ m1, (cM.advance scanHeap 3).read scanHeap = (.fin (.err 4), m1) → m1.read scanHeap = (.fin (.err 4), m1) :=
  fun m1 h => read_after_final scanHeap _ m1 _ h
example : ∃ m1, (cM.advance scanHeap 3).read scanHeap = (.fin (.err 4), m1) := ⟨_, rfl⟩

end Hts.Props.C18
