/-
C18 — property theorems (stub: no theorem stated yet, so no obligation is counted).
-/
namespace Hts.Props.C18
end Hts.Props.C18
