/-
C19 — FAI index and File return exactly the requested subsequence.

Property theorems only (namespace Hts.Props.C19).  Model: Hts/Model/Fai.lean (package fai with the repairs
fixes/C19-1..3), specification of well-formed FASTA files: Hts/Spec/Fasta.lean.  All theorems quantify over
EVERY well-formed file (any number of records, any width ≥ 1, LF or CRLF per record, descriptions, blank
lines before the first and after any record, last record with or without final newline, empty sequences), every range and every
list of buffer sizes.  No bound on any size except where Go's `int` itself is the bound (text round trip).
-/
import Hts.Lemmas.FaiFileText
import Hts.Lemmas.FaiSane
import Hts.Lemmas.FaiSample
import Hts.Lemmas.FaiReaderAt
import Hts.Lemmas.FaiScanner
set_option linter.unusedVariables false
set_option linter.unusedSimpArgs false
namespace Hts.Props.C19
open Hts.Model.Fai
open Hts.Spec.Fasta (File Rec Entry)
open Hts.Lemmas.Fai (ofEntry expectedCalls IndexOK NameOK Small sampleFile)

/-! ### NewIndex -/

/-- `index_true`: for every well-formed file, `NewIndex` succeeds and returns, in file order, exactly one
record per sequence whose Name, Length, Start, BasesPerLine and BytesPerLine are the true ones
(`Spec.Fasta.Rec.entry`: number of bases, offset of the first base, bases and bytes of the first line). -/
theorem index_true (f : File) (h : f.WF) :
    newIndex f.render = .ok (f.entries.map ofEntry) :=
  Hts.Lemmas.Fai.newIndex_render f h

/-- Looking a sequence up by name in that index finds its own true entry. -/
theorem index_lookup (f : File) (h : f.WF) (idx : Index) (hidx : newIndex f.render = .ok idx)
    (r : Rec) (hr : r ∈ f.recs) :
    ∃ pre post, f.recs = pre ++ r :: post ∧
      idx.lookup r.name =
        some (ofEntry (r.entry (f.leading.length + (pre.map Rec.render).flatten.length))) := by
  rw [index_true f h] at hidx
  cases hidx
  obtain ⟨R, h1, _, _, pre, post, h4, h5⟩ := Hts.Lemmas.Fai.record_in_file f h r hr
  exact ⟨pre, post, h4, h5 ▸ h1⟩

/-! ### Position -/

/-- `position_correct`: for every sequence of a well-formed file and every base index `p` below its length,
`Record.Position p` does not panic and the byte of the file at that offset is base `p`. -/
theorem position_correct (f : File) (h : f.WF) (idx : Index) (hidx : newIndex f.render = .ok idx)
    (r : Rec) (hr : r ∈ f.recs) (p : Nat) (hp : p < r.bases.length) :
    ∃ R, idx.lookup r.name = some R ∧ R.Position p = .ok (R.position p) ∧
      f.render[R.position p]? = r.bases[p]? := by
  rw [index_true f h] at hidx
  cases hidx
  obtain ⟨R, h1, g, _, _⟩ := Hts.Lemmas.Fai.record_in_file f h r hr
  refine ⟨R, h1, ?_, ?_⟩
  · have hne : r.bases ≠ [] := by intro e; rw [e] at hp; simp at hp
    have := g.bpl_pos hne
    unfold Record.Position
    have h1 : ¬ ((p : Int) < 0 ∨ (R.length : Int) ≤ (p : Int)) := by rw [g.len]; omega
    rw [if_neg h1]
    simp
  · have hne : r.bases ≠ [] := by intro e; rw [e] at hp; simp at hp
    have hw := g.bpl_pos hne
    have hL : p + 1 ≤ R.length := by rw [g.len]; omega
    obtain ⟨_, _, a3, _⟩ := Hts.Lemmas.Fai.line_arith R.basesPerLine R.bytesPerLine p (p + 1) R.length hw
      g.bpl_le (by omega) hL
    have hs := g.slice p 1 (by omega) a3
    unfold readAt at hs
    have := congrArg List.head? hs
    simpa [List.head?_take, List.head?_drop] using this

/-! ### Seq / SeqRange / Read -/

/-- `read_call`: one `Read` call with a buffer of `k` bytes, at any cursor of any valid range of any
sequence, stores exactly the next `min k (stop - cur)` bases and returns `nil` if the buffer was filled,
`io.EOF` otherwise. -/
theorem read_call (f : File) (h : f.WF) (idx : Index) (hidx : newIndex f.render = .ok idx)
    (r : Rec) (hr : r ∈ f.recs) (R : Record) (hR : idx.lookup r.name = some R)
    (cur start stop : Nat) (hc : cur ≤ stop) (hs : stop ≤ r.bases.length) (k : Nat) :
    Seq.read f.render ⟨R, cur, start, stop⟩ k =
      ⟨(r.bases.drop cur).take (min k (stop - cur)), if k ≤ stop - cur then .nil else .eof,
       cur + min k (stop - cur)⟩ := by
  rw [index_true f h] at hidx
  cases hidx
  obtain ⟨R', h1, g, _, _⟩ := Hts.Lemmas.Fai.record_in_file f h r hr
  have e : R' = R := Option.some.inj (h1.symm.trans hR)
  subst e
  exact Hts.Lemmas.Fai.read_spec f.render R' r.bases g ⟨R', cur, start, stop⟩ rfl hc hs k

/-- `read_exact`: for all `0 ≤ s ≤ e ≤ length` and EVERY list of buffer sizes, `SeqRange(name, s, e)`
succeeds and the successive `Read` calls return `bases[s, e)`:
 (1) call by call they are `expectedCalls` — each call takes the next `k` bases while `k` remain, the first
     call that cannot be filled returns the remainder with io.EOF and the run stops;
 (2) the concatenation of everything read is `bases[s, min e (s + Σ sizes))`;
 (3) if the sizes add up to more than `e - s`, the run is `nil`-calls followed by exactly one `io.EOF`,
     and by (2) the bytes read are exactly `bases[s, e)`;
 (4) otherwise no call reports an error. -/
theorem read_exact (f : File) (h : f.WF) (idx : Index) (hidx : newIndex f.render = .ok idx)
    (r : Rec) (hr : r ∈ f.recs) (s e : Nat) (hse : s ≤ e) (he : e ≤ r.bases.length) (ks : List Nat) :
    ∃ sq, seqRange idx r.name s e = .ok sq ∧ sq.cur = s ∧ sq.start = s ∧ sq.stop = e ∧
      readCalls f.render sq ks = expectedCalls r.bases e s ks ∧
      ((readCalls f.render sq ks).map (·.1)).flatten = (r.bases.drop s).take (min (e - s) ks.sum) ∧
      (e - s < ks.sum → ∃ pre d, readCalls f.render sq ks = pre ++ [(d, .eof)] ∧ ∀ x ∈ pre, x.2 = .nil) ∧
      (ks.sum ≤ e - s → ∀ x ∈ readCalls f.render sq ks, x.2 = .nil) := by
  have hidx' := hidx
  rw [index_true f h] at hidx'
  cases hidx'
  obtain ⟨R, h1, g, _, _⟩ := Hts.Lemmas.Fai.record_in_file f h r hr
  have hcalls := Hts.Lemmas.Fai.readCalls_spec f.render R r.bases g s e he ks s hse
  refine ⟨⟨R, s, s, e⟩, ?_, rfl, rfl, rfl, hcalls, ?_, ?_, ?_⟩
  · unfold seqRange
    have h0 : ¬ ((s : Int) < 0 ∨ (e : Int) < 0 ∨ (e : Int) < (s : Int)) := by omega
    have h2 : ¬ ((R.length : Int) < (s : Int) ∨ (R.length : Int) < (e : Int)) := by rw [g.len]; omega
    rw [if_neg h0]
    simp only [h1]
    rw [if_neg h2]
    simp
  · rw [hcalls]; exact Hts.Lemmas.Fai.expectedCalls_data r.bases e ks s
  · intro hlt; rw [hcalls]; exact Hts.Lemmas.Fai.expectedCalls_eof r.bases e ks s hlt
  · intro hle; rw [hcalls]; exact Hts.Lemmas.Fai.expectedCalls_nil r.bases e ks s hle

/-- `read_exact_any_readerat`: the same over ANY `io.ReaderAt` of the file.  `read_call`/`read_exact` fix the
reader's behaviour to that of `bytes.Reader`/`os.File` (io.EOF only with a short read).  The contract also lets a
reader report io.EOF together with a complete read that ends exactly at the end of the input; `eager` is an
arbitrary choice of the reads where it does so (`Model.Fai.readLoopE`).  For every such reader, every range and
every list of positive buffer sizes: the bytes read are `bases[s, min e (s+Σk))`; every error is nil or io.EOF;
if `Σk > e-s` the run is nil-calls followed by exactly one io.EOF (so the bytes are exactly `bases[s,e)`) — an
io.EOF, early or not, is only ever returned once the segment is complete.  With `eager = fun _ _ => false` the
run is literally `readCalls` (`readCallsE_false`). -/
theorem read_exact_any_readerat (eager : Nat → Nat → Bool) (f : File) (h : f.WF) (idx : Index)
    (hidx : newIndex f.render = .ok idx) (r : Rec) (hr : r ∈ f.recs) (s e : Nat) (hse : s ≤ e)
    (he : e ≤ r.bases.length) (ks : List Nat) (hks : ∀ k ∈ ks, 1 ≤ k) :
    ∃ sq, seqRange idx r.name s e = .ok sq ∧
      ((readCallsE eager f.render sq ks).map (·.1)).flatten = (r.bases.drop s).take (min (e - s) ks.sum) ∧
      (e - s < ks.sum →
        ∃ pre d, readCallsE eager f.render sq ks = pre ++ [(d, .eof)] ∧ ∀ x ∈ pre, x.2 = .nil) ∧
      (∀ x ∈ readCallsE eager f.render sq ks, x.2 = .nil ∨ x.2 = .eof) ∧
      readCallsE (fun _ _ => false) f.render sq ks = readCalls f.render sq ks := by
  obtain ⟨sq, h1, hc, hs, hst, _⟩ := read_exact f h idx hidx r hr s e hse he ks
  have hidx' := hidx
  rw [index_true f h] at hidx'
  cases hidx'
  obtain ⟨R, hl, g, _, _⟩ := Hts.Lemmas.Fai.record_in_file f h r hr
  have hsq : sq = ⟨R, s, s, e⟩ := by
    have := Hts.Lemmas.Fai.seqRange_bounds _ _ _ _ sq h1
    rw [hl] at this
    cases sq
    simp only at hc hs hst this
    have hr' := Option.some.inj this.2.2
    subst hc hs hst hr'
    rfl
  subst hsq
  obtain ⟨a, b, c⟩ := Hts.Lemmas.Fai.readCallsE_spec eager f.render R r.bases g s e he ks hks s hse
  exact ⟨_, h1, a, b, c, Hts.Lemmas.Fai.readCallsE_false _ _ _⟩

/-- `read_whole`: `File.Seq(name)` is the range `[0, length)`: reading it returns all bases, then io.EOF. -/
theorem read_whole (f : File) (h : f.WF) (idx : Index) (hidx : newIndex f.render = .ok idx)
    (r : Rec) (hr : r ∈ f.recs) (ks : List Nat) :
    ∃ sq, seqWhole idx r.name = .ok sq ∧
      readCalls f.render sq ks = expectedCalls r.bases r.bases.length 0 ks ∧
      (r.bases.length < ks.sum → ((readCalls f.render sq ks).map (·.1)).flatten = r.bases) := by
  have hidx' := hidx
  rw [index_true f h] at hidx'
  cases hidx'
  obtain ⟨R, h1, g, _, _⟩ := Hts.Lemmas.Fai.record_in_file f h r hr
  have hcalls := Hts.Lemmas.Fai.readCalls_spec f.render R r.bases g 0 r.bases.length (Nat.le_refl _) ks 0
    (Nat.zero_le _)
  refine ⟨⟨R, 0, 0, R.length⟩, by simp [seqWhole, h1], ?_, ?_⟩
  · rw [g.len]; exact hcalls
  · intro hlt
    rw [g.len, hcalls, Hts.Lemmas.Fai.expectedCalls_data]
    simp only [Nat.sub_zero, List.drop_zero]
    rw [Nat.min_eq_left (by omega)]
    exact List.take_length

/-- `Reset` after any amount of reading puts the handle back to the state `SeqRange` returned, so every
statement of `read_exact` holds again after a `Reset`. -/
theorem reset_restores (idx : Index) (name : Bytes) (s e : Int) (sq : Seq)
    (h : seqRange idx name s e = .ok sq) (cur : Nat) : ({ sq with cur := cur } : Seq).reset = sq := by
  unfold seqRange at h
  split at h
  · cases h
  · split at h
    · cases h
    · split at h
      · cases h
      · cases h; rfl

/-- Ranges outside `0 ≤ start ≤ end ≤ length` are refused (no `Seq` is handed out), for any index. -/
theorem seqRange_refuses (idx : Index) (name : Bytes) (s e : Int) (R : Record)
    (hR : idx.lookup name = some R) (hbad : s < 0 ∨ e < s ∨ (R.length : Int) < e) :
    seqRange idx name s e = .error .outOfRange := by
  unfold seqRange
  by_cases h0 : s < 0 ∨ e < 0 ∨ e < s
  · simp [h0]
  · have h2 : (R.length : Int) < s ∨ (R.length : Int) < e := by omega
    simp [h0, hR, h2]

/-! ### NewIndex rejects (two of the code's error branches, after any well-formed prefix whose lines are
all terminated) -/

/-- a line that is `>` alone, possibly surrounded by white space: "fai: missing sequence name" -/
theorem newIndex_rejects_nameless_header (f : File) (h : f.WF) (hfin : ∀ r ∈ f.recs, r.finalNewline = true)
    (line rest : Bytes) (hl : Hts.Lemmas.Fai.Term line) (hb : trimSpace line = [GT]) :
    newIndex (f.render ++ (line ++ rest)) = .error .missingName :=
  Hts.Lemmas.Fai.newIndex_nameless f h hfin line rest hl hb

/-- a header repeating the name of an earlier record: "fai: duplicate sequence identifier" -/
theorem newIndex_rejects_duplicate (f : File) (h : f.WF) (hfin : ∀ r ∈ f.recs, r.finalNewline = true)
    (r : Rec) (hr : r ∈ f.recs) (d t rest : Bytes) (hd : Hts.Lemmas.Fai.DescTail d)
    (ht : ∀ b ∈ t, isSpace b = true) (hl : Hts.Lemmas.Fai.Term (GT :: (r.name ++ d) ++ t)) :
    newIndex (f.render ++ ((GT :: (r.name ++ d) ++ t) ++ rest)) = .error .duplicate :=
  Hts.Lemmas.Fai.newIndex_duplicate f h hfin r hr d t rest hd ht hl

/-- a sequence line after a blank line — a blank line inside a record, or between the header and the sequence —
is rejected ("fai: unexpected short line", fixes/C19-4): such a file has no FAI description, and before the
repair it was indexed silently and read back with line terminators in place of bases. `line` is any line
that is neither blank nor a header. -/
theorem newIndex_rejects_blank_inside_record (f : File) (h : f.WF) (hfin : ∀ r ∈ f.recs, r.finalNewline = true)
    (bl : List Bytes) (hbl : bl ≠ []) (hb : ∀ l ∈ bl, ∀ b ∈ l, Hts.Spec.Fasta.isBlankByte b = true)
    (line rest : Bytes) (hl : Hts.Lemmas.Fai.Term line) (h1 : trimSpace line ≠ [])
    (h2 : (trimSpace line).head? ≠ some GT) :
    newIndex (f.render ++ ((Hts.Spec.Fasta.blankLines bl).flatten ++ (line ++ rest))) = .error .shortLine :=
  Hts.Lemmas.Fai.newIndex_blank_inside f h hfin bl hbl hb line rest hl h1 h2

/-! ### No reachable division by zero (the guard of `endOfLineOffset`), for ARBITRARY input -/

/-- Whatever bytes `NewIndex` is given, every record of an index it returns has `BasesPerLine > 0` unless its
`Length` is 0. -/
theorem newIndex_records_sane (fasta : Bytes) (idx : Index) (h : newIndex fasta = .ok idx) :
    ∀ R ∈ idx, R.basesPerLine = 0 → R.length = 0 :=
  Hts.Lemmas.Fai.newIndex_sane fasta idx h

/-- Whatever text `ReadFrom` is given, every record it accepts passed `Record.isValid`; in particular it has no
negative field, `BytesPerLine ≥ BasesPerLine`, and `BasesPerLine > 0` unless `Length` is 0. -/
theorem readFrom_records_valid (text : Bytes) (out : List RawRecord) (h : readFrom text = .ok out) :
    ∀ r ∈ out, r.isValid = true ∧ 0 ≤ r.length ∧ 0 ≤ r.start ∧ 0 ≤ r.basesPerLine ∧
      r.basesPerLine ≤ r.bytesPerLine ∧ (r.basesPerLine = 0 → r.length = 0) := by
  intro r hr
  have hv := Hts.Lemmas.Fai.readFrom_valid text out h r hr
  exact ⟨hv, Hts.Lemmas.Fai.valid_sane r hv⟩

/-- `read_never_divides_by_zero`: for an index `NewIndex` built from ANY input, any handle `SeqRange` or `Seq`
returns (any name and range it accepts), any cursor position (any earlier calls or `Reset`) and any buffer
size, `Read` does not hit the integer division by zero of `endOfLineOffset`/`position`: the model's `panicDiv`
outcome is unreachable through the package API.  (The same holds for an index accepted by `ReadFrom`, by
`readFrom_records_valid`.) -/
theorem read_never_divides_by_zero (fasta file : Bytes) (idx : Index) (h : newIndex fasta = .ok idx)
    (name : Bytes) (s e : Int) (sq : Seq) (hsq : seqRange idx name s e = .ok sq ∨ seqWhole idx name = .ok sq)
    (cur k : Nat) : (Seq.read file { sq with cur := cur } k).err ≠ .panicDiv := by
  have hb : sq.stop ≤ sq.rcd.length ∧ idx.lookup name = some sq.rcd := by
    rcases hsq with hsq | hsq
    · exact (Hts.Lemmas.Fai.seqRange_bounds idx name s e sq hsq).2
    · exact (Hts.Lemmas.Fai.seqWhole_bounds idx name sq hsq).2
  have hs := newIndex_records_sane fasta idx h sq.rcd (Hts.Lemmas.Fai.lookup_mem idx name sq.rcd hb.2)
  exact Hts.Lemmas.Fai.read_no_div file { sq with cur := cur } hs hb.1 k

/-! ### WriteTo / ReadFrom -/

/-- own decimal formatting / parsing round trip (`%d` and `strconv.ParseInt` on Go's `int` range) -/
theorem decimal_roundtrip (n : Nat) (h : n < 2 ^ 63) : readInt (showNat n) = some (n : Int) :=
  Hts.Lemmas.Fai.readInt_showNat n h

/-- `fai_roundtrip`: any index with pairwise distinct names (a Go map), names without tab, line feed and
double quote, fields in Go's `int` range and records that pass `Record.isValid` is read back unchanged from the text `WriteTo` produces: the
same records (in ascending start order, the order of the text; a permutation of the map's records). -/
theorem fai_roundtrip (idx : Index) (h : IndexOK idx) :
    readFrom (writeTo idx) = .ok ((sortByStart idx).map Record.toRaw) ∧ (sortByStart idx).Perm idx :=
  ⟨Hts.Lemmas.Fai.readFrom_writeTo idx h, Hts.Lemmas.Fai.sortByStart_perm idx⟩

/-- `index_records_valid`: every record `NewIndex` builds from a well-formed file (smaller than 2^62 bytes)
passes the validation `ReadFrom` applies to the records it reads (`Record.isValid`: no negative field,
`BytesPerLine ≥ BasesPerLine`, `BasesPerLine = 0` only for an empty sequence, last line offset within int64),
so `ReadFrom` never rejects an index this package wrote for such a file because of that check. -/
theorem index_records_valid (f : File) (h : f.WF) (hsz : 2 * f.render.length + 2 < 2 ^ 63) (idx : Index)
    (hidx : newIndex f.render = .ok idx) : ∀ R ∈ idx, R.toRaw.isValid = true := by
  rw [index_true f h] at hidx
  cases hidx
  intro R hR
  simp only [List.mem_map] at hR
  obtain ⟨e, he, rfl⟩ := hR
  have hrl : f.render.length = f.leading.length + (f.recs.map Rec.render).flatten.length := by
    simp [File.render]
  obtain ⟨v1, v2, v3⟩ := Hts.Lemmas.Fai.entries_valid_bound f.recs h.2.1 f.leading.length e he
  exact Hts.Lemmas.Fai.isValid_of_nat (ofEntry e) v1 v2 (by simp only [ofEntry]; omega)

/-- a record `ReadFrom` must reject (38c3f30): `a 10 0 0 0` has bases but no bases per line -/
example : (RawRecord.mk [97] 10 0 0 0).isValid = false := by decide

/-- The full-strength statement for files: the index of every well-formed file survives WriteTo/ReadFrom. -/
def fai_roundtrip_full : Prop :=
  ∀ (f : File), f.WF → 2 * f.render.length + 2 < 2 ^ 63 → ∀ idx, newIndex f.render = .ok idx →
    readFrom (writeTo idx) = .ok (idx.map Record.toRaw)

/-- `fai_roundtrip_partial`: it holds for every well-formed file none of whose names contains a double
quote (the .fai text is read through encoding/csv, which gives `"` a meaning) — the excluded case is a
recorded finding, see `fai_roundtrip_witness`.  The records come back in the order of the index itself
(file order = start order). -/
theorem fai_roundtrip_partial (f : File) (h : f.WF) (hq : ∀ r ∈ f.recs, DQ ∉ r.name)
    (hsz : 2 * f.render.length + 2 < 2 ^ 63) (idx : Index) (hidx : newIndex f.render = .ok idx) :
    readFrom (writeTo idx) = .ok (idx.map Record.toRaw) := by
  rw [index_true f h] at hidx
  cases hidx
  obtain ⟨hok, hsorted⟩ := Hts.Lemmas.Fai.file_indexOK f h hq hsz
  have := Hts.Lemmas.Fai.readFrom_writeTo _ hok
  rw [hsorted] at this
  exact this

/-- The file `>a"b\nA\n` of the finding. -/
def quoteFile : File :=
  { recs := [{ name := [97, 34, 98], desc := none, bases := [65], width := 1, eol := .lf, finalNewline := true,
               blanksAfter := [] }] }

/-- `fai_roundtrip_witness`: the full statement is false on the code as it is: the well-formed file
`>a"b\nA\n` is indexed as `a"b 1 5 1 2`, WriteTo prints the name verbatim, and ReadFrom rejects the line
(csv.ErrBareQuote). -/
theorem fai_roundtrip_witness : ¬ fai_roundtrip_full := by
  intro hfull
  have hwf : quoteFile.WF := by decide
  have hidx := index_true quoteFile hwf
  have hent : quoteFile.entries.map ofEntry = [⟨[97, 34, 98], 1, 5, 1, 2⟩] := by
    simp [quoteFile, File.entries, File.leading, Hts.Spec.Fasta.blankLines, Hts.Spec.Fasta.entriesFrom,
      Rec.entry, ofEntry, Rec.headerLine, Hts.Spec.Fasta.Eol.bytes]
  rw [hent] at hidx
  have hlen : 2 * quoteFile.render.length + 2 < 2 ^ 63 := by
    have : quoteFile.render = [62, 97, 34, 98, 10, 65, 10] := by
      simp [quoteFile, File.render, File.leading, Rec.render, Rec.fileLines, Rec.lines, Rec.headerLine,
        Hts.Lemmas.Fai.seqLines_single, Hts.Spec.Fasta.terminate, Hts.Spec.Fasta.blankLines,
        Hts.Spec.Fasta.Eol.bytes, Hts.Spec.Fasta.GT, Hts.Spec.Fasta.LF]
    rw [this]; decide
  have := hfull quoteFile hwf hlen _ hidx
  have hw : writeTo [⟨[97, 34, 98], 1, 5, 1, 2⟩] = [97, 34, 98, 9, 49, 9, 53, 9, 49, 9, 50, 10] := by
    simp [writeTo, sortByStart, insertByStart, writeRec, Hts.Lemmas.Fai.showNat_lt, digit, TAB, LF]
  rw [hw] at this
  have hr : readFrom [97, 34, 98, 9, 49, 9, 53, 9, 49, 9, 50, 10] = .error .bareQuote := by rfl
  rw [hr] at this
  cases this

/-! ### Non-vacuity -/

example : sampleFile.WF := by decide

/-! Instances of the theorems on `sampleFile` (a leading blank line; record `s1`: CRLF, description, 8 bases on
lines of 4, two blank lines after it; record `s2`: LF, 3 bases on lines of 2, short last line without final
newline): every hypothesis is discharged, so none of the statements is vacuous. -/

/-- the index of `sampleFile`, concretely -/
example : newIndex sampleFile.render = .ok [⟨[115, 49], 8, 11, 4, 6⟩, ⟨[115, 50], 3, 32, 2, 3⟩] := by
  rw [index_true sampleFile (by decide), Hts.Lemmas.Fai.sampleFile_entries]
  rfl

example := position_correct sampleFile (by decide) _ (index_true sampleFile (by decide))
  Hts.Lemmas.Fai.sampleRec1 (by simp [sampleFile]) 5 (by decide)

/-- the range [1,3) of `s2` (it crosses the line end and reaches the unterminated last line), buffers 1 then 7 -/
example := read_exact sampleFile (by decide) _ (index_true sampleFile (by decide))
  Hts.Lemmas.Fai.sampleRec2 (by simp [sampleFile]) 1 3 (by decide) (by decide) [1, 7]

/-- the range [2,8) of the CRLF record `s1`, buffers 3, 3, 3 -/
example := read_exact sampleFile (by decide) _ (index_true sampleFile (by decide))
  Hts.Lemmas.Fai.sampleRec1 (by simp [sampleFile]) 2 8 (by decide) (by decide) [3, 3, 3]

/-- the last range of the last record (no final newline) over a reader that reports io.EOF with the last bytes -/
example := read_exact_any_readerat (fun _ _ => true) sampleFile (by decide) _ (index_true sampleFile (by decide))
  Hts.Lemmas.Fai.sampleRec2 (by simp [sampleFile]) 1 3 (by decide) (by decide) [2, 5] (by decide)

example := read_whole sampleFile (by decide) _ (index_true sampleFile (by decide))
  Hts.Lemmas.Fai.sampleRec1 (by simp [sampleFile]) [64]

example := read_call sampleFile (by decide) _ (index_true sampleFile (by decide))
  Hts.Lemmas.Fai.sampleRec2 (by simp [sampleFile]) _
  (index_lookup sampleFile (by decide) _ (index_true sampleFile (by decide))
    Hts.Lemmas.Fai.sampleRec2 (by simp [sampleFile])).choose_spec.choose_spec.2 1 0 3 (by decide) (by decide) 4096

example := index_records_valid sampleFile (by decide) Hts.Lemmas.Fai.sampleFile_size _
  (index_true sampleFile (by decide))

example := fai_roundtrip_partial sampleFile (by decide) (by decide) Hts.Lemmas.Fai.sampleFile_size _
  (index_true sampleFile (by decide))

/-- rejection theorems on `sampleFile`'s first record alone (all lines terminated): `>s1 d e\r\nACGT\r\nACGT\r\n`
followed by a blank line and `AC\n` (blank line inside a record), by `>\n`, and by a second `>s1` header -/
example := newIndex_rejects_blank_inside_record Hts.Lemmas.Fai.sampleFile1 (by decide) (by decide)
  [[]] (by decide) (by decide) [65, 67, 10] [] ⟨[65, 67], by decide, rfl⟩ (by decide) (by decide)

example := newIndex_rejects_nameless_header Hts.Lemmas.Fai.sampleFile1 (by decide) (by decide)
  [62, 10] [65, 10] ⟨[62], by decide, rfl⟩ (by decide)

example := newIndex_rejects_duplicate Hts.Lemmas.Fai.sampleFile1 (by decide) (by decide)
  Hts.Lemmas.Fai.sampleRec1b (by simp [Hts.Lemmas.Fai.sampleFile1]) [32, 120] [10] [65, 10]
  (Or.inr ⟨32, [120], rfl, by decide, by decide⟩) (by decide) ⟨[62, 115, 49, 32, 120], by decide, rfl⟩

/-- an index built from arbitrary bytes (`ACGT` before any header: not a well-formed file) still cannot make
`Read` divide by zero -/
example (idx : Index) (h : newIndex [65, 67, 71, 84, 10, 62, 97, 10] = .ok idx) (sq : Seq)
    (hsq : seqWhole idx [97] = .ok sq) :=
  read_never_divides_by_zero _ [] idx h [97] 0 0 sq (Or.inr hsq) 0 1

/-- an empty sequence followed by another record is well formed too -/
example : ({ recs := [{ name := [97], desc := none, bases := [], width := 1, eol := .lf, finalNewline := true,
                        blanksAfter := [[]] },
                      { name := [98], desc := some [9], bases := [65], width := 60, eol := .lf,
                        finalNewline := true, blanksAfter := [] }] } : File).WF := by decide

/-- the hypotheses of the rejection theorems are satisfiable: the line `>\n`, and the header `>s1 x\n` -/
example : Hts.Lemmas.Fai.Term [62, 10] ∧ trimSpace [62, 10] = [GT] :=
  ⟨⟨[62], by decide, rfl⟩, by decide⟩

example : Hts.Lemmas.Fai.DescTail [32, 120] ∧ Hts.Lemmas.Fai.Term (GT :: ([115, 49] ++ [32, 120]) ++ [10]) :=
  ⟨Or.inr ⟨32, [120], rfl, by decide, by decide⟩, ⟨[62, 115, 49, 32, 120], by decide, rfl⟩⟩

/-- the hypotheses of `fai_roundtrip` are satisfiable by a two-record index -/
example : IndexOK [⟨[97], 6, 3, 4, 5⟩, ⟨[98], 6, 15, 4, 5⟩] := by
  refine ⟨by decide, ?_, ?_, ?_⟩
  · intro r hr
    simp only [List.mem_cons, List.not_mem_nil, or_false] at hr
    rcases hr with rfl | rfl <;> (unfold NameOK; decide)
  · intro r hr
    simp only [List.mem_cons, List.not_mem_nil, or_false] at hr
    rcases hr with rfl | rfl <;> (unfold Small; decide)
  · intro r hr
    simp only [List.mem_cons, List.not_mem_nil, or_false] at hr
    rcases hr with rfl | rfl <;> decide

/-! ### Extension round 5: the scanner — tokens do not depend on how the source delivers its bytes

`Model/FaiScan.lean`: `split` (the Split function of `NewIndex`), `scanTokens sp eofWithLast chunks` (bufio.Scanner's
loop over a source whose successive `Read`s return `chunks`, `io.EOF` arriving with the last chunk or on a separate
empty read; empty chunks = empty reads without EOF are allowed), `lines` (the specification). -/

/-- `lines` is a cut of the data: nothing lost, nothing reordered. -/
theorem lines_flatten (data : Bytes) : (lines data).flatten = data := by
  induction data with
  | nil => rfl
  | cons b bs ih =>
    simp only [lines]
    split
    · cases h : lines bs with
      | nil => rw [h] at ih; simp at ih; simp [← ih]
      | cons l ls => rw [h] at ih; simp at ih; simp [← ih]
    · simp [ih]

/-- `lines`, first clause: an LF-free piece followed by an LF is the first line, terminator included. -/
theorem lines_terminated (l : Bytes) (rest : Bytes) (hl : ∀ x ∈ l, x ≠ LF) :
    lines (l ++ LF :: rest) = (l ++ [LF]) :: lines rest :=
  Hts.Lemmas.FaiScanner.lines_terminated l LF rest
    (fun x hx => by
      have := hl x hx
      simp only [notLF, decide_eq_true_eq]
      intro h; exact this (UInt8.toNat_inj.mp h))
    (by decide)

/-- `lines`, last clause: a non-empty LF-free rest is the one final, unterminated line (and `lines [] = []`). -/
theorem lines_unterminated (l : Bytes) (hne : l ≠ []) (hl : ∀ x ∈ l, x ≠ LF) : lines l = [l] ∧ lines [] = [] :=
  ⟨Hts.Lemmas.FaiScanner.lines_unterminated l hne
    (fun x hx => by
      have := hl x hx
      simp only [notLF, decide_eq_true_eq]
      intro h; exact this (UInt8.toNat_inj.mp h)), rfl⟩

/-- `split` never stalls and never advances too far: a token always comes with `0 < advance ≤ len(data)`
(so the model's "outside the model" branch of `drainF` is dead for it). -/
theorem split_advance_ok (data : Bytes) (atEOF : Bool) (adv : Nat) (tok : Bytes)
    (h : split data atEOF = (adv, some tok)) : 0 < adv ∧ adv ≤ data.length := by
  unfold split at h
  split at h
  · simp at h
  · next hne =>
    split at h
    · next i hi =>
      simp only [indexLF] at hi
      split at hi
      · next hlt =>
        simp only [Option.some.injEq] at hi
        simp only [Prod.mk.injEq] at h
        omega
      · simp at hi
    · split at h
      · next he =>
        simp only [Prod.mk.injEq, Option.some.injEq] at h
        subst he
        have : data ≠ [] := by
          intro h0; subst h0; simp at hne
        have := List.length_pos_iff.mpr this
        omega
      · simp at h

/-- MAIN: for every byte string, every way of cutting it into reads (empty reads included) and both ways of
delivering `io.EOF`, the scanner's token sequence is `lines` of the concatenated data. -/
theorem newIndex_tokens_eq_lines (eofWithLast : Bool) (chunks : List Bytes) :
    scanTokens split eofWithLast chunks = lines chunks.flatten := by
  have := Hts.Lemmas.FaiScanner.scanFrom_split eofWithLast chunks []
  simpa [scanTokens] using this

/-- Corollary: two deliveries of the same bytes give the same tokens. -/
theorem newIndex_tokens_independent_of_delivery (e₁ e₂ : Bool) (chunks₁ chunks₂ : List Bytes)
    (h : chunks₁.flatten = chunks₂.flatten) :
    scanTokens split e₁ chunks₁ = scanTokens split e₂ chunks₂ := by
  rw [newIndex_tokens_eq_lines, newIndex_tokens_eq_lines, h]

/-- The whole-string model `newIndex` (used by every theorem above) cuts its input into exactly `lines`. -/
theorem newIndex_is_stepAll_over_lines (fasta : Bytes) : newIndex fasta = newIndexTokens (lines fasta) :=
  Hts.Lemmas.FaiScanner.newIndex_eq_tokens fasta

/-- Composition: `NewIndex` over ANY delivery of `fasta` equals the whole-string model — so every theorem about
`newIndex fasta` holds for every delivery. -/
theorem newIndex_every_delivery (eofWithLast : Bool) (chunks : List Bytes) :
    newIndexStream eofWithLast chunks = newIndex chunks.flatten := by
  rw [newIndex_is_stepAll_over_lines, newIndexStream, newIndex_tokens_eq_lines]

/-- `index_true` for every delivery: whatever the chunking / EOF style, a well-formed file gets its true index. -/
theorem index_true_every_delivery (f : File) (h : f.WF) (eofWithLast : Bool) (chunks : List Bytes)
    (hc : chunks.flatten = f.render) :
    newIndexStream eofWithLast chunks = .ok (f.entries.map ofEntry) := by
  rw [newIndex_every_delivery, hc]; exact index_true f h

/-- The seeded variant (`splitEager`: at EOF everything left is one token) is caught: on `"a\nb\n"` delivered in one
read together with `io.EOF` its tokens are `["a\nb\n"]`, not `lines = ["a\n","b\n"]`; over a source that reports EOF
separately the same bytes come out right — which is why a `bytes.Reader`-only test cannot see it. The resulting
index differs too (`>a\nAC\nGT\n`: one record named `a\nAC\nGT` of length 0 instead of `a 4 3 2 3`). -/
theorem newIndex_tokens_witness :
    scanTokens splitEager true [[97, 10, 98, 10]] = [[97, 10, 98, 10]] ∧
    lines [97, 10, 98, 10] = [[97, 10], [98, 10]] ∧
    scanTokens splitEager false [[97, 10, 98, 10]] = lines [97, 10, 98, 10] ∧
    scanTokens split true [[97, 10, 98, 10]] = lines [97, 10, 98, 10] ∧
    newIndexTokens (scanTokens splitEager true [[62, 97, 10, 65, 67, 10, 71, 84, 10]]) =
      .ok [⟨[97, 10, 65, 67, 10, 71, 84], 0, 9, 0, 0⟩] ∧
    newIndexStream true [[62, 97, 10, 65, 67, 10, 71, 84, 10]] = .ok [⟨[97], 4, 3, 2, 3⟩] :=
  ⟨by decide, by decide, by decide, by decide, rfl, rfl⟩

/-! non-vacuity of round 5: concrete deliveries (byte by byte, with empty reads, EOF both ways) -/
example : scanTokens split false [[97], [], [10, 98], [], [10], [99]] = [[97, 10], [98, 10], [99]] := by decide
example : scanTokens split true [[97], [], [10, 98], [], [10], [99]] = [[97, 10], [98, 10], [99]] := by decide
example : scanTokens split true [] = [] ∧ scanTokens split false [[], []] = [] := by decide
example : lines [10, 10, 97] = [[10], [10], [97]] := by decide
example := newIndex_tokens_independent_of_delivery true false [[97, 10, 98], [10]] [[97], [10, 98, 10], []] (by decide)
example := index_true_every_delivery sampleFile (by decide) true [sampleFile.render] (by simp)
example := index_true_every_delivery sampleFile (by decide) false
  [sampleFile.render.take 7, [], sampleFile.render.drop 7] (by simp)
example : split [97, 10, 98] true = (2, some [97, 10]) ∧ split [97] false = (0, none) ∧
    split [97] true = (1, some [97]) ∧ split [] true = (0, none) := by decide

end Hts.Props.C19
