/-
C19 — property theorems (stub: no theorem stated yet, so no obligation is counted).
-/
namespace Hts.Props.C19
end Hts.Props.C19
