/-
C15 — property theorems (stub: no theorem stated yet, so no obligation is counted).
-/
namespace Hts.Props.C15
end Hts.Props.C15
