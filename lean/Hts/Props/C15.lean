/-
C15 — Index serialisation round trip keeps bytes, answers and statistics.
PROPERTY THEOREMS ONLY (helper lemmas: Hts.Lemmas.IndexIO, Hts.Lemmas.IndexStats).

`WF i` = the index is representable in the format (counts fit int32, bin numbers fit uint32 and are
not the pseudo-bin number, offsets fit the signed 64-bit virtual offset, counters fit uint64) and its
`IsSorted` flag is truthful.  Every index built by `Add` from the empty index has the flag false, so
for those `WF` is representability alone (`wf_of_unsorted`); every index returned by a reader is in
canonical form (`wf_norm`).
-/
import Hts.Lemmas.IndexIO
import Hts.Lemmas.IndexIOTabix
import Hts.Lemmas.IndexTabixNames
import Hts.Lemmas.IndexIOCsi
import Hts.Lemmas.IndexStats
import Hts.Lemmas.IndexRepr
import Hts.Lemmas.IndexIORead
import Hts.Lemmas.IndexIOTabixRead
import Hts.Lemmas.IndexIOCsiRead
import Hts.Lemmas.IndexCsiRepr
import Hts.Lemmas.IndexCsiAny
import Hts.Lemmas.IndexTabixRepr
import Hts.Props.C04
namespace Hts.Props.C15
open Hts.Model Hts.Model.Index Hts.Model.IndexIO

/-! ### BAI: read ∘ write -/

/-- `read_write` (BAI): reading the written bytes succeeds and gives exactly the canonical form of
the index, for EVERY well-formed index — with or without references (the zero-reference special case
of `bam.ReadIndex`, DESIGN §6 #25, was repaired in /repo bb4b88e) -/
theorem bai_read_write_full : ∀ i : Index, WF i → readBai (writeBai i) = .ok (norm i) :=
  fun i h => readBai_writeBai i h

theorem bai_read_write (i : Index) (h : WF i) : readBai (writeBai i) = .ok (norm i) := readBai_writeBai i h

/-- in particular an index of unplaced records only (no reference, a trailer) round-trips -/
theorem bai_read_write_noRefs (n : Nat) (hn : n < 18446744073709551616) :
    readBai (writeBai { unmapped := some n }) = .ok { unmapped := some n, isSorted := true, lastRecord := maxInt } :=
  readBai_writeBai _
    { nrefs := (by simp), bounds := (by intro r hr; cases hr), flag := (by intro h; cases h),
      um := (by intro m hm; cases hm; exact hn) }

/-- `write_norm`: the canonical form writes to the same bytes -/
theorem bai_write_norm (i : Index) : writeBai (norm i) = writeBai i := writeBai_norm i

/-- hence: write, read, write again gives identical bytes -/
theorem bai_rewrite_identical (i : Index) (h : WF i) :
    ∃ i', readBai (writeBai i) = .ok i' ∧ writeBai i' = writeBai i ∧ WF i' :=
  ⟨norm i, readBai_writeBai i h, writeBai_norm i, wf_norm i h⟩

/-- `chunks_norm`: every `Chunks` query is answered identically by the re-read index (BAI and tabix
share `internal.Index.Chunks`) -/
theorem chunks_norm (i : Index) (rid beg stop : Int) (bins : List Nat) :
    chunks (norm i) rid beg stop bins = chunks i rid beg stop bins := IndexIO.chunks_norm i rid beg stop bins

theorem bai_chunks_norm (s : List Chunk → List Chunk) (i : Index) (rid beg stop : Int) :
    Bai.chunks Coord.overlappingBinsFor s (norm i) rid beg stop =
      Bai.chunks Coord.overlappingBinsFor s i rid beg stop := by
  unfold Bai.chunks; rw [IndexIO.chunks_norm]

/-- the re-read index reports the same reference count, per-reference statistics and unplaced count -/
theorem stats_norm (i : Index) :
    (norm i).refs.length = i.refs.length ∧ (norm i).unmapped = i.unmapped ∧
      ∀ j : Nat, ((norm i).refs[j]?).map (fun r : RefIndex => r.stats) =
        (i.refs[j]?).map (fun r : RefIndex => r.stats) :=
  ⟨norm_refs_length i, rfl, norm_stats i⟩

/-- the canonical form is stable and well-formed: a previously read index can be written and read
again any number of times -/
theorem norm_idempotent (i : Index) : norm (norm i) = norm i := norm_norm i
theorem norm_wf (i : Index) (h : WF i) : WF (norm i) := wf_norm i h

/-- C04's completeness carries over to the index read back from the written bytes: composition of
`chunks_complete`, `bai_read_write` and `chunks_norm` -/
theorem bai_chunks_complete_after_roundtrip (recs : List Bai.BaiRec)
    (h : SortedInput (recs.map Hts.Props.C04.baiRec)) (hwf : WF (Hts.Props.C04.baiBuilt recs))
    (r : Bai.BaiRec) (hr : r ∈ recs) (hp : (Hts.Props.C04.baiRec r).placed = true) (hne : r.pos < r.stop)
    (beg stop : Int) (hb : 0 ≤ beg) (hq : beg < stop) (hs29 : stop ≤ 536870912)
    (hov1 : r.pos < stop) (hov2 : beg < r.stop) (s : List Chunk → List Chunk) (hs : EncLaw s) :
    ∃ i', readBai (writeBai (Hts.Props.C04.baiBuilt recs)) = .ok i' ∧
      ∃ cs, Bai.chunks Coord.overlappingBinsFor s i' (Hts.Props.C04.baiRec r).rid beg stop = .ok cs ∧
        coveredBy cs r.chunk := by
  refine ⟨norm (Hts.Props.C04.baiBuilt recs), readBai_writeBai _ hwf, ?_⟩
  rw [bai_chunks_norm]
  exact (Hts.Props.C04.bai_chunks_complete recs h r hr hp hne beg stop hb hq hs29 hov1 hov2 id s encLaw_id hs).1

/-- "or previously read" (BAI): WHATEVER byte string `bam.ReadIndex` accepts, the index it returns is
well-formed, so writing it and reading it back gives its canonical form, the same bytes on every
further write, the same answers and the same statistics -/
theorem bai_previously_read (bs : Bytes) (i : Index) (h : readBai bs = .ok i) :
    WF i ∧ readBai (writeBai i) = .ok (norm i) ∧ writeBai (norm i) = writeBai i ∧
      (∀ rid beg stop bins, chunks (norm i) rid beg stop bins = chunks i rid beg stop bins) ∧
      (norm i).unmapped = i.unmapped :=
  ⟨readBai_wf h, readBai_writeBai i (readBai_wf h), writeBai_norm i, IndexIO.chunks_norm i, rfl⟩

/-- every index built by `Add` from a coordinate-sorted input is representable (`WF`), under
hypotheses on the INPUT only: fewer than 2^31 - 1 records, reference ids below 2^31 - 1, bin numbers as
produced by `BinFor`/`Record.Bin` (below the pseudo-bin number), chunk offsets below 2^63 -/
theorem built_wf (recs : List Rec) (h : SortedInput recs) (hlen : recs.length < 2147483647)
    (hrid : ∀ r, r ∈ recs → r.rid < 2147483647)
    (hbin : ∀ r, r ∈ recs → r.placed = true → r.bin < 37450)
    (hoff : ∀ r, r ∈ recs → r.chunk.e < 9223372036854775808) : WF (addAll {} recs).1 :=
  IndexIO.built_wf recs h hlen hrid hbin hoff

/-- BAI end to end, hypotheses on the input only: the index built from any coordinate-sorted sequence
of `sam.Record`s (placed, unplaced or none at all) is written, read back as its canonical form, and
written again to identical bytes -/
theorem bai_roundtrip_built (recs : List Bai.BaiRec) (h : SortedInput (recs.map Hts.Props.C04.baiRec))
    (hlen : recs.length < 2147483647) (hrid : ∀ r, r ∈ recs → r.rid < 2147483647)
    (hoff : ∀ r, r ∈ recs → r.chunk.e < 9223372036854775808) :
    readBai (writeBai (Hts.Props.C04.baiBuilt recs)) = .ok (norm (Hts.Props.C04.baiBuilt recs)) ∧
      writeBai (norm (Hts.Props.C04.baiBuilt recs)) = writeBai (Hts.Props.C04.baiBuilt recs) := by
  have hwf : WF (Hts.Props.C04.baiBuilt recs) := by
    apply IndexIO.built_wf _ h (by simpa using hlen)
    · intro x hx
      obtain ⟨r, hr, rfl⟩ := List.mem_map.1 hx
      show (if r.hasRef then r.rid else -1) < _
      have := hrid r hr
      split <;> omega
    · intro x hx hp
      obtain ⟨r, hr, rfl⟩ := List.mem_map.1 hx
      have hok := h.ok _ (List.mem_map.2 ⟨r, hr, rfl⟩)
      obtain ⟨h0, _⟩ := hok.pos hp
      have hv := hok.vstart
      simp only [validPos, Bool.and_eq_true, decide_eq_true_eq] at hv
      exact binFor_lt _ _ h0 (by have := hv.2; show r.pos < _; have : (Hts.Props.C04.baiRec r).start = r.pos := rfl; omega)
    · intro x hx
      obtain ⟨r, hr, rfl⟩ := List.mem_map.1 hx
      exact hoff r hr
  exact ⟨readBai_writeBai _ hwf, writeBai_norm _⟩

/-! ### tabix: header fields, name block, index body -/

/-- `read_write` (tabix): for every representable tabix index (header fields in their int32/byte
ranges, as many NUL-free names as references — possibly none) -/
theorem tabix_read_write (t : Tabix.TIndex) (h : TWF t) : readTabix (writeTabix t) = .ok (normTabix t) :=
  readTabix_writeTabix t h

theorem tabix_write_norm (t : Tabix.TIndex) : writeTabix (normTabix t) = writeTabix t := writeTabix_norm t

theorem tabix_rewrite_identical (t : Tabix.TIndex) (h : TWF t) :
    ∃ t', readTabix (writeTabix t) = .ok t' ∧ writeTabix t' = writeTabix t ∧
      t'.hdr = t.hdr ∧ t'.names = t.names ∧ t'.idx = norm t.idx :=
  ⟨normTabix t, readTabix_writeTabix t h, writeTabix_norm t, rfl, rfl, rfl⟩

/-- "or previously read" (tabix): whatever byte string `tabix.ReadFrom` accepts, the index it returns is
well-formed, reads back as its canonical form and re-writes to the same bytes -/
theorem tabix_previously_read (bs : Bytes) (t : Tabix.TIndex) (h : readTabix bs = .ok t) :
    TWF t ∧ readTabix (writeTabix t) = .ok (normTabix t) ∧ writeTabix (normTabix t) = writeTabix t :=
  ⟨readTabix_wf h, readTabix_writeTabix t (readTabix_wf h), writeTabix_norm t⟩

/-- queries by name are answered identically when the re-built name map agrees with the one `Add`
maintained (it does for distinct names in first-appearance order; checked by correspondence) -/
theorem tabix_chunks_norm (adj : List Chunk → List Chunk) (t : Tabix.TIndex) (name : Tabix.Name) (beg stop : Int)
    (hmap : Tabix.mapGet (Tabix.buildMap t.names) name = Tabix.mapGet t.nameMap name) :
    Tabix.chunks Coord.overlappingBinsFor adj (normTabix t) name beg stop =
      Tabix.chunks Coord.overlappingBinsFor adj t name beg stop := by
  unfold Tabix.chunks
  show (match Tabix.mapGet (Tabix.buildMap t.names) name with
    | none => _ | some id => match Index.chunks (norm t.idx) _ _ _ _ with | .error e => _ | .ok cs => _) = _
  rw [hmap]
  cases Tabix.mapGet t.nameMap name with
  | none => rfl
  | some id => simp only [IndexIO.chunks_norm]; rfl

/-- for every tabix index built by `Add` (any input, sorted or not) the name table is consistent:
as many names as references, pairwise distinct, and the map rebuilt by `ReadFrom` resolves every name
as the map maintained by `Add` does -/
theorem tabix_names_consistent (hdr : Tabix.Header) (recs : List Tabix.TRec) :
    (Hts.Props.C04.tbxBuilt hdr recs).names.length = (Hts.Props.C04.tbxBuilt hdr recs).idx.refs.length ∧
    (Hts.Props.C04.tbxBuilt hdr recs).names.Nodup ∧
    ∀ name, Tabix.mapGet (Tabix.buildMap (Hts.Props.C04.tbxBuilt hdr recs).names) name =
      Tabix.mapGet (Hts.Props.C04.tbxBuilt hdr recs).nameMap name :=
  ⟨Tabix.addAll_count Coord.binFor recs _ (Tabix.nameInv_empty hdr) rfl,
   (Tabix.addAll_nameInv Coord.binFor recs _ (Tabix.nameInv_empty hdr)).nodup,
   Tabix.built_map_agrees Coord.binFor hdr recs⟩

/-- hence every query by name is answered identically by the re-read form of a built index -/
theorem tabix_chunks_norm_built (hdr : Tabix.Header) (recs : List Tabix.TRec) (name : Tabix.Name) (beg stop : Int) :
    Tabix.chunks Coord.overlappingBinsFor Local.adjacent (normTabix (Hts.Props.C04.tbxBuilt hdr recs)) name beg stop =
      Tabix.chunks Coord.overlappingBinsFor Local.adjacent (Hts.Props.C04.tbxBuilt hdr recs) name beg stop :=
  tabix_chunks_norm _ _ name beg stop (Tabix.built_map_agrees Coord.binFor hdr recs name)

/-- every tabix index built by `tabix.Index.Add` from a coordinate-sorted input is representable (`TWF`),
under hypotheses on the INPUT only: header fields in their byte/int32 ranges, fewer than 2^31 − 1 records,
chunk offsets below 2^63, NUL-free reference names whose total length (with terminators) is below 2^31.
(A name containing NUL is accepted by `WriteTo` and splits into two names in `ReadFrom`: excluded here.) -/
theorem tabix_built_wf (hdr : Tabix.Header) (hh : HeaderFieldsOK hdr) (recs : List Tabix.TRec)
    (h : SortedInput (Hts.Props.C04.tbxTrace hdr recs)) (hlen : recs.length < 2147483647)
    (hoff : ∀ r, r ∈ recs → r.chunk.e < 9223372036854775808)
    (hnul : ∀ r, r ∈ recs → ∀ b, b ∈ r.name → b ≠ 0)
    (hnames : (nameBlock (recs.map (·.name))).length < 2147483648) :
    TWF (Hts.Props.C04.tbxBuilt hdr recs) :=
  tabix_built_twf hdr hh recs h hlen hoff hnul hnames

/-- tabix end to end, hypotheses on the input only -/
theorem tabix_roundtrip_built (hdr : Tabix.Header) (hh : HeaderFieldsOK hdr) (recs : List Tabix.TRec)
    (h : SortedInput (Hts.Props.C04.tbxTrace hdr recs)) (hlen : recs.length < 2147483647)
    (hoff : ∀ r, r ∈ recs → r.chunk.e < 9223372036854775808)
    (hnul : ∀ r, r ∈ recs → ∀ b, b ∈ r.name → b ≠ 0)
    (hnames : (nameBlock (recs.map (·.name))).length < 2147483648) :
    readTabix (writeTabix (Hts.Props.C04.tbxBuilt hdr recs)) = .ok (normTabix (Hts.Props.C04.tbxBuilt hdr recs)) ∧
      writeTabix (normTabix (Hts.Props.C04.tbxBuilt hdr recs)) = writeTabix (Hts.Props.C04.tbxBuilt hdr recs) :=
  ⟨readTabix_writeTabix _ (tabix_built_wf hdr hh recs h hlen hoff hnul hnames), writeTabix_norm _⟩

/-- a tabix index without references and names (nothing or only unplaced lines added) round-trips -/
theorem tabix_read_write_noRefs (n : Nat) (hn : n < 18446744073709551616) :
    readTabix (writeTabix { idx := { unmapped := some n } }) =
      .ok (normTabix { idx := { unmapped := some n } }) :=
  readTabix_writeTabix _
    { idx := { nrefs := (by simp), bounds := (by intro r hr; cases hr), flag := (by intro h; cases h),
               um := (by intro m hm; cases hm; exact hn) }
      hdr := { format := (by simp), nameCol := (by simp), begCol := (by simp), endCol := (by simp),
               metaChar := (by simp), skip := (by simp), namesLen := (by simp [nameBlock]),
               noNul := (by intro nm hnm; cases hnm) }
      count := rfl }

/-! ### CSI versions 1 and 2, any auxiliary bytes -/

/-- `read_write` (CSI): for every representable CSI index of version 1 or 2 with `minShift + 3·depth ≤ 62`
(the geometry range `csi.ReadFrom` accepts; the bin limit is the `uint32` value the code computes) -/
theorem csi_read_write (i : Csi.CIndex) (h : CWF i) : readCsi (writeCsi i) = .ok (normCsi i) :=
  readCsi_writeCsi i h

theorem csi_write_norm (i : Csi.CIndex) : writeCsi (normCsi i) = writeCsi i := writeCsi_norm i

theorem csi_rewrite_identical (i : Csi.CIndex) (h : CWF i) :
    ∃ i', readCsi (writeCsi i) = .ok i' ∧ writeCsi i' = writeCsi i ∧ i'.aux = i.aux ∧ i'.version = i.version ∧
      i'.minShift = i.minShift ∧ i'.depth = i.depth ∧ i'.unmapped = i.unmapped :=
  ⟨normCsi i, readCsi_writeCsi i h, writeCsi_norm i, rfl, rfl, rfl, rfl, rfl⟩

theorem csi_chunks_norm (i : Csi.CIndex) (rid beg stop : Int) :
    Csi.chunks Coord.reg2bins Local.adjacent (normCsi i) rid beg stop =
      Csi.chunks Coord.reg2bins Local.adjacent i rid beg stop :=
  IndexIO.csi_chunks_norm _ _ i rid beg stop

/-- every CSI index built by `csi.Index.Add` from a coordinate-sorted input is representable (`CWF`), under
hypotheses on the INPUT only: depth ≤ 10 (the deepest geometry whose bin numbers fit `uint32`; needs fixes/C15-2
for depth exactly 10), minShift + 3·depth ≤ 62, fewer than 2^31 − 1 records, reference ids
below 2^31 − 1, chunk offsets below 2^63; any version 1/2 and any auxiliary bytes.  The bound "bins + pseudo-bin
≤ bin limit + 1" is a pigeonhole argument over the pairwise distinct bin numbers (`nodup_length_le`,
`reg2bin_lt_binLimit`) and is tight: a reference may use every bin (fixes/C15-1) -/
theorem csi_built_wf (ms d : Nat) (hd : d ≤ 10) (hgeom : ms + 3 * d ≤ 62)
    (version : Nat) (hver : version = 1 ∨ version = 2) (aux : List UInt8) (haux : aux.length < 2147483648)
    (recs : List Csi.CRec) (h : Csi.CSortedInput ms d recs) (hlen : recs.length < 2147483647)
    (hrid : ∀ r, r ∈ recs → r.rid < 2147483647)
    (hoff : ∀ r, r ∈ recs → r.chunk.e < 9223372036854775808) :
    CWF (Csi.addAll Coord.reg2bin { aux := aux, version := version, minShift := ms, depth := d } recs).1 :=
  csi_built_cwf ms d hd (by omega) hgeom _ ⟨rfl, rfl, rfl, rfl⟩ rfl rfl hver haux recs h hlen hrid hoff

/-- CSI end to end, hypotheses on the input only: the built index is written, read back as its canonical
form and written again to identical bytes -/
theorem csi_roundtrip_built (ms d : Nat) (hd : d ≤ 10) (hgeom : ms + 3 * d ≤ 62)
    (version : Nat) (hver : version = 1 ∨ version = 2) (aux : List UInt8) (haux : aux.length < 2147483648)
    (recs : List Csi.CRec) (h : Csi.CSortedInput ms d recs) (hlen : recs.length < 2147483647)
    (hrid : ∀ r, r ∈ recs → r.rid < 2147483647)
    (hoff : ∀ r, r ∈ recs → r.chunk.e < 9223372036854775808) :
    let i := (Csi.addAll Coord.reg2bin { aux := aux, version := version, minShift := ms, depth := d } recs).1
    readCsi (writeCsi i) = .ok (normCsi i) ∧ writeCsi (normCsi i) = writeCsi i :=
  ⟨readCsi_writeCsi _ (csi_built_wf ms d hd hgeom version hver aux haux recs h hlen hrid hoff), writeCsi_norm _⟩

/-- "or previously read" (CSI): whatever byte string `csi.ReadFrom` accepts, the index it returns is
well-formed, reads back as its canonical form, re-writes to the same bytes and answers identically -/
theorem csi_previously_read (bs : Bytes) (i : Csi.CIndex) (h : readCsi bs = .ok i) :
    CWF i ∧ readCsi (writeCsi i) = .ok (normCsi i) ∧ writeCsi (normCsi i) = writeCsi i ∧
      ∀ rid beg stop, Csi.chunks Coord.reg2bins Local.adjacent (normCsi i) rid beg stop =
        Csi.chunks Coord.reg2bins Local.adjacent i rid beg stop :=
  ⟨readCsi_wf h, readCsi_writeCsi i (readCsi_wf h), writeCsi_norm i, IndexIO.csi_chunks_norm _ _ i⟩

/-- C04's completeness for CSI carries over to the index read back from the written bytes (input-only
hypotheses; `csiBuilt` is the version-2 index without auxiliary data) -/
theorem csi_chunks_complete_after_roundtrip (ms d : Nat) (hd : d ≤ 10) (hgeom : ms + 3 * d ≤ 62)
    (recs : List Csi.CRec) (h : Csi.CSortedInput ms d recs) (hlen : recs.length < 2147483647)
    (hrid : ∀ r, r ∈ recs → r.rid < 2147483647)
    (hoff : ∀ r, r ∈ recs → r.chunk.e < 9223372036854775808)
    (r : Csi.CRec) (hr : r ∈ recs) (hp : r.placed = true)
    (beg stop : Int) (hb : 0 ≤ beg) (hq : beg < stop) (hs : stop ≤ (2 : Int) ^ (ms + 3 * d))
    (hov1 : r.start < stop) (hov2 : beg < r.stop) :
    ∃ i', readCsi (writeCsi (Hts.Props.C04.csiBuilt ms d recs)) = .ok i' ∧
      coveredBy (Csi.chunks Coord.reg2bins Local.adjacent i' r.rid beg stop) r.chunk := by
  have hwf : CWF (Hts.Props.C04.csiBuilt ms d recs) :=
    csi_built_wf ms d hd hgeom 2 (Or.inr rfl) [] (by simp) recs h hlen hrid hoff
  refine ⟨_, readCsi_writeCsi _ hwf, ?_⟩
  rw [IndexIO.csi_chunks_norm]
  exact (Hts.Props.C04.csi_chunks_complete ms d (by omega) hgeom recs h r hr hp beg stop hb hq hs hov1 hov2 id encLaw_id).1

/-! ### CSI: ANY sequence of `Add` calls (no sortedness, rejected calls included) -/

/-- the bin number `csi.Index.Add` computes for a record whose start position `validIndexPos` accepts — whatever its
end is (before the start, equal to it, `-1`) and including the start `-1` the code admits — is a bin number of the
geometry: below the bin limit `((1 << 3(depth+1)) - 1)/7` that `WriteTo`/`ReadFrom` compute, for every minimum shift
and every depth ≤ 10 -/
theorem csi_reg2bin_lt_binLimit (ms d : Nat) (hd : d ≤ 10) (start stop : Int)
    (hv : Csi.validPos ms d start = true) : Coord.reg2bin start stop ms d < csiBinLimit d := by
  obtain ⟨h0, h1⟩ := Csi.validPos_range ms d start hv
  exact reg2bin_lt_binLimit_any ms d hd start stop h0 h1

/-- the bin-count clause of `CWF` (`CRefBounds.nb`: what `csi.readBins` checks since a0b84ad — at most every bin of
the geometry plus the statistics pseudo-bin) is a THEOREM of the model of `Add`, with no hypothesis on the records:
after EVERY sequence of `Add` calls (sorted or not, accepted or rejected, any positions, ids and chunks) on a fresh
index of any minimum shift and depth ≤ 10, the bin numbers of a reference are pairwise distinct and below the bin
limit, hence `len(bins) + [stats present] ≤ binLimit + 1` -/
theorem csi_built_bin_count (ms d : Nat) (hd : d ≤ 10) (version : Nat) (aux : List UInt8) (recs : List Csi.CRec)
    (ref : Csi.CRef)
    (href : ref ∈ (Csi.addAll Coord.reg2bin { aux := aux, version := version, minShift := ms, depth := d } recs).1.refs) :
    (ref.bins.map (·.bin)).Nodup ∧ (∀ b, b ∈ ref.bins → b.bin < csiBinLimit d) ∧
      ref.bins.length + (if ref.stats.isSome then 1 else 0) ≤ csiBinLimit d + 1 :=
  csi_any_bin_count ms d hd _ ⟨rfl, rfl, rfl⟩ rfl rfl recs ref href

/-- `built_wf` for CSI at full strength: the index after EVERY sequence of `Add` calls on a fresh index is
representable (`CWF`) — no sortedness, no `0 ≤ start < end` for placed records (the code does not check either),
calls that `Add` rejects included (a call rejected for position order has already entered its bin).  Hypotheses on
the input sizes only: depth ≤ 10, minShift + 3·depth ≤ 62, fewer than 2^31 − 1 calls, reference ids below 2^31 − 1,
chunk offsets in the int64 range (any order of begin and end) -/
theorem csi_built_wf_any (ms d : Nat) (hd : d ≤ 10) (hgeom : ms + 3 * d ≤ 62)
    (version : Nat) (hver : version = 1 ∨ version = 2) (aux : List UInt8) (haux : aux.length < 2147483648)
    (recs : List Csi.CRec) (hlen : recs.length < 2147483647)
    (hrid : ∀ r, r ∈ recs → r.rid < 2147483647)
    (hoff : ∀ r, r ∈ recs → OffOK r.chunk.b ∧ OffOK r.chunk.e) :
    CWF (Csi.addAll Coord.reg2bin { aux := aux, version := version, minShift := ms, depth := d } recs).1 :=
  csi_any_cwf ms d hd hgeom _ ⟨rfl, rfl, rfl⟩ rfl rfl hver haux recs hlen hrid hoff

/-- `read_write` for a BUILT CSI index without the `CWF` hypothesis: whatever sequence of `Add` calls built the
index, `ReadFrom (WriteTo i)` is its canonical form and writing that again gives identical bytes -/
theorem csi_built_read_write (ms d : Nat) (hd : d ≤ 10) (hgeom : ms + 3 * d ≤ 62)
    (version : Nat) (hver : version = 1 ∨ version = 2) (aux : List UInt8) (haux : aux.length < 2147483648)
    (recs : List Csi.CRec) (hlen : recs.length < 2147483647)
    (hrid : ∀ r, r ∈ recs → r.rid < 2147483647)
    (hoff : ∀ r, r ∈ recs → OffOK r.chunk.b ∧ OffOK r.chunk.e) :
    let i := (Csi.addAll Coord.reg2bin { aux := aux, version := version, minShift := ms, depth := d } recs).1
    readCsi (writeCsi i) = .ok (normCsi i) ∧ writeCsi (normCsi i) = writeCsi i :=
  ⟨readCsi_writeCsi _ (csi_built_wf_any ms d hd hgeom version hver aux haux recs hlen hrid hoff), writeCsi_norm _⟩

/-- the same statement for every geometry `csi.New`, `Add`, `WriteTo` AND `ReadFrom` accept (minShift + 3·depth ≤ 62,
depth up to 20), i.e. without `depth ≤ 10` -/
def csi_built_read_write_full : Prop :=
  ∀ (ms d : Nat), ms + 3 * d ≤ 62 → ∀ (version : Nat), version = 1 ∨ version = 2 →
    ∀ (aux : List UInt8), aux.length < 2147483648 → ∀ (recs : List Csi.CRec), recs.length < 2147483647 →
      (∀ r, r ∈ recs → r.rid < 2147483647) → (∀ r, r ∈ recs → OffOK r.chunk.b ∧ OffOK r.chunk.e) →
      readCsi (writeCsi (Csi.addAll Coord.reg2bin { aux := aux, version := version, minShift := ms, depth := d } recs).1)
        = .ok (normCsi (Csi.addAll Coord.reg2bin { aux := aux, version := version, minShift := ms, depth := d } recs).1)

/-- one record on `csi.New(1, 11)`: `[1227133516, 1227133517)` gets bin 613566756 + 613566758 = 1227133514 (the level
offset is the wrapped `uint32` value), which is the statistics pseudo-bin number of depth 11 -/
def exCsiDeep : List Csi.CRec := [⟨0, 1227133516, 1227133517, ⟨0, 100⟩, true, true⟩]

/-- `depth ≤ 10` cannot be dropped: at depth 11 the `uint32` bin numbers wrap and a real bin gets the number of the
statistics pseudo-bin; the index `Add` and `WriteTo` accept does not read back (the real `ReadFrom` answers
"malformed dummy bin header") -/
theorem csi_built_read_write_witness : ¬ csi_built_read_write_full := by
  intro hfull
  have h := hfull 1 11 (by decide) 2 (Or.inr rfl) [] (by decide) exCsiDeep (by decide) (by decide) (by decide)
  generalize hi : (Csi.addAll Coord.reg2bin { aux := [], version := 2, minShift := 1, depth := 11 } exCsiDeep).1 = i at h
  have wf := readCsi_wf h
  have e1 : i.refs = [⟨[⟨1227133514, 0, 1, [⟨0, 100⟩]⟩], some ⟨⟨0, 100⟩, 1, 0⟩⟩] := by subst hi; decide
  have e2 : i.isSorted = false := by subst hi; decide
  have e3 : i.version = 2 := by subst hi; decide
  have e4 : i.depth = 11 := by subst hi; decide
  have hm : (⟨[⟨1227133514, 0, 1, [⟨0, 100⟩]⟩], some ⟨⟨0, 100⟩, 1, 0⟩⟩ : Csi.CRef) ∈ (normCsi i).refs := by
    simp [normCsi, Csi.sort, Csi.sortRef, sortChunks, e1, e2, e3]
  have hb := wf.bounds _ hm
  have := (hb.bins ⟨1227133514, 0, 1, [⟨0, 100⟩]⟩ (by simp)).2.1
  have e5 : (normCsi i).depth = 11 := e4
  rw [e5] at this
  exact this (by decide)

/-! ### statistics equal the true counts -/

/-- `stats_true` (`internal.Index`, hence BAI and tabix): after any coordinate-sorted sequence, for
every reference the statistics are the true ones of the placed records of that reference (first
chunk begin, last chunk end, number of mapped and unmapped records; no statistics iff no record), the
unplaced counter is the number of unplaced records (absent iff nothing was added) and the reference
count is the last placed record's reference id + 1 -/
theorem stats_true (recs : List Rec) (h : SortedInput recs) :
    (∀ (j : Nat) (ref : RefIndex), (addAll {} recs).1.refs[j]? = some ref →
        ref.stats = specStats ((recs.filter (·.placed)).filter (fun a => decide (a.rid = (j : Int))))) ∧
    (recs ≠ [] → (addAll {} recs).1.unmapped = some (recs.countP (fun r => !r.placed))) ∧
    (recs = [] → (addAll {} recs).1.unmapped = none) ∧
    (∀ l, (recs.filter (·.placed)).getLast? = some l → ((addAll {} recs).1.refs.length : Int) = l.rid + 1) ∧
    (recs.filter (·.placed) = [] → (addAll {} recs).1.refs = []) := by
  have inv := (addAll_sorted recs h).2
  refine ⟨?_, ?_, ?_, ?_, ?_⟩
  · intro j ref hj
    have := (inv.refInv j ref hj).stats
    rw [this, statsOf_spec]
    congr 1
    unfold onRef
    rw [← List.filter_reverse, List.reverse_reverse]
  · intro hne
    have := addAll_unmapped recs {} (fun r hr => ⟨(h.ok r hr).vstart, (h.ok r hr).vstop⟩) hne
    rw [this]; simp [umCount]
  · intro he; subst he; rfl
  · intro l hl
    cases hrev : (recs.filter (·.placed)).reverse with
    | nil =>
      rw [List.reverse_eq_nil_iff] at hrev
      rw [hrev] at hl; cases hl
    | cons a rest =>
      have hla : l = a := by
        have : (recs.filter (·.placed)) = (a :: rest).reverse := by rw [← hrev, List.reverse_reverse]
        rw [this] at hl
        simpa using hl.symm
      subst hla
      exact (inv.last l rest hrev).1
  · intro he
    exact inv.len0 (by rw [he]; rfl)

/-- `stats_true` for CSI (every geometry): per-reference statistics, unplaced counter and reference
count of an index built from a coordinate-sorted sequence are the true ones -/
theorem csi_stats_true (ms d : Nat) (_hgeom : ms + 3 * d ≤ 62) (recs : List Csi.CRec) (h : Csi.CSortedInput ms d recs) :
    (∀ (j : Nat) (ref : Csi.CRef), (Hts.Props.C04.csiBuilt ms d recs).refs[j]? = some ref →
        ref.stats = Csi.specStatsC ((recs.filter (·.placed)).filter (fun a => decide (a.rid = (j : Int))))) ∧
    (recs ≠ [] → (Hts.Props.C04.csiBuilt ms d recs).unmapped = some (recs.countP (fun r => !r.placed))) ∧
    (∀ l, (recs.filter (·.placed)).getLast? = some l →
        ((Hts.Props.C04.csiBuilt ms d recs).refs.length : Int) = l.rid + 1) ∧
    (recs.filter (·.placed) = [] → (Hts.Props.C04.csiBuilt ms d recs).refs = []) := by
  obtain ⟨_, _, _, inv⟩ := Hts.Props.C04.csi_inv ms d recs h
  refine ⟨?_, ?_, ?_, ?_⟩
  · intro j ref hj
    have := (inv.refInv j ref hj).stats
    rw [this, Csi.statsOfC_spec]
    congr 1
    unfold Csi.onRef
    rw [← List.filter_reverse, List.reverse_reverse]
  · intro hne
    have := Csi.addAll_unmapped Coord.reg2bin ms d recs (Hts.Props.C04.csiNew ms d) rfl rfl
      (fun r hr => ⟨(h.ok r hr).vstart, (h.ok r hr).vstop⟩) hne
    unfold Hts.Props.C04.csiBuilt
    rw [this]; simp [umCount, Hts.Props.C04.csiNew]
  · intro l hl
    cases hrev : (recs.filter (·.placed)).reverse with
    | nil =>
      rw [List.reverse_eq_nil_iff] at hrev
      rw [hrev] at hl; cases hl
    | cons a rest =>
      have hla : l = a := by
        have : (recs.filter (·.placed)) = (a :: rest).reverse := by rw [← hrev, List.reverse_reverse]
        rw [this] at hl
        simpa using hl.symm
      subst hla
      exact (inv.last l rest hrev).1
  · intro he
    exact inv.len0 (by rw [he]; rfl)

/-! ### non-vacuity (tests) -/

/-- a well-formed index with two references, statistics, a sparse tile array and a trailer -/
def exIdx : Index :=
  { refs := [ ⟨[⟨4681, [⟨100, 150⟩]⟩, ⟨585, [⟨150, 200⟩]⟩], some ⟨⟨100, 200⟩, 2, 0⟩, [100, 150]⟩, {} ],
    unmapped := some 1, isSorted := false, lastRecord := 16000 }

example : WF exIdx :=
  wf_of_unsorted _ rfl (by decide)
    (by
      intro r hr
      simp only [exIdx, List.mem_cons, List.mem_nil_iff, or_false] at hr
      rcases hr with rfl | rfl
      · refine ⟨by decide, ?_, ?_, by decide, ?_⟩
        · intro b hb
          simp only [List.mem_cons, List.mem_nil_iff, or_false] at hb
          rcases hb with rfl | rfl <;>
            refine ⟨by decide, by decide, by decide, ?_⟩ <;> intro c hc <;>
            simp only [List.mem_cons, List.mem_nil_iff, or_false] at hc <;> subst hc <;>
            simp [OffOK]
        · intro s hs; cases hs; simp [OffOK]
        · intro v hv
          simp only [List.mem_cons, List.mem_nil_iff, or_false] at hv
          rcases hv with rfl | rfl <;> simp [OffOK]
      · exact ⟨by decide, (by intro b hb; cases hb), (by intro s hs; cases hs), by decide,
          (by intro v hv; cases hv)⟩)
    (by intro n hn; cases hn; decide)

example : exIdx.refs ≠ [] := by decide

/-- `CWF` is inhabited by a non-trivial index: the (4,2) CSI index of `C04.exCsi` (records on two
references, a skipped id, a record over two finest bins, an unplaced record) -/
example : CWF (Hts.Props.C04.csiBuilt 4 2 Hts.Props.C04.exCsi) :=
  csi_built_wf 4 2 (by decide) (by decide) 2 (Or.inr rfl) [] (by simp) Hts.Props.C04.exCsi (by decide) (by decide)
    (by decide) (by decide)

/-- … and so is `TWF`: the tabix index of `C04.exTbx` (two named references, an unplaced line naming a third) -/
example : TWF (Hts.Props.C04.tbxBuilt {} Hts.Props.C04.exTbx) :=
  tabix_built_wf {} ⟨by decide, by decide, by decide, by decide, by decide, by decide⟩ Hts.Props.C04.exTbx
    (by decide) (by decide) (by decide) (by decide) (by decide)

/-- an EMPTY reference name (a lone NUL in the name block) is inside the quantifier of `tabix_read_write` and
`tabix_roundtrip_built`: names `["c", "", "d"]` -/
def exTbxEmptyName : List Tabix.TRec :=
  [ ⟨[99], 100, 200, ⟨0, 150⟩, true, true⟩, ⟨[], 5, 40000, ⟨150, 200⟩, true, true⟩,
    ⟨[100], 7, 9, ⟨200, 250⟩, true, false⟩ ]
example : (Hts.Props.C04.tbxBuilt {} exTbxEmptyName).names = [[99], [], [100]] := by decide
example : readTabix (writeTabix (Hts.Props.C04.tbxBuilt {} exTbxEmptyName)) =
    .ok (normTabix (Hts.Props.C04.tbxBuilt {} exTbxEmptyName)) :=
  (tabix_roundtrip_built {} ⟨by decide, by decide, by decide, by decide, by decide, by decide⟩ exTbxEmptyName
    (by decide) (by decide) (by decide) (by decide) (by decide)).1
/-- the single-name list `[""]` -/
example : readTabix (writeTabix (Hts.Props.C04.tbxBuilt {} [⟨[], 5, 9, ⟨0, 10⟩, true, true⟩])) =
    .ok (normTabix (Hts.Props.C04.tbxBuilt {} [⟨[], 5, 9, ⟨0, 10⟩, true, true⟩])) :=
  (tabix_roundtrip_built {} ⟨by decide, by decide, by decide, by decide, by decide, by decide⟩ _
    (by decide) (by decide) (by decide) (by decide) (by decide)).1

/-- a version-1 CSI index with auxiliary bytes is representable as well -/
example : CWF (Csi.addAll Coord.reg2bin { aux := [1, 2, 3], version := 1, minShift := 4, depth := 2 }
    Hts.Props.C04.exCsi).1 :=
  csi_built_wf 4 2 (by decide) (by decide) 1 (Or.inl rfl) [1, 2, 3] (by decide) Hts.Props.C04.exCsi (by decide)
    (by decide) (by decide) (by decide)

/-! ### non-vacuity of the "any sequence of `Add` calls" theorems (extension round 4) -/

/-- `csi.New(2, 1)` (positions 0 … 30, bins 0 … 8 of width 4): a call sequence that is NOT coordinate sorted and mostly
rejected, and that uses EVERY bin of the geometry — a placed record with start −1 and end 0 (`-1 >> 2 = -1` on both
sides: bin `1 + uint32(-1) = 0`; rejected for position order after its bin was entered, as are the calls in descending
order that follow the last leaf bin), a record with end before start and a chunk with end before begin, an unplaced
record, a record on an earlier reference (rejected for reference order), a reference further on, an out-of-range
end (rejected) -/
def exCsiAny : List Csi.CRec :=
  [ ⟨1, -1, 0, ⟨10, 20⟩, true, true⟩, ⟨1, 28, 30, ⟨20, 30⟩, true, true⟩, ⟨1, 24, 25, ⟨30, 40⟩, true, false⟩,
    ⟨1, 20, 21, ⟨40, 50⟩, true, true⟩, ⟨1, 16, 19, ⟨50, 60⟩, true, true⟩, ⟨1, 12, 13, ⟨60, 70⟩, true, true⟩,
    ⟨1, 8, 9, ⟨70, 80⟩, true, true⟩, ⟨1, 4, 5, ⟨80, 90⟩, true, true⟩, ⟨1, 0, 1, ⟨90, 100⟩, true, true⟩,
    ⟨1, 9, 2, ⟨100, 90⟩, true, true⟩, ⟨-1, -1, -1, ⟨100, 110⟩, false, false⟩, ⟨0, 3, 4, ⟨110, 120⟩, true, true⟩,
    ⟨3, 0, 30, ⟨120, 130⟩, true, true⟩, ⟨3, 28, 31, ⟨130, 140⟩, true, true⟩ ]

def exCsiAnyBuilt : Csi.CIndex × List AddRes :=
  Csi.addAll Coord.reg2bin { aux := [7], version := 2, minShift := 2, depth := 1 } exCsiAny

/-- the sequence is outside `CSortedInput`, several calls are rejected … -/
example : ¬ Csi.CSortedInput 2 1 exCsiAny := by decide
example : exCsiAnyBuilt.2 = [.errPosOrder, .ok, .errPosOrder, .errPosOrder, .errPosOrder, .errPosOrder, .errPosOrder,
    .errPosOrder, .errPosOrder, .errPosOrder, .ok, .errRefOrder, .ok, .errRange] := by decide
set_option maxRecDepth 100000 in
/-- … reference 1 holds all nine bins of the geometry and statistics: the bound of `csi_built_bin_count` is attained
(`nBins = binLimit + 1 = 10`) -/
example : (exCsiAnyBuilt.1.refs.map (fun r => (r.bins.map (·.bin), r.stats.isSome))) =
    [([], false), ([0, 8, 7, 6, 5, 4, 3, 2, 1], true), ([], false), ([0], true)] ∧ csiBinLimit 1 + 1 = 10 := by decide
/-- … and the hypotheses of `csi_built_wf_any`/`csi_built_read_write` hold of it -/
example : CWF exCsiAnyBuilt.1 :=
  csi_built_wf_any 2 1 (by decide) (by decide) 2 (Or.inr rfl) [7] (by decide) exCsiAny (by decide) (by decide)
    (by decide)
example : readCsi (writeCsi exCsiAnyBuilt.1) = .ok (normCsi exCsiAnyBuilt.1) :=
  (csi_built_read_write 2 1 (by decide) (by decide) 2 (Or.inr rfl) [7] (by decide) exCsiAny (by decide) (by decide)
    (by decide)).1
example : ∀ ref, ref ∈ exCsiAnyBuilt.1.refs → ref.bins.length + (if ref.stats.isSome then 1 else 0) ≤ csiBinLimit 1 + 1 :=
  fun ref href => (csi_built_bin_count 2 1 (by decide) 2 [7] exCsiAny ref href).2.2
/-- `csi_reg2bin_lt_binLimit` at the edges: start −1, the last valid position, an end before the start -/
example : Coord.reg2bin (-1) 0 2 1 = 0 ∧ Coord.reg2bin 28 30 2 1 = 8 ∧ Coord.reg2bin 9 2 2 1 = 0 ∧
    Coord.reg2bin (-1) 0 14 5 = 4680 ∧ csiBinLimit 5 = 37449 := by decide
/-- the depth-11 witness record is accepted by `Add` -/
example : (Csi.addAll Coord.reg2bin { aux := [], version := 2, minShift := 1, depth := 11 } exCsiDeep).2 = [.ok] := by
  decide

end Hts.Props.C15
