/-
C05 — BAM encoding round trip: Writer → Reader reproduces the header and every record field; the bytes written are
those of the specification's layout; the Omit modes return the same records minus exactly the omitted parts.
PROPERTY THEOREMS ONLY (helper lemmas live in Hts.Lemmas.Bam*).  Every statement quantifies over ALL records /
record lists (no bound on any size); `WF nrefs r` is "the BAM format can represent r under a header with nrefs
references" (Hts.Lemmas.BamWF).
-/
import Hts.Lemmas.BamStream
import Hts.Lemmas.BamSpec
import Hts.Lemmas.BamReadSpec
import Hts.Lemmas.BamTotal
namespace Hts.Props.C05
open Hts.Model.Bam

/-! ### one record -/

/-- The writer accepts every representable record, and reading the bytes it wrote (from the front of any stream)
returns the record equal in every field — name, reference and mate reference (index in the header), positions,
MAPQ, flags, CIGAR, packed bases, qualities, every aux field byte for byte — `norm` only replacing absent qualities
by the run of 0xff the reader represents them by. -/
theorem decode_encode {n : Nat} {r : Record} (h : WF n r) :
    ∃ bs, encodeRecord r = .ok bs ∧ ∀ rest, readRecord .none n (bs ++ rest) = .record (norm r) rest := by
  obtain ⟨bs, hb, _, hr⟩ := readRecord_encodeRecord .none h
  exact ⟨bs, hb, hr⟩

/-- the same on the record buffer after the length prefix (what `Reader.Read` parses) -/
theorem decode_encode_body {n : Nat} {r : Record} (h : WF n r) :
    ∃ bs, encodeRecord r = .ok bs ∧ decodeBody .none n (bs.drop 4) = .ok (norm r) := by
  obtain ⟨bin, _, he⟩ := encodeRecord_ok h
  refine ⟨_, he, ?_⟩
  have : (putI32 (recLen r (encAuxAll r.aux) : Int) ++ bodyOf bin (encAuxAll r.aux) r).drop 4
      = bodyOf bin (encAuxAll r.aux) r := by
    simp [List.drop_left' (putI32_length _)]
  rw [this]
  exact decodeBody_bodyOf .none n r bin h

/-- `norm` changes nothing but absent qualities -/
theorem norm_of_qual_present (r : Record) (q : List Byte) (h : r.qual = some q) : norm r = r := by
  cases r; simp_all [norm, qualBytes]

theorem norm_qual_absent (r : Record) (h : r.qual = none) :
    norm r = { r with qual := some (List.replicate r.seqLen 0xff#8) } := by
  cases r; simp_all [norm, qualBytes]

/-- a CIGAR operation length always fits the 28 bits of the format (`CigarOp` is a uint32) -/
theorem cigar_len_lt (c : BitVec 32) : cigarLen c < 2 ^ 28 := cigarLen_lt c

/-! ### Omit modes -/

/-- `Omit(AuxTags)`: the same record minus exactly the aux fields -/
theorem omit_aux {n : Nat} {r : Record} (h : WF n r) :
    ∃ bs, encodeRecord r = .ok bs ∧ ∀ rest, readRecord .aux n (bs ++ rest) = .record (omitAux (norm r)) rest := by
  obtain ⟨bs, hb, _, hr⟩ := readRecord_encodeRecord .aux h
  exact ⟨bs, hb, hr⟩

/-- `Omit(AllVariableLengthData)`: the same record minus exactly sequence, qualities and aux fields -/
theorem omit_all {n : Nat} {r : Record} (h : WF n r) :
    ∃ bs, encodeRecord r = .ok bs ∧ ∀ rest, readRecord .all n (bs ++ rest) = .record (omitAll (norm r)) rest := by
  obtain ⟨bs, hb, _, hr⟩ := readRecord_encodeRecord .all h
  exact ⟨bs, hb, hr⟩

/-! ### the bytes are the specification's -/

/-- The bytes written are `Spec.layout` (SAMv1 §4.2, written independently) of the record's semantic reading `view`
(CIGAR as (length, op), one 4-bit code per base, typed aux values), the bin field being the value the writer computed
(its agreement with reg2bin is C16). `padOK`: the unused nibble of an odd-length sequence is zero, as `sam.NewSeq` makes it. -/
theorem encode_is_spec {n : Nat} {r : Record} (h : WF n r) (hp : padOK r.seqLen r.seq = true) :
    ∃ bin a, recordBin r = bin ∧ view bin r = some a ∧ encodeRecord r = .ok (Hts.Spec.Bam.layout a) :=
  encodeRecord_is_layout h hp

/-- "ignoring only the bin field": for ANY value `b` of the bin field, the written bytes agree with the
specification's layout of the reading with that bin everywhere except at offsets 14 and 15 -/
theorem encode_is_spec_except_bin {n : Nat} {r : Record} (h : WF n r) (hp : padOK r.seqLen r.seq = true) (b : Nat) :
    ∃ bs a pre post x y, encodeRecord r = .ok bs ∧ view b r = some a ∧ pre.length = 14 ∧
      bs = pre ++ [x, y] ++ post ∧ Hts.Spec.Bam.layout a = pre ++ Hts.Spec.Bam.le 2 b ++ post := by
  obtain ⟨bin, a, _, ha, he⟩ := encodeRecord_is_layout h hp
  obtain ⟨pre, post, hl, h1, h2⟩ := layout_except_bin a b
  have hv : view b r = some { a with bin := b } := by
    simp only [view] at ha ⊢
    split at ha
    · rename_i cs aux hc hx
      simp only [Option.some.injEq] at ha
      subst ha
      simp [hc, hx]
    · cases ha
  refine ⟨_, _, pre, post, BitVec.ofNat 8 (a.bin % 256), BitVec.ofNat 8 (a.bin / 256 % 256), he, hv, hl, ?_, h2⟩
  rw [h1]
  rfl

/-- `sam.NewSeq` (contract) packs the letters as the specification says, and its result satisfies the sequence
clauses of `WF` and `padOK` -/
theorem newSeq_is_spec (s : List Byte) :
    contract s = Hts.Spec.Bam.packSeq (s.map n16) ∧ (contract s).length = (s.length + 1) / 2 ∧
      padOK s.length (contract s) = true :=
  ⟨contract_eq_packSeq s, contract_length s, contract_padOK s⟩

/-- READER vs SPECIFICATION (independent of the writer): for every alignment the format can represent, reading
`Spec.layout` of it — whoever produced those bytes, whatever its bin field holds — returns the record that stands for
the alignment (`ofAlignment`: packed bases, CIGAR words, raw aux fields), under every Omit mode. -/
theorem reader_accepts_spec (om : Omit) {n : Nat} {a : Hts.Spec.Bam.Alignment} (h : a.Valid n) (rest : List Byte) :
    readRecord om n (Hts.Spec.Bam.layout a ++ rest) = .record (expected om (ofAlignment a)) rest :=
  readRecord_layout om h rest

/-- ... and that record is one the writer accepts (`WF`), so the two directions compose -/
theorem ofAlignment_wf {n : Nat} {a : Hts.Spec.Bam.Alignment} (h : a.Valid n) : WF n (ofAlignment a) :=
  wf_ofAlignment h

/-! ### the stream -/

/-- For every list of representable records, every `Write` succeeds and reading the concatenation of what was
written returns the records in order, then io.EOF (`none`) — by induction over the list with the length-prefix
lemma. Stated for all three Omit modes (`expected .none = norm`). -/
theorem stream_roundtrip (om : Omit) {n : Nat} (rs : List Record) (h : ∀ r ∈ rs, WF n r) :
    ∃ s, encodeAll rs = .ok s ∧ readAll om n s = (rs.map (expected om), none) :=
  readAll_encodeAll om rs h

theorem stream_roundtrip_none {n : Nat} (rs : List Record) (h : ∀ r ∈ rs, WF n r) :
    ∃ s, encodeAll rs = .ok s ∧ readAll .none n s = (rs.map norm, none) :=
  readAll_encodeAll .none rs h

/-- The whole file, for every header: the header codec is a parameter with its round-trip law (C07); the header read
back is the header written and the records follow in order, then io.EOF. -/
theorem file_roundtrip {H : Type} (hc : HeaderCodec H) (om : Omit) (hd : H) (rs : List Record)
    (h : ∀ r ∈ rs, WF (hc.nrefs hd) r) :
    ∃ bytes, writeFile hc hd rs = .ok bytes ∧ readFile hc om bytes = some (hd, rs.map (expected om), none) :=
  readFile_writeFile hc om hd rs h

/-- ... and under the BGZF layer, for every write concurrency `wc` and read concurrency `rd` (the BGZF codec is a
parameter with its round-trip law, C01) -/
theorem file_roundtrip_bgzf {H : Type} (bg : BgzfCodec) (hc : HeaderCodec H) (om : Omit) (wc rd : Nat) (hd : H)
    (rs : List Record) (h : ∀ r ∈ rs, WF (hc.nrefs hd) r) :
    ∃ bytes, writeFile hc hd rs = .ok bytes ∧
      (bg.read rd (bg.write wc bytes)).bind (readFile hc om) = some (hd, rs.map (expected om), none) :=
  readFile_writeFile_bgzf bg hc om wc rd hd rs h

/-- no two representable records that differ in anything but "absent vs all-0xff qualities" are written as the same
bytes -/
theorem encode_injective {n : Nat} {r₁ r₂ : Record} (h₁ : WF n r₁) (h₂ : WF n r₂)
    (he : encodeRecord r₁ = encodeRecord r₂) : norm r₁ = norm r₂ := by
  obtain ⟨b₁, e₁, d₁⟩ := decode_encode h₁
  obtain ⟨b₂, e₂, d₂⟩ := decode_encode h₂
  rw [e₁, e₂] at he
  cases he
  have := (d₁ []).symm.trans (d₂ [])
  simp only [ReadResult.record.injEq, and_true] at this
  exact this

/-! ### the writer's rejections and the model's fuel -/

theorem write_rejects_name (r : Record) (h : r.name.length = 0 ∨ 254 < r.name.length) :
    encodeRecord r = .error .errNameLen := by
  unfold encodeRecord
  have : (r.name.length == 0 || decide (r.name.length > 254)) = true := by
    rcases h with h | h <;> simp [h]
  simp [this]

/-- the loops of the model never run out of fuel: `Fault.fuel` is not an outcome of any read -/
theorem fuel_unreachable (om : Omit) (n : Nat) (s : List Byte) :
    (readAll om n s).2 ≠ some .fuel ∧ readRecord om n s ≠ .fault .fuel ∧ parseAux s ≠ .error .fuel :=
  ⟨readAll_ne_fuel om n s, readRecord_ne_fuel om n s, parseAux_ne_fuel s⟩

/-- the reader is total on ARBITRARY bytes: whatever the stream, every `Read` ends in a record, `io.EOF` or a Go
`error` — never in a panic (the model's only panic outcome is the writer's) and never by exhausting the model's fuel;
`readAll` stops after finitely many records. -/
theorem read_never_panics (om : Omit) (n : Nat) (s : List Byte) :
    (readAll om n s).2 ≠ some .panicAuxType ∧ readRecord om n s ≠ .fault .panicAuxType ∧
      parseAux s ≠ .error .panicAuxType :=
  ⟨readAll_ne_panic om n s, readRecord_ne_panic om n s, parseAux_ne_panic s⟩

/-! ### non-vacuity: a concrete non-trivial record is well-formed, and what the theorems say about it -/

/-- name "r1", on reference 0 at 100, mate on reference 1, 3M1I, 5 bases (odd), qualities absent, aux fields
`XA:Z:hi`, `NM:C:5`, `XB:B:s,1,-2,3`, `XE:B:f` (empty array), `XH:H:1AE3` -/
def sample : Record :=
  { name := [114#8, 49#8], ref := some 0, pos := 100, mapq := 30#8, cigar := [0x30#32, 0x11#32], flags := 0x63#16,
    mateRef := some 1, matePos := 250, tempLen := -154, seqLen := 5, seq := [0x12#8, 0x48#8, 0xf0#8], qual := none,
    aux := [[88#8, 65#8, 90#8, 104#8, 105#8], [78#8, 77#8, 67#8, 5#8],
            [88#8, 66#8, 66#8, 115#8, 3#8, 0#8, 0#8, 0#8, 1#8, 0#8, 0xfe#8, 0xff#8, 3#8, 0#8],
            [88#8, 69#8, 66#8, 102#8, 0#8, 0#8, 0#8, 0#8],
            [88#8, 72#8, 72#8, 49#8, 65#8, 69#8, 51#8]] }

example : WF 2 sample :=
  { nrefs_ok := by decide, name_len := by decide, name_nonul := by decide, ref_ok := by simp [sample],
    mate_ok := by simp [sample], pos_ok := by decide, matePos_ok := by decide, tempLen_ok := by decide,
    cigar_count := by decide, seq_len := by decide,
    qual_len := by simp [sample],
    aux_ok := by
      simp only [sample, List.mem_cons, List.not_mem_nil, or_false, forall_eq_or_imp, forall_eq]
      refine ⟨?_, ?_, ?_, ?_, ?_⟩ <;> rfl,
    size_ok := by decide +kernel }
example : padOK sample.seqLen sample.seq = true := by rfl
example : (encodeRecord sample).toOption.map List.length = some 95 := by rfl
example : (match encodeRecord sample with | .ok bs => readAll .none 2 (bs ++ bs) | .error _ => ([], none))
    = ([norm sample, norm sample], none) := by decide +kernel
example : (norm sample).qual = some [0xff#8, 0xff#8, 0xff#8, 0xff#8, 0xff#8] := by rfl
/-- a non-trivial alignment the format can represent: 3M1I, bases "ACGTN", aux `NM:C:5`, `XA:Z:hi`, `XB:B:s,1,-2` -/
def sampleAln : Hts.Spec.Bam.Alignment :=
  { refID := 0, pos := 100, mapq := 30, bin := 4681, flag := 99, nextRefID := 1, nextPos := 250, tlen := -154,
    readName := [114#8, 49#8], cigar := [(3, 0), (1, 1)], seq := [1, 2, 4, 8, 15], qual := none,
    aux := [((78#8, 77#8), .num .C 5), ((88#8, 65#8), .str [104#8, 105#8]), ((88#8, 66#8), .arr .s [1, -2])] }

example : sampleAln.Valid 2 :=
  { nrefs_lt := by decide, refID := by decide, nextRefID := by decide, pos := by decide, nextPos := by decide,
    tlen := by decide, mapq := by decide, flag := by decide, name := by decide,
    cigar := by simp [sampleAln], seq := by simp [sampleAln], qual := by simp [sampleAln],
    aux := by
      simp only [sampleAln, List.mem_cons, List.not_mem_nil, or_false, forall_eq_or_imp, forall_eq]
      refine ⟨⟨?_, by decide, by decide⟩, ⟨?_, by decide, by decide⟩, ⟨?_, by decide, by decide⟩⟩
      · simp [Hts.Spec.Bam.AuxValue.Valid, Hts.Spec.Bam.Elem.inRange, Hts.Spec.Bam.Elem.signed, Hts.Spec.Bam.Elem.width]
      · simp [Hts.Spec.Bam.AuxValue.Valid]
      · simp [Hts.Spec.Bam.AuxValue.Valid, Hts.Spec.Bam.Elem.inRange, Hts.Spec.Bam.Elem.signed, Hts.Spec.Bam.Elem.width],
    size := by decide +kernel }

/-- what the model says the code (as repaired) does on inputs outside the specification, each checked against the
implementation by the harness: CIGAR op code 11 is written and read back like any other; a `B` array with an
unknown element type, a `B` header cut short, a fixed-width value cut short and a NUL inside a tag are errors;
a record body shorter than its fields is `io.ErrUnexpectedEOF`. -/
example : (encodeRecord { sample with cigar := [0x3b#32] }).toOption.map
    (fun bs => readAll .none 2 bs) = some ([norm { sample with cigar := [0x3b#32] }], none) := by decide +kernel
example : parseAux [88#8, 89#8, 66#8, 90#8, 8#8, 0#8, 0#8, 0#8] = .error .errAuxArrayElem := by rfl
example : parseAux [88#8, 89#8, 66#8] = .error .errAuxArrayHdr := by rfl
example : parseAux [88#8, 89#8, 105#8, 1#8, 2#8] = .error .errAuxTruncated := by rfl
example : parseAux [88#8, 0#8, 90#8, 65#8, 0#8] = .error .errAuxZeroInTag := by rfl
example : decodeBody .none 2 (List.replicate 20 1#8) = .error .errUnexpectedEOF := by rfl

end Hts.Props.C05
