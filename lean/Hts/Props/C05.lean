/-
C05 — BAM encoding round trip: Writer → Reader reproduces the header and every record field; the bytes written are
those of the specification's layout; the Omit modes return the same records minus exactly the omitted parts.
PROPERTY THEOREMS ONLY (helper lemmas live in Hts.Lemmas.Bam*).  Every statement quantifies over ALL records /
record lists (no bound on any size); `WF nrefs r` is "the BAM format can represent r under a header with nrefs
references" (Hts.Lemmas.BamWF).
-/
import Hts.Lemmas.BamStream
import Hts.Lemmas.BamSpec
import Hts.Lemmas.BamReadSpec
import Hts.Lemmas.BamTotal
import Hts.Lemmas.BamOverBgzf
import Hts.Lemmas.BamCoord
import Hts.Lemmas.BamHeaderC07
import Hts.Props.C16
namespace Hts.Props.C05
open Hts.Model.Bam

/-! ### one record -/

/-- The writer accepts every representable record, and reading the bytes it wrote (from the front of any stream)
returns the record equal in every field — name, reference and mate reference (index in the header), positions,
MAPQ, flags, CIGAR, packed bases, qualities, every aux field byte for byte — `norm` only replacing absent qualities
by the run of 0xff the reader represents them by. -/
theorem decode_encode {n : Nat} {r : Record} (h : WF n r) :
    ∃ bs, encodeRecord r = .ok bs ∧ ∀ rest, readRecord .none n (bs ++ rest) = .record (norm r) rest := by
  obtain ⟨bs, hb, _, hr⟩ := readRecord_encodeRecord .none h
  exact ⟨bs, hb, hr⟩

/-- the same on the record buffer after the length prefix (what `Reader.Read` parses) -/
theorem decode_encode_body {n : Nat} {r : Record} (h : WF n r) :
    ∃ bs, encodeRecord r = .ok bs ∧ decodeBody .none n (bs.drop 4) = .ok (norm r) := by
  obtain ⟨bin, _, he⟩ := encodeRecord_ok h
  refine ⟨_, he, ?_⟩
  have : (putI32 (recLen r (encAuxAll r.aux) : Int) ++ bodyOf bin (encAuxAll r.aux) r).drop 4
      = bodyOf bin (encAuxAll r.aux) r := by
    simp [List.drop_left' (putI32_length _)]
  rw [this]
  exact decodeBody_bodyOf .none n r bin h

/-- `norm` changes nothing but absent qualities -/
theorem norm_of_qual_present (r : Record) (q : List Byte) (h : r.qual = some q) : norm r = r := by
  cases r; simp_all [norm, qualBytes]

theorem norm_qual_absent (r : Record) (h : r.qual = none) :
    norm r = { r with qual := some (List.replicate r.seqLen 0xff#8) } := by
  cases r; simp_all [norm, qualBytes]

/-- a CIGAR operation length always fits the 28 bits of the format (`CigarOp` is a uint32) -/
theorem cigar_len_lt (c : BitVec 32) : cigarLen c < 2 ^ 28 := cigarLen_lt c

/-! ### Omit modes -/

/-- `Omit(AuxTags)`: the same record minus exactly the aux fields -/
theorem omit_aux {n : Nat} {r : Record} (h : WF n r) :
    ∃ bs, encodeRecord r = .ok bs ∧ ∀ rest, readRecord .aux n (bs ++ rest) = .record (omitAux (norm r)) rest := by
  obtain ⟨bs, hb, _, hr⟩ := readRecord_encodeRecord .aux h
  exact ⟨bs, hb, hr⟩

/-- `Omit(AllVariableLengthData)`: the same record minus exactly sequence, qualities and aux fields -/
theorem omit_all {n : Nat} {r : Record} (h : WF n r) :
    ∃ bs, encodeRecord r = .ok bs ∧ ∀ rest, readRecord .all n (bs ++ rest) = .record (omitAll (norm r)) rest := by
  obtain ⟨bs, hb, _, hr⟩ := readRecord_encodeRecord .all h
  exact ⟨bs, hb, hr⟩

/-! ### the bytes are the specification's -/

/-- The bytes written are `Spec.layout` (SAMv1 §4.2, written independently) of the record's semantic reading `view`
(CIGAR as (length, op), one 4-bit code per base, typed aux values), the bin field being the value the writer computed
(its agreement with reg2bin is C16). `padOK`: the unused nibble of an odd-length sequence is zero, as `sam.NewSeq` makes it. -/
theorem encode_is_spec {n : Nat} {r : Record} (h : WF n r) (hp : padOK r.seqLen r.seq = true) :
    ∃ bin a, recordBin r = bin ∧ view bin r = some a ∧ encodeRecord r = .ok (Hts.Spec.Bam.layout a) :=
  encodeRecord_is_layout h hp

/-- "ignoring only the bin field": for ANY value `b` of the bin field, the written bytes agree with the
specification's layout of the reading with that bin everywhere except at offsets 14 and 15 -/
theorem encode_is_spec_except_bin {n : Nat} {r : Record} (h : WF n r) (hp : padOK r.seqLen r.seq = true) (b : Nat) :
    ∃ bs a pre post x y, encodeRecord r = .ok bs ∧ view b r = some a ∧ pre.length = 14 ∧
      bs = pre ++ [x, y] ++ post ∧ Hts.Spec.Bam.layout a = pre ++ Hts.Spec.Bam.le 2 b ++ post := by
  obtain ⟨bin, a, _, ha, he⟩ := encodeRecord_is_layout h hp
  obtain ⟨pre, post, hl, h1, h2⟩ := layout_except_bin a b
  have hv : view b r = some { a with bin := b } := by
    simp only [view] at ha ⊢
    split at ha
    · rename_i cs aux hc hx
      simp only [Option.some.injEq] at ha
      subst ha
      simp [hc, hx]
    · cases ha
  refine ⟨_, _, pre, post, BitVec.ofNat 8 (a.bin % 256), BitVec.ofNat 8 (a.bin / 256 % 256), he, hv, hl, ?_, h2⟩
  rw [h1]
  rfl

/-- `sam.NewSeq` (contract) packs the letters as the specification says, and its result satisfies the sequence
clauses of `WF` and `padOK` -/
theorem newSeq_is_spec (s : List Byte) :
    contract s = Hts.Spec.Bam.packSeq (s.map n16) ∧ (contract s).length = (s.length + 1) / 2 ∧
      padOK s.length (contract s) = true :=
  ⟨contract_eq_packSeq s, contract_length s, contract_padOK s⟩

/-- READER vs SPECIFICATION (independent of the writer): for every alignment the format can represent, reading
`Spec.layout` of it — whoever produced those bytes, whatever its bin field holds — returns the record that stands for
the alignment (`ofAlignment`: packed bases, CIGAR words, raw aux fields), under every Omit mode. -/
theorem reader_accepts_spec (om : Omit) {n : Nat} {a : Hts.Spec.Bam.Alignment} (h : a.Valid n) (rest : List Byte) :
    readRecord om n (Hts.Spec.Bam.layout a ++ rest) = .record (expected om (ofAlignment a)) rest :=
  readRecord_layout om h rest

/-- ... and that record is one the writer accepts (`WF`), so the two directions compose -/
theorem ofAlignment_wf {n : Nat} {a : Hts.Spec.Bam.Alignment} (h : a.Valid n) : WF n (ofAlignment a) :=
  wf_ofAlignment h

/-! ### the stream -/

/-- For every list of representable records, every `Write` succeeds and reading the concatenation of what was
written returns the records in order, then io.EOF (`none`) — by induction over the list with the length-prefix
lemma. Stated for all three Omit modes (`expected .none = norm`). -/
theorem stream_roundtrip (om : Omit) {n : Nat} (rs : List Record) (h : ∀ r ∈ rs, WF n r) :
    ∃ s, encodeAll rs = .ok s ∧ readAll om n s = (rs.map (expected om), none) :=
  readAll_encodeAll om rs h

theorem stream_roundtrip_none {n : Nat} (rs : List Record) (h : ∀ r ∈ rs, WF n r) :
    ∃ s, encodeAll rs = .ok s ∧ readAll .none n s = (rs.map norm, none) :=
  readAll_encodeAll .none rs h

/-- The whole file under the BGZF layer's contents. The binary header (C07) is NOT modelled here; what is assumed of it
is the hypothesis `HeaderFramed decode hdrBytes hd` about the ONE header at hand: on its bytes followed by any data
the header decoder returns `hd` and leaves exactly the data (this is not a law for all headers — C07's
`binary_roundtrip_witness` shows the decoded header can differ from the encoded one for non-canonical URIs — and its
"stops exactly at the end of the header section" part is proved nowhere, only checked by the correspondence).  Under
it: the header is returned, then the records in order, then io.EOF, in every Omit mode. -/
theorem file_roundtrip {H : Type} (decode : List Byte → Option (H × List Byte)) (nrefs : H → Nat)
    (hdrBytes : List Byte) (hd : H) (hf : HeaderFramed decode hdrBytes hd) (om : Omit) (rs : List Record)
    (h : ∀ r ∈ rs, WF (nrefs hd) r) :
    ∃ bytes, writeFile hdrBytes rs = .ok bytes ∧
      readFile decode nrefs om bytes = some (hd, rs.map (expected om), none) :=
  readFile_writeFile decode nrefs hdrBytes hd hf om rs h

open Hts.Model Hts.Model.BgzfWriter Hts.Model.Member in
/-- BAM over BGZF with C01's models instantiated (no law parameter for BGZF): the operations `bam.NewWriter`, `Write`
per record and `Close` perform on the BGZF writer (`Write(header)`, `Flush`, one `Write` per frame, `Close`:
`bamScript`) are run through C01's writer/member/reader models. For every lawful DEFLATE/CRC-32 codec within zlib's
bound (C01's `Codec`, the only assumption), every header section and every list of representable records: `Close`
returns nil, the BGZF reader decodes the file into blocks whose concatenation is the header section followed by the
record frames, and after the header section `Read` returns the records in order, then io.EOF, in every Omit mode.
Write/read CONCURRENCY (`wc`, `rd`) does not occur in these sequential models: for C05 it is correspondence-only
(files written with wc 0..3 and read with rd 0..3); its irrelevance is C12's and C02's subject. -/
theorem file_roundtrip_bgzf (c : Codec) (hb : Bounded c.toCodecFns) (hdrBytes : List Hts.Model.Bam.Byte) (om : Omit) {n : Nat}
    (rs : List Record) (h : ∀ r ∈ rs, WF n r) :
    ∃ fs s, frames rs = .ok fs ∧ encodeAll rs = .ok s ∧
      (closeOutput c.toCodecFns {} (after (bamScript hdrBytes fs)).emitted).2 = none ∧
      ∃ blocks, readStream c.toCodecFns (closeOutput c.toCodecFns {} (after (bamScript hdrBytes fs)).emitted).1
          = some blocks ∧
        blocks.flatten.map ofU8 = hdrBytes ++ s ∧
        readAll om n ((blocks.flatten.map ofU8).drop hdrBytes.length) = (rs.map (expected om), none) :=
  bam_over_bgzf c hb hdrBytes om rs h

open Hts.Model.Header in
/-- `HeaderFramed` DISCHARGED from C07's model: for every header `h` of a consistent C07 world `w` that is API-built
with canonical URIs (C07's `ApiBuilt`, `UriCanon`), whose sizes fit the int32 fields and whose marshalled form consists
of bytes (C07 models bytes as unbounded naturals, so `< 256` is an explicit condition), the bytes `MarshalBinary(h)` and
the decoder built from C07's `decodeBinaryR` (`hdrDecoder`) satisfy `HeaderFramed`, the header returned being the
VALUES the header exposes (`view w h`) -/
theorem headerFramed_api_header (E : Ext) (w : World) (hw : WInv w) (h : Nat) (hh : h < w.hdrs.length)
    (api : ApiBuilt E (view w h)) (uc : UriCanon E (view w h))
    (hs1 : ((marshalText w h).length : Int) < 2147483648) (hs2 : ((view w h).refs.length : Int) < 2147483648)
    (hs3 : ∀ r ∈ (view w h).refs, (r.2.1.length : Int) + 1 < 2147483648)
    (hbytes : ∀ b ∈ marshalBinary w h, b < 256) :
    HeaderFramed (hdrDecoder E w) (ofNats (marshalBinary w h)) (view w h) :=
  headerFramed_of_C07 E w hw h hh api uc hs1 hs2 hs3 hbytes

open Hts.Model.Header in
/-- the whole file with a header of C07's model and NO header hypothesis other than C07's: writing `MarshalBinary(h)`
and the records, then `NewReader` (C07's `decodeBinaryR`) and `Read` until it fails, returns the values the header
exposes, the records in order (references index into the decoded reference list) and io.EOF, in every Omit mode -/
theorem file_roundtrip_api_header (E : Ext) (w : World) (hw : WInv w) (h : Nat) (hh : h < w.hdrs.length)
    (api : ApiBuilt E (view w h)) (uc : UriCanon E (view w h))
    (hs1 : ((marshalText w h).length : Int) < 2147483648) (hs2 : ((view w h).refs.length : Int) < 2147483648)
    (hs3 : ∀ r ∈ (view w h).refs, (r.2.1.length : Int) + 1 < 2147483648)
    (hbytes : ∀ b ∈ marshalBinary w h, b < 256)
    (om : Omit) (rs : List Record) (hwf : ∀ r ∈ rs, WF (viewRefs (view w h)) r) :
    ∃ bytes, writeFile (ofNats (marshalBinary w h)) rs = .ok bytes ∧
      readFile (hdrDecoder E w) viewRefs om bytes = some (view w h, rs.map (expected om), none) :=
  readFile_writeFile_C07 E w hw h hh api uc hs1 hs2 hs3 hbytes om rs hwf

open Hts.Model Hts.Model.BgzfWriter Hts.Model.Member Hts.Model.Header in
/-- ... and under BGZF with C01's models: header from C07's model, record codec from this property's, BGZF from C01's —
the only assumptions left are C01's codec laws (DEFLATE/CRC-32) and C07's conditions on the header -/
theorem file_roundtrip_bgzf_api_header (c : Codec) (hb : Bounded c.toCodecFns)
    (E : Ext) (w : World) (hw : WInv w) (h : Nat) (hh : h < w.hdrs.length)
    (api : ApiBuilt E (view w h)) (uc : UriCanon E (view w h))
    (hs1 : ((marshalText w h).length : Int) < 2147483648) (hs2 : ((view w h).refs.length : Int) < 2147483648)
    (hs3 : ∀ r ∈ (view w h).refs, (r.2.1.length : Int) + 1 < 2147483648)
    (hbytes : ∀ b ∈ marshalBinary w h, b < 256)
    (om : Omit) (rs : List Record) (hwf : ∀ r ∈ rs, WF (viewRefs (view w h)) r) :
    ∃ fs, frames rs = .ok fs ∧
      (closeOutput c.toCodecFns {} (after (bamScript (ofNats (marshalBinary w h)) fs)).emitted).2 = none ∧
      ∃ blocks, readStream c.toCodecFns
          (closeOutput c.toCodecFns {} (after (bamScript (ofNats (marshalBinary w h)) fs)).emitted).1 = some blocks ∧
        readFile (hdrDecoder E w) viewRefs om (blocks.flatten.map ofU8)
          = some (view w h, rs.map (expected om), none) :=
  bam_over_bgzf_C07 c hb E w hw h hh api uc hs1 hs2 hs3 hbytes om rs hwf

/-- no two representable records that differ in anything but "absent vs all-0xff qualities" are written as the same
bytes -/
theorem encode_injective {n : Nat} {r₁ r₂ : Record} (h₁ : WF n r₁) (h₂ : WF n r₂)
    (he : encodeRecord r₁ = encodeRecord r₂) : norm r₁ = norm r₂ := by
  obtain ⟨b₁, e₁, d₁⟩ := decode_encode h₁
  obtain ⟨b₂, e₂, d₂⟩ := decode_encode h₂
  rw [e₁, e₂] at he
  cases he
  have := (d₁ []).symm.trans (d₂ [])
  simp only [ReadResult.record.injEq, and_true] at this
  exact this

/-! ### the writer's rejections and the model's fuel -/

theorem write_rejects_name (r : Record) (h : r.name.length = 0 ∨ 254 < r.name.length) :
    encodeRecord r = .error .errNameLen := by
  unfold encodeRecord
  have : (r.name.length == 0 || decide (r.name.length > 254)) = true := by
    rcases h with h | h <;> simp [h]
  simp [this]

/-- the loops of the model never run out of fuel: `Fault.fuel` is not an outcome of any read -/
theorem fuel_unreachable (om : Omit) (n : Nat) (s : List Byte) :
    (readAll om n s).2 ≠ some .fuel ∧ readRecord om n s ≠ .fault .fuel ∧ parseAux s ≠ .error .fuel :=
  ⟨readAll_ne_fuel om n s, readRecord_ne_fuel om n s, parseAux_ne_fuel s⟩

/-- BY CONSTRUCTION of the reader model — `decodeBody`, `parseAux`, `readRecord` have no panic outcome at all (the only
panic in `Fault` is the writer's `panicAuxType`) — no read ends in that outcome.  This says nothing about the Go code
by itself: that `bam.Reader.Read` never panics on arbitrary bytes is C11's claim (its panic-site inventory and sweep);
here it is only what makes "every read ends in a record, io.EOF or a Go error" a well-formed summary of the model,
whose agreement with the code on malformed streams is checked by the `c05.dec` correspondence. -/
theorem reader_model_has_no_panic_outcome (om : Omit) (n : Nat) (s : List Byte) :
    (readAll om n s).2 ≠ some .panicAuxType ∧ readRecord om n s ≠ .fault .panicAuxType ∧
      parseAux s ≠ .error .panicAuxType :=
  ⟨readAll_ne_panic om n s, readRecord_ne_panic om n s, parseAux_ne_panic s⟩

/-! ### the bin field and C16 -/

/-- the bin the writer model computes is C16's `recordBin` of the record's flags, position and CIGAR (so C16's
theorems about `Coord.recordBin` are about the two bytes `encode_is_spec` takes as given) -/
theorem bin_agrees_with_C16 (r : Record) :
    Hts.Model.Coord.recordBin (unmapped r) (mateUnmapped r) r.pos (r.cigar.map coordOp) = some (recordBin r) :=
  recordBin_agree r

/-- hence, by C16's `bin_spec`: for a record at position `p` (`0 ≤ p < 2^29`) whose alignment ends at `e` with
`p ≤ e ≤ 2^29`, the bin bytes hold the specification's `reg2bin(p, e)` — of one base when the alignment consumes no
reference (`e = p`) -/
theorem bin_is_reg2bin (r : Record) (p e : Nat) (hp : r.pos = (p : Int)) (he : recordEnd r = (e : Int))
    (h1 : p ≤ e) (h2 : e ≤ 2 ^ 29) (h3 : p < 2 ^ 29) :
    recordBin r = Hts.Spec.Coord.reg2bin p (if e = p then p + 1 else e) 14 5 := by
  have ha := recordBin_agree r
  have hend := recordEnd_agree r
  rw [hp] at ha hend
  rw [he] at hend
  have := Hts.Props.C16.bin_spec (unmapped r) (mateUnmapped r) p (r.cigar.map coordOp) e hend h1 h2 h3
  rw [this] at ha
  exact (Option.some.inj ha).symm

/-! ### non-vacuity: a concrete non-trivial record is well-formed, and what the theorems say about it -/

/-- name "r1", on reference 0 at 100, mate on reference 1, 3M1I, 5 bases (odd), qualities absent, aux fields
`XA:Z:hi`, `NM:C:5`, `XB:B:s,1,-2,3`, `XE:B:f` (empty array), `XH:H:1AE300` (in memory: the three bytes 1a e3 00) -/
def sample : Record :=
  { name := [114#8, 49#8], ref := some 0, pos := 100, mapq := 30#8, cigar := [0x30#32, 0x11#32], flags := 0x63#16,
    mateRef := some 1, matePos := 250, tempLen := -154, seqLen := 5, seq := [0x12#8, 0x48#8, 0xf0#8], qual := none,
    aux := [[88#8, 65#8, 90#8, 104#8, 105#8], [78#8, 77#8, 67#8, 5#8],
            [88#8, 66#8, 66#8, 115#8, 3#8, 0#8, 0#8, 0#8, 1#8, 0#8, 0xfe#8, 0xff#8, 3#8, 0#8],
            [88#8, 69#8, 66#8, 102#8, 0#8, 0#8, 0#8, 0#8],
            [88#8, 72#8, 72#8, 0x1a#8, 0xe3#8, 0x00#8]] }

theorem sample_wf : WF 2 sample :=
  { nrefs_ok := by decide, name_len := by decide, name_nonul := by decide, ref_ok := by simp [sample],
    mate_ok := by simp [sample], pos_ok := by decide, matePos_ok := by decide, tempLen_ok := by decide,
    cigar_count := by decide, seq_len := by decide,
    qual_len := by simp [sample],
    aux_ok := by
      simp only [sample, List.mem_cons, List.not_mem_nil, or_false, forall_eq_or_imp, forall_eq]
      refine ⟨?_, ?_, ?_, ?_, ?_⟩ <;> rfl,
    size_ok := by decide +kernel }
example : padOK sample.seqLen sample.seq = true := by rfl
example : (encodeRecord sample).toOption.map List.length = some 97 := by rfl
example : (match encodeRecord sample with | .ok bs => readAll .none 2 (bs ++ bs) | .error _ => ([], none))
    = ([norm sample, norm sample], none) := by decide +kernel
example : (norm sample).qual = some [0xff#8, 0xff#8, 0xff#8, 0xff#8, 0xff#8] := by rfl
/-! ### outside `WF`: what the writer does with records the format cannot represent -/

/-- `Writer.Write` checks only the name length and the quality length. A position (likewise mate position, template
length) outside int32 is NOT rejected: it is truncated to its low 32 bits, silently, and the file reads back as a
different record. Witness: position 2^40 + 5 comes back as 5. (More than 65535 CIGAR operations: `n_cigar_op` holds
the count modulo 65536 while all operations are written, so the record is misparsed; a NUL inside a name or a `Z`
value is written as is. The model mirrors all of these and the harness compares them with the code.) -/
theorem write_outside_wf_witness :
    ∃ (r : Record) (bs : List Byte), ¬ WF 2 r ∧ encodeRecord r = .ok bs ∧
      ∃ r', readAll .none 2 bs = ([r'], none) ∧ r.pos = 1099511627781 ∧ r'.pos = 5 := by
  refine ⟨{ sample with pos := 1099511627781 }, _, ?_, rfl, ?_⟩
  · intro h
    have := h.pos_ok.2
    revert this; decide
  · exact ⟨norm { sample with pos := 5 }, by decide +kernel, rfl, rfl⟩

/-- the hypotheses of the two file theorems are satisfiable: a (toy) header decoder that is framed on a 4-byte header
section, and C01's toy codec (lawful and within the bound) for the BGZF layer -/
example : HeaderFramed (fun bs : List Byte => some ((), bs.drop 4)) [66#8, 65#8, 77#8, 1#8] () := by
  intro rest; rfl
example := file_roundtrip (fun bs : List Byte => some ((), bs.drop 4)) (fun _ => 2) [66#8, 65#8, 77#8, 1#8] ()
  (by intro rest; rfl) .aux [sample, sample] (by simp [sample_wf])
example := file_roundtrip_bgzf Hts.Model.Member.Toy.codec Hts.Model.Member.Toy.bounded [66#8, 65#8, 77#8, 1#8] .none
  (n := 2) [sample, sample] (by simp [sample_wf])

open Hts.Model.Header in
set_option maxRecDepth 100000 in
/-- non-vacuity of the C07-header theorems: C07's multi-item world `wM` (references a, c, d after an add/remove history,
read groups, programs; version 1.6, SO, GO) satisfies every header condition, and `sample` is representable under its
three references -/
example := file_roundtrip_bgzf_api_header Hts.Model.Member.Toy.codec Hts.Model.Member.Toy.bounded
  goExt wM wM_inv 0 (by decide) wM_api.1 wM_api.2 (by decide) (by rw [wM_view]; decide)
  (by rw [wM_view]; intro r hr; simp only [List.mem_cons, List.not_mem_nil, or_false] at hr
      rcases hr with rfl | rfl | rfl <;> decide)
  (by decide +kernel) .none [sample, sample]
  (by
    have h3 : viewRefs (view wM 0) = 3 := by rw [wM_view]; rfl
    rw [h3]
    intro r hr
    simp only [List.mem_cons, List.not_mem_nil, or_false, or_self] at hr
    subst hr
    exact sample_wf.mono (by decide) (by decide))

/-- a non-trivial alignment the format can represent: 3M1I, bases "ACGTN", aux `NM:C:5`, `XA:Z:hi`, `XB:B:s,1,-2`,
`XH:H:1AE300` (the digit text) -/
def sampleAln : Hts.Spec.Bam.Alignment :=
  { refID := 0, pos := 100, mapq := 30, bin := 4681, flag := 99, nextRefID := 1, nextPos := 250, tlen := -154,
    readName := [114#8, 49#8], cigar := [(3, 0), (1, 1)], seq := [1, 2, 4, 8, 15], qual := none,
    aux := [((78#8, 77#8), .num .C 5), ((88#8, 65#8), .str [104#8, 105#8]), ((88#8, 66#8), .arr .s [1, -2]),
            ((88#8, 72#8), .hex [49#8, 65#8, 69#8, 51#8, 48#8, 48#8])] }

example : sampleAln.Valid 2 :=
  { nrefs_lt := by decide, refID := by decide, nextRefID := by decide, pos := by decide, nextPos := by decide,
    tlen := by decide, mapq := by decide, flag := by decide, name := by decide,
    cigar := by simp [sampleAln], seq := by simp [sampleAln], qual := by simp [sampleAln],
    aux := by
      simp only [sampleAln, List.mem_cons, List.not_mem_nil, or_false, forall_eq_or_imp, forall_eq]
      refine ⟨⟨?_, by decide, by decide⟩, ⟨?_, by decide, by decide⟩, ⟨?_, by decide, by decide⟩,
        ⟨?_, by decide, by decide⟩⟩
      · simp [Hts.Spec.Bam.AuxValue.Valid, Hts.Spec.Bam.Elem.inRange, Hts.Spec.Bam.Elem.signed, Hts.Spec.Bam.Elem.width]
      · simp [Hts.Spec.Bam.AuxValue.Valid]
      · simp [Hts.Spec.Bam.AuxValue.Valid, Hts.Spec.Bam.Elem.inRange, Hts.Spec.Bam.Elem.signed, Hts.Spec.Bam.Elem.width]
      · simp [Hts.Spec.Bam.AuxValue.Valid, Hts.Spec.Bam.isHexDigit],
    size := by decide +kernel }

/-- an `H` value: in memory the bytes 1a e3, in the file the digits "1AE3" and a NUL (SAMv1 §4.2.4), and back;
an odd number of digits or a non-digit is an error -/
example : encAux [88#8, 72#8, 72#8, 0x1a#8, 0xe3#8] = [88#8, 72#8, 72#8, 49#8, 65#8, 69#8, 51#8, 0#8] := by rfl
example : parseAux [88#8, 72#8, 72#8, 49#8, 97#8, 69#8, 51#8, 0#8] = .ok [[88#8, 72#8, 72#8, 0x1a#8, 0xe3#8]] := by rfl
example : parseAux [88#8, 72#8, 72#8, 49#8, 65#8, 69#8, 0#8] = .error .errAuxHexOdd := by rfl
example : parseAux [88#8, 72#8, 72#8, 49#8, 71#8, 0#8] = .error .errAuxHexDigit := by rfl

/-- what the model says the code (as repaired) does on inputs outside the specification, each checked against the
implementation by the harness: CIGAR op code 11 is written and read back like any other; a `B` array with an
unknown element type, a `B` header cut short, a fixed-width value cut short and a NUL inside a tag are errors;
a record body shorter than its fields is `io.ErrUnexpectedEOF`. -/
example : (encodeRecord { sample with cigar := [0x3b#32] }).toOption.map
    (fun bs => readAll .none 2 bs) = some ([norm { sample with cigar := [0x3b#32] }], none) := by decide +kernel
example : parseAux [88#8, 89#8, 66#8, 90#8, 8#8, 0#8, 0#8, 0#8] = .error .errAuxArrayElem := by rfl
example : parseAux [88#8, 89#8, 66#8] = .error .errAuxArrayHdr := by rfl
example : parseAux [88#8, 89#8, 105#8, 1#8, 2#8] = .error .errAuxTruncated := by rfl
example : parseAux [88#8, 0#8, 90#8, 65#8, 0#8] = .error .errAuxZeroInTag := by rfl
example : decodeBody .none 2 (List.replicate 20 1#8) = .error .errUnexpectedEOF := by rfl

end Hts.Props.C05
