/-
C05 — property theorems (stub: no theorem stated yet, so no obligation is counted).
-/
namespace Hts.Props.C05
end Hts.Props.C05
