/-
C11 — Decoders are total: any bytes give a value or an error, never a panic or a hang; a value that
was returned without error can be passed to the library's accessors without a panic.
PROPERTY THEOREMS ONLY.

What is proved here, for ALL byte strings (no bound on length except where a Go `int32` in the format
itself bounds it — stated explicitly), about the models of Hts.Model.Decoders, which mirror the Go
code with the repairs fixes/C11-*.diff at indexing granularity (every index/slice/make/explicit panic
of the modelled functions is a partial operation of the model):

  D_total   : the decoder model never yields `panic`         (sam.atoi, sam.ParseCigar, sam.ParseAux
              for every behaviour of strconv, bam.parseAux incl. termination of its loop)
  A_safe    : a value the decoder model returned makes no accessor model yield `panic`
              (CIGAR: Consumes/Lengths/End/Len/Bin/IsValid/String; aux: Tag/Type/Kind/Value/String
              and the SAM formatter)

The other decoders of the library (BGZF, BAM record layout, SAM line/header text, binary header,
index readers, FAI, CRAM) are covered by the panic-site inventory + search only; see
notes/reports/C11.md.  (Later rounds added most of them below; CRAM definition/container/block/slice/
Block.Value: extension round 4.)
-/
import Hts.Lemmas.Decoders
import Hts.Lemmas.DecodersIndex
import Hts.Lemmas.DecodersHeader
import Hts.Lemmas.DecodersBam
import Hts.Lemmas.DecodersSam
import Hts.Lemmas.DecodersCsi
import Hts.Lemmas.DecodersFai
import Hts.Lemmas.DecodersBgzf
import Hts.Lemmas.CramDec
import Hts.Props.C07
namespace Hts.Props.C11
open Hts.Model.Decoders
open Hts.Model.Decoders.Outcome (ok err)
open Hts.Model.Coord (CigarOp)

/-! ### sam.atoi, sam.ParseCigar -/

/-- `sam.atoi` never panics (`powers[k-i]` stays inside the 13-entry table because longer inputs
are rejected first) -/
theorem atoi_total (b : Bytes) : (atoi b).isPanic = false := by
  rcases atoi_spec b with h | ⟨r, h, _⟩ <;> rw [h] <;> rfl

/-- what `atoi` returns is never negative, which is what keeps `NewCigarOp` from panicking -/
theorem atoi_nonneg (b : Bytes) (n : Int) (h : atoi b = ok n) : 0 ≤ n := by
  rcases atoi_spec b with h' | ⟨r, h', hr⟩
  · rw [h'] at h; cases h
  · rw [h'] at h; cases h; exact hr

/-- `sam.ParseCigar` never panics, for every byte string: not in `atoi`, not in `NewCigarOp` (the
operation-splitting loop is entered with `n ≥ 0` only), and a digit run without an operation is an
error (repair fixes/C11-2) -/
theorem parseCigar_total (b : Bytes) : (parseCigar b).isPanic = false := by
  unfold parseCigar
  split
  · rename_i h1
    rw [index_of_lt _ b 0 (by omega)]
    simp only
    split
    · rfl
    · exact parseOpsFrom_total b b.length 0 [] (by omega)
  · exact parseOpsFrom_total b b.length 0 [] (by omega)

/-! ### CIGAR accessors: safe on EVERY CIGAR (so on every one ParseCigar or a BAM record yields) -/

/-- `CigarOpType.Consumes` is total on all 2^32 operation words (repair fixes/C11-1) -/
theorem consumes_total (t : Nat) : (consumesGo t).isPanic = false := by
  rw [consumesGo_eq]; rfl

/-- the two models of `Consumes` (this one with explicit indexing, Hts.Model.Coord's used by C16) agree -/
theorem consumes_models_agree (t : Nat) : consumesGo t = ok v ↔ Hts.Model.Coord.consumes t = some v := by
  rw [consumesGo_eq]
  unfold Hts.Model.Coord.consumes
  constructor
  · intro h; cases h; rfl
  · intro h; cases h; rfl

/-- `CigarOpType.String` indexes `cigarOps` inside its 11 entries for every type -/
theorem opString_total (t : Nat) : (opString t).isPanic = false := by
  obtain ⟨c, h⟩ := Hts.Model.Decoders.opString_total t
  rw [h]; rfl

/-- `Cigar.IsValid`: `c[i-1]` and `c[i+1]` are only evaluated strictly inside the CIGAR -/
theorem isValid_total (c : List CigarOp) (length : Int) : (cigarIsValidGo c length).isPanic = false :=
  cigarIsValidGo_total c length

/-- `Cigar.Lengths` and `Record.End` (hence `Len` and `Bin`, which add no partial operation) written with
`Consumes` as the explicit, bounds-checked table look-up never panic, for EVERY CIGAR including operation
types 10..15, and they compute exactly what the models C16 reasons about compute (whose `Option` results
are therefore always `some`) -/
theorem coord_accessors_total (u : Bool) (pos : Int) (c : List CigarOp) :
    (lengthsGo 0 0 c).isPanic = false ∧ (recordEndGo u pos c).isPanic = false ∧
    Hts.Model.Coord.cigarLengths c = (match lengthsGo 0 0 c with | ok v => some v | _ => none) ∧
    Hts.Model.Coord.recordEnd u pos c = (match recordEndGo u pos c with | ok v => some v | _ => none) := by
  refine ⟨(lengthsGo_eq c 0 0).2, ?_, (lengthsGo_eq c 0 0).1, ?_⟩
  · unfold recordEndGo
    split
    · rfl
    · exact (endGo_eq c pos pos).2
  · unfold recordEndGo Hts.Model.Coord.recordEnd
    split
    · rfl
    · exact (endGo_eq c pos pos).1

/-- A_safe for `ParseCigar`: whatever it returns can go through every CIGAR accessor -/
theorem parseCigar_accessors_safe (b : Bytes) (c : List CigarOp) (_h : parseCigar b = ok c)
    (u : Bool) (pos length : Int) :
    (cigarIsValidGo c length).isPanic = false ∧ (∀ co ∈ c, (opString co.typ).isPanic = false ∧
      (consumesGo co.typ).isPanic = false) ∧
    (recordEndGo u pos c).isPanic = false ∧ (lengthsGo 0 0 c).isPanic = false :=
  have hc := coord_accessors_total u pos c
  ⟨isValid_total c length, fun co _ => ⟨opString_total co.typ, consumes_total co.typ⟩, hc.2.1, hc.1⟩

/-! ### sam.ParseAux (text) -/

/-- `sam.ParseAux` never panics, for every text and every behaviour of `strconv` (the `B` branch as
repaired in /repo by cef38a2: `len(txt) == 0 || (len(txt) > 1 && txt[1] != ',')`) -/
theorem parseAux_total (P : Parsers) (text : Bytes) : (parseAux P text).isPanic = false := by
  rcases parseAux_spec P text with h | ⟨a, h, _⟩ <;> rw [h] <;> rfl

/-- A_safe for `ParseAux`: the field it returns is well formed, so `Tag`, `Type`, `Kind`, `Value`,
`String` and the SAM formatter do not panic on it.  (A text below 2 GiB: beyond that an array could
have 2^31 elements, which `Aux.Value` reads as a negative `int32`.) -/
theorem parseAux_accessors_safe (P : Parsers) (text a : Bytes) (hlen : text.length < 2147483648)
    (h : parseAux P text = ok a) : wfAux a = true ∧ auxSweep a = ok () := by
  rcases parseAux_spec P text with h' | ⟨a', h', hw⟩
  · rw [h'] at h; cases h
  · rw [h'] at h; cases h
    exact ⟨hw hlen, auxSweep_wf _ (hw hlen)⟩

/-! ### bam.parseAux (the aux block of a BAM record) -/

/-- `bam.parseAux` never panics and its loop terminates, for every aux block (repairs fixes/C11-7,
C11-8, C11-9): every step consumes at least one byte, so `len(aux)+1` iterations always suffice
(running out of fuel is a `panic` of the model) -/
theorem parseAuxBam_total (aux : Bytes) : (parseAuxBam aux).isPanic = false := by
  rcases parseAuxBam_spec aux with h | ⟨l, h, _⟩ <;> rw [h] <;> rfl

/-- A_safe for `bam.parseAux`: every field it hands out is well formed (a BAM record is shorter than
2^31 bytes: `block_size` is an `int32`), so no aux accessor panics on it -/
theorem parseAuxBam_accessors_safe (aux : Bytes) (l : List Bytes) (hlen : aux.length < 2147483648)
    (h : parseAuxBam aux = ok l) : ∀ a ∈ l, wfAux a = true ∧ auxSweep a = ok () := by
  rcases parseAuxBam_spec aux with h' | ⟨l', h', hw⟩
  · rw [h'] at h; cases h
  · rw [h'] at h; cases h
    intro a ha
    exact ⟨hw hlen a ha, auxSweep_wf a (hw hlen a ha)⟩

/-- `bam.decodeHex` (repair fixes/C05-2, the `H` branch of `bam.parseAux`) never panics on a field of at
least three bytes, which is what `parseAux` hands it (`j ≥ 3` is checked just before the call): `f[3:]`
and `f[:3]` are in range, after the parity check `digits[k]`, `digits[k+1]`, `digits[k:k+2]` are in range
for every even `k < len(digits)`, `3+k/2 < 3+len(digits)/2 = len(a)`, the `make` count is not negative,
and the loop ends. An odd number of digits and a non-digit are errors. -/
theorem decodeHex_total (f : Bytes) (h3 : 3 ≤ f.length) : (decodeHexGo f).isPanic = false := by
  rcases decodeHexGo_spec f h3 with h | ⟨b, h⟩ <;> rw [h] <;> rfl

/-- a value of `bam.decodeHex` starts with the three tag and type bytes of the stored field, so
`a.Type()` is still `'H'` and the field is well formed for the accessors -/
theorem decodeHex_keeps_head (f a : Bytes) (h3 : 3 ≤ f.length) (h : decodeHexGo f = ok a) :
    a.take 3 = f.take 3 := by
  rcases decodeHexGo_spec f h3 with h' | ⟨b, h'⟩
  · rw [h'] at h; cases h
  · rw [h'] at h; cases h
    have hl : (f.take 3).length = 3 := by rw [List.length_take]; omega
    rw [List.take_append_of_le_length (by omega), List.take_take, Nat.min_self]

/-- the accessor sweep is safe on EVERY well-formed field (the link used by both decoders) -/
theorem aux_accessors_safe (a : Bytes) (h : wfAux a = true) : (auxSweep a).isPanic = false := by
  rw [auxSweep_wf a h]; rfl

/-- and well-formedness is necessary in this sense: fields the unrepaired walker could hand out make
the accessors panic (a two-byte field, an array with an unknown element type, an array whose count
exceeds its bytes) -/
theorem aux_accessors_witness :
    (auxSweep [88, 0]).isPanic = true ∧ (auxSweep [88, 89, 66, 120, 0, 0, 0, 0]).isPanic = true ∧
    (auxSweep [88, 89, 66, 115, 2, 0, 0, 0, 1, 2]).isPanic = true := by decide

/-! ### ITF-8 / LTF-8 -/

/-- `itf8.Decode` and `ltf8.Decode` never index beyond the slice: the `len(b) < n` test dominates
every `b[k]`, `k < n` (the values and round trips are C20's) -/
theorem itf8_decode_total (b : Bytes) : (decodeIdx "itf8.Decode" itf8Width b).isPanic = false :=
  decodeIdx_total _ _ b

theorem ltf8_decode_total (b : Bytes) : (decodeIdx "ltf8.Decode" ltf8Width b).isPanic = false :=
  decodeIdx_total _ _ b

/-- the stream readers of cram (`errorReader.itf8`, `errorReader.ltf8`): `buf[1:n]` and `buf[:n]` stay
inside the 5- resp. 9-byte array because the announced width is at most 5 resp. 9 -/
theorem itf8_stream_total (s : Bytes) : (streamRead "cram.errorReader.itf8" itf8Width 5 s).isPanic = false :=
  streamRead_total _ _ 5 s (fun b0 => by have := itf8Width_bounds b0; omega)

theorem ltf8_stream_total (s : Bytes) : (streamRead "cram.errorReader.ltf8" ltf8Width 9 s).isPanic = false :=
  streamRead_total _ _ 9 s (fun b0 => by have := ltf8Width_bounds b0; omega)

/-! ### BAI reader -/

/-- `bam.ReadIndex` (with `internal.ReadIndex`, `readIndices`, `readBins`, `readChunks`, `readStats`,
`readIntervals`) never panics, for every byte string: every `make` is dominated by a sign test
(repair fixes/C11-11) and `bins[:len(bins)-1]` is only reached with a non-empty `bins` -/
theorem readBAI_total (s : Bytes) : (readBAI s).isPanic = false := readBAI_total' s

/-- `tabix.ReadFrom` never panics: the name block is only indexed when its length is positive
(`l_nm < 0` is an error, `l_nm == 0` means no names), and the references are read by the same
`internal.ReadIndex` -/
theorem readTabix_total (s : Bytes) : (readTabix s).isPanic = false := readTabix_total' s

/-! ### SAM header text parsers (indexing only; the meaning of a field is a parameter) -/

/-- the field loop of `headerLine`, `referenceLine`, `readGroupLine`, `programLine` (repair fixes/C11-4):
`f[2]`, `f[:2]`, `f[3:]` and `fields[1:]` never panic, whatever the per-field action does short of
panicking itself -/
theorem headerTagLine_total {σ : Type} (minFields : Nat) (hmin : 1 ≤ minFields)
    (act : σ → Bytes → Bytes → Outcome σ) (hact : ∀ st tag val, (act st tag val).isPanic = false)
    (l : Bytes) (st : σ) : (tagLine minFields act l st).isPanic = false :=
  tagLine_total minFields hmin act hact l st

/-- `commentLine`'s `fields[1]` and the line dispatch of `Header.UnmarshalText` (`l[len(l)-1]`, `l[0]`,
`l[1:3]`) never panic -/
theorem headerDispatch_total (l : Bytes) : (lineTag l).isPanic = false ∧ (commentLineM l).isPanic = false :=
  ⟨lineTag_total l, commentLineM_total l⟩

/-- the `M5` field of an `@SQ` line: `hex.Decode` into the 16-byte array cannot run past it
(repair fixes/C11-6) -/
theorem headerMD5_total (val : Bytes) : (md5Field val).isPanic = false := md5Field_total val

/-- `bh.refs[dupID]` in `referenceLine` and `Header.AddReference`: every id in `seenRefs` indexes `refs`,
and registering a reference keeps it so — for every line, by induction over the header text -/
theorem headerRefs_invariant (t : RefTable) (hwf : t.wf) (name : Bytes) (same replaceable complete : Bool) :
    (addRef t name same replaceable complete).isPanic = false ∧
      ∀ t', addRef t name same replaceable complete = ok t' → t'.wf := by
  rcases addRef_spec t hwf name same replaceable complete with h | ⟨t', h, hw⟩
  · rw [h]; exact ⟨rfl, fun _ h' => by cases h'⟩
  · rw [h]; exact ⟨rfl, fun _ h' => by cases h'; exact hw⟩

/-! ### BAM record reader (bam.buffer, readCigarOps, newBuffer, Reader.Read) -/

/-- `bam.(*Reader).Read` with every index, slice and `binary.LittleEndian` call of `bam.buffer`,
`readCigarOps` and the `br.h.Refs()[id]` look-ups explicit computes exactly C05's `decodeBody` (value or
error) — so it never panics, for every `Omit` mode, header size and record buffer -/
theorem bamRead_total (om : Hts.Model.Bam.Omit) (nrefs : Nat) (body : List Hts.Model.Bam.Byte) :
    decodeBodyIdx om nrefs body = liftE (Hts.Model.Bam.decodeBody om nrefs body) ∧
      (decodeBodyIdx om nrefs body).isPanic = false :=
  ⟨decodeBodyIdx_eq om nrefs body, decodeBodyIdx_total om nrefs body⟩

/-- `newBuffer`: `make([]byte, size)` and `br.buf[:size]` never panic, for every four size bytes -/
theorem bamNewBuffer_total (x y z w : Hts.Model.Bam.Byte) : (newBufferIdx x y z w).isPanic = false :=
  newBufferIdx_total x y z w

/-! ### SAM text (C06's model `Hts.Model.SamText`): no panic outcome is reachable -/

/-- `Record.UnmarshalSAM`: a record or an error for every line, with or without a header, for every
float-text behaviour — neither `NewCigarOp` nor `Cigar.IsValid`/`Consumes` can panic on the way -/
theorem unmarshalSAM_total (ft : Hts.Model.SamText.FloatText) (h : Option Hts.Model.SamText.Header)
    (b : Hts.Model.SamText.Bytes) : Hts.Model.SamText.parseRecord ft h b ≠ .error .panic :=
  Hts.Model.SamText.parseRecord_ne_panic ft h b

/-- `sam.ParseCigar` and `sam.ParseAux` in C06's value-level model agree with the indexing-level
theorems above: no panic outcome -/
theorem samText_parsers_total (ft : Hts.Model.SamText.FloatText) (b : Hts.Model.SamText.Bytes) :
    Hts.Model.SamText.parseCigar b ≠ .error .panic ∧ Hts.Model.SamText.parseAux ft b ≠ .error .panic :=
  ⟨Hts.Model.SamText.parseCigar_ne_panic b, Hts.Model.SamText.parseAux_ne_panic ft b⟩

/-- `sam.Reader.Read`, every call over any input after the header, in header mode and in no-header mode
(LF/CRLF, empty lines, a last line without newline): never the panic outcome -/
theorem samReader_total (ft : Hts.Model.SamText.FloatText) (h : Hts.Model.SamText.Header)
    (body : Hts.Model.SamText.Bytes) :
    (∀ r ∈ Hts.Model.SamText.readAll ft h body, r ≠ .error .panic) ∧
    (∀ r ∈ Hts.Model.SamText.readAllNoHeader ft body, r ≠ .error .panic) := by
  constructor
  · intro r hr
    unfold Hts.Model.SamText.readAll at hr
    simp only [List.mem_map] at hr
    obtain ⟨l, _, rfl⟩ := hr
    exact Hts.Model.SamText.parseRecord_ne_panic ft _ _
  · exact Hts.Model.SamText.noHeaderLoop_ne_panic ft _ _

/-- the line handling of `sam.Reader.Read` with its explicit `b[:len(b)-1]`, `b[len(b)-1]`: on a
delimiter-terminated line it is C06's `stripCR`, and it never panics on what `ReadBytes` can return -/
theorem samReaderLine_total (b : Bytes) (terminated : Bool) (h : terminated = true → b.getLast? = some 10) :
    (readerLineIdx b terminated).isPanic = false ∧
      ∀ line, readerLineIdx (line ++ [10]) true = ok (Hts.Model.SamText.stripCR line) :=
  ⟨readerLineIdx_total b terminated h, readerLineIdx_terminated⟩

/-! ### header text and binary header (C07's model `Hts.Model.Header`) -/

/-- `Header.UnmarshalText` of ARBITRARY text on a new header never panics (field loops, `hex.Decode` of
`M5`, `bh.refs[dupID]`, nil maps), for every behaviour of `time`/`net/url` (`Ext`) -/
theorem headerText_total (E : Hts.Model.Header.Ext) (text : Hts.Model.Header.Bytes) :
    (Hts.Model.Header.step E {} (.pa text)).res ≠ .panic :=
  Hts.Props.C07.step_never_panics E {} Hts.Model.Header.winv_empty _

/-- `Header.DecodeBinary` of ARBITRARY bytes on a new header never panics (`lText`, `nRef`, `lName`
handling of `DecodeBinary`/`readRefRecords`, then `AddReference`) -/
theorem headerBinary_total (E : Hts.Model.Header.Ext) (b : Hts.Model.Header.Bytes) :
    (Hts.Model.Header.step E {} (.de b)).res ≠ .panic :=
  Hts.Props.C07.step_never_panics E {} Hts.Model.Header.winv_empty _

/-! ### CSI reader (C15's model `Hts.Model.IndexIO`) -/

/-- `csi.ReadFrom` never panics, for every byte string (negative counts, the bin limit test, the geometry
test `min_shift + 3*depth ≤ 62`) -/
theorem readCSI_total (bs : Hts.Model.IndexIO.Bytes) : Hts.Model.IndexIO.readCsi bs ≠ .error .panic :=
  Hts.Model.IndexIO.readCsi_ne_panic bs

/-! ### FAI (C19's model `Hts.Model.Fai`) -/

/-- A_safe for `fai.ReadFrom`: whatever text it accepted, every `File.Seq`/`File.SeqRange` handle on the
resulting index can be read with any buffer size from any cursor position over any FASTA bytes without
reaching the division by zero or the negative-slice / zero-progress layout (`Record.isValid`, /repo 38c3f30) -/
theorem fai_accessors_safe (text : Hts.Model.Fai.Bytes) (raws : List Hts.Model.Fai.RawRecord)
    (h : Hts.Model.Fai.readFrom text = .ok raws) (name : Hts.Model.Fai.Bytes) (a b : Int)
    (s : Hts.Model.Fai.Seq)
    (hs : Hts.Model.Fai.seqWhole (raws.map Hts.Model.Fai.recordOf) name = .ok s ∨
          Hts.Model.Fai.seqRange (raws.map Hts.Model.Fai.recordOf) name a b = .ok s)
    (file : Hts.Model.Fai.Bytes) (cur k : Nat) :
    (Hts.Model.Fai.Seq.read file { s with cur := cur } k).err ≠ .badLayout ∧
    (Hts.Model.Fai.Seq.read file { s with cur := cur } k).err ≠ .panicDiv := by
  obtain ⟨hmem, hstop⟩ := Hts.Model.Fai.seq_handle _ name s a b hs
  simp only [List.mem_map] at hmem
  obtain ⟨raw, hraw, hrec⟩ := hmem
  have hsane : s.rcd.Sane := by
    rw [← hrec]
    exact Hts.Model.Fai.sane_of_isValid raw (Hts.Model.Fai.readFrom_valid text raws h raw hraw)
  exact Hts.Model.Fai.seqRead_ok file { s with cur := cur } hsane hstop k

/-! ### BGZF member framing (on C10's model `Hts.Model.BgzfBytes`) -/

/-- `expectedMemberSize`: `h.Extra[i+4]`, `h.Extra[i+5]` are in range after the `i+5 >= len(h.Extra)` test;
the explicit version equals C10's -/
theorem bgzfExpectedMemberSize_total (extra : Bytes) :
    expectedMemberSizeIdx extra = ok (Hts.Model.BgzfBytes.expectedMemberSize (some extra)) :=
  expectedMemberSizeIdx_eq extra

/-- `buffer.readLimited`: `r.data[:n]` with `n = blockSize - skipped` is inside the `[MaxBlockSize]byte`
array for every block size a BGZF extra field can announce -/
theorem bgzfReadLimited_total (extra : Option Bytes) (blockSize skipped : Nat)
    (h : Hts.Model.BgzfBytes.expectedMemberSize extra = some blockSize) :
    (readLimitedIdx blockSize skipped).isPanic = false :=
  readLimitedIdx_total extra blockSize skipped h

/-! ### CRAM readers (Hts.Model.CramDec): file definition, container header, block, slice header, Block.Value

Explicit-indexing models WITH values (tied to the code field by field by the `c11.model` stream:
c11.cramdef / c11.cramcont / c11.cramblock / c11.cramvalue).  `hash/crc32` is a parameter: the theorems
hold for every function in its place. -/

open Hts.Model.CramDec in
/-- `errorReader.itf8` and `errorReader.ltf8` with the values they return: for every reader state (bytes
left, sticky error set or not) a value comes back — `buf[1:n]`, `buf[:n]` stay inside the 5- resp. 9-byte
array — and it is an `int32` resp. `int64` -/
theorem cramNum_total (r : St) :
    (∃ r' v, readNum itf8Dec r = ok (r', v) ∧ -2147483648 ≤ v ∧ v < 2147483648) ∧
    (∃ r' v, readNum ltf8Dec r = ok (r', v) ∧ -9223372036854775808 ≤ v ∧ v < 9223372036854775808) :=
  ⟨readNum_spec _ _ _ itf8Dec_good r, readNum_spec _ _ _ ltf8Dec_good r⟩

open Hts.Model.CramDec in
/-- `errorReader.itf8slice` never panics and always returns (an error only sets the sticky flag): a
negative count is refused before `make` (fix C11-14), `s[i]` and `s[:i]` stay inside the `n` elements, and
the loop ends after at most `n` iterations -/
theorem cramItf8slice_total (r : St) : (readSlice32 r).isPanic = false := by
  obtain ⟨r', l, h⟩ := readSlice32_spec r
  rw [h]; rfl

open Hts.Model.CramDec in
/-- what bounds `make([]int32, n)` in `itf8slice`: only the type.  When `make` is reached, `0 < n < 2^31`;
nothing relates `n` to the number of bytes present (the second part: five bytes ask for 2^31-1 elements
= 8 GiB; this is the "asks for memory" outcome, which C11 counts separately from panics) -/
theorem cramItf8slice_make_bound (r : St) (r' : St) (n : Nat) (h : sliceCount r = ok (r', some n)) :
    0 < n ∧ n < 2147483648 := by
  obtain ⟨r1, o, h1, hb⟩ := sliceCount_spec r
  rw [h1] at h
  cases h
  exact hb n rfl

open Hts.Model.CramDec in
theorem cramItf8slice_make_unbounded :
    (match sliceCount { src := [0xf7, 0xff, 0xff, 0xff, 0xff] } with | ok (_, o) => o | _ => none) =
      some 2147483647 := by decide

open Hts.Model.CramDec in
/-- `definition.readFrom` (through `NewReader`): a definition or an error for every byte string -/
theorem cramDefinition_total (s : Bytes) : (readDefinition s).isPanic = false := readDefinition_total' s

open Hts.Model.CramDec in
/-- `Container.readFrom` never panics, for every byte string and every CRC function: the length word, the
seven ITF-8/LTF-8 fields, the landmark array with any count (negative, zero, larger than what follows)
and the CRC32 word -/
theorem cramContainer_total (crc32 : Bytes → Nat) (s : Bytes) : (readContainer crc32 s).isPanic = false :=
  readContainer_total' crc32 s

open Hts.Model.CramDec in
/-- `Block.readFrom` never panics, for every byte string and every CRC function: a negative compressed
size is refused before `make` (fix C11-14); a block that is returned holds exactly `compressedSize`
bytes of data, all of them read from the input -/
theorem cramBlock_total (crc32 : Bytes → Nat) (s : Bytes) :
    (readBlock crc32 s).isPanic = false ∧
    ∀ b rest, readBlock crc32 s = ok (b, rest) → (b.data.length : Int) = b.compressedSize := by
  rcases readBlock_spec crc32 s with h | ⟨b, rest, h, hl, _⟩
  · rw [h]; exact ⟨rfl, fun _ _ h' => by cases h'⟩
  · rw [h]; exact ⟨rfl, fun _ _ h' => by cases h'; exact hl⟩

open Hts.Model.CramDec in
/-- what bounds `make([]byte, b.compressedSize)` in `Block.readFrom`: when `make` is reached,
`0 ≤ compressedSize < 2^31` (and `= rawSize` for the raw method); the allocation happens BEFORE the data is
known to be present (second part: a 12-byte input asks for 2^31-1 bytes — "asks for memory") -/
theorem cramBlock_make_bound (s : Bytes) (r : St) (h : BlockHdr) (hh : blockHeader s = ok (r, h)) :
    0 ≤ h.compressedSize ∧ h.compressedSize < 2147483648 ∧ (h.method = 0 → h.compressedSize = h.rawSize) := by
  rcases blockHeader_spec s with h' | ⟨r', hd, h', hb⟩
  · rw [h'] at hh; cases hh
  · rw [h'] at hh; cases hh; exact hb

open Hts.Model.CramDec in
theorem cramBlock_make_unbounded :
    (match blockHeader [4, 4, 0, 0xf7, 0xff, 0xff, 0xff, 0xff, 0, 0, 0, 0] with
      | ok (_, h) => some h.compressedSize | _ => none) = some 2147483647 := by decide

open Hts.Model.CramDec in
/-- `Slice.readFrom` (called by `Block.Value` on the data of a mapped slice header block) always yields a
slice header value, complete or not (`Block.Value` drops its error) -/
theorem cramSlice_total (s : Bytes) : ∃ h, readSliceHdr s = ok h := readSliceHdr_spec s

open Hts.Model.CramDec in
/-- `Block.Value` (with `expandBlockdata` and `Slice.readFrom`) never panics, for every block and every
behaviour of the decompressors that yields less than 4 GiB: `blockData[:4]`, `Uint32(blockData[:4])` and
`blockData[4 : 4+end]` are in range (fix C11-15: `uint64(end) > uint64(len(blockData)-4)` is an error;
`4+end` is computed in `uint32`, which cannot wrap below 2^32 bytes), an unknown method is an error (fix
C11-16).  A raw block (`method = 0`) needs no hypothesis beyond `Block.readFrom`'s own bound. -/
theorem cramBlockValue_total (X : Expanders) (b : Block)
    (hX : ∀ m d e, X.expand m d = some e → e.length < 4294967296) (hb : b.data.length < 4294967296) :
    (blockValue X b).isPanic = false := blockValue_total' X b hX hb

open Hts.Model.CramDec in
/-- `Block.Value` never panics for EVERY block and EVERY behaviour of the decompressors, also when the data
expands to 4 GiB or more: with repair C11-23 the end of the header text is `4+uint64(end)` and cannot wrap
(before it `blockData[4 : 4+end]` panicked "slice bounds out of range [4:0]" on a file header block expanding
to `fc ff ff ff` followed by 2^32 bytes) -/
theorem cramBlockValue_total_all (X : Expanders) (b : Block) : (blockValue X b).isPanic = false :=
  blockValue_total_all X b

open Hts.Model.CramDec in
/-- every block `Block.readFrom` returns satisfies the size hypothesis of `cramBlockValue_total` -/
theorem cramBlock_value_ready (crc32 : Bytes → Nat) (s : Bytes) (b : Block) (rest : Bytes)
    (h : readBlock crc32 s = ok (b, rest)) : b.data.length < 4294967296 := by
  rcases readBlock_spec crc32 s with h' | ⟨b', rest', h', hl, hu⟩
  · rw [h'] at h; cases h
  · rw [h'] at h; cases h; omega

/-! ### non-vacuity (tests) -/

/-- a parser instance: decimal digits only -/
def digitsOnly : Parsers :=
  { atoi := fun b => if b.all isDigit && !b.isEmpty then some (b.foldl (fun n c => n * 10 + (c.toNat - 48 : Nat)) (0 : Int)) else none
    parseInt := fun _ b => if b.all isDigit && !b.isEmpty then some (b.foldl (fun n c => n * 10 + (c.toNat - 48 : Nat)) (0 : Int)) else none
    parseUint := fun _ b => if b.all isDigit && !b.isEmpty then some (b.foldl (fun n c => n * 10 + (c.toNat - 48 : Nat)) (0 : Int)) else none
    parseFloat32 := fun _ => none }

-- "XY:i:300" ↦ XY S 0x012c
example : parseAux digitsOnly [88, 89, 58, 105, 58, 51, 48, 48] = ok [88, 89, 83, 44, 1] := by decide
-- "XY:B:s,1,2" ↦ XY B s 2 0 0 0 | 1 0 | 2 0
example : parseAux digitsOnly [88, 89, 58, 66, 58, 115, 44, 49, 44, 50] = ok [88, 89, 66, 115, 2, 0, 0, 0, 1, 0, 2, 0] := by decide
-- "XY:B:c" (the library's own rendering of an empty array) is the empty array, "XY:B:" and "XY:B:cx" are errors
example : parseAux digitsOnly [88, 89, 58, 66, 58, 99] = ok [88, 89, 66, 99, 0, 0, 0, 0] := by decide
example : parseAux digitsOnly [88, 89, 58, 66, 58] = err := by decide
example : parseAux digitsOnly [88, 89, 58, 66, 58, 99, 120] = err := by decide
-- "XY:Z:" is the empty string value
example : parseAux digitsOnly [88, 89, 58, 90, 58] = ok [88, 89, 90] := by decide
example : wfAux [88, 89, 66, 115, 2, 0, 0, 0, 1, 0, 2, 0] = true := by decide
-- an aux block: XYC\x01  ZZZab\0  BBBc\x02\0\0\0\x07\x08
example : parseAuxBam [88, 89, 67, 1, 90, 90, 90, 97, 98, 0, 66, 66, 66, 99, 2, 0, 0, 0, 7, 8] =
    ok [[88, 89, 67, 1], [90, 90, 90, 97, 98], [66, 66, 66, 99, 2, 0, 0, 0, 7, 8]] := by decide
-- XHH1AE3\0 : the stored digits "1AE3" are decoded to the bytes 0x1a 0xe3; "XHH\0" is the empty value
example : parseAuxBam [88, 72, 72, 49, 65, 69, 51, 0] = ok [[88, 72, 72, 0x1a, 0xe3]] := by decide
example : parseAuxBam [88, 72, 72, 49, 97, 101, 51, 0, 88, 89, 67, 1] = ok [[88, 72, 72, 0x1a, 0xe3], [88, 89, 67, 1]] := by decide
example : parseAuxBam [88, 72, 72, 0] = ok [[88, 72, 72]] := by decide
-- an odd number of digits, a non-digit, no terminator: errors
example : parseAuxBam [88, 72, 72, 49, 65, 69, 0] = err := by decide
example : parseAuxBam [88, 72, 72, 49, 71, 0] = err := by decide
example : parseAuxBam [88, 72, 72, 49, 65] = err := by decide
-- the guard `j < 3` before the call is what keeps `f[3:]` in range
example : decodeHexGo [88, 72] = .panic "bam.decodeHex:f[3:]" := by decide
-- truncated fixed-width value, array header, unknown array type, zero inside the tag: errors
example : parseAuxBam [88, 89, 105, 1] = err := by decide
example : parseAuxBam [88, 89, 66] = err := by decide
example : parseAuxBam [88, 89] = ok [] := by decide
example : parseAuxBam [88, 89, 66, 99, 1] = err := by decide
example : parseAuxBam [88, 89, 66, 90, 8, 0, 0, 0] = err := by decide
example : parseAuxBam [88, 0, 90, 1, 0] = err := by decide
-- CIGAR operation types 11..15 (storable in BAM) go through End/Bin/IsValid
example : recordEndGo false 100 [⟨0, 10⟩, ⟨13, 7⟩, ⟨2, 5⟩] = ok 115 := by decide
-- "12": digits without an operation are an error (the scan reaches the end of the text)
example : parseCigar [49, 50] = err := by decide
example : parseCigar [42] = ok [] := by decide
example : cigarIsValidGo [⟨5, 1⟩, ⟨4, 2⟩, ⟨0, 3⟩, ⟨4, 1⟩, ⟨5, 2⟩] 6 = ok true := by decide

example : decodeIdx "itf8.Decode" itf8Width [0xff, 1, 2, 3, 4] = ok true := by decide
example : decodeIdx "itf8.Decode" itf8Width [0xff, 1, 2, 3] = ok false := by decide
example : streamRead "x" itf8Width 5 [0xe0, 1, 2, 3] = ok true := by decide

-- "BAI\1", one reference, one bin (4681) with one chunk, one interval, no trailing count: 8+4+8+16+4+8 = 48 bytes
example : readBAI ([66, 65, 73, 1, 1, 0, 0, 0, 1, 0, 0, 0, 0x49, 0x12, 0, 0, 1, 0, 0, 0] ++ List.replicate 16 0 ++
    [1, 0, 0, 0] ++ List.replicate 8 0) = ok (some (1, 48)) := by decide
example : readBAI [66, 65, 73, 1, 0xff, 0xff, 0xff, 0xff] = err := by decide

example : (⟨0, []⟩ : RefTable).wf := by intro p hp; cases hp
example : (addRef ⟨1, [([97], 0)]⟩ [97] false true true).isPanic = false := by decide
-- "@HD\tV" : a field shorter than three bytes is an error of the field loop
example : tagLine 2 (fun (st : Unit) _ _ => ok st) [64, 72, 68, 9, 86] () = err := by decide
example : md5Field (List.replicate 34 48) = err := by decide

-- CRAM: "CRAM" 3 0 + 20 id bytes + 1 byte left over; wrong magic and a short definition are errors
example : Hts.Model.CramDec.readDefinition ([67, 82, 65, 77, 3, 0] ++ List.replicate 20 7 ++ [9]) =
    ok (⟨[67, 82, 65, 77], [3, 0], List.replicate 20 7⟩, [9]) := by decide
example : Hts.Model.CramDec.readDefinition ([67, 82, 65, 78, 3, 0] ++ List.replicate 20 7) = err := by decide
example : Hts.Model.CramDec.readDefinition (List.replicate 25 67) = err := by decide
-- a block: method 0, type 5, content id 6, sizes 2/2, data "hi", CRC (here the constant function 0x01020304)
example : Hts.Model.CramDec.readBlock (fun _ => 0x01020304) [0, 5, 6, 2, 2, 104, 105, 4, 3, 2, 1, 77] =
    ok ({ method := 0, typ := 5, contentID := 6, compressedSize := 2, rawSize := 2, data := [104, 105], crc32 := 0x01020304 }, [77]) := by decide
-- compressed size -1 (ff ff ff ff 0f): an error, not a makeslice panic; raw method with sizes 2/3: error
example : Hts.Model.CramDec.readBlock (fun _ => 0) [1, 5, 6, 0xff, 0xff, 0xff, 0xff, 0x0f, 2, 0, 0, 0, 0] = err := by decide
example : Hts.Model.CramDec.readBlock (fun _ => 0) [0, 5, 6, 2, 3, 104, 105, 0, 0, 0, 0] = err := by decide
-- a container header: length 7, refID -1 (ff ff ff ff 0f), 0 0 0 | 0 0 | 1 block | landmarks [5, 300] | CRC
example : Hts.Model.CramDec.readContainer (fun _ => 0) [7, 0, 0, 0, 0xff, 0xff, 0xff, 0xff, 0x0f, 0, 0, 0, 0, 0, 1, 2, 5, 0x81, 0x2c, 0, 0, 0, 0, 42] =
    ok ({ blockLen := 7, refID := -1, start := 0, span := 0, nRec := 0, recCount := 0, bases := 0, blocks := 1,
          landmarks := [5, 300], crc32 := 0 }, [42]) := by decide
-- landmark count -1: error; count 3 with two numbers present: error (the stream ends)
example : Hts.Model.CramDec.readContainer (fun _ => 0) [7, 0, 0, 0, 0, 0, 0, 0, 0, 0, 1, 0xff, 0xff, 0xff, 0xff, 0x0f, 0, 0, 0, 0] = err := by decide
example : Hts.Model.CramDec.readContainer (fun _ => 0) [7, 0, 0, 0, 0, 0, 0, 0, 0, 0, 1, 3, 5, 6] = err := by decide
-- file header block: l_text 2 + "@C" is handed to UnmarshalText; l_text -1 (fix C11-15) and 3 bytes are errors
example : Hts.Model.CramDec.blockValue ⟨fun _ _ => none⟩
    { method := 0, typ := 0, contentID := 0, compressedSize := 6, rawSize := 6, data := [2, 0, 0, 0, 64, 67], crc32 := 0 } =
    ok (.headerText [64, 67]) := by decide
example : Hts.Model.CramDec.blockValue ⟨fun _ _ => none⟩
    { method := 0, typ := 0, contentID := 0, compressedSize := 6, rawSize := 6, data := [0xff, 0xff, 0xff, 0xff, 64, 67], crc32 := 0 } = err := by decide
example : Hts.Model.CramDec.blockValue ⟨fun _ _ => none⟩
    { method := 9, typ := 0, contentID := 0, compressedSize := 0, rawSize := 0, data := [], crc32 := 0 } = err := by decide

end Hts.Props.C11
