/-
C11 — property theorems (stub: no theorem stated yet, so no obligation is counted).
-/
namespace Hts.Props.C11
end Hts.Props.C11
