/-
C09 — I/O faults never hang the BGZF writer or reader and are never swallowed.
PROPERTY THEOREMS ONLY.

Writer part: statements about the labelled transition system `Hts.Model.WriterLTS` of the writer protocol
REPAIRED by fixes/C09-1 (`cfg.repaired = true`): for every writer concurrency, every script, every
interleaving and EVERY fault oracle: of the underlying writer (`cfg.fault i` = the i-th underlying Write fails)
and of compression (`cfg.cfault b` = `compressor.writeBlock` of block b fails, e.g. ErrBlockOverflow with a huge
gzip header; the `c.err` branch of `writeOK`).
The unchanged protocol (`cfg.repaired = false`) is kept in the same model and its dead state is pinned by
`writer_deadlock_witness`.  Traces are newest-event-first.
Reader part: the sequential reader over a fault-injecting source (`Hts.Model.ReaderFaults`).
-/
import Hts.Lemmas.WriterLTSAcc
import Hts.Lemmas.WriterLTSWitness
import Hts.Lemmas.WriterLTSComp
import Hts.Lemmas.ReaderFaults
import Hts.Lemmas.FaultRun
import Hts.Lemmas.FaultNoFault
import Hts.Lemmas.ReaderOverLTSFaults
namespace Hts.Props.C09
open Hts.Model.WriterLTS

variable {cfg : Cfg} {s t : State}

/-! ### writer: no call hangs -/

/-- In every reachable state either everything is at rest (script finished, nothing queued, the emitter parked
    on an empty queue or finished) or some thread can take a step — for every number of compressors and every
    fault point. -/
theorem writer_deadlock_free (hr : cfg.repaired = true) (h : Reachable cfg s) :
    AllIdle s ∨ ∃ t, Step cfg s t := by
  rcases writer_deadlock_free_inv hr (reachable_inv hr h) with h | h
  · exact .inl h
  · exact .inr h.step

/-- Every step (of any thread, in either variant of the protocol) strictly decreases `measure` = work left in
    the script, in the queued blocks and in the emitter.  Hence every path is finite; with
    `writer_deadlock_free` every maximal path ends with all calls returned. -/
theorem writer_call_terminates (h : Step cfg s t) : measure t < measure s := by
  obtain ⟨l, e, h⟩ := h
  exact next_measure h

/-- there is no infinite execution -/
theorem writer_no_infinite_run (f : Nat → State) : ¬ ∀ i, Step cfg (f i) (f (i + 1)) := by
  intro h
  have key : ∀ i, measure (f i) + i ≤ measure (f 0) := by
    intro i
    induction i with
    | zero => simp
    | succ i ih => have := writer_call_terminates (h i); omega
  have := key (measure (f 0) + 1)
  omega

/-- `n` consecutive steps -/
inductive StepN (cfg : Cfg) : Nat → State → State → Prop
  | zero {a : State} : StepN cfg 0 a a
  | succ {n : Nat} {a b c : State} : Step cfg a b → StepN cfg n b c → StepN cfg (n + 1) a c

/-- a path of `n` steps from `s` has `n ≤ measure s`: the number of steps any call can wait for is bounded -/
theorem writer_path_bounded {n : Nat} (h : StepN cfg n s t) : n + measure t ≤ measure s := by
  induction h with
  | zero => simp
  | succ hst _ ih => have := writer_call_terminates hst; omega

/-- Every pending call returns: however far an execution has got, it is either at rest with the API goroutine
    returned from its last call, or it can be continued, and every continuation reaches such a state within
    `measure` steps (maximal paths are finite by `writer_path_bounded` and cannot stop elsewhere). -/
theorem writer_calls_return (hr : cfg.repaired = true) (h : Reachable cfg s) :
    ∃ k u, StepN cfg k s u ∧ AllIdle u ∧ ApiDone u := by
  generalize hm : measure s = m
  induction m using Nat.strongRecOn generalizing s with
  | _ m ih =>
    rcases writer_deadlock_free hr h with hidle | ⟨t, hst⟩
    · exact ⟨0, s, .zero, hidle, hidle.1⟩
    · have hlt := writer_call_terminates hst
      obtain ⟨k, u, hk, hu⟩ := ih (measure t) (hm ▸ hlt) (.step h hst) rfl
      exact ⟨k + 1, u, .succ hst hk, hu⟩

/-- After `Close` has returned (with or without an error) the emitter goroutine has finished, no compressor
    goroutine is running and nothing is pending. -/
theorem writer_no_leak (hr : cfg.repaired = true) {tr : List Ev} {r : Res} {m : Nat} (h : Run cfg tr s)
    (hmem : .ret .close r m ∈ tr) : NoLibraryThread s := by
  obtain ⟨hi, hR⟩ := run_inv hr h
  obtain ⟨hc, ha, -⟩ := hR.closeRet r m hmem
  have hne : s.api ≠ .cJoin := by
    intro h'; simp [h', apiAfterCloseRet] at ha
  have hd := hi.joined hc hne
  have hq := (hi.emDone hd).2
  exact ⟨hd, hq, by simp [hi.pend, hq, hd, emPend]⟩

/-! ### writer: the error is never swallowed -/

/-- A `Close` that returns after an underlying write has failed returns an error. -/
theorem writer_error_latched (hr : cfg.repaired = true) {tr post mid : List Ev} {r : Res} {m : Nat}
    {b : Option Nat} (h : Run cfg tr s) (htr : tr = post ++ .ret .close r m :: mid) (hf : .uw b false ∈ mid) :
    r = .err :=
  close_err_after_failure hr h htr hf

/-- Once the latch is visible (`s.err`), every call that returns — `Write`, `Flush`, `Wait`, `Close` — returns
    an error. -/
theorem writer_error_visible (hr : cfg.repaired = true) (h : Reachable cfg s) (he : s.err = true)
    {l : Label} {op : Op} {r : Res} {m : Nat} (hn : next cfg s l = some (some (.ret op r m), t)) : r ≠ .ok := by
  obtain ⟨-, -, -, -, -, -, -, -, -, -, -, h12, -, -⟩ := ret_step (reachable_inv hr h) hn rfl
  exact h12 he

/-- Once any call has reported the error, no later call returns nil. -/
theorem writer_error_sticky (hr : cfg.repaired = true) {tr post mid : List Ev} {op : Op} {m : Nat}
    (h : Run cfg tr s) (htr : tr = post ++ .ret op .err m :: mid) :
    ∀ op' r' m', .ret op' r' m' ∈ post → r' ≠ .ok :=
  error_sticky hr h htr

/-- After a failed underlying write nothing more is written to the underlying writer (neither a later block nor
    the EOF marker), so the delivered bytes stay a sequence of whole blocks. -/
theorem writer_no_write_after_failure (hr : cfg.repaired = true) {tr post mid : List Ev} {b : Option Nat}
    (h : Run cfg tr s) (htr : tr = post ++ .uw b false :: mid) : ∀ b' ok, .uw b' ok ∉ post :=
  no_write_after_failure hr h htr

/-- A `Close` that returns after the compression of any block submitted before it has failed returns an error
    (`m` = blocks submitted when Close returned). -/
theorem writer_compress_error_latched (hr : cfg.repaired = true) {tr : List Ev} {r : Res} {m b : Nat}
    (h : Run cfg tr s) (hmem : .ret .close r m ∈ tr) (hb : b < m) (hc : cfg.cfault b = true) : r = .err :=
  close_err_after_cfault hr h hmem hb hc

/-- A block whose compression failed is never delivered to the underlying writer (either protocol variant). -/
theorem writer_failed_block_not_delivered (h : Reachable cfg s) : ∀ b ∈ s.out, cfg.cfault b = false :=
  reachable_out_ok h

/-! ### the unchanged protocol dead-locks (DESIGN §6 #22): pinned counterexample -/

/-- wc = 1 (two compressors), `Write` of two blocks then `Close`; the first underlying write fails -/
def witnessCfg : Cfg := { wc := 1, script := [.write 2, .close], fault := fun _ => true, repaired := false }

def witnessSchedule : List Label :=
  [.api, .api, .api, .api, .api, .api,   -- Write: blocks 0 and 1 queued (compressors c0, c1), waits for a compressor
   .em, .finE, .em,                      -- emitter: block 0 is compressed, its underlying Write fails
   .em, .em, .em,                        -- qwg.Done, setErr, c0 back to `waiting`; the emitter leaves its loop
   .api, .api,                           -- Write takes c0, sees the error, returns it
   .api, .api,                           -- Close is called and queues c0
   .finQ 0]                              -- block 1 finishes compressing; nobody will ever take it from the queue

/-- The unchanged protocol reaches a state in which `Close` is parked on `<-bg.waiting` (program counter
    `cTake`), both compressors sit in `queue`, the emitter has exited, and NO thread can step. -/
theorem writer_deadlock_witness :
    ∃ s, Reachable witnessCfg s ∧ s.api = .cTake ∧ s.em = .done ∧ ¬ AllIdle s ∧ ¬ ∃ t, Step witnessCfg s t := by
  have h : ∃ s, runLabels witnessCfg (init witnessCfg) witnessSchedule = some s ∧ s.api = .cTake ∧ s.em = .done ∧
      ¬ AllIdle s ∧ succs witnessCfg s = [] := by
    refine ⟨_, rfl, ?_, ?_, ?_, ?_⟩ <;> decide
  obtain ⟨s, h1, h2, h3, h4, h5⟩ := h
  exact ⟨s, runLabels_reachable h1 .init, h2, h3, h4, no_step_of_succs_nil h5⟩

/-- `Flush; Wait` on the unchanged protocol with four compressors: `Wait` parks for ever -/
def witnessWaitCfg : Cfg := { wc := 3, script := [.flush true, .flush true, .wait], fault := fun _ => true, repaired := false }

def witnessWaitSchedule : List Label :=
  [.api, .api, .api, .api,  .api, .api, .api, .api,   -- two Flushes: blocks 0 and 1 queued
   .api, .api,                                        -- Wait: latch still clear, blocks on qwg
   .em, .finE, .em, .em, .em, .em,                    -- emitter: block 0 fails; Done, setErr, break
   .finQ 0]

theorem writer_wait_deadlock_witness :
    ∃ s, Reachable witnessWaitCfg s ∧ s.api = .wtBlock ∧ ¬ AllIdle s ∧ ¬ ∃ t, Step witnessWaitCfg s t := by
  have h : ∃ s, runLabels witnessWaitCfg (init witnessWaitCfg) witnessWaitSchedule = some s ∧ s.api = .wtBlock ∧
      ¬ AllIdle s ∧ succs witnessWaitCfg s = [] := by
    refine ⟨_, rfl, ?_, ?_, ?_⟩ <;> decide
  obtain ⟨s, h1, h2, h3, h4⟩ := h
  exact ⟨s, runLabels_reachable h1 .init, h2, h3, no_step_of_succs_nil h4⟩

/-- On the unchanged protocol `qwg.Done()` ran before `setErr`: `Flush; Wait` can both return nil although the
    flushed block's write failed (so `flush_wait_durable` is false there). -/
def witnessNilCfg : Cfg := { wc := 1, script := [.flush true, .wait], fault := fun _ => true, repaired := false }

def witnessNilSchedule : List Label :=
  [.api, .api, .api, .api,       -- Flush: block 0 queued, returns nil
   .api, .api,                   -- Wait called, latch clear, blocks on qwg
   .em, .finE, .em, .em,         -- emitter: underlying Write of block 0 fails; qwg.Done()  (setErr not yet)
   .api]                         -- Wait wakes up, reads a clear latch, returns nil

theorem writer_wait_nil_after_failure_witness :
    ∃ tr s, Run witnessNilCfg tr s ∧
      tr = [.ret .wait .ok 1, .uw (some 0) false, .call .wait, .ret (.flush true) .ok 1, .call (.flush true)] ∧
      s.out = [] := by
  have h : ∃ tr s, runTrace witnessNilCfg [] (init witnessNilCfg) witnessNilSchedule = some (tr, s) ∧
      tr = [.ret .wait .ok 1, .uw (some 0) false, .call .wait, .ret (.flush true) .ok 1, .call (.flush true)] ∧
      s.out = [] := by
    refine ⟨_, _, rfl, ?_, ?_⟩ <;> decide
  obtain ⟨tr, s, h1, h2, h3⟩ := h
  exact ⟨tr, s, runTrace_run h1 .init, h2, h3⟩

/-- On the unchanged protocol a compression failure (`c.err != nil`) returns from `writeOK` without `qwg.Done()`:
    `Flush; Wait` with the flushed block's compression failing parks `Wait` for ever. -/
def witnessCompCfg : Cfg :=
  { wc := 1, script := [.flush true, .wait], fault := fun _ => false, repaired := false, cfault := fun _ => true }

def witnessCompSchedule : List Label :=
  [.api, .api, .api, .api,       -- Flush: block 0 queued, returns nil
   .api, .api,                   -- Wait called, latch clear, blocks on qwg
   .em, .finE, .em, .em, .em]    -- emitter: c.err != nil → setErr, compressor back to `waiting`, leaves its loop

theorem writer_compress_wait_deadlock_witness :
    ∃ s, Reachable witnessCompCfg s ∧ s.api = .wtBlock ∧ s.pending = 1 ∧ ¬ AllIdle s ∧ ¬ ∃ t, Step witnessCompCfg s t := by
  have h : ∃ s, runLabels witnessCompCfg (init witnessCompCfg) witnessCompSchedule = some s ∧ s.api = .wtBlock ∧
      s.pending = 1 ∧ ¬ AllIdle s ∧ succs witnessCompCfg s = [] := by
    refine ⟨_, rfl, ?_, ?_, ?_, ?_⟩ <;> decide
  obtain ⟨s, h1, h2, h3, h4, h5⟩ := h
  exact ⟨s, runLabels_reachable h1 .init, h2, h3, h4, no_step_of_succs_nil h5⟩

/-! ### non-vacuity -/

/-- the same script and fault as `writer_deadlock_witness`, on the repaired protocol: `Close` returns an error
    and every library thread has finished -/
def repairedCfg : Cfg := { witnessCfg with repaired := true }

def repairedSchedule : List Label :=
  [.api, .api, .api, .api, .api, .api,
   .em, .finE, .em,                      -- block 0: underlying Write fails
   .em, .em, .em,                        -- setErr, qwg.Done, c0 back to `waiting`; the emitter KEEPS going
   .api, .api,                           -- Write returns the error
   .api, .api,                           -- Close queues c0
   .finQ 0, .em, .em, .em, .em,          -- block 1 is drained without being written; c1 goes to `waiting`
   .api, .api,                           -- Close takes c1, compresses its own block, closes the queue
   .em, .em, .em, .em, .em,              -- Close's block is drained, the emitter finishes
   .api, .api, .api]                     -- wg.Wait returns; no EOF marker; Close returns the error

example : ∃ tr s, runTrace repairedCfg [] (init repairedCfg) repairedSchedule = some (tr, s) ∧
    tr = [.ret .close .err 3, .call .close, .ret (.write 2) .err 2, .uw (some 0) false, .call (.write 2)] ∧
    AllIdle s ∧ NoLibraryThread s ∧ s.out = [] ∧ s.eof = false := by
  refine ⟨_, _, rfl, ?_, ?_, ?_, ?_, ?_⟩ <;> decide

/-! ### reader: sequential reader over a source that starts failing -/

section Reader
open Hts.Model.ReaderFaults

/-- Whatever the fault (an error or a premature end of input, at any byte offset), the bytes returned are a
    prefix of the file's data. -/
theorem reader_prefix_under_faults (cut : Option Nat) (kind : FaultKind) (ms : List Member) :
    ∃ rest, flat ms = (readAll cut kind 0 ms).1 ++ rest :=
  readAll_prefix cut kind 0 ms

/-- A clean end of data is reported only after all of the data, or — for a source that itself reports a
    premature end — when that end falls exactly on a member boundary. -/
theorem reader_clean_eof_only_at_end (cut : Option Nat) (kind : FaultKind) (ms : List Member)
    (h : (readAll cut kind 0 ms).2 = .eof) :
    (readAll cut kind 0 ms).1 = flat ms ∨ (kind = .eof ∧ ∃ p, cut = some p ∧ p ∈ boundaries 0 ms) :=
  readAll_eof cut kind 0 ms h

/-- An error of the underlying reader anywhere up to the end of the file is reported, never turned into a clean
    end of data. -/
theorem reader_error_not_swallowed (p : Nat) (ms : List Member) (h : p ≤ fileEnd 0 ms) :
    (readAll (some p) .err 0 ms).2 = .err :=
  readAll_err_reported p 0 ms h

/-- non-vacuity: three members of 40, 28 (empty) and 50 bytes; error 10 bytes into the third -/
example : readAll (some 78) .err 0 [⟨40, [1, 2]⟩, ⟨28, []⟩, ⟨50, [3]⟩] = ([1, 2], .err) := by decide
example : readAll (some 68) .eof 0 [⟨40, [1, 2]⟩, ⟨28, []⟩, ⟨50, [3]⟩] = ([1, 2], .eof) := by decide
example : readAll none .err 0 [⟨40, [1, 2]⟩, ⟨28, []⟩, ⟨50, [3]⟩] = ([1, 2, 3], .eof) := by decide

end Reader

/-! ====================================================================================================
### reader, operational (audit H-4): histories of Read/ReadByte/Seek over a failing source

`Hts.Model.Bgzf.FReader` (Model/BgzfReaderFaults.lean) is the sequential reader model of C02
(Model/BgzfReader.lean: `Read`'s skip and copy loops, `ReadByte`, `Seek` with its `hasData` test, `nextBlock`,
the sticky `bg.err`, the `failAt` block of a failed load) with every load going through a fault oracle: the
list of outcomes (`ok` / `err` = any failure of an underlying `Read` or `Seek` of that load, incl. an error
after partial data or a truncation inside the member / `eof` = the source reports a clean end of input exactly
where the member would start) imposed on the coming load attempts.  The statements are for every well-formed
file, every oracle and every history whose seeks go to a block start plus an offset up to the block's length.
The concurrent side (rd > 1: read-ahead cannot change which block a call installs, cannot hang and cannot
panic, under the same faults) is `Hts.Props.C02.readahead_in_order` / `readahead_deadlock_free` /
`readahead_no_unexpected_block`.
==================================================================================================== -/

section ReaderOperational
open Hts Hts.Model.Bgzf Hts.Spec.Flat

/-- **Every history, every fault pattern.**  Tracking the logical position through the bytes returned and the
*successful* seeks (`nextPos`), every operation is `FaultStepOK`: a Read/ReadByte returns bytes of the flat copy at
that position (never other bytes), at most as many as asked for; a returned error is latched and every later
Read/ReadByte returns nothing and the same error until a Seek succeeds (sticky, as `bg.err`); a Seek either
succeeds or latches the error it returns; `io.EOF` from a Read outside Blocked mode means the position is the
end of the data unless the source itself reported a clean end of input at a member start. -/
theorem reader_history_correct_under_faults (F : File) (hwf : WF F) (r0 : Reader)
    (h0 : Reader.new F = .ok r0) (oracle : List LoadFault) (ops : List Spec.Flat.Op)
    (hv : ValidOps (layoutOf F) ops) :
    RunOK F ⟨r0, oracle⟩ 0 ops :=
  frun_ok hwf ops ⟨r0, oracle⟩ 0 (finv_new h0 oracle) hv

/-- The invariant behind it holds after any valid history, so the two statements below apply to every
operation of every history. -/
theorem reader_invariant_along_history (F : File) (hwf : WF F) (x : FReader) (pos : Nat)
    (hi : FInv F x pos) (op : Spec.Flat.Op) (hv : OpValid (layoutOf F) op) :
    FInv F (x.step op).1 (nextPos (layoutOf F) pos op (x.step op).2) :=
  (fstep_ok hwf hi op hv).2

/-- Never other bytes than the correct ones for their position: whatever an operation returns as data is the
flat copy at the tracked position. -/
theorem reader_never_wrong_bytes (F : File) (hwf : WF F) (x : FReader) (pos : Nat) (hi : FInv F x pos)
    (op : Spec.Flat.Op) (hv : OpValid (layoutOf F) op) :
    (x.step op).2.bytes = ((flatBytes F).drop pos).take (x.step op).2.bytes.length := by
  have h := (fstep_ok hwf hi op hv).1
  cases op with
  | read n =>
    cases he : x.r.err with
    | some e => have := (h.1 e he).1; rw [this]; simp
    | none => exact (h.2 he).bytes_ok
  | readByte =>
    cases he : x.r.err with
    | some e => have := (h.1 e he).1; rw [this]; simp
    | none => exact (h.2 he).bytes_ok
  | seek o => have := h.1; rw [this]; simp
  | setBlocked b => have := h.1; rw [this]; simp

/-- Never a clean end before the true end: if a Read/ReadByte issued with no error latched, outside Blocked
mode, returns `io.EOF`, and the source never reported a clean end of input at a member start (`NoEof`: its
faults are errors, errors after partial data, or truncations inside a member), then all of the data up to its
end has been passed: the tracked position after the call is the length of the data. -/
theorem reader_clean_eof_only_at_true_end (F : File) (hwf : WF F) (x : FReader) (pos : Nat)
    (hi : FInv F x pos) (op : Spec.Flat.Op) (hop : (∃ n, op = .read n) ∨ op = .readByte)
    (halive : x.r.err = none) (hunb : x.r.blocked = false) (hno : NoEof x.oracle)
    (heof : (x.step op).2.err = some .eof) :
    pos + (x.step op).2.bytes.length = flatLen F := by
  rcases hop with ⟨n, rfl⟩ | rfl
  · exact ((fstep_ok hwf hi (.read n) trivial).1.2 halive).eofEnd heof hunb hno
  · exact ((fstep_ok hwf hi .readByte trivial).1.2 halive).eofEnd heof hunb hno

/-- A latched error is returned again by every Read/ReadByte, with no data, and the state does not change. -/
theorem reader_error_sticky (F : File) (hwf : WF F) (x : FReader) (pos : Nat) (hi : FInv F x pos)
    (e : Err) (he : x.r.err = some e) (op : Spec.Flat.Op) (hop : (∃ n, op = .read n) ∨ op = .readByte) :
    (x.step op).2.bytes = [] ∧ (x.step op).2.err = some e ∧ (x.step op).1 = x := by
  rcases hop with ⟨n, rfl⟩ | rfl
  · exact (fstep_ok hwf hi (.read n) trivial).1.1 e he
  · exact (fstep_ok hwf hi .readByte trivial).1.1 e he

/-- **Close does not swallow the error.**  After any operation of any history that returned an error other than
`io.EOF` — a Read/ReadByte that met a fault or found the error latched, or a Seek that failed — `Close` returns
that error; and `Close` returns nil exactly when nothing or `io.EOF` is latched. -/
theorem reader_close_reports_error (F : File) (hwf : WF F) (x : FReader) (pos : Nat) (hi : FInv F x pos)
    (op : Spec.Flat.Op) (hv : OpValid (layoutOf F) op) (e : Err) (he : (x.step op).2.err = some e)
    (hne : e ≠ .eof) :
    (x.step op).1.close = some e := by
  have hlatch : (x.step op).1.r.err = some e := by
    have h := (fstep_ok hwf hi op hv).1
    have rd : ∀ want, ((∀ e0, x.r.err = some e0 → (x.step op).2.bytes = [] ∧ (x.step op).2.err = some e0 ∧
          (x.step op).1 = x) ∧
        (x.r.err = none → ReadRes F x (x.step op).1 pos want (x.step op).2.bytes (x.step op).2.err)) →
        (x.step op).1.r.err = some e := by
      intro want h
      cases hx : x.r.err with
      | some e0 =>
        have ⟨_, h2, h3⟩ := h.1 e0 hx
        rw [h3, hx, ← h2, he]
      | none =>
        have hr := h.2 hx
        cases hx' : (x.step op).1.r.err with
        | some e' => have := (hr.latched e' hx').1; rw [he] at this; rw [Option.some.inj this]
        | none =>
          rcases (hr.alive hx').2 with h0 | ⟨h0, _⟩
          · rw [he] at h0; cases h0
          · rw [he] at h0; exact absurd (Option.some.inj h0) hne
    cases op with
    | read n => exact rd n h
    | readByte => exact rd 1 h
    | seek o => exact (h.2.2.1 e he).1
    | setBlocked b => have := h.2.1; rw [he] at this; cases this
  unfold FReader.close
  rw [hlatch]
  cases e <;> first | rfl | exact absurd rfl hne

theorem reader_close_nil_iff (x : FReader) :
    x.close = none ↔ (x.r.err = none ∨ x.r.err = some .eof) := by
  unfold FReader.close
  cases h : x.r.err with
  | none => simp
  | some e => cases e <;> simp

/-- The faulty model is the reader model of C02 with the loads going through the oracle: with an empty oracle
`Read` and `Seek` are literally those of `Hts.Model.Bgzf.Reader` (whose refinement of the flat specification is
`Hts.Props.C02.read_refines_flat`). -/
theorem faulty_model_extends_fault_free (r : Reader) :
    (∀ n, (FReader.mk r []).read n = (⟨(r.read n).1, []⟩, (r.read n).2.1, (r.read n).2.2)) ∧
    (∀ o, (FReader.mk r []).seek o = (⟨(r.seek o).1, []⟩, (r.seek o).2)) :=
  ⟨FReader.read_nofault r, FReader.seek_nofault r⟩

/-- Non-vacuity: `exFile` (`[1,2,3] | [] | [4,5] | []`); the second load attempt fails.  Read 2; Read 5 crosses
into the failing load (returns the one byte it had, latches the error); ReadByte: sticky; Seek back to (0,1)
succeeds (third attempt is fine); ReadByte, Read: correct bytes again; the last Read ends the data cleanly. -/
example : ∃ r0, Reader.new exFile = .ok r0 ∧
    ((FReader.mk r0 [.ok, .err]).run
        [.read 2, .read 5, .readByte, .seek ⟨0, 1⟩, .readByte, .read 9]).map (fun p => (p.1.bytes, p.1.err)) =
      [([1, 2], none), ([3], some .other), ([], some .other), ([], none), ([2], none),
       ([3, 4, 5], some .eof)] :=
  ⟨_, rfl, by decide⟩

end ReaderOperational

/-! ### rd > 1 under faults: the operational theorems carried over the read-ahead protocol

`Model/ReaderOverLTS.lean`: the byte-level code of Read/ReadByte/Seek as a program (`gRunF r0 ops`) whose block
fetches are calls into the read-ahead LTS of C02; `Over cfg F p s outs t` runs it along ANY path of the LTS (any
interleaving with the worker), here with `faults := true` (every load of either thread may fail). -/

section ReaderOverProtocol
open Hts Hts.Model Hts.Model.Bgzf Hts.Model.ReadAhead Hts.Spec.Flat

/-- **Every execution with rd ≥ 2 is an execution of the fault model.**  For every well-formed file, rd ≥ 2,
script of nextBlock/Seek/Close operations, history, path of the protocol and fault pattern: what the history
returns per operation (bytes, error, reader state) is what `FReader` (the operational model the theorems above
are about) returns for SOME fault oracle — read-ahead, its failures and the scheduler change which loads fail
and how many are made, never what a call can return. -/
theorem reader_rd_is_fault_model (F : File) (hwf : WF F) (r0 : Reader) (h0 : Reader.new F = .ok r0)
    (ops : List Spec.Flat.Op) (rd : Nat) (hrd : 2 ≤ rd) (script : List ReadAhead.Op)
    (hn : ReadAhead.Op.nexts ∉ script) (outs : List (Out × Reader)) (t : ReadAhead.State)
    (h : Over ⟨rd, chainOf F, script, true⟩ F (gRunF r0 ops)
      (ReadAhead.init ⟨rd, chainOf F, script, true⟩) outs t) :
    ∃ oracle, outs = ((FReader.mk r0 oracle).run ops).map fun p => (p.1, p.2.r) :=
  over_history_is_fault_model hwf h0 ops rd hrd script hn outs t h

/-- **Never wrong bytes, sticky errors, for rd ≥ 2.**  Hence every such execution of a valid history satisfies
`RunOK` (`reader_history_correct_under_faults`): each Read/ReadByte returns bytes of the flat copy at the
position tracked through the successful seeks and nothing else, a returned error is latched and returned again
until a Seek succeeds, `io.EOF` only at the end of the data unless the source reported a clean end at a member
start. -/
theorem reader_never_wrong_bytes_rd (F : File) (hwf : WF F) (r0 : Reader) (h0 : Reader.new F = .ok r0)
    (ops : List Spec.Flat.Op) (hv : ValidOps (layoutOf F) ops) (rd : Nat) (hrd : 2 ≤ rd)
    (script : List ReadAhead.Op) (hn : ReadAhead.Op.nexts ∉ script) (outs : List (Out × Reader))
    (t : ReadAhead.State)
    (h : Over ⟨rd, chainOf F, script, true⟩ F (gRunF r0 ops)
      (ReadAhead.init ⟨rd, chainOf F, script, true⟩) outs t) :
    ∃ oracle, outs = ((FReader.mk r0 oracle).run ops).map (fun p => (p.1, p.2.r)) ∧
      RunOK F ⟨r0, oracle⟩ 0 ops := by
  obtain ⟨oracle, ho⟩ := over_history_is_fault_model hwf h0 ops rd hrd script hn outs t h
  exact ⟨oracle, ho, reader_history_correct_under_faults F hwf r0 h0 oracle ops hv⟩

end ReaderOverProtocol

end Hts.Props.C09
