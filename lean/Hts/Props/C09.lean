/-
C09 — property theorems (stub: no theorem stated yet, so no obligation is counted).
-/
namespace Hts.Props.C09
end Hts.Props.C09
