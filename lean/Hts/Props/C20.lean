/-
C20 — ITF-8 and LTF-8 integer codecs are exact inverses for every value.
PROPERTY THEOREMS ONLY (helper lemmas live in Hts.Lemmas.*).  Every statement quantifies over all
2^32 / 2^64 values or all byte strings; nothing here is sampled.
-/
import Hts.Lemmas.Itf8
import Hts.Lemmas.Itf8Spec
import Hts.Lemmas.Itf8Value
import Hts.Lemmas.CramStream
namespace Hts.Props.C20
open Hts.Model

/-! ### ITF-8 (all int32 values; `v` is the two's-complement bit pattern) -/

/-- encode then decode returns the same integer, and the count reported by Decode equals Len -/
theorem itf8_decode_encode (v : BitVec 32) : Itf8.decode (Itf8.encode v) = (v, Itf8.len v, true) :=
  Itf8.decode_encode v

/-- trailing bytes after a complete encoding are not looked at -/
theorem itf8_decode_encode_append (v : BitVec 32) (rest : List (BitVec 8)) :
    Itf8.decode (Itf8.encode v ++ rest) = (v, Itf8.len v, true) := by
  have hne : Itf8.encode v ≠ [] := by unfold Itf8.encode; (repeat' split) <;> simp
  obtain ⟨b0, t, ht⟩ : ∃ b0 t, Itf8.encode v = b0 :: t := by
    cases h : Itf8.encode v with
    | nil => exact absurd h hne
    | cons a t => exact ⟨a, t, rfl⟩
  have hd := Itf8.decode_encode v
  have hl := Itf8.encode_length v
  rw [ht] at hd hl
  have hw := (Itf8.decode_fail_iff b0 t).1
  rw [hd] at hw
  simp only at hw
  -- decode (b0 :: t ++ rest) = decode (take (width b0) ...) = decode (b0 :: t)
  have h1 := Itf8.decode_take b0 (t ++ rest) (by rw [← hw, ← hl]; simp; omega)
  have h2 : (b0 :: (t ++ rest)).take (Itf8.width b0).toNat = b0 :: t := by
    have : (Itf8.width b0).toNat = (b0 :: t).length := by rw [← hw, ← hl]; simp
    rw [this, ← List.cons_append, List.take_left]
  rw [ht, List.cons_append, ← h1, h2, hd]

/-- the number of bytes written equals Len -/
theorem itf8_encode_length (v : BitVec 32) : ((Itf8.encode v).length : Int) = Itf8.len v :=
  Itf8.encode_length v

/-- the bytes equal the encoding defined by the CRAM specification (arithmetic spec) -/
theorem itf8_encode_is_spec (v : BitVec 32) :
    (Itf8.encode v).map BitVec.toNat = Hts.Spec.Itf8.encode v.toNat :=
  Itf8.encode_is_spec v

/-- decoding reports failure exactly when fewer bytes are available than the first byte announces,
and the reported width is the announced one -/
theorem itf8_decode_fails_iff_short (b0 : BitVec 8) (t : List (BitVec 8)) :
    (Itf8.decode (b0 :: t)).2.1 = Itf8.width b0 ∧
      ((Itf8.decode (b0 :: t)).2.2 = false ↔ ((t.length + 1 : Nat) : Int) < Itf8.width b0) :=
  Itf8.decode_fail_iff b0 t

theorem itf8_decode_empty : Itf8.decode [] = (0#32, 0, false) := Itf8.decode_nil

/-- decoding never reads beyond the length announced by the first byte -/
theorem itf8_decode_reads_announced (b0 : BitVec 8) (t : List (BitVec 8))
    (h : Itf8.width b0 ≤ ((t.length + 1 : Nat) : Int)) :
    Itf8.decode ((b0 :: t).take (Itf8.width b0).toNat) = Itf8.decode (b0 :: t) :=
  Itf8.decode_take b0 t h

/-! ### LTF-8 (all int64 values) -/

theorem ltf8_decode_encode (v : BitVec 64) : Ltf8.decode (Ltf8.encode v) = (v, Ltf8.len v, true) :=
  Ltf8.decode_encode v

theorem ltf8_encode_length (v : BitVec 64) : ((Ltf8.encode v).length : Int) = Ltf8.len v :=
  Ltf8.encode_length v

theorem ltf8_encode_is_spec (v : BitVec 64) :
    (Ltf8.encode v).map BitVec.toNat = Hts.Spec.Ltf8.encode v.toNat :=
  Ltf8.encode_is_spec v

theorem ltf8_decode_fails_iff_short (b0 : BitVec 8) (t : List (BitVec 8)) :
    (Ltf8.decode (b0 :: t)).2.1 = Ltf8.width b0 ∧
      ((Ltf8.decode (b0 :: t)).2.2 = false ↔ ((t.length + 1 : Nat) : Int) < Ltf8.width b0) :=
  Ltf8.decode_fail_iff b0 t

theorem ltf8_decode_empty : Ltf8.decode [] = (0#64, 0, false) := Ltf8.decode_nil

theorem ltf8_decode_reads_announced (b0 : BitVec 8) (t : List (BitVec 8))
    (h : Ltf8.width b0 ≤ ((t.length + 1 : Nat) : Int)) :
    Ltf8.decode ((b0 :: t).take (Ltf8.width b0).toNat) = Ltf8.decode (b0 :: t) :=
  Ltf8.decode_take b0 t h

/-! ### decode against the specification, for EVERY input (canonical or overlong) -/

/-- the width the decoder derives from a first byte is the specification's -/
theorem itf8_width_is_spec (b0 : BitVec 8) : Itf8.width b0 = (Hts.Spec.Itf8.width b0.toNat : Nat) :=
  Itf8.width_is_spec b0

theorem ltf8_width_is_spec (b0 : BitVec 8) : Ltf8.width b0 = (Hts.Spec.Ltf8.width b0.toNat : Nat) :=
  Ltf8.width_is_spec b0

/-- whenever the announced bytes are present, the value Decode returns is the value the specification
assigns to exactly those bytes — also for encodings `Encode` never produces (overlong forms such as
`80 05`; a 5-byte ITF-8 whose last byte has a non-zero high nibble: the specification ignores it) -/
theorem itf8_decode_is_spec (b0 : BitVec 8) (t : List (BitVec 8))
    (h : Itf8.width b0 ≤ ((t.length + 1 : Nat) : Int)) :
    Hts.Spec.Itf8.value (((b0 :: t).take (Itf8.width b0).toNat).map BitVec.toNat)
      = some (Itf8.decode (b0 :: t)).1.toNat :=
  Itf8.decode_is_spec b0 t h

theorem ltf8_decode_is_spec (b0 : BitVec 8) (t : List (BitVec 8))
    (h : Ltf8.width b0 ≤ ((t.length + 1 : Nat) : Int)) :
    Hts.Spec.Ltf8.value (((b0 :: t).take (Ltf8.width b0).toNat).map BitVec.toNat)
      = some (Ltf8.decode (b0 :: t)).1.toNat :=
  Ltf8.decode_is_spec b0 t h

/-- the specification is coherent with itself: its value function inverts its encoder on every 32-bit
(64-bit) value.  (A corollary of the three facts about the code: encode = spec, decode = spec value,
decode ∘ encode = id; it says the two halves of the hand-written specification agree.) -/
theorem itf8_spec_value_encode (u : Nat) (hu : u < 2 ^ 32) :
    Hts.Spec.Itf8.value (Hts.Spec.Itf8.encode u) = some u := by
  have hs := itf8_encode_is_spec (BitVec.ofNat 32 u)
  have hd := itf8_decode_encode (BitVec.ofNat 32 u)
  have hl := itf8_encode_length (BitVec.ofNat 32 u)
  rw [BitVec.toNat_ofNat, Nat.mod_eq_of_lt hu] at hs
  cases he : Itf8.encode (BitVec.ofNat 32 u) with
  | nil => rw [he] at hd; simp [Itf8.decode_nil] at hd
  | cons b0 t =>
    rw [he] at hs hd hl
    have hw := (itf8_decode_fails_iff_short b0 t).1
    rw [hd] at hw
    simp only at hw
    have h : Itf8.width b0 ≤ ((t.length + 1 : Nat) : Int) := by
      simp only [List.length_cons] at hl; omega
    have hv := itf8_decode_is_spec b0 t h
    have htake : (b0 :: t).take (Itf8.width b0).toNat = b0 :: t := by
      apply List.take_of_length_le; simp only [List.length_cons] at hl ⊢; omega
    rw [htake, hs, hd] at hv
    simpa [Nat.mod_eq_of_lt hu] using hv

theorem ltf8_spec_value_encode (u : Nat) (hu : u < 2 ^ 64) :
    Hts.Spec.Ltf8.value (Hts.Spec.Ltf8.encode u) = some u := by
  have hs := ltf8_encode_is_spec (BitVec.ofNat 64 u)
  have hd := ltf8_decode_encode (BitVec.ofNat 64 u)
  have hl := ltf8_encode_length (BitVec.ofNat 64 u)
  rw [BitVec.toNat_ofNat, Nat.mod_eq_of_lt hu] at hs
  cases he : Ltf8.encode (BitVec.ofNat 64 u) with
  | nil => rw [he] at hd; simp [Ltf8.decode_nil] at hd
  | cons b0 t =>
    rw [he] at hs hd hl
    have hw := (ltf8_decode_fails_iff_short b0 t).1
    rw [hd] at hw
    simp only at hw
    have h : Ltf8.width b0 ≤ ((t.length + 1 : Nat) : Int) := by
      simp only [List.length_cons] at hl; omega
    have hv := ltf8_decode_is_spec b0 t h
    have htake : (b0 :: t).take (Ltf8.width b0).toNat = b0 :: t := by
      apply List.take_of_length_le; simp only [List.length_cons] at hl ⊢; omega
    rw [htake, hs, hd] at hv
    simpa [Nat.mod_eq_of_lt hu] using hv

/-! ### the stream readers of cram/cram.go (errorReader.itf8 / ltf8) -/

/-- an encoded number followed by anything reads back as that number, leaving exactly the rest -/
theorem itf8_stream_roundtrip (v : BitVec 32) (rest : List (BitVec 8)) :
    CramStream.itf8 (Itf8.encode v ++ rest) = .ok (v, rest) :=
  Hts.Lemmas.CramStream.Itf8S.stream_roundtrip v rest

/-- with the announced bytes available the reader consumes exactly them (never more) and never reports
"failed to decode" -/
theorem itf8_stream_consumes_announced (b0 : BitVec 8) (t : List (BitVec 8))
    (h : Itf8.width b0 ≤ ((t.length + 1 : Nat) : Int)) :
    CramStream.itf8 (b0 :: t) =
      .ok ((Itf8.decode ((b0 :: t).take (Itf8.width b0).toNat)).1, (b0 :: t).drop (Itf8.width b0).toNat) :=
  Hts.Lemmas.CramStream.Itf8S.stream_consumes b0 t h

/-- a stream cut inside a number is an error, never a value -/
theorem itf8_stream_short_fails (b0 : BitVec 8) (t : List (BitVec 8))
    (h : ((t.length + 1 : Nat) : Int) < Itf8.width b0) : ∃ e, CramStream.itf8 (b0 :: t) = .error e :=
  Hts.Lemmas.CramStream.Itf8S.stream_short b0 t h

theorem ltf8_stream_roundtrip (v : BitVec 64) (rest : List (BitVec 8)) :
    CramStream.ltf8 (Ltf8.encode v ++ rest) = .ok (v, rest) :=
  Hts.Lemmas.CramStream.Ltf8S.stream_roundtrip v rest

theorem ltf8_stream_consumes_announced (b0 : BitVec 8) (t : List (BitVec 8))
    (h : Ltf8.width b0 ≤ ((t.length + 1 : Nat) : Int)) :
    CramStream.ltf8 (b0 :: t) =
      .ok ((Ltf8.decode ((b0 :: t).take (Ltf8.width b0).toNat)).1, (b0 :: t).drop (Ltf8.width b0).toNat) :=
  Hts.Lemmas.CramStream.Ltf8S.stream_consumes b0 t h

theorem ltf8_stream_short_fails (b0 : BitVec 8) (t : List (BitVec 8))
    (h : ((t.length + 1 : Nat) : Int) < Ltf8.width b0) : ∃ e, CramStream.ltf8 (b0 :: t) = .error e :=
  Hts.Lemmas.CramStream.Ltf8S.stream_short b0 t h

/-! ### non-vacuity: concrete non-trivial instances (these are tests, not the claim) -/
example : Itf8.encode 0x12345678#32 = [0xf1#8, 0x23#8, 0x45#8, 0x67#8, 0x78#8] := by decide
example : Itf8.decode [0xf1#8, 0x23#8, 0x45#8, 0x67#8, 0x78#8, 0xaa#8] = (0x12345678#32, 5, true) := by decide
example : Itf8.width 0xf1#8 ≤ ((4 + 1 : Nat) : Int) := by decide
example : (Ltf8.encode 0xffffffffffffffff#64).length = 9 := by decide
example : CramStream.itf8 [0xf1#8, 0x23#8, 0x45#8, 0x67#8, 0x78#8, 0xaa#8] = .ok (0x12345678#32, [0xaa#8]) := by rfl
example : CramStream.ltf8 [0xff#8, 1#8, 2#8] = .error .unexpectedEOF := by rfl
-- overlong (non-canonical) input: accepted, with the specification's value; Encode never produces it
example : Itf8.decode [0x80#8, 0x05#8] = (5#32, 2, true) ∧ Itf8.encode 5#32 = [0x05#8] := by decide
example : Hts.Spec.Itf8.value [0x80, 0x05] = some 5 := by decide
example : Hts.Spec.Ltf8.value [0xfe, 1, 2, 3, 4, 5, 6, 7] = some 0x01020304050607 := by decide

end Hts.Props.C20
