/-
C20 — ITF-8 and LTF-8 integer codecs are exact inverses for every value.
PROPERTY THEOREMS ONLY (helper lemmas live in Hts.Lemmas.*).  Every statement quantifies over all
2^32 / 2^64 values or all byte strings; nothing here is sampled.
-/
import Hts.Lemmas.Itf8
import Hts.Lemmas.Itf8Spec
import Hts.Lemmas.CramStream
namespace Hts.Props.C20
open Hts.Model

/-! ### ITF-8 (all int32 values; `v` is the two's-complement bit pattern) -/

/-- encode then decode returns the same integer, and the count reported by Decode equals Len -/
theorem itf8_decode_encode (v : BitVec 32) : Itf8.decode (Itf8.encode v) = (v, Itf8.len v, true) :=
  Itf8.decode_encode v

/-- trailing bytes after a complete encoding are not looked at -/
theorem itf8_decode_encode_append (v : BitVec 32) (rest : List (BitVec 8)) :
    Itf8.decode (Itf8.encode v ++ rest) = (v, Itf8.len v, true) := by
  have hne : Itf8.encode v ≠ [] := by unfold Itf8.encode; (repeat' split) <;> simp
  obtain ⟨b0, t, ht⟩ : ∃ b0 t, Itf8.encode v = b0 :: t := by
    cases h : Itf8.encode v with
    | nil => exact absurd h hne
    | cons a t => exact ⟨a, t, rfl⟩
  have hd := Itf8.decode_encode v
  have hl := Itf8.encode_length v
  rw [ht] at hd hl
  have hw := (Itf8.decode_fail_iff b0 t).1
  rw [hd] at hw
  simp only at hw
  -- decode (b0 :: t ++ rest) = decode (take (width b0) ...) = decode (b0 :: t)
  have h1 := Itf8.decode_take b0 (t ++ rest) (by rw [← hw, ← hl]; simp; omega)
  have h2 : (b0 :: (t ++ rest)).take (Itf8.width b0).toNat = b0 :: t := by
    have : (Itf8.width b0).toNat = (b0 :: t).length := by rw [← hw, ← hl]; simp
    rw [this, ← List.cons_append, List.take_left]
  rw [ht, List.cons_append, ← h1, h2, hd]

/-- the number of bytes written equals Len -/
theorem itf8_encode_length (v : BitVec 32) : ((Itf8.encode v).length : Int) = Itf8.len v :=
  Itf8.encode_length v

/-- the bytes equal the encoding defined by the CRAM specification (arithmetic spec) -/
theorem itf8_encode_is_spec (v : BitVec 32) :
    (Itf8.encode v).map BitVec.toNat = Hts.Spec.Itf8.encode v.toNat :=
  Itf8.encode_is_spec v

/-- decoding reports failure exactly when fewer bytes are available than the first byte announces,
and the reported width is the announced one -/
theorem itf8_decode_fails_iff_short (b0 : BitVec 8) (t : List (BitVec 8)) :
    (Itf8.decode (b0 :: t)).2.1 = Itf8.width b0 ∧
      ((Itf8.decode (b0 :: t)).2.2 = false ↔ ((t.length + 1 : Nat) : Int) < Itf8.width b0) :=
  Itf8.decode_fail_iff b0 t

theorem itf8_decode_empty : Itf8.decode [] = (0#32, 0, false) := Itf8.decode_nil

/-- decoding never reads beyond the length announced by the first byte -/
theorem itf8_decode_reads_announced (b0 : BitVec 8) (t : List (BitVec 8))
    (h : Itf8.width b0 ≤ ((t.length + 1 : Nat) : Int)) :
    Itf8.decode ((b0 :: t).take (Itf8.width b0).toNat) = Itf8.decode (b0 :: t) :=
  Itf8.decode_take b0 t h

/-! ### LTF-8 (all int64 values) -/

theorem ltf8_decode_encode (v : BitVec 64) : Ltf8.decode (Ltf8.encode v) = (v, Ltf8.len v, true) :=
  Ltf8.decode_encode v

theorem ltf8_encode_length (v : BitVec 64) : ((Ltf8.encode v).length : Int) = Ltf8.len v :=
  Ltf8.encode_length v

theorem ltf8_encode_is_spec (v : BitVec 64) :
    (Ltf8.encode v).map BitVec.toNat = Hts.Spec.Ltf8.encode v.toNat :=
  Ltf8.encode_is_spec v

theorem ltf8_decode_fails_iff_short (b0 : BitVec 8) (t : List (BitVec 8)) :
    (Ltf8.decode (b0 :: t)).2.1 = Ltf8.width b0 ∧
      ((Ltf8.decode (b0 :: t)).2.2 = false ↔ ((t.length + 1 : Nat) : Int) < Ltf8.width b0) :=
  Ltf8.decode_fail_iff b0 t

theorem ltf8_decode_empty : Ltf8.decode [] = (0#64, 0, false) := Ltf8.decode_nil

theorem ltf8_decode_reads_announced (b0 : BitVec 8) (t : List (BitVec 8))
    (h : Ltf8.width b0 ≤ ((t.length + 1 : Nat) : Int)) :
    Ltf8.decode ((b0 :: t).take (Ltf8.width b0).toNat) = Ltf8.decode (b0 :: t) :=
  Ltf8.decode_take b0 t h

/-! ### the stream readers of cram/cram.go (errorReader.itf8 / ltf8) -/

/-- an encoded number followed by anything reads back as that number, leaving exactly the rest -/
theorem itf8_stream_roundtrip (v : BitVec 32) (rest : List (BitVec 8)) :
    CramStream.itf8 (Itf8.encode v ++ rest) = .ok (v, rest) :=
  Hts.Lemmas.CramStream.Itf8S.stream_roundtrip v rest

/-- with the announced bytes available the reader consumes exactly them (never more) and never reports
"failed to decode" -/
theorem itf8_stream_consumes_announced (b0 : BitVec 8) (t : List (BitVec 8))
    (h : Itf8.width b0 ≤ ((t.length + 1 : Nat) : Int)) :
    CramStream.itf8 (b0 :: t) =
      .ok ((Itf8.decode ((b0 :: t).take (Itf8.width b0).toNat)).1, (b0 :: t).drop (Itf8.width b0).toNat) :=
  Hts.Lemmas.CramStream.Itf8S.stream_consumes b0 t h

/-- a stream cut inside a number is an error, never a value -/
theorem itf8_stream_short_fails (b0 : BitVec 8) (t : List (BitVec 8))
    (h : ((t.length + 1 : Nat) : Int) < Itf8.width b0) : ∃ e, CramStream.itf8 (b0 :: t) = .error e :=
  Hts.Lemmas.CramStream.Itf8S.stream_short b0 t h

theorem ltf8_stream_roundtrip (v : BitVec 64) (rest : List (BitVec 8)) :
    CramStream.ltf8 (Ltf8.encode v ++ rest) = .ok (v, rest) :=
  Hts.Lemmas.CramStream.Ltf8S.stream_roundtrip v rest

theorem ltf8_stream_consumes_announced (b0 : BitVec 8) (t : List (BitVec 8))
    (h : Ltf8.width b0 ≤ ((t.length + 1 : Nat) : Int)) :
    CramStream.ltf8 (b0 :: t) =
      .ok ((Ltf8.decode ((b0 :: t).take (Ltf8.width b0).toNat)).1, (b0 :: t).drop (Ltf8.width b0).toNat) :=
  Hts.Lemmas.CramStream.Ltf8S.stream_consumes b0 t h

theorem ltf8_stream_short_fails (b0 : BitVec 8) (t : List (BitVec 8))
    (h : ((t.length + 1 : Nat) : Int) < Ltf8.width b0) : ∃ e, CramStream.ltf8 (b0 :: t) = .error e :=
  Hts.Lemmas.CramStream.Ltf8S.stream_short b0 t h

/-! ### non-vacuity: concrete non-trivial instances (these are tests, not the claim) -/
example : Itf8.encode 0x12345678#32 = [0xf1#8, 0x23#8, 0x45#8, 0x67#8, 0x78#8] := by decide
example : Itf8.decode [0xf1#8, 0x23#8, 0x45#8, 0x67#8, 0x78#8, 0xaa#8] = (0x12345678#32, 5, true) := by decide
example : Itf8.width 0xf1#8 ≤ ((4 + 1 : Nat) : Int) := by decide
example : (Ltf8.encode 0xffffffffffffffff#64).length = 9 := by decide
example : CramStream.itf8 [0xf1#8, 0x23#8, 0x45#8, 0x67#8, 0x78#8, 0xaa#8] = .ok (0x12345678#32, [0xaa#8]) := by rfl
example : CramStream.ltf8 [0xff#8, 1#8, 2#8] = .error .unexpectedEOF := by rfl

end Hts.Props.C20
