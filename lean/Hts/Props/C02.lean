/-
C02 — virtual offsets address the flat stream: property theorems.

Model: `Hts.Model.Bgzf.Reader` (bgzf/reader.go Read/ReadByte/Seek/nextBlock, cache.go block), a file being the list
of its members (payload, compressed size).  Specification: `Hts.Spec.Flat` (a flat byte string, a logical position).
All statements are for every well-formed file (any number of members, payloads of 0..65535 bytes, with or without
trailing empty members/EOF marker), every history (any length) of Read(n)/ReadByte/Seek/Blocked toggles whose seeks
go to a block start plus an offset up to the block's length.
-/
import Hts.Lemmas.ReaderProps
import Hts.Lemmas.ReaderLTSTerm
import Hts.Lemmas.ReaderLTSExact
import Hts.Lemmas.ReaderLTSFile
import Hts.Lemmas.ReaderOverLTSCall
import Hts.Lemmas.Reader64
namespace Hts.Props.C02
open Hts.Model.Bgzf Hts.Spec.Flat

/-- **Refinement.** For every well-formed file and every valid history, what the reader model returns per
operation — the bytes, the error, and `LastChunk()` after the call — is what the flat specification
returns: the bytes of the flat copy at the logical position implied by the history, `io.EOF` exactly when
the data (in Blocked mode: the block) ended, `Begin`/`End` the offsets before/after the bytes. -/
theorem read_refines_flat (F : File) (hwf : WF F) (r0 : Reader) (h0 : Reader.new F = .ok r0)
    (ops : List Op) (hv : ValidOps (layoutOf F) ops) :
    (r0.run ops).map Reader.observe = (run (flatOf F) init ops).map observeFlat :=
  run_refines hwf ops r0 init (sim_new h0) hv

/-- **The repaired `txOffset()` (fixes/C02-1).**  `Model/BgzfReader64.lean` is the reader model with `txOffset()` as
repaired: behind the last byte of a block holding 65536 bytes (where the 16-bit in-block offset has wrapped) it is
`(NextBase, 0)`.  On every well-formed file (payloads below 65536 bytes) the repaired reader is the reader of
`read_refines_flat` for every history, valid or not — output and reader state per operation — so it refines the flat
specification too.  A member of exactly 65536 payload bytes is outside `WF` and outside every theorem of this file;
there `run64` is the executable model the implementation is compared with. -/
theorem repaired_reader_refines_flat (F : File) (hwf : WF F) (r0 : Reader) (h0 : Reader.new F = .ok r0)
    (ops : List Op) (hv : ValidOps (layoutOf F) ops) :
    r0.run64 ops = r0.run ops ∧
    (r0.run64 ops).map Reader.observe = (run (flatOf F) init ops).map observeFlat := by
  have h := run64_eq_run ops r0 (small_new (fun m hm => (hwf m hm).2) h0)
  exact ⟨h, by rw [h]; exact read_refines_flat F hwf r0 h0 ops hv⟩

/-- The only error a valid history ever sees is `io.EOF`: the model's fuel bounds are never hit, nothing
panics, no seek fails. -/
theorem errors_are_eof_only (F : File) (hwf : WF F) (r0 : Reader) (h0 : Reader.new F = .ok r0)
    (ops : List Op) (hv : ValidOps (layoutOf F) ops) :
    ∀ p ∈ r0.run ops, p.1.err = none ∨ p.1.err = some .eof := by
  intro p hp
  have h := read_refines_flat F hwf r0 h0 ops hv
  have hm : Reader.observe p ∈ (r0.run ops).map Reader.observe := List.mem_map_of_mem hp
  rw [h] at hm
  obtain ⟨o, _, ho⟩ := List.mem_map.mp hm
  have : p.1.err = errOf o.eof := by
    have := congrArg (fun x => x.2.1) ho
    simpa [Reader.observe, observeFlat] using this.symm
  rw [this]; cases o.eof <;> simp [errOf]

/-- In the flat specification a read returns bytes of the flat copy starting at the logical position. -/
theorem flat_read_exact (F : FlatFile) (s : State) (n : Nat) :
    ∃ m, m ≤ n ∧ (Hts.Spec.Flat.read F s n).bytes = (F.bytes.drop s.pos).take m :=
  read_bytes_flat F s n

/-- … it is short or empty only together with `io.EOF` … -/
theorem flat_short_only_with_eof {F : FlatFile} (hF : F.WF) (s : State) (n : Nat)
    (h : (Hts.Spec.Flat.read F s n).bytes.length < n) : (Hts.Spec.Flat.read F s n).eof = true :=
  read_short_eof hF s n h

/-- … and `io.EOF` is reported exactly at the end of the data or when more was requested than the data
(Blocked: the block that holds the position) still holds. -/
theorem flat_eof_iff (F : FlatFile) (s : State) (n : Nat) :
    (Hts.Spec.Flat.read F s n).eof = true ↔
      total F.layout ≤ s.pos ∨
      (if s.blocked then blockRem F.layout s.pos else total F.layout - s.pos) < n :=
  read_eof_iff F s n

/-- After each successful read `Begin` and `End` translate to the logical positions just before and just
after the bytes returned; `Begin` is a seek target. -/
theorem lastchunk_translates {F : FlatFile} (hF : F.WF) (s : State) (n : Nat)
    (hok : (Hts.Spec.Flat.read F s n).eof = false ∨ (Hts.Spec.Flat.read F s n).bytes ≠ []) :
    seekTarget F.layout (Hts.Spec.Flat.read F s n).st.last.bgn = some s.pos ∧
    toLogical F.layout (Hts.Spec.Flat.read F s n).st.last.fin =
      some (s.pos + (Hts.Spec.Flat.read F s n).bytes.length) ∧
    (Hts.Spec.Flat.read F s n).st.pos = s.pos + (Hts.Spec.Flat.read F s n).bytes.length :=
  read_chunk_translates hF s n hok

/-- **Replay.** After any valid history, if a `Read(n)` succeeds (no error, or some bytes), then seeking to
the reported `Begin` succeeds and the same `Read(n)` returns the same bytes, the same error and the same
chunk again. -/
theorem seek_begin_replays (F : File) (hwf : WF F) (r0 : Reader) (h0 : Reader.new F = .ok r0)
    (ops : List Op) (hv : ValidOps (layoutOf F) ops) (n : Nat)
    (hok : ((r0.after ops).read n).2.2 = none ∨ ((r0.after ops).read n).2.1 ≠ []) :
    (((r0.after ops).read n).1.seek ((r0.after ops).read n).1.lastChunk.bgn).2 = none ∧
    ((((r0.after ops).read n).1.seek ((r0.after ops).read n).1.lastChunk.bgn).1.read n).2 =
      ((r0.after ops).read n).2 ∧
    ((((r0.after ops).read n).1.seek ((r0.after ops).read n).1.lastChunk.bgn).1.read n).1.lastChunk =
      ((r0.after ops).read n).1.lastChunk := by
  have hsim := sim_after hwf ops r0 init (sim_new h0) hv
  generalize r0.after ops = r at *
  generalize stateAfter (flatOf F) init ops = s at *
  have ⟨hb, he, hs1⟩ := sim_read hwf hsim n
  have hok' : (Hts.Spec.Flat.read (flatOf F) s n).eof = false ∨ (Hts.Spec.Flat.read (flatOf F) s n).bytes ≠ [] := by
    rcases hok with h | h
    · left; rw [he] at h; cases hq : (Hts.Spec.Flat.read (flatOf F) s n).eof <;> simp_all [errOf]
    · right; rwa [← hb]
  have ⟨ht, _, _⟩ := read_chunk_translates (flatOf_wf hwf) s n hok'
  have hlt : s.pos < total (flatOf F).layout := by
    by_cases hp : total (flatOf F).layout ≤ s.pos
    · simp [Hts.Spec.Flat.read, hp] at hok'
    · omega
  rw [hs1.last]
  have ⟨hk1, hk2⟩ := sim_seek hwf hs1 _ _ ht
  have ⟨hb2, he2, hs2⟩ := sim_read hwf hk2 n
  have hcongr := flat_read_congr (flatOf F)
    (State.mk s.pos (Hts.Spec.Flat.read (flatOf F) s n).st.blocked
      ⟨(Hts.Spec.Flat.read (flatOf F) s n).st.last.bgn, (Hts.Spec.Flat.read (flatOf F) s n).st.last.bgn⟩)
    s n rfl (flat_read_blocked (flatOf F) s n) hlt
  rw [hcongr] at hb2 he2 hs2
  refine ⟨hk1, ?_, ?_⟩
  · apply Prod.ext
    · rw [hb2, hb]
    · rw [he2, he]
  · rw [hs2.last]

/-! ### The read-ahead protocol (rd > 1, no cache)

`Hts.Model.ReadAhead` (Model/ReaderLTS.lean) is the worker/consumer protocol of the cache-free reader at HEAD
as a transition system with an executable step function: the worker loop of `NewReader` (including "wait on
`control` while next < 0"), `nextBlock` with its synchronous fall-back, all paths of `Seek`, `Close`.  Every
member load may fail (`cfg.faults`, chosen by the label), so the statements hold for every pattern of I/O
faults of the underlying reader, and without faults.  They are for **every** configuration with rd ≥ 2 and a
file whose member sizes are positive (`Cfg.OK`), every consumer script (any sequence of nextBlock calls —
i.e. of Read/ReadByte —, Seeks to any offset, valid or not, Close) and every interleaving of the two threads.
The tie to the code is trace inclusion: the harness replays the member loads and API markers observed on the
real reader against `next` (`c02.lts`). -/

open Hts.Model Hts.Model.ReadAhead in
/-- The `panic("bgzf: unexpected block")` branch of `nextBlock` is unreachable. -/
theorem readahead_no_unexpected_block (cfg : Cfg) (hc : cfg.OK) (s : ReadAhead.State) (h : Reachable cfg s) :
    s.cons ≠ .panicked :=
  (inv_reachable hc h).nopanic

open Hts.Model Hts.Model.ReadAhead in
/-- No dead-lock: in every reachable state some thread can step, unless the consumer has run its whole script
(or Close has returned).  With `cfg.faults` this is C09's reader side: no fault pattern makes a call hang. -/
theorem readahead_deadlock_free (cfg : Cfg) (hc : cfg.OK) (s : ReadAhead.State) (h : Reachable cfg s) :
    (∃ l e t, next cfg s l = some (e, t)) ∨ ApiDone s :=
  inv_progress (inv_reachable hc h)

open Hts.Model Hts.Model.ReadAhead in
/-- Every API call returns: while the consumer is inside a call every step of either thread decreases the
measure `mu`, so there is no infinite run inside a call, under any scheduler (no fairness needed); by
`readahead_deadlock_free` the run cannot stop inside a call either. -/
theorem readahead_call_terminates (cfg : Cfg) (hc : cfg.OK) (s t : ReadAhead.State) (l : Label) (e : Option Ev)
    (h : Reachable cfg s) (hs : next cfg s l = some (e, t)) (hin : s.cons ≠ .idle) :
    mu cfg t < mu cfg s :=
  mu_decreases (inv_reachable hc h) hs hin

open Hts.Model Hts.Model.ReadAhead in
/-- Decompressors are neither lost nor duplicated: idle + carrying a block + held by a thread = rd; `working`
never exceeds its capacity (a send on it never blocks for lack of room when the sender holds one). -/
theorem readahead_conservation (cfg : Cfg) (hc : cfg.OK) (s : ReadAhead.State) (h : Reachable cfg s) :
    s.waiting + s.working.length + s.worker.holds + s.cons.holds = cfg.rd ∧ s.working.length ≤ cfg.rd :=
  ⟨(inv_reachable hc h).count, by have := (inv_reachable hc h).count; omega⟩

open Hts.Model Hts.Model.ReadAhead in
/-- In-order delivery: `nextBlock` asks for the base that follows the current block; what a completed
`nextBlock` or `Seek` installs as the current block is the result of a load at exactly the offset asked for —
the member there (`next = chain base`) or a failed load — whichever path delivered it (read-ahead, a block
found in `working`, the synchronous fetch); the call reports success iff the block is a good one. -/
theorem readahead_in_order (cfg : Cfg) (hc : cfg.OK) (s t : ReadAhead.State) (l : Label) (e : Option Ev)
    (h : Reachable cfg s) (hs : next cfg s l = some (e, t)) :
    (∀ b, s.cons = .idle → t.cons = .scan b 0 → s.cur.next = some b) ∧
    (∀ b i ok, s.cons = .scan b i → t.cons = .ret ok →
      t.cur.base = some b ∧ WFBlk cfg.chain t.cur ∧ ok = good t.cur) ∧
    (∀ w ok, s.cons = .send w → t.cons = .ret ok →
      t.cur.base = some w ∧ WFBlk cfg.chain t.cur ∧ ok = good t.cur) := by
  have hi := inv_reachable hc h
  have hit := inv_next hi hs
  refine ⟨?_, ?_, ?_⟩
  · intro b hidle hscan
    cases l with
    | wk f => have := (wk_frame hs).1; rw [hidle, hscan] at this; cases this
    | api c f =>
      simp only [next, apiStep, hidle] at hs
      step_cases hs <;> simp_all
  · intro b i ok hscan hret
    cases l with
    | wk f => have := (wk_frame hs).1; rw [hscan, hret] at this; cases this
    | api c f =>
      simp only [next, apiStep, hscan] at hs
      step_cases hs <;> simp_all
      exact hit.wfCur
  · intro w ok hsend hret
    cases l with
    | wk f => have := (wk_frame hs).1; rw [hsend, hret] at this; cases this
    | api c f =>
      have hat := hi.atSend w hsend
      simp only [next, apiStep, hsend] at hs
      step_cases hs <;> simp_all
      exact hi.wfCur

open Hts.Model Hts.Model.ReadAhead in
/-- Read-ahead refines the sequential reader: without I/O faults, on every path, the block a completed
`nextBlock` installs is `⟨e, chain e⟩` for `e` the base following the previous current block, and the block a
completed (non-trivial) `Seek(off)` installs is `⟨off, chain off⟩` — exactly what the rd = 1 reader loads
synchronously (`Block.load` of `Hts.Model.Bgzf`), whatever the interleaving and however many stale blocks were
in flight. -/
theorem readahead_refines_sequential (cfg : Cfg) (hc : cfg.OK) (hf : cfg.faults = false)
    (s t : ReadAhead.State) (l : Label) (e : Option Ev) (h : Reachable cfg s) (hs : next cfg s l = some (e, t)) :
    (∀ b i ok, s.cons = .scan b i → t.cons = .ret ok → t.cur = ⟨some b, cfg.chain b⟩) ∧
    (∀ w ok, s.cons = .send w → t.cons = .ret ok → t.cur = ⟨some w, cfg.chain w⟩) := by
  have hord := readahead_in_order cfg hc s t l e h hs
  have hex := (exact_reachable hf (Reachable.step h ⟨l, e, hs⟩)).cur
  have key : ∀ b, t.cur.base = some b → t.cur = ⟨some b, cfg.chain b⟩ := by
    intro b hb
    have : t.cur.next = cfg.chain b := by simpa [Exact, hb] using hex
    cases hcur : t.cur with
    | mk base nx => rw [hcur] at hb this; simp only at hb this; rw [hb, this]
  exact ⟨fun b i ok h1 h2 => key b (hord.2.1 b i ok h1 h2).1, fun w ok h1 h2 => key w (hord.2.2 w ok h1 h2).1⟩

open Hts.Model Hts.Model.ReadAhead in
/-- A path of `n` steps from a reachable state has `n ≤ gmu`: the number of steps any execution of a script of
definite calls (no `nexts`) can take is bounded (counterpart of `C09.writer_path_bounded`). -/
theorem readahead_path_bounded (cfg : Cfg) (hc : cfg.OK) (n : Nat) (s t : ReadAhead.State)
    (hr : Reachable cfg s) (hn : Op.nexts ∉ s.script) (h : StepN cfg n s t) :
    n + gmu cfg t ≤ gmu cfg s :=
  path_bounded hc hr hn h

open Hts.Model Hts.Model.ReadAhead in
/-- Every pending call returns: from every reachable state the execution can be continued to a state where the
consumer has returned from the last call of its script (or from Close); maximal paths are finite by
`readahead_path_bounded` and cannot stop elsewhere by `readahead_deadlock_free` (counterpart of
`C09.writer_calls_return`), for every fault pattern. -/
theorem readahead_calls_return (cfg : Cfg) (hc : cfg.OK) (s : ReadAhead.State) (hr : Reachable cfg s)
    (hn : Op.nexts ∉ s.script) : ∃ k u, StepN cfg k s u ∧ ApiDone u :=
  calls_return hc hr hn

open Hts.Model Hts.Model.Bgzf Hts.Model.ReadAhead Hts.Spec.Flat in
/-- **Composition (File → Chain).**  For a well-formed file `F`, the protocol over `chainOf F` (defined with the
same `memberAt` as the sequential model) is a covered configuration for every rd ≥ 2, and, without faults, on
every path every completed `nextBlock`/`Seek` installs exactly the protocol view (`blkOf`) of the block the
sequential reader loads at that offset (`Block.load F _ e`: that member with its payload, or the failed block).
`Read`/`ReadByte`/`Seek` compute what they return from the current block only and obtain blocks only through
these two calls, and what the sequential reader returns over the same file is the flat bytes
(first conjunct = `read_refines_flat`): a history with rd > 1 returns the bytes of the flat copy at the logical
position.  (The step from "same blocks" to "same bytes" is the structure of the code, not a Lean statement:
the protocol model carries no payload.) -/
theorem readahead_history_returns_flat_bytes (F : File) (hwf : WF F) (r0 : Reader)
    (h0 : Reader.new F = .ok r0) (ops : List Spec.Flat.Op) (hv : ValidOps (layoutOf F) ops)
    (rd : Nat) (hrd : 2 ≤ rd) (script : List ReadAhead.Op) :
    (r0.run ops).map Reader.observe = (run (flatOf F) init ops).map observeFlat ∧
    (Cfg.mk rd (chainOf F) script false).OK ∧
    (∀ (s t : ReadAhead.State) (l : Label) (e : Option Ev),
      Reachable (Cfg.mk rd (chainOf F) script false) s →
      next (Cfg.mk rd (chainOf F) script false) s l = some (e, t) →
      (∀ b i ok b0, s.cons = .scan b i → t.cons = .ret ok → t.cur = blkOf (Block.load F b0 b).1) ∧
      (∀ w ok b0, s.cons = .send w → t.cons = .ret ok → t.cur = blkOf (Block.load F b0 w).1)) := by
  have hok := cfg_ok hwf rd hrd script false
  refine ⟨read_refines_flat F hwf r0 h0 ops hv, hok, fun s t l e hr hs => ?_⟩
  have := readahead_refines_sequential _ hok rfl s t l e hr hs
  exact ⟨fun b i ok b0 h1 h2 => by rw [this.1 b i ok h1 h2, blkOf_load hwf],
    fun w ok b0 h1 h2 => by rw [this.2 w ok h1 h2, blkOf_load hwf]⟩

open Hts.Model Hts.Model.Bgzf Hts.Model.ReadAhead Hts.Spec.Flat in
/-- **rd > 1 returns the flat bytes — as a statement about bytes.**  `Model/ReaderOverLTS.lean` puts the byte-level
code of `Read`/`ReadByte`/`Seek` (the loops of `Model/BgzfReader.lean`, written as a program `gRun r0 ops` that makes
a call where the sequential model loads a block) on top of the protocol: `Over cfg F p s outs t` runs the program
with every `nextBlock()`/`Seek` being the consumer's next script operation followed by ANY path of the LTS (any
interleaving with the worker) up to the consumer's return, the block delivered being the protocol's current block
with the payload of the file at its base.  For every well-formed file, every rd, every script of
nextBlock/Seek/Close operations, every valid history and EVERY such execution without faults from `NewReader`: per
operation the bytes, the error and the reader state (hence `LastChunk()`, `BlockLen()`) are those of the sequential
reader, hence those of the flat specification.  (An execution gets as far as the script agrees with the calls the
history makes; `readahead_bytes_execution_exists` gives the script with which it runs to the end.) -/
theorem readahead_bytes_refine_flat (F : File) (hwf : WF F) (r0 : Reader) (h0 : Reader.new F = .ok r0)
    (ops : List Spec.Flat.Op) (hv : ValidOps (layoutOf F) ops) (rd : Nat) (script : List ReadAhead.Op)
    (hn : ReadAhead.Op.nexts ∉ script) (outs : List (Out × Reader)) (t : ReadAhead.State)
    (h : Over ⟨rd, chainOf F, script, false⟩ F (gRun r0 ops)
      (ReadAhead.init ⟨rd, chainOf F, script, false⟩) outs t) :
    outs = r0.run ops ∧
    outs.map Reader.observe = (run (flatOf F) Spec.Flat.init ops).map observeFlat := by
  have := over_history_eq_sequential hwf h0 ops rd script hn outs t h
  exact ⟨this, by rw [this]; exact read_refines_flat F hwf r0 h0 ops hv⟩

open Hts.Model Hts.Model.Bgzf Hts.Model.ReadAhead Hts.Spec.Flat in
/-- The same for an ADAPTIVE client (`Client`: each operation chosen from the outputs and reader states seen so far,
as `bam.Reader`, `bam.Iterator` and `index.ChunkReader` do): every execution over the fault-free protocol returns
what the client gets from the sequential reader, and leaves the same reader state. -/
theorem readahead_client_refines_sequential {α : Type} (F : File) (hwf : WF F) (r0 : Reader)
    (h0 : Reader.new F = .ok r0) (c : Client α) (rd : Nat) (script : List ReadAhead.Op)
    (hn : ReadAhead.Op.nexts ∉ script) (res : α × Reader) (t : ReadAhead.State)
    (h : Over ⟨rd, chainOf F, script, false⟩ F (c.prog r0)
      (ReadAhead.init ⟨rd, chainOf F, script, false⟩) res t) :
    res = c.run r0 := by
  have ht := tracks_new hwf h0
  have := over_eq_seq (cfg := ⟨rd, chainOf F, script, false⟩) rfl rfl h .init hn
  rw [this]
  have hi : (ReadAhead.init ⟨rd, chainOf F, script, false⟩).cur = blkOf r0.cur := by rw [ht.2]; rfl
  rw [hi]
  exact client_seq hwf c r0 ht.1

open Hts.Model Hts.Model.Bgzf Hts.Model.ReadAhead Hts.Spec.Flat in
/-- **Such executions exist and run to the end.**  For every rd ≥ 2: with the calls the history makes as the
consumer's script (`Prog.calls`; followed by any further operations, e.g. `close`), the history runs over the
protocol to its last operation — every call returns (dead-lock freedom and the global measure; no fairness
assumption) — and by `readahead_bytes_refine_flat` whatever such an execution returns is the sequential
reader's answer. -/
theorem readahead_bytes_execution_exists (F : File) (hwf : WF F) (r0 : Reader) (ops : List Spec.Flat.Op)
    (rd : Nat) (hrd : 2 ≤ rd) (tl : List ReadAhead.Op) (htl : ReadAhead.Op.nexts ∉ tl) :
    ∃ outs t,
      Over ⟨rd, chainOf F, (gRun r0 ops).calls F ⟨some 0, chainOf F 0⟩ ++ tl, false⟩ F (gRun r0 ops)
        (ReadAhead.init ⟨rd, chainOf F, (gRun r0 ops).calls F ⟨some 0, chainOf F 0⟩ ++ tl, false⟩) outs t :=
  over_exists (cfg_ok hwf rd hrd _ false) rfl rfl (gRun r0 ops) _ tl .init rfl rfl htl

open Hts.Model Hts.Model.ReadAhead in
/-- After `Close` has returned the worker goroutine has returned. -/
theorem reader_no_leak (cfg : Cfg) (hc : cfg.OK) (s : ReadAhead.State) (h : Reachable cfg s) (hcl : s.cons = .closed) :
    ∃ held, s.worker = .exited held :=
  (inv_reachable hc h).closed hcl

open Hts.Model Hts.Model.ReadAhead in
/-- Non-vacuity: three members, rd = 2; read ahead, Seek back to the first member while stale blocks are in
flight (synchronous path), nextBlock skips a stale block, Close; the consumer ends in `closed`. -/
example :
    let cfg : Cfg := ⟨2, fun b => if b < 90 ∧ b % 30 = 0 then some (b + 30) else none, [.next, .seek 0, .next, .close], false⟩
    (runLabels cfg (init cfg)
      [.wk false, .wk false, .wk false, .wk false, .wk false, .wk false, .wk false, .wk false,
       .api false false, .api false false, .wk false, .wk false, .wk false, .wk false, .api false false, .api false false,
       .api true false, .api false false, .api false false, .api false false, .wk false, .wk false, .wk false, .wk false,
       .api false false, .api false false, .api false false, .api false false, .api false false, .api false false, .wk false, .wk false,
       .wk false, .wk false, .api false false, .api false false, .api false false, .wk false, .api false false]).map (·.cons) = some .closed := by
  decide

open Hts.Model Hts.Model.ReadAhead in
/-- Non-vacuity with faults: rd = 2, the worker's second load fails (`.wk true`); after `Seek 60` the consumer's
`nextBlock` meets the failed block of another offset and takes the synchronous fall-back (`fetch 90`). -/
example :
    let cfg : Cfg := ⟨2, fun b => if b < 120 ∧ b % 30 = 0 then some (b + 30) else none, [.seek 60, .next, .close], true⟩
    (runLabels cfg (init cfg)
      [.api false false, .api false false, .api false false, .api false false, .wk false, .wk false,
       .api false false, .api false false, .api false false, .wk true, .wk false, .api false false]).map (·.cons) =
      some (.fetch 90) := by
  decide

/-! ### Non-vacuity: the hypotheses are satisfiable by a file with empty members in the middle and at the
end and by a history that seeks, crosses block ends, hits the end of the data and toggles Blocked mode. -/

def exOps : List Op :=
  [.read 2, .read 5, .read 1, .seek ⟨30, 0⟩, .read 1, .setBlocked true, .seek ⟨0, 1⟩, .read 9, .read 9, .readByte]

example : WF exFile := exFile_wf

example : ValidOps (layoutOf exFile) exOps := by
  simp [ValidOps, exOps, layoutOf, exFile, seekTarget]

example : ∃ r0, Reader.new exFile = .ok r0 ∧
    (r0.run exOps).map (fun p => (p.1.bytes, p.1.err)) =
      [([1, 2], none), ([3, 4, 5], some .eof), ([], some .eof), ([], none), ([4], none), ([], none),
       ([], none), ([2, 3], some .eof), ([4, 5], some .eof), ([0], some .eof)] :=
  ⟨_, rfl, by decide⟩

open Hts.Model Hts.Model.ReadAhead in
/-- Non-vacuity of `readahead_bytes_refine_flat`: over `exFile` with rd = 3 the history `exOps` makes these eleven
calls into the protocol; an execution over the protocol with that script (then `close`) exists, and whatever any
such execution returns is the list above. -/
example : ∃ r0, Reader.new exFile = .ok r0 ∧
    (gRun r0 exOps).calls exFile ⟨some 0, chainOf exFile 0⟩ =
      [.next, .next, .next, .next, .seek 30, .next, .seek 0, .next, .next, .next, .next] ∧
    (∃ outs t, Over ⟨3, chainOf exFile, (gRun r0 exOps).calls exFile ⟨some 0, chainOf exFile 0⟩ ++ [.close], false⟩
        exFile (gRun r0 exOps)
        (ReadAhead.init ⟨3, chainOf exFile, (gRun r0 exOps).calls exFile ⟨some 0, chainOf exFile 0⟩ ++ [.close], false⟩)
        outs t) :=
  ⟨_, rfl, by decide, readahead_bytes_execution_exists exFile exFile_wf _ exOps 3 (by decide) [.close] (by simp)⟩

example : (flatOf exFile).WF := flatOf_wf exFile_wf

end Hts.Props.C02
