/-
C02 — property theorems (stub: no theorem stated yet, so no obligation is counted).
-/
namespace Hts.Props.C02
end Hts.Props.C02
