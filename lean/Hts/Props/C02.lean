/-
C02 — virtual offsets address the flat stream: property theorems.

Model: `Hts.Model.Bgzf.Reader` (bgzf/reader.go Read/ReadByte/Seek/nextBlock, cache.go block), a file being the list
of its members (payload, compressed size).  Specification: `Hts.Spec.Flat` (a flat byte string, a logical position).
All statements are for every well-formed file (any number of members, payloads of 0..65535 bytes, with or without
trailing empty members/EOF marker), every history (any length) of Read(n)/ReadByte/Seek/Blocked toggles whose seeks
go to a block start plus an offset up to the block's length.
-/
import Hts.Lemmas.ReaderProps
import Hts.Lemmas.ReaderLTS
namespace Hts.Props.C02
open Hts.Model.Bgzf Hts.Spec.Flat

/-- **Refinement.** For every well-formed file and every valid history, what the reader model returns per
operation — the bytes, the error, and `LastChunk()` after the call — is what the flat specification
returns: the bytes of the flat copy at the logical position implied by the history, `io.EOF` exactly when
the data (in Blocked mode: the block) ended, `Begin`/`End` the offsets before/after the bytes. -/
theorem read_refines_flat (F : File) (hwf : WF F) (r0 : Reader) (h0 : Reader.new F = .ok r0)
    (ops : List Op) (hv : ValidOps (layoutOf F) ops) :
    (r0.run ops).map Reader.observe = (run (flatOf F) init ops).map observeFlat :=
  run_refines hwf ops r0 init (sim_new h0) hv

/-- The only error a valid history ever sees is `io.EOF`: the model's fuel bounds are never hit, nothing
panics, no seek fails. -/
theorem errors_are_eof_only (F : File) (hwf : WF F) (r0 : Reader) (h0 : Reader.new F = .ok r0)
    (ops : List Op) (hv : ValidOps (layoutOf F) ops) :
    ∀ p ∈ r0.run ops, p.1.err = none ∨ p.1.err = some .eof := by
  intro p hp
  have h := read_refines_flat F hwf r0 h0 ops hv
  have hm : Reader.observe p ∈ (r0.run ops).map Reader.observe := List.mem_map_of_mem hp
  rw [h] at hm
  obtain ⟨o, _, ho⟩ := List.mem_map.mp hm
  have : p.1.err = errOf o.eof := by
    have := congrArg (fun x => x.2.1) ho
    simpa [Reader.observe, observeFlat] using this.symm
  rw [this]; cases o.eof <;> simp [errOf]

/-- In the flat specification a read returns bytes of the flat copy starting at the logical position. -/
theorem flat_read_exact (F : FlatFile) (s : State) (n : Nat) :
    ∃ m, m ≤ n ∧ (Hts.Spec.Flat.read F s n).bytes = (F.bytes.drop s.pos).take m :=
  read_bytes_flat F s n

/-- … it is short or empty only together with `io.EOF` … -/
theorem flat_short_only_with_eof {F : FlatFile} (hF : F.WF) (s : State) (n : Nat)
    (h : (Hts.Spec.Flat.read F s n).bytes.length < n) : (Hts.Spec.Flat.read F s n).eof = true :=
  read_short_eof hF s n h

/-- … and `io.EOF` is reported exactly at the end of the data or when more was requested than the data
(Blocked: the block that holds the position) still holds. -/
theorem flat_eof_iff (F : FlatFile) (s : State) (n : Nat) :
    (Hts.Spec.Flat.read F s n).eof = true ↔
      total F.layout ≤ s.pos ∨
      (if s.blocked then blockRem F.layout s.pos else total F.layout - s.pos) < n :=
  read_eof_iff F s n

/-- After each successful read `Begin` and `End` translate to the logical positions just before and just
after the bytes returned; `Begin` is a seek target. -/
theorem lastchunk_translates {F : FlatFile} (hF : F.WF) (s : State) (n : Nat)
    (hok : (Hts.Spec.Flat.read F s n).eof = false ∨ (Hts.Spec.Flat.read F s n).bytes ≠ []) :
    seekTarget F.layout (Hts.Spec.Flat.read F s n).st.last.bgn = some s.pos ∧
    toLogical F.layout (Hts.Spec.Flat.read F s n).st.last.fin =
      some (s.pos + (Hts.Spec.Flat.read F s n).bytes.length) ∧
    (Hts.Spec.Flat.read F s n).st.pos = s.pos + (Hts.Spec.Flat.read F s n).bytes.length :=
  read_chunk_translates hF s n hok

/-- **Replay.** After any valid history, if a `Read(n)` succeeds (no error, or some bytes), then seeking to
the reported `Begin` succeeds and the same `Read(n)` returns the same bytes, the same error and the same
chunk again. -/
theorem seek_begin_replays (F : File) (hwf : WF F) (r0 : Reader) (h0 : Reader.new F = .ok r0)
    (ops : List Op) (hv : ValidOps (layoutOf F) ops) (n : Nat)
    (hok : ((r0.after ops).read n).2.2 = none ∨ ((r0.after ops).read n).2.1 ≠ []) :
    (((r0.after ops).read n).1.seek ((r0.after ops).read n).1.lastChunk.bgn).2 = none ∧
    ((((r0.after ops).read n).1.seek ((r0.after ops).read n).1.lastChunk.bgn).1.read n).2 =
      ((r0.after ops).read n).2 ∧
    ((((r0.after ops).read n).1.seek ((r0.after ops).read n).1.lastChunk.bgn).1.read n).1.lastChunk =
      ((r0.after ops).read n).1.lastChunk := by
  have hsim := sim_after hwf ops r0 init (sim_new h0) hv
  generalize r0.after ops = r at *
  generalize stateAfter (flatOf F) init ops = s at *
  have ⟨hb, he, hs1⟩ := sim_read hwf hsim n
  have hok' : (Hts.Spec.Flat.read (flatOf F) s n).eof = false ∨ (Hts.Spec.Flat.read (flatOf F) s n).bytes ≠ [] := by
    rcases hok with h | h
    · left; rw [he] at h; cases hq : (Hts.Spec.Flat.read (flatOf F) s n).eof <;> simp_all [errOf]
    · right; rwa [← hb]
  have ⟨ht, _, _⟩ := read_chunk_translates (flatOf_wf hwf) s n hok'
  have hlt : s.pos < total (flatOf F).layout := by
    by_cases hp : total (flatOf F).layout ≤ s.pos
    · simp [Hts.Spec.Flat.read, hp] at hok'
    · omega
  rw [hs1.last]
  have ⟨hk1, hk2⟩ := sim_seek hwf hs1 _ _ ht
  have ⟨hb2, he2, hs2⟩ := sim_read hwf hk2 n
  have hcongr := flat_read_congr (flatOf F)
    (State.mk s.pos (Hts.Spec.Flat.read (flatOf F) s n).st.blocked
      ⟨(Hts.Spec.Flat.read (flatOf F) s n).st.last.bgn, (Hts.Spec.Flat.read (flatOf F) s n).st.last.bgn⟩)
    s n rfl (flat_read_blocked (flatOf F) s n) hlt
  rw [hcongr] at hb2 he2 hs2
  refine ⟨hk1, ?_, ?_⟩
  · apply Prod.ext
    · rw [hb2, hb]
    · rw [he2, he]
  · rw [hs2.last]

/-! ### The read-ahead protocol (rd > 1), partial

`Hts.Model.ReadAhead` is the worker/consumer protocol of the cache-free reader as a transition system.  The
full statements (all paths, including `Seek`'s redirects through `control`) are kept visible below as
propositions; what is proved is the part for paths without `Seek` steps ("between redirects"): the consumer
never sees an unexpected block, blocks are delivered in file order, decompressors are conserved, and a
consumer waiting in `nextBlock` never dead-locks.  For the rest the schedule clause of C02 is carried by
the correspondence check (rd 0/2/4, GOMAXPROCS 1/4/16, delayed underlying reader). -/

open Hts.Model.ReadAhead in
/-- Full statement (not proved): the `panic("bgzf: unexpected block")` branch is unreachable on every path. -/
def readahead_no_unexpected_block_full : Prop :=
  ∀ (chain : Chain) (rd : Nat), 2 ≤ rd → ∀ s, Reach chain rd (fun _ => true) s → s.cons ≠ .panicked

open Hts.Model.ReadAhead in
/-- Full statement (not proved): on every path, whenever the consumer is inside a call some thread can move. -/
def readahead_deadlock_free_full : Prop :=
  ∀ (chain : Chain) (rd : Nat), 2 ≤ rd → ∀ s, Reach chain rd (fun _ => true) s → s.cons ≠ .idle →
    s.cons ≠ .panicked → ∃ l t, Step chain s l t

open Hts.Model.ReadAhead in
/-- Between redirects the consumer never reaches `panic("bgzf: unexpected block")`, for every file, every
number of decompressors and every interleaving of worker and consumer. -/
theorem readahead_no_unexpected_block_partial (chain : Chain) (rd : Nat) (s : St)
    (h : Reach chain rd noSeek s) : s.cons ≠ .panicked := by
  have hi := inv_reach h
  rcases hi.cons with hc | ⟨i, hc, _, _⟩ <;> rw [hc] <;> simp

open Hts.Model.ReadAhead in
/-- Between redirects every block the consumer receives from `working` is the member of the file that
starts at the base it expects (in-order delivery; no block is skipped, repeated or out of place). -/
theorem readahead_in_order_partial (chain : Chain) (rd : Nat) (s t : St) (h : Reach chain rd noSeek s)
    (hs : Step chain s .cRecv t) :
    ∃ b rest, s.working = b :: rest ∧ s.cur.next = some b.base ∧ b.next = chain b.base ∧
      t.cur = b ∧ t.cons = .idle ∧ t.working = rest := by
  have hi := inv_reach h
  cases hs with
  | cRecv i b rest h1 h2 h3 =>
    have hb : s.cur.next = some b.base ∧ b.next = chain b.base ∧
        IsChain chain b.next (rest ++ s.worker.pending) (wnext s) := by
      simpa [pipeline, h2, IsChain] using hi.chain_
    refine ⟨b, rest, h2, hb.1, hb.2.1, ?_⟩
    simp [hb.1]

open Hts.Model.ReadAhead in
/-- Decompressors are conserved: idle + carrying a block + held by a thread = rd. -/
theorem readahead_conservation_partial (chain : Chain) (rd : Nat) (s : St) (h : Reach chain rd noSeek s) :
    s.waiting + s.working.length + held s = rd ∧ s.working.length ≤ rd :=
  ⟨(inv_reach h).count, by have := (inv_reach h).count; omega⟩

open Hts.Model.ReadAhead in
/-- Between redirects a consumer waiting in `nextBlock` is never stuck: the block it waits for is in
`working`, or the worker can take a decompressor, read, or send. -/
theorem readahead_deadlock_free_partial (chain : Chain) (rd : Nat) (hrd : 1 ≤ rd) (s : St)
    (h : Reach chain rd noSeek s) (i : Nat) (hc : s.cons = .scan i) :
    ∃ l t, noSeek l = true ∧ Step chain s l t :=
  scan_can_step hrd (inv_reach h) i hc

open Hts.Model.ReadAhead in
/-- Non-vacuity: a three-member file, rd = 2; the worker reads ahead and the consumer receives the block. -/
example : ∃ s, Reach (fun b => if b < 90 then some (b + 30) else none) 2 noSeek s ∧
    s.cur = ⟨30, some 60⟩ ∧ s.cons = .idle := by
  let chain : Chain := fun b => if b < 90 then some (b + 30) else none
  have r0 : Reach chain 2 noSeek (init chain 2) := .init
  have r1 := Reach.step _ _ _ r0 (rfl : noSeek .wTake = true) (Step.wTake _ _ rfl (by decide))
  have r2 := Reach.step _ _ _ r1 (rfl : noSeek .wRead = true) (Step.wRead _ 30 rfl rfl)
  have r3 := Reach.step _ _ _ r2 (rfl : noSeek .wPush = true) (Step.wPush _ _ rfl (by decide))
  have r4 := Reach.step _ _ _ r3 (rfl : noSeek .cNext = true) (Step.cNext _ 30 rfl rfl)
  have r5 := Reach.step _ _ _ r4 (rfl : noSeek .cRecv = true) (Step.cRecv _ 0 ⟨30, some 60⟩ [] rfl rfl (by decide))
  exact ⟨_, r5, rfl, rfl⟩

/-! ### Non-vacuity: the hypotheses are satisfiable by a file with empty members in the middle and at the
end and by a history that seeks, crosses block ends, hits the end of the data and toggles Blocked mode. -/

def exOps : List Op :=
  [.read 2, .read 5, .read 1, .seek ⟨30, 0⟩, .read 1, .setBlocked true, .seek ⟨0, 1⟩, .read 9, .read 9, .readByte]

example : WF exFile := exFile_wf

example : ValidOps (layoutOf exFile) exOps := by
  simp [ValidOps, exOps, layoutOf, exFile, seekTarget]

example : ∃ r0, Reader.new exFile = .ok r0 ∧
    (r0.run exOps).map (fun p => (p.1.bytes, p.1.err)) =
      [([1, 2], none), ([3, 4, 5], some .eof), ([], some .eof), ([], none), ([4], none), ([], none),
       ([], none), ([2, 3], some .eof), ([4, 5], some .eof), ([0], some .eof)] :=
  ⟨_, rfl, by decide⟩

example : (flatOf exFile).WF := flatOf_wf exFile_wf

end Hts.Props.C02
