/-
C13 — record chunks are replayable: property theorems.

Model: `Hts.Model.Bgzf.BamReader` / `Iterator` (bam/reader.go newBuffer, Read's limit test, SetChunk, Iterator) and
`Hts.Model.Bgzf.ChunkReader` (bgzf/index/index.go) over the bgzf reader model of C02.  A BAM file is any
well-formed BGZF file (any block layout: records may end on, before or after block ends and span blocks; empty
blocks anywhere) whose flat stream is a header followed by length-prefixed records.  The bgzf reader is the
sequential one (rd = 1, no cache); C02's `readahead_history_returns_flat_bytes` is the statement for rd > 1.
Records are opaque bodies (decoding is C05/C11).
-/
import Hts.Lemmas.BamFile
import Hts.Lemmas.CRRun
import Hts.Lemmas.BamOverLTS
import Hts.Props.C02
namespace Hts.Props.C13
open Hts.Model.Bgzf Hts.Spec.Flat

/-- `F` is a BAM file: the header decoder's reads `hs` are in order, and from the end of the header on the
flat stream is exactly the records `bs` (bodies of 1..2^31-1 bytes, each preceded by its `block_size`). -/
structure BamFile (F : File) (hs : List Nat) (bs : List (List UInt8)) : Prop where
  wf : WF F
  hdr : HdrOk (flatLen F) 0 hs
  le : sumNat hs ≤ flatLen F
  recs : RecAt F (sumNat hs) bs

/-- The chunks noted by a sequential pass over the whole file. -/
def seqChunks (br0 : BamReader) (n : Nat) : List Chunk := (br0.readN (n + 1)).2.1.map (·.2)

/-- Reading sequentially returns every record, then `io.EOF`; the chunk noted after record `i` runs from the
offset before its size field to the offset after its last byte. -/
theorem sequential_pass {F : File} {hs : List Nat} {bs : List (List UInt8)} (hB : BamFile F hs bs)
    (br0 : BamReader) (h0 : BamReader.new F hs = .ok br0) :
    (br0.readN (bs.length + 1)).2 = (bs.zip (recChunks (layoutOf F) (sumNat hs) bs), some .eof) := by
  obtain ⟨hc, s, hs0, hp⟩ := bam_new hB.wf hs br0 h0 hB.hdr
  have := readN_sequential hB.wf bs br0 s hs0 hc (hp ▸ hB.recs) (hp ▸ hB.le)
  rw [hp] at this; exact this.1

theorem seqChunks_eq {F : File} {hs : List Nat} {bs : List (List UInt8)} (hB : BamFile F hs bs)
    (br0 : BamReader) (h0 : BamReader.new F hs = .ok br0) :
    seqChunks br0 bs.length = recChunks (layoutOf F) (sumNat hs) bs := by
  simp only [seqChunks, sequential_pass hB br0 h0]
  rw [List.map_snd_zip]
  rw [recChunks_length]; exact Nat.le_refl _

/-- **Monotone.** The chunks reported by the sequential pass are ordered by `vOffset`: `Begin < End` for each
record, and `End_i ≤ Begin_{i+1}` — also when `End_i` is `(base, len)` and `Begin_{i+1}` is `(next base, 0)`. -/
theorem record_chunks_monotone {F : File} {hs : List Nat} {bs : List (List UInt8)} (hB : BamFile F hs bs)
    (br0 : BamReader) (h0 : BamReader.new F hs = .ok br0) :
    ChunksMonotone (seqChunks br0 bs.length) := by
  rw [seqChunks_eq hB br0 h0]
  apply recChunks_monotone (lwf_of_wf hB.wf)
  have := hB.recs.total hB.le
  simp; omega

/-- **Replay.** Let the records be `A ++ M ++ B` with `M` non-empty (records `i..j`).  From *any* state of a
`bam.Reader` over the file, `SetChunk` to `[Begin of the first record of M, End of its last record]` (as noted
by the sequential pass) succeeds, and reading then yields exactly the records `M`, each with the chunk the
sequential pass noted for it, and then `io.EOF`. -/
theorem chunk_replay {F : File} {hs : List Nat} {bs : List (List UInt8)} (hB : BamFile F hs bs)
    (br0 : BamReader) (h0 : BamReader.new F hs = .ok br0)
    (A M B : List (List UInt8)) (hbs : bs = A ++ M ++ B) (hM : M ≠ [])
    (br : BamReader) (s : State) (hbr : BSim F br s) :
    let cM := ((seqChunks br0 bs.length).drop A.length).take M.length
    (br.setChunk (some (spanChunk cM))).2 = none ∧
    ((br.setChunk (some (spanChunk cM))).1.readN (M.length + 1)).2 = (M.zip cM, some .eof) := by
  subst hbs
  intro cM
  have hseq := seqChunks_eq hB br0 h0
  have hspan : spanChunk cM = ChunkSpec.chunk (layoutOf F) ⟨sumNat hs + recSize A, M, B⟩ := by
    simp only [cM, hseq]; exact spanChunk_run _ _ A M B hM
  have hcM : cM = recChunks (layoutOf F) (sumNat hs + recSize A) M := by
    simp only [cM, hseq]
    rw [List.append_assoc, recChunks_append, recChunks_append,
      List.drop_left' (recChunks_length _ _ A), List.take_left' (recChunks_length _ _ M)]
  have hrec : RecAt F (sumNat hs + recSize A) (M ++ B) := by
    have hr := hB.recs
    rw [List.append_assoc] at hr
    exact hr.skip
  have htot := hB.recs.total hB.le
  have hv : ChunkSpec.Valid F ⟨sumNat hs + recSize A, M, B⟩ := by
    refine ⟨hM, hrec, ?_⟩
    rw [List.append_assoc, recSize_append] at htot
    simp only []; omega
  have ⟨k1, k2⟩ := inchunk_setChunk hB.wf hbr _ hv
  rw [hspan]
  exact ⟨k1, by rw [readN_inchunk hB.wf M _ _ _ B k2, hcM]⟩

/-- A request for the records `M` out of `bs = A ++ M ++ B`. -/
structure Request (bs : List (List UInt8)) where
  A : List (List UInt8)
  M : List (List UInt8)
  B : List (List UInt8)
  split : bs = A ++ M ++ B
  nonempty : M ≠ []

/-- The chunk of a request, from the chunks noted by the sequential pass. -/
def Request.chunk {bs : List (List UInt8)} (seq : List Chunk) (q : Request bs) : Chunk :=
  spanChunk ((seq.drop q.A.length).take q.M.length)

def requested {bs : List (List UInt8)} : List (Request bs) → List (List UInt8)
  | [] => []
  | q :: qs => q.M ++ requested qs

/-- **Iterator.** For any non-empty list of such chunks in any order (overlapping, repeated, backwards), from
any reader state: `NewIterator` succeeds, the `Next` loop sees exactly the records of the first chunk, then of
the second, … in the order the chunks are listed, then `Next` returns false and `Error()` is nil. -/
theorem iterator_replay {F : File} {hs : List Nat} {bs : List (List UInt8)} (hB : BamFile F hs bs)
    (br0 : BamReader) (h0 : BamReader.new F hs = .ok br0)
    (q : Request bs) (qs : List (Request bs))
    (br : BamReader) (s : State) (hbr : BSim F br s) (fuel : Nat) (hf : (requested (q :: qs)).length < fuel) :
    ∃ it, Iterator.new br ((q :: qs).map (Request.chunk (seqChunks br0 bs.length))) = .ok it ∧
      (it.collect fuel).2 = requested (q :: qs) ∧ (it.collect fuel).1.error = none := by
  have hseq := seqChunks_eq hB br0 h0
  let spec : Request bs → ChunkSpec := fun q => ⟨sumNat hs + recSize q.A, q.M, q.B⟩
  have hchunk : ∀ q : Request bs, Request.chunk (seqChunks br0 bs.length) q = (spec q).chunk (layoutOf F) := by
    intro q
    simp only [Request.chunk, hseq, spec]
    have := spanChunk_run (layoutOf F) (sumNat hs) q.A q.M q.B q.nonempty
    rw [← q.split] at this; exact this
  have htot := hB.recs.total hB.le
  have hvalid : ∀ q : Request bs, (spec q).Valid F := by
    intro q
    have hr := hB.recs
    refine ⟨q.nonempty, ?_, ?_⟩
    · rw [q.split, List.append_assoc] at hr
      exact hr.skip
    · have := htot
      rw [q.split, List.append_assoc, recSize_append] at this
      simp only [spec]; omega
  have hmap : (q :: qs).map (Request.chunk (seqChunks br0 bs.length)) =
      ((spec q) :: qs.map spec).map (·.chunk (layoutOf F)) := by
    simp only [List.map_cons, List.map_map, hchunk]
    congr 1
    apply List.map_congr_left; intro x _; exact hchunk x
  have hreq : ∀ l : List (Request bs), specRecords (l.map spec) = requested l := by
    intro l
    induction l with
    | nil => rfl
    | cons x l ih => simp [specRecords, requested, ih, spec]
  have := iterator_new hB.wf hbr (spec q) (qs.map spec)
    (by intro x hx; simp at hx; rcases hx with rfl | ⟨y, _, rfl⟩ <;> exact hvalid _)
    fuel (by rw [← List.map_cons, hreq]; exact hf)
  rw [hmap]
  rw [← List.map_cons, hreq] at this
  exact this

/-- With no chunks left the `Next` loop is the plain `Read` loop. -/
theorem collect_nil_eq_readN (fuel : Nat) (br : BamReader) :
    ((Iterator.mk br [] none).collect fuel).2 = (br.readN fuel).2.1.map (·.1) := by
  induction fuel generalizing br with
  | zero => rfl
  | succ k ih =>
    simp only [Iterator.collect, Iterator.next, Iterator.nextAux, BamReader.readN]
    cases h : br.read with
    | mk br' res =>
      cases res with
      | ok rec => simp only [List.map_cons, ih br']
      | error e => rfl

/-- **Iterator over the empty list** (`NewIterator(r, nil)`: `return &Iterator{r: r}, nil`): no `SetChunk`, so the
iterator is the reader as it stands — it yields what `Read` yields from the reader's current position under the
reader's current chunk limit, not the empty list of records.  `iterator_replay` therefore needs `q :: qs`. -/
theorem iterator_empty_is_reader (br : BamReader) (fuel : Nat) :
    Iterator.new br [] = .ok ⟨br, [], none⟩ ∧
    ((Iterator.mk br [] none).collect fuel).2 = (br.readN fuel).2.1.map (·.1) :=
  ⟨rfl, collect_nil_eq_readN fuel br⟩

/-- Witness that `iterator_replay` is false for the empty request list: over `exBam`, from the fresh reader, the
iterator over no chunks yields both records. -/
theorem iterator_replay_empty_witness :
    ∃ br0, BamReader.new exBam [4] = .ok br0 ∧ ∃ it, Iterator.new br0 [] = .ok it ∧
      (it.collect 3).2 = [[9], [7, 8]] ∧ (it.collect 3).2 ≠ requested (bs := [[9], [7, 8]]) [] :=
  ⟨_, rfl, _, rfl, by decide, by decide⟩

/-- `newBuffer` reports `io.EOF` only at a record boundary: the stream ended before the first byte of a size
field, or the size field is 0.  A stream that ends after a size field (even with no byte of the body) is
`io.ErrUnexpectedEOF` (bam/reader.go: `if err == io.EOF { err = io.ErrUnexpectedEOF }`), so `Iterator.Next`
stops there instead of moving on to the next chunk. -/
theorem newBuffer_eof_only_at_record_boundary (br : BamReader) (h : br.newBuffer.2 = .error .eof) :
    (readFull br.r 4).2.2 = some .eof ∨
    ((readFull br.r 4).2.2 = none ∧ leInt32 (readFull br.r 4).2.1 = 0) := by
  unfold BamReader.newBuffer at h
  rcases h4 : readFull br.r 4 with ⟨r1, szb, e1⟩
  rw [h4] at h
  cases e1 with
  | some e => simp only at h; left; simp at h; simp [h]
  | none =>
    simp only at h
    by_cases hz : leInt32 szb = 0
    · right; exact ⟨rfl, hz⟩
    · simp only [hz, if_false] at h
      by_cases hn : leInt32 szb < 0
      · simp [hn] at h
      · simp only [hn, if_false] at h
        rcases hb : readFull r1 (leInt32 szb).toNat with ⟨r2, body, e2⟩
        rw [hb] at h
        cases e2 with
        | none => simp at h
        | some e => 
          simp only at h
          by_cases he : e = .eof
          · simp [he] at h
          · simp [he] at h

/-- Every state a `bam.Reader` can be driven into by `Read`, `SetChunk` (to a chunk whose `Begin` is a seek
target) and `SetChunk(nil)` is one of the states the two theorems above quantify over. -/
theorem reader_states_closed {F : File} (hwf : WF F) (br : BamReader) (s : State) (h : BSim F br s) :
    (∃ s', BSim F br.read.1 s') ∧
    (∀ c, (∀ c', c = some c' → (seekTarget (layoutOf F) c'.bgn).isSome) → ∃ s', BSim F (br.setChunk c).1 s') :=
  ⟨bsim_read hwf h, fun c hv => bsim_setChunk hwf h c hv⟩

/-- **ChunkReader.** For every well-formed file, from any state of the underlying `bgzf.Reader`, and for every
list of chunks that is ordered and non-overlapping (each `Begin` a seek target, each `End` any offset that
names a position — any representation, including `(next base, 0)`, an empty block's `(base, 0)` or
`(fileLen, 0)` — chunks may touch or be empty): `NewChunkReader` succeeds, and for **any** sequence of buffer
sizes the bytes the client loop sees are a prefix of the flat bytes between each `Begin` and `End`,
concatenated; the only error is `io.EOF`; when it is reported exactly those bytes have been delivered; and
with non-empty buffers it is reported after at most `readBound` calls.
(About the repaired `Read`, fixes/C13-1-chunkreader-empty-chunk.diff.) -/
theorem chunkreader_exact {F : File} (hwf : WF F) (r0 : Reader) (s : State) (hsim : Sim F r0 s)
    (xs : List CSpec) (hv : ∀ x ∈ xs, x.Valid F) (ho : Ordered xs) :
    ∃ cr, ChunkReader.new r0 (xs.map (·.c)) = .ok cr ∧ ∀ ns : List Nat,
      (∃ rest, expected F xs = (cr.readAll ns).1 ++ rest) ∧
      ((cr.readAll ns).2 = none ∨ (cr.readAll ns).2 = some .eof) ∧
      ((cr.readAll ns).2 = some .eof → (cr.readAll ns).1 = expected F xs) ∧
      ((∀ n ∈ ns, 0 < n) → readBound F xs < ns.length → (cr.readAll ns).2 = some .eof) :=
  chunkReader_spec hwf hsim xs hv ho

/-! ### rd > 1

`Model/BamOverLTS.lean` writes `bam.NewReader`'s header reads, `Read` (`newBuffer` with its two `io.ReadFull`s and
the limit test), `SetChunk` and the read loop as CLIENTS of the bgzf reader (`Client`: a computation that uses the
reader only through Read/Seek and what they return; `cReadN_run` etc.: over the sequential reader they are the
functions of `Model/BamChunks.lean`).  `C02.readahead_client_refines_sequential` then carries the two main statements
over the read-ahead protocol: every rd, every script of the consumer (without `nexts`), every path of the LTS
(every interleaving with the worker), no faults. -/

section OverProtocol
open Hts.Model Hts.Model.ReadAhead

/-- **Sequential pass with rd > 1.**  Opening the file and reading `|bs| + 1` times over the read-ahead protocol
returns, in every execution, every record with the chunk `sequential_pass` states, then `io.EOF`. -/
theorem sequential_pass_rd {F : File} {hs : List Nat} {bs : List (List UInt8)} (hB : BamFile F hs bs)
    (r0 : Reader) (h0r : Reader.new F = .ok r0) (br0 : BamReader) (h0 : BamReader.new F hs = .ok br0)
    (rd : Nat) (script : List ReadAhead.Op) (hn : ReadAhead.Op.nexts ∉ script)
    (res : Option (List (List UInt8 × Chunk) × Option Err) × Reader) (t : ReadAhead.State)
    (h : Over ⟨rd, chainOf F, script, false⟩ F ((cSeqPass hs (bs.length + 1) r0).prog r0)
      (ReadAhead.init ⟨rd, chainOf F, script, false⟩) res t) :
    res.1 = some (bs.zip (recChunks (layoutOf F) (sumNat hs) bs), some .eof) := by
  rw [Hts.Props.C02.readahead_client_refines_sequential F hB.wf r0 h0r _ rd script hn res t h,
    cSeqPass_run h0r hs _ br0 h0, sequential_pass hB br0 h0]

/-- **Replay with rd > 1.**  Opening the file, `SetChunk` to the span of the records `M` (chunks as noted by the
sequential pass) and reading over the read-ahead protocol: in every execution `SetChunk` succeeds and exactly the
records `M` come back, each with its chunk, then `io.EOF`. -/
theorem chunk_replay_rd {F : File} {hs : List Nat} {bs : List (List UInt8)} (hB : BamFile F hs bs)
    (r0 : Reader) (h0r : Reader.new F = .ok r0) (br0 : BamReader) (h0 : BamReader.new F hs = .ok br0)
    (A M B : List (List UInt8)) (hbs : bs = A ++ M ++ B) (hM : M ≠ [])
    (rd : Nat) (script : List ReadAhead.Op) (hn : ReadAhead.Op.nexts ∉ script)
    (res : Option (Option Err × List (List UInt8 × Chunk) × Option Err) × Reader) (t : ReadAhead.State)
    (h : Over ⟨rd, chainOf F, script, false⟩ F
      ((cReplay hs (spanChunk (((seqChunks br0 bs.length).drop A.length).take M.length)) (M.length + 1) r0).prog r0)
      (ReadAhead.init ⟨rd, chainOf F, script, false⟩) res t) :
    res.1 = some (none, M.zip (((seqChunks br0 bs.length).drop A.length).take M.length), some .eof) := by
  obtain ⟨_, s, hs0, _⟩ := bam_new hB.wf hs br0 h0 hB.hdr
  have hr := chunk_replay hB br0 h0 A M B hbs hM br0 s hs0
  simp only at hr
  rw [Hts.Props.C02.readahead_client_refines_sequential F hB.wf r0 h0r _ rd script hn res t h,
    cReplay_run h0r hs _ _ br0 h0, hr.1, hr.2]

end OverProtocol

/-! ### Non-vacuity -/

example : BamFile exBam [4] [[9], [7, 8]] :=
  ⟨exBam_wf, by simp [HdrOk, exBam, flatLen], by simp [sumNat, exBam, flatLen],
   ⟨by decide, by intro b hb; simp at hb; rcases hb with rfl | rfl <;> simp⟩⟩

example : ∃ br0, BamReader.new exBam [4] = .ok br0 ∧
    (br0.readN 3).2 = ([([9], ⟨⟨0, 4⟩, ⟨0, 9⟩⟩), ([7, 8], ⟨⟨68, 0⟩, ⟨101, 3⟩⟩)], some .eof) :=
  ⟨_, rfl, by decide⟩

/-- Two chunks over `exFile` (`[1,2,3] | [] | [4,5] | []`): `[1, 3)` ending at a block end given as the empty
block's `(30, 0)`, and `[3, 5)` ending at `(fileLen, 0)`. -/
def exChunks : List CSpec := [⟨⟨⟨0, 1⟩, ⟨30, 0⟩⟩, 1, 3⟩, ⟨⟨⟨58, 0⟩, ⟨117, 0⟩⟩, 3, 5⟩]

example : (∀ x ∈ exChunks, x.Valid exFile) ∧ Ordered exChunks := by
  refine ⟨?_, by simp [exChunks, Ordered]⟩
  intro x hx
  simp [exChunks] at hx
  rcases hx with rfl | rfl
  · exact ⟨by simp [exFile, layoutOf, seekTarget], by simp [exFile, layoutOf, toLogical, seekTarget], by simp⟩
  · exact ⟨by simp [exFile, layoutOf, seekTarget], by simp [exFile, layoutOf, toLogical, seekTarget, fileLen, total], by simp⟩

example : expected exFile exChunks = [2, 3, 4, 5] := by decide

end Hts.Props.C13
