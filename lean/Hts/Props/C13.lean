/-
C13 — property theorems (stub: no theorem stated yet, so no obligation is counted).
-/
namespace Hts.Props.C13
end Hts.Props.C13
